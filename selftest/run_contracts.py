"""python3-vt -m selftest.run_contracts <contract name> ...   ->  JSON {name: {proved, total, bad: [...]}} (uses $VERIF_REPO)"""
import json
import sys
import os
sys.path.insert(0, os.path.dirname(os.path.dirname(os.path.abspath(__file__))))
from pyvc import driver

out = {}
for name in sys.argv[1:]:
    r = driver.run_contract({'function': name})
    bad = [(o['name'], o['status'], o.get('kind')) for o in r['obligations'] if o['status'] != 'proved']
    out[name] = {'proved': len(r['obligations']) - len(bad), 'total': len(r['obligations']), 'bad': bad,
                 'canary_proved': r.get('canary_proved', False)}
print(json.dumps(out))
