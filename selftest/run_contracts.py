"""python3-vt -m selftest.run_contracts <contract name> ...   ->  JSON {name: {proved, total, bad: [...]}} (uses $VERIF_REPO)"""
import json
import sys
import os
sys.path.insert(0, os.path.dirname(os.path.dirname(os.path.abspath(__file__))))
from pyvc import driver

out = {}
reg = driver.load_contracts()
for name in sys.argv[1:]:
    # the same chunking (and the same budget per chunk) as the checks use
    n = int(reg[name].get('chunks', 1))
    obls, canary = [], False
    for i in range(n):
        r = driver.run_contract({'function': name, 'chunk': [i, n]})
        obls += r['obligations']
        canary = canary or r.get('canary_proved', False)
    bad = [(o['name'], o['status'], o.get('kind')) for o in obls if o['status'] != 'proved']
    out[name] = {'proved': len(obls) - len(bad), 'total': len(obls), 'bad': bad, 'canary_proved': canary}
print(json.dumps(out))
