"""Self-validation of Engine A (DESIGN.md section 6): deliberate edits of the functions under contract, applied to a scratch
copy of geomdl/ under $TMPDIR (removed afterwards).

  * BREAKING edits (change the behaviour the contract pins down) must leave at least one obligation unproved;
  * HARMLESS edits (renamed temporaries, reordered independent statements, equivalent rewrites) must keep every obligation
    proved - a proof that breaks on them would turn into false alarms / needless loss of the proof level.

usage: python3-vt -m selftest.engine_a        exit 0 = every expectation met"""
import json
import os
import shutil
import subprocess
import sys
import tempfile

ROOT = os.path.dirname(os.path.dirname(os.path.abspath(__file__)))
REPO = os.environ.get('VERIF_REPO', '/repo')

# (file, old text, new text, contracts to run, expected)
EDITS = [
    # ---- breaking
    ('helpers.py', 'while span < num_ctrlpts and knot_vector[span] <= knot:', 'while span < num_ctrlpts and knot_vector[span] < knot:',
     ['helpers.find_span_linear'], 'caught'),
    ('helpers.py', 'span = degree + 1  # Knot span index starts from zero', 'span = degree  # Knot span index starts from zero',
     ['helpers.find_span_linear'], 'caught'),
    ('helpers.py', 'if abs(knot - kv) <= tol:', 'if abs(knot - kv) < tol:', ['helpers.find_multiplicity'], 'caught'),
    ('helpers.py', '            saved = left[j - r] * temp', '            saved = left[j - r - 1] * temp', ['helpers.basis_function'], 'caught'),
    ('helpers.py', '            N[r] = saved + right[r + 1] * temp', '            N[r] = saved + right[r] * temp', ['helpers.basis_function'], 'caught'),
    ('helpers.py', '        right[j] = knot_vector[span + j] - knot', '        right[j] = knot_vector[span + j - 1] - knot', ['helpers.basis_function'], 'caught'),
    ('helpers.py', '        kv_updated[i + r] = knotvector[i]', '        kv_updated[i + r - 1] = knotvector[i]', ['helpers.knot_insertion_kv'], 'caught'),
    ('helpers.py', '    for k in range(span + 1, len(knotvector)):\n        kv_updated[k - r] = knotvector[k]',
     '    for k in range(span + 2, len(knotvector)):\n        kv_updated[k - r] = knotvector[k]', ['helpers.knot_removal_kv'], 'caught'),
    ('helpers.py', '        mid = int((low + high) / 2)', '        mid = int((low + high + 1) / 2)', ['helpers.find_span_binsearch'], 'caught'),
    ('knotvector.py', '        if prev_knot > knot:', '        if prev_knot >= knot:', ['knotvector.check'], 'caught'),
    ('knotvector.py', '    num_segments = num_ctrlpts - (degree + 1)', '    num_segments = num_ctrlpts - degree', ['knotvector.generate'], 'caught'),
    ('linalg.py', '        div = num - 1', '        div = num', ['linalg.linspace'], 'caught'),
    ('compatibility.py', '        temp = [float(c * w) for c in pt]\n        temp.append(float(w))',
     '        temp = [float(c * w) for c in pt]\n        temp.append(float(1.0))', ['compatibility.combine_ctrlpts_weights'], 'caught'),
    ('control_points.py', "return args[1] + (args[0] * self._size[1]) + (args[2] * self._size[0] * self._size[1])",
     "return args[1] + (args[0] * self._size[1]) + (args[2] * self._size[1] * self._size[1])", ['control_points.VolumeManager.find_index'], 'caught'),
    ('utilities.py', '            if arr[0] > arr[1]:\n                bbmax[i] = arr[0]', '            if arr[0] > arr[1]:\n                bbmin[i] = arr[0]',
     ['utilities.evaluate_bounding_box'], 'caught'),
    ('evaluators.py', "zip(crvpt, ctrlpts[spans[idx] - degree + i])]", "zip(crvpt, ctrlpts[spans[idx] - degree + i + 1])]",
     ['evaluators.CurveEvaluator.evaluate'], 'caught'),
    ('fitting.py', '    d = sum(cds[1:-1])', '    d = sum(cds[1:])', ['fitting.compute_params_curve'], 'caught'),
    ('fitting.py', '        uk[i] = sum(cds[0:i + 1]) / d', '        uk[i] = sum(cds[0:i]) / d', ['fitting.compute_params_curve'], 'caught'),
    ('evaluators.py', 'zip(temp, ctrlpts[idx_v + l + (size[1] * (idx_u + k))])]', 'zip(temp, ctrlpts[idx_u + k + (size[0] * (idx_v + l))])]',
     ['evaluators.SurfaceEvaluator.evaluate#active_hull'], 'caught'),
    ('evaluators.py', '            idx_u = spans[0][i] - degree[0]', '            idx_u = spans[0][i] - degree[0] - 1',
     ['evaluators.SurfaceEvaluator.evaluate#active_hull'], 'caught'),
    ('evaluators.py', 'zip(temp, ctrlpts[iv + dv + (size[1] * (iu + du + (size[0] * (iw + dw))))])]',
     'zip(temp, ctrlpts[iv + dv + (size[1] * (iu + du + (size[1] * (iw + dw))))])]', ['evaluators.VolumeEvaluator.evaluate'], 'caught'),
    ('helpers.py', '            coeff /= linalg.binomial_coefficient((degree + num), i)', '            coeff /= linalg.binomial_coefficient((degree + num + 1), i)',
     ['helpers.degree_elevation'], 'caught'),
    ('helpers.py', '        if num <= 0:\n            raise GeomdlException("Cannot degree elevate', '        if num < 0:\n            raise GeomdlException("Cannot degree elevate',
     ['helpers.degree_elevation'], 'caught'),
    ('helpers.py', '    pts_red[-1] = ctrlpts[-1]', '    pts_red[-1] = ctrlpts[-2]', ['helpers.degree_reduction'], 'caught'),
    ('helpers.py', '        if degree < 2:\n            raise GeomdlException("Input spline geometry must have degree > 1")',
     '        if degree < 1:\n            raise GeomdlException("Input spline geometry must have degree > 1")', ['helpers.degree_reduction'], 'caught'),
    ('linalg.py', '    return float(k_fact / (k_i_fact * i_fact))', '    return float(k_fact / (k_i_fact + i_fact))', ['linalg.binomial_coefficient'], 'caught'),
    ('helpers.py', '        pts_red[i] = [(c1 - (alpha * c2)) / (1 - alpha) for c1, c2 in zip(ctrlpts[i], pts_red[i - 1])]',
     '        pts_red[i] = [(c1 - (alpha * c2)) / (1 + alpha) for c1, c2 in zip(ctrlpts[i], pts_red[i - 1])]',
     ['helpers.degree_reduction#inverts_elevation'], 'caught'),
    ('helpers.py', '        pts_red[r] = [0.5 * (pl + pr) for pl, pr in zip(left, right)]', '        pts_red[r] = [0.5 * (pl - pr) for pl, pr in zip(left, right)]',
     ['helpers.degree_reduction#inverts_elevation'], 'caught'),
    ('helpers.py', '            coeff = linalg.binomial_coefficient(degree, j) * linalg.binomial_coefficient(num, (i - j))',
     '            coeff = linalg.binomial_coefficient(degree, j) * linalg.binomial_coefficient(num, (i - j + 1))',
     ['helpers.degree_elevation#by_one'], 'caught'),
    ('abstract.py', '            if not all(chk_ctrlpts):', '            if not all(chk_kv):', ['abstract.SplineGeometry.__eq__'], 'caught'),
    ('abstract.py', "        tol = 10 ** (-min(self._precision, getattr(other, '_precision', self._precision)))", '        tol = 10 ** (-self._precision)',
     ['abstract.SplineGeometry.__eq__'], 'caught'),
    ('abstract.py', '        if self.pdimension != other.pdimension:\n            return False\n        if self.rational != other.rational:\n            return False',
     '        if self.pdimension != other.pdimension and self.rational != other.rational:\n            return False',
     ['abstract.SplineGeometry.__eq__'], 'caught'),
    ('abstract.py', '                    tmp = True if abs(s - o) < tol else False\n                    chk.append(tmp)\n                chk_kv.append(all(chk))',
     '                    tmp = True if abs(s - o) <= tol else False\n                    chk.append(tmp)\n                chk_kv.append(all(chk))',
     ['abstract.SplineGeometry.__eq__'], 'caught'),
    # ---- harmless
    ('abstract.py', '                tmp = True if s == o else False\n                chk_degree.append(tmp)', '                chk_degree.append(s == o)',
     ['abstract.SplineGeometry.__eq__'], 'quiet'),
    ('helpers.py', '        pts_red[r] = [0.5 * (pl + pr) for pl, pr in zip(left, right)]', '        pts_red[r] = [(pr + pl) * 0.5 for pl, pr in zip(left, right)]',
     ['helpers.degree_reduction#inverts_elevation'], 'quiet'),
    ('helpers.py', '        start = max(0, (i - num))\n        end = min(degree, i)', '        end = min(i, degree)\n        start = max((i - num), 0)',
     ['helpers.degree_elevation'], 'quiet'),
    ('fitting.py', '    d = sum(cds[1:-1])', '    d = sum(cds[1:num_points])', ['fitting.compute_params_curve'], 'quiet'),
    ('evaluators.py', 'temp[:] = [tmp + (basis[1][j][l] * cp) for tmp, cp in', 'temp[:] = [(cp * basis[1][j][l]) + tmp for tmp, cp in',
     ['evaluators.SurfaceEvaluator.evaluate', 'evaluators.SurfaceEvaluator.evaluate#active_hull'], 'quiet'),
    ('helpers.py', '            temp = N[r] / (right[r + 1] + left[j - r])\n            N[r] = saved + right[r + 1] * temp\n            saved = left[j - r] * temp',
     '            quotient = N[r] / (right[r + 1] + left[j - r])\n            N[r] = saved + right[r + 1] * quotient\n            saved = left[j - r] * quotient',
     ['helpers.basis_function'], 'quiet-or-undecided'),          # renames a temporary that the hints mention: may drop to undecided, never an alarm
    ('helpers.py', '        left[j] = knot - knot_vector[span + 1 - j]\n        right[j] = knot_vector[span + j] - knot',
     '        right[j] = knot_vector[span + j] - knot\n        left[j] = knot - knot_vector[span + 1 - j]', ['helpers.basis_function'], 'quiet'),
    ('helpers.py', '    span = degree + 1  # Knot span index starts from zero\n    while span < num_ctrlpts and knot_vector[span] <= knot:\n        span += 1',
     '    span = degree + 1  # Knot span index starts from zero\n    while span < num_ctrlpts and knot >= knot_vector[span]:\n        span = span + 1',
     ['helpers.find_span_linear'], 'quiet'),
    ('helpers.py', '    mult = 0  # initial multiplicity', '    mult = 0  # initial multiplicity\n    unused = len(knot_vector)', ['helpers.find_multiplicity'], 'quiet'),
    ('helpers.py', '    kv_size = len(knotvector)\n    kv_updated = [0.0 for _ in range(kv_size + r)]',
     '    kv_size = len(knotvector)\n    total = kv_size + r\n    kv_updated = [0.0 for _ in range(total)]', ['helpers.knot_insertion_kv'], 'quiet'),
    ('knotvector.py', '    if len(knot_vector) != degree + num_ctrlpts + 1:\n        return False',
     '    expected = degree + num_ctrlpts + 1\n    if len(knot_vector) != expected:\n        return False', ['knotvector.check'], 'quiet'),
    ('linalg.py', '        delta = stop - start', '        delta = -(start - stop)', ['linalg.linspace'], 'quiet'),
    ('compatibility.py', '        temp = [float(c * w) for c in pt]', '        temp = [float(w * c) for c in pt]', ['compatibility.combine_ctrlpts_weights'], 'quiet'),
    # ---- helpers.curve_deriv_cpts
    ('helpers.py', '        tmp = degree - k + 1\n        for i in range(0, r - k + 1):', '        tmp = degree - k\n        for i in range(0, r - k + 1):',
     ['helpers.curve_deriv_cpts'], 'caught'),
    ('helpers.py', '            den = kv[rs[0] + i + degree + 1] - kv[rs[0] + i + k]', '            den = kv[rs[0] + i + degree + 1] - kv[rs[0] + i + k - 1]',
     ['helpers.curve_deriv_cpts'], 'caught'),
    ('helpers.py', 'for elem1, elem2 in zip(PK[k - 1][i + 1], PK[k - 1][i])]', 'for elem1, elem2 in zip(PK[k - 1][i], PK[k - 1][i + 1])]',
     ['helpers.curve_deriv_cpts'], 'caught'),
    ('helpers.py', '        for i in range(0, r - k + 1):\n            den = kv[rs[0] + i + degree + 1]', '        for i in range(0, r - k):\n            den = kv[rs[0] + i + degree + 1]',
     ['helpers.curve_deriv_cpts'], 'caught'),
    ('helpers.py', 'PK[k][i][:] = [tmp * (elem1 - elem2) / den for elem1, elem2 in', 'PK[k][i][:] = [(elem1 - elem2) * tmp / den for elem1, elem2 in',
     ['helpers.curve_deriv_cpts'], 'quiet'),
    # ---- helpers.basis_function_ders (index safety, positive divisors, shape)
    ('helpers.py', '            ndu[j][r] = right[r + 1] + left[j - r]\n            temp = ndu[r][j - 1] / ndu[j][r]\n            # Upper triangle\n            ndu[r][j] = saved + (right[r + 1] * temp)\n            saved = left[j - r] * temp\n        ndu[j][j] = saved\n\n    # Derivatives',
     '            ndu[j][r] = right[r] + left[j - r]\n            temp = ndu[r][j - 1] / ndu[j][r]\n            # Upper triangle\n            ndu[r][j] = saved + (right[r + 1] * temp)\n            saved = left[j - r] * temp\n        ndu[j][j] = saved\n\n    # Derivatives',
     ['helpers.basis_function_ders'], 'caught'),
    ('helpers.py', '                j2 = degree - r\n            for j in range(j1, j2 + 1):\n                a[s2][j] = (a[s1][j] - a[s1][j - 1]) / ndu[pk + 1][rk + j]',
     '                j2 = degree - r + 1\n            for j in range(j1, j2 + 1):\n                a[s2][j] = (a[s1][j] - a[s1][j - 1]) / ndu[pk + 1][rk + j]', ['helpers.basis_function_ders'], 'caught'),
    ('helpers.py', '                a[s2][0] = a[s1][0] / ndu[pk + 1][rk]\n                d = a[s2][0] * ndu[rk][pk]\n            if rk >= -1:',
     '                a[s2][0] = a[s1][0] / ndu[pk][rk]\n                d = a[s2][0] * ndu[rk][pk]\n            if rk >= -1:', ['helpers.basis_function_ders'], 'caught'),
    ('helpers.py', '    ders = [[0.0 for _ in range(degree + 1)] for _ in range(order + 1)]\n    for j in range(0, degree + 1):\n        ders[0][j] = ndu[j][degree]\n\n    # Start calculating derivatives',
     '    ders = [[0.0 for _ in range(degree + 1)] for _ in range(order)]\n    for j in range(0, degree + 1):\n        ders[0][j] = ndu[j][degree]\n\n    # Start calculating derivatives',
     ['helpers.basis_function_ders'], 'caught'),
    ('helpers.py', '            if (r - 1) <= pk:\n                j2 = k - 1\n            else:\n                j2 = degree - r\n            for j in range(j1, j2 + 1):\n                a[s2][j]',
     '            if (r - 1) <= pk:\n                j2 = k\n            else:\n                j2 = degree - r\n            for j in range(j1, j2 + 1):\n                a[s2][j]', ['helpers.basis_function_ders'], 'caught'),
    ('helpers.py', '            rk = r - k\n            pk = degree - k\n            if r >= k:\n                a[s2][0] = a[s1][0] / ndu[pk + 1][rk]',
     '            pk = degree - k\n            rk = r - k\n            if r >= k:\n                a[s2][0] = a[s1][0] / ndu[pk + 1][rk]', ['helpers.basis_function_ders'], 'quiet'),
    # ---- evaluators.CurveEvaluator.derivatives
    ('evaluators.py', '        for k in range(0, du + 1):\n            for j in range(0, degree + 1):\n                CK[k][:] = [drv + (bfunsders[k][j] * ctl_pt) for drv, ctl_pt in\n                            zip(CK[k], ctrlpts[span - degree + j])]\n\n        # Return the derivatives\n        return CK\n\n\n@utl.export\nclass CurveEvaluatorRational',
     '        for k in range(0, du):\n            for j in range(0, degree + 1):\n                CK[k][:] = [drv + (bfunsders[k][j] * ctl_pt) for drv, ctl_pt in\n                            zip(CK[k], ctrlpts[span - degree + j])]\n\n        # Return the derivatives\n        return CK\n\n\n@utl.export\nclass CurveEvaluatorRational',
     ['evaluators.CurveEvaluator.derivatives'], 'caught'),
    ('evaluators.py', '                CK[k][:] = [drv + (bfunsders[k][j] * ctl_pt) for drv, ctl_pt in\n                            zip(CK[k], ctrlpts[span - degree + j])]\n\n        # Return the derivatives\n        return CK\n\n\n@utl.export\nclass CurveEvaluatorRational',
     '                CK[k][:] = [drv + (bfunsders[k][j] * ctl_pt) for drv, ctl_pt in\n                            zip(CK[k], ctrlpts[span - j])]\n\n        # Return the derivatives\n        return CK\n\n\n@utl.export\nclass CurveEvaluatorRational',
     ['evaluators.CurveEvaluator.derivatives'], 'caught'),
    ('evaluators.py', '                CK[k][:] = [drv + (bfunsders[k][j] * ctl_pt) for drv, ctl_pt in\n                            zip(CK[k], ctrlpts[span - degree + j])]\n\n        # Return the derivatives\n        return CK\n\n\n@utl.export\nclass CurveEvaluatorRational',
     '                CK[k][:] = [drv + (bfunsders[0][j] * ctl_pt) for drv, ctl_pt in\n                            zip(CK[k], ctrlpts[span - degree + j])]\n\n        # Return the derivatives\n        return CK\n\n\n@utl.export\nclass CurveEvaluatorRational',
     ['evaluators.CurveEvaluator.derivatives'], 'caught'),
    ('evaluators.py', '                CK[k][:] = [drv + (bfunsders[k][j] * ctl_pt) for drv, ctl_pt in\n                            zip(CK[k], ctrlpts[span - degree + j])]\n\n        # Return the derivatives\n        return CK\n\n\n@utl.export\nclass CurveEvaluatorRational',
     '                CK[k][:] = [(ctl_pt * bfunsders[k][j]) + drv for drv, ctl_pt in\n                            zip(CK[k], ctrlpts[span - degree + j])]\n\n        # Return the derivatives\n        return CK\n\n\n@utl.export\nclass CurveEvaluatorRational',
     ['evaluators.CurveEvaluator.derivatives'], 'quiet'),
    # ---- linalg.matrix_multiply
    ('linalg.py', '                    mat3[i][j] += float(mat1[i][k] * mat2[k][j])', '                    mat3[i][j] += float(mat1[i][k] * mat2[j][k])',
     ['linalg.matrix_multiply'], 'caught'),
    ('linalg.py', '                for k in range(p2):\n                    mat3[i][j] += float(mat1[i][k] * mat2[k][j])',
     '                for k in range(p2 - 1):\n                    mat3[i][j] += float(mat1[i][k] * mat2[k][j])', ['linalg.matrix_multiply'], 'caught'),
    ('linalg.py', '            for j in range(m):\n                for k in range(p2):\n                    mat3[i][j] += float(mat1[i][k] * mat2[k][j])',
     '            for j in range(1, m):\n                for k in range(p2):\n                    mat3[i][j] += float(mat1[i][k] * mat2[k][j])', ['linalg.matrix_multiply'], 'caught'),
    ('linalg.py', '                    mat3[i][j] += float(mat1[i][k] * mat2[k][j])', '                    mat3[i][j] += float(mat2[k][j] * mat1[i][k])',
     ['linalg.matrix_multiply'], 'quiet'),
    # ---- fitting._build_coeff_matrix (splice assignment; breaking, then harmless)
    ('fitting.py', '        matrix_a[i][span-degree:span+1] = helpers.basis_function(degree, knotvector, span, params[i])', '        matrix_a[i][span-degree+1:span+2] = helpers.basis_function(degree, knotvector, span, params[i])', ['fitting._build_coeff_matrix'], 'caught'),
    ('fitting.py', '        matrix_a[i][span-degree:span+1] = helpers.basis_function(degree, knotvector, span, params[i])', '        matrix_a[i][span-degree:span+1] = helpers.basis_function(degree, knotvector, span, params[0])', ['fitting._build_coeff_matrix'], 'caught'),
    ('fitting.py', '        span = helpers.find_span_linear(degree, knotvector, num_points, params[i])\n        matrix_a[i][span-degree:span+1] = helpers.basis_function(degree, knotvector, span, params[i])', '        span = helpers.find_span_linear(degree, knotvector, num_points, params[i - 1])\n        matrix_a[i][span-degree:span+1] = helpers.basis_function(degree, knotvector, span, params[i])', ['fitting._build_coeff_matrix'], 'caught'),
    ('fitting.py', '        matrix_a[i][span-degree:span+1] = helpers.basis_function(degree, knotvector, span, params[i])', '        first = span - degree\n        vals = helpers.basis_function(degree, knotvector, span, params[i])\n        matrix_a[i][first:first + degree + 1] = vals', ['fitting._build_coeff_matrix'], 'quiet'),
    # ---- compatibility.flip_ctrlpts2d / flip_ctrlpts / flip_ctrlpts_u (layout converters)
    ('compatibility.py', '            new_ctrlpts2d[i][j] = [float(c) for c in ctrlpts2d[j][i]]', '            new_ctrlpts2d[i][j] = [float(c) for c in ctrlpts2d[i][j]]', ['compatibility.flip_ctrlpts2d'], 'caught'),
    ('compatibility.py', '            new_ctrlpts2d[i][j] = [float(c) for c in ctrlpts2d[j][i]]', '            new_ctrlpts2d[j][i] = [float(c) for c in ctrlpts2d[j][i]]', ['compatibility.flip_ctrlpts2d'], 'caught'),
    ('compatibility.py', '        for j in range(size_u):\n            new_ctrlpts2d[i][j] = [float(c) for c in ctrlpts2d[j][i]]', '        for j in range(1, size_u):\n            new_ctrlpts2d[i][j] = [float(c) for c in ctrlpts2d[j][i]]', ['compatibility.flip_ctrlpts2d'], 'caught'),
    ('compatibility.py', '            new_ctrlpts2d[i][j] = [float(c) for c in ctrlpts2d[j][i]]', '            pt = ctrlpts2d[j][i]\n            new_ctrlpts2d[i][j] = [float(c) for c in pt]', ['compatibility.flip_ctrlpts2d'], 'quiet'),
    ('compatibility.py', 'ctrlpts[i + (j * size_u)]', 'ctrlpts[i + (j * size_v)]', ['compatibility.flip_ctrlpts_u'], 'caught'),
    ('compatibility.py', 'ctrlpts[i + (j * size_v)]', 'ctrlpts[i + (j * size_u)]', ['compatibility.flip_ctrlpts'], 'caught'),
    # ---- _linalg.doolittle (breaking, then harmless)
    ('_linalg.py', 'matrix_u[i][k] = float(matrix_a[i][k] - sum([matrix_l[i][j] * matrix_u[j][k] for j in range(0, i)]))',
     'matrix_u[i][k] = float(matrix_a[i][k] - sum([matrix_l[i][j] * matrix_u[j][k] for j in range(1, i)]))', ['_linalg.doolittle'], 'caught'),
    ('_linalg.py', 'matrix_l[k][i] = float(matrix_a[k][i] - sum([matrix_l[k][j] * matrix_u[j][i] for j in range(0, i)]))',
     'matrix_l[k][i] = float(matrix_a[i][k] - sum([matrix_l[k][j] * matrix_u[j][i] for j in range(0, i)]))', ['_linalg.doolittle'], 'caught'),
    ('_linalg.py', '                    matrix_l[k][i] /= float(matrix_u[i][i])', '                    matrix_l[k][i] /= float(matrix_u[k][k])', ['_linalg.doolittle'], 'caught'),
    ('_linalg.py', '                matrix_l[i][i] = 1.0', '                matrix_l[i][i] = 0.0', ['_linalg.doolittle'], 'caught'),
    ('_linalg.py', '        for k in range(i, len(matrix_a)):', '        for k in range(i, len(matrix_a) - 1):', ['_linalg.doolittle'], 'caught'),
    ('_linalg.py', 'matrix_u[i][k] = float(matrix_a[i][k] - sum([matrix_l[i][j] * matrix_u[j][k] for j in range(0, i)]))',
     'matrix_u[i][k] = float(matrix_a[i][k] - sum([matrix_l[i][j] * matrix_u[j][i] for j in range(0, i)]))', ['_linalg.doolittle'], 'caught'),
    ('_linalg.py', 'matrix_u[i][k] = float(matrix_a[i][k] - sum([matrix_l[i][j] * matrix_u[j][k] for j in range(0, i)]))',
     'matrix_u[i][k] = float(-sum([matrix_l[i][j] * matrix_u[j][k] for j in range(i)]) + matrix_a[i][k])', ['_linalg.doolittle'], 'quiet'),
    ('_linalg.py', '    for i in range(0, len(matrix_a)):\n        for k in range(i, len(matrix_a)):',
     '    size = len(matrix_a)\n    for i in range(0, size):\n        for k in range(i, size):', ['_linalg.doolittle'], 'quiet'),
]


def main():
    only = sys.argv[1:]
    tmp = tempfile.mkdtemp(prefix='verif_selftest_', dir=os.environ.get('TMPDIR', '/tmp'))
    ok = True
    rows = []
    def one(item):
        k, (fn, old, new, contracts, expect) = item
        tree = os.path.join(tmp, 'r%d' % k)
        os.makedirs(tree)
        shutil.copytree(os.path.join(REPO, 'geomdl'), os.path.join(tree, 'geomdl'))
        try:
            path = os.path.join(tree, 'geomdl', fn)
            src = open(path).read()
            if src.count(old) < 1:
                return (fn, contracts, expect, 'EDIT-DOES-NOT-APPLY (%d matches)' % src.count(old)), False
            open(path, 'w').write(src.replace(old, new, 1))      # first occurrence = the function under contract
            env = dict(os.environ, VERIF_REPO=tree)
            r = subprocess.run([sys.executable, '-m', 'selftest.run_contracts'] + contracts, capture_output=True, text=True,
                               cwd=ROOT, env=env, timeout=3000)
            try:
                res = json.loads(r.stdout.strip().split('\n')[-1])
            except Exception:
                return (fn, contracts, expect, 'RUN-ERROR ' + r.stderr[-300:]), False
            bad = sum(len(v['bad']) for v in res.values())
            refuted = sum(1 for v in res.values() for b in v['bad'] if b[1] == 'refuted')
            if expect == 'caught':
                good = bad > 0
            elif expect == 'quiet':
                good = bad == 0
            else:
                good = refuted == 0 or all(b[2] == 'scaffolding' for v in res.values() for b in v['bad'] if b[1] == 'refuted')
            return (fn, contracts, expect, '%s: %d unproved (%d refuted)' % ('OK' if good else 'UNEXPECTED', bad, refuted)), good
        finally:
            shutil.rmtree(tree, ignore_errors=True)

    try:
        from concurrent.futures import ThreadPoolExecutor
        items = [(k, e) for k, e in enumerate(EDITS) if not only or str(k) in only]
        with ThreadPoolExecutor(int(os.environ.get('VERIF_NPROC', '8'))) as ex:
            for row, good in ex.map(one, items):
                rows.append(row)
                ok = ok and good
    finally:
        shutil.rmtree(tmp, ignore_errors=True)
    for row in rows:
        print('%-18s %-50s %-20s %s' % (row[0], ','.join(row[1]), row[2], row[3]))
    print('engine-A self-test:', 'PASS' if ok else 'FAIL')
    return 0 if ok else 1


if __name__ == '__main__':
    sys.exit(main())
