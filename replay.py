"""Native replay of a counter-example: runs the scenario named in the replay file on native floats
against the untouched geomdl package of the repository (run with /venv/bin/python).
exit 1 = the violation reproduces, exit 0 = it does not, exit 2 = replay could not be run."""
import json
import os
import sys
from fractions import Fraction

ROOT = os.path.dirname(os.path.abspath(__file__))


def main():
    path = sys.argv[1]
    if path == '--native':
        # run-time check of a scenario instance on native floats: replay.py --native <prop> <scenario> <params json>
        rp = {'property': sys.argv[2], 'scenario': sys.argv[3], 'params': json.loads(sys.argv[4]), 'engine': 'B',
              'obligation': '%s/%s[native]' % (sys.argv[2], sys.argv[3]), 'detail': {'values': {}}}
    else:
        rp = json.load(open(path))
    repo = os.environ.get('VERIF_REPO') or rp.get('repo') or '/repo'
    sys.path.insert(0, repo)
    sys.path.insert(0, ROOT)
    print('replay of %s on %s (native floats, %s)' % (rp.get('obligation'), repo, sys.executable))
    if rp.get('engine') == 'A':
        from pyvc import replay as areplay
        sys.exit(areplay.replay(rp))
    from harness import api
    api.load_all()
    key = (rp['property'], rp['scenario'])
    sc = api.SCENARIOS.get(key)
    if sc is None:
        print('unknown scenario', key)
        sys.exit(2)
    d = rp.get('detail') or {}
    vals = {k: Fraction(v) for k, v in (d.get('values') or {}).items()}
    attempts = [vals]
    for vals in attempts:
        ctx = api.FloatCtx(dict(vals))
        try:
            sc.func(ctx, **rp['params'])
            print('scenario ran to the end on native floats: all checks passed (precondition %s)' %
                  ('met' if ctx.pre_ok else 'NOT met by the rounded values'))
        except api.Skip as e:
            print('path skipped on native floats:', e)
        except api.CheckFailed as e:
            print('REPRODUCED: check %r fails on native floats: %s' % (e.label, e.detail))
            print('inputs:', {k: float(v) for k, v in vals.items()})
            sys.exit(1)
        except Exception as e:
            import traceback
            if rp.get('label') == 'no-unexpected-exception':
                print('REPRODUCED: real code raises %s: %s' % (type(e).__name__, e))
                traceback.print_exc()
                sys.exit(1)
            print('replay raised %s: %s' % (type(e).__name__, e))
            traceback.print_exc()
            print('REPRODUCED (exception escaping the contract)')
            sys.exit(1)
    print('NOT-REPRODUCED')
    sys.exit(0)


if __name__ == '__main__':
    try:
        main()
    except SystemExit:
        raise
    except BaseException:
        import traceback
        traceback.print_exc()
        print('REPLAY-ERROR (the replay itself crashed; nothing is concluded from it)')
        sys.exit(2)
