"""Contracts for linalg.forward_substitution / backward_substitution (linalg.py:579-620).   C16, C11.

dot(a, b, lo, hi) is the ghost sum_{lo <= j < hi} a[j]*b[j]; the code's  sum([L[i][j] * y[j] for j in range(lo, hi)])
is encoded as exactly that term (Python's left fold = unfolding from the top)."""
from collections import OrderedDict as OD

V = ('list', 'real')
M = ('list', ('list', 'real'))
SQUARE = lambda m, q: ['len(%s) == %s' % (m, q), 'forall(a, 0, %s, len(%s[a]) == %s)' % (q, m, q),
                       'forall(a, 0, %s, %s[a][a] != 0)' % (q, m)]

CONTRACTS = {
    'linalg.forward_substitution': dict(
        props=['C16', 'C11'],
        args=OD([('matrix_l', M), ('matrix_b', V)]), returns=V,
        requires=['len(matrix_b) >= 1'] + SQUARE('matrix_l', 'len(matrix_b)'),
        # L y = b, row by row (L lower triangular: only the entries j <= i are read)
        ensures=['len(result) == len(matrix_b)',
                 'forall(a, 0, len(matrix_b), dot(matrix_l[a], result, 0, a) + matrix_l[a][a] * result[a] == matrix_b[a])'],
        loops={0: dict(inv=['len(matrix_y) == q', 'q == len(matrix_b)',
                            'forall(a, 0, i, dot(matrix_l[a], matrix_y, 0, a) + matrix_l[a][a] * matrix_y[a] == matrix_b[a])'])},
        rounds=3,
    ),
    'linalg.backward_substitution': dict(
        props=['C16', 'C11'],
        args=OD([('matrix_u', M), ('matrix_y', V)]), returns=V,
        requires=['len(matrix_y) >= 1'] + SQUARE('matrix_u', 'len(matrix_y)'),
        # U x = y, row by row.  NOTE the code sums j from i (not i+1) while x[i] is still 0.0: dot(U[a], x, a, q) at that
        # moment equals dot(U[a], x, a+1, q); the postcondition is stated over the strict upper part
        ensures=['len(result) == len(matrix_y)',
                 'forall(a, 0, len(matrix_y), matrix_u[a][a] * result[a] + dot(matrix_u[a], result, a + 1, len(matrix_y)) == matrix_y[a])'],
        loops={0: dict(inv=['len(matrix_x) == q', 'q == len(matrix_y)',
                            'forall(a, i + 1, q, matrix_u[a][a] * matrix_x[a] + dot(matrix_u[a], matrix_x, a + 1, q) == matrix_y[a])',
                            'forall(a, 0, i + 1, matrix_x[a] == 0)'])},
        rounds=3,
    ),
}
