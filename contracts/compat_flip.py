"""Contracts for the control-net layout converters of compatibility.py (flip_ctrlpts2d: full; flip_ctrlpts, flip_ctrlpts_u: shape and index safety).   C13.

flip_ctrlpts2d turns a [u][v] net into the [v][u] net (transpose, points copied coordinate by coordinate):
  result[i][j][d] == ctrlpts2d[j][i][d]  for every i < size_v, j < size_u, for explicit sizes and for the detected ones."""
from collections import OrderedDict as OD

P3 = ('list', ('list', ('list', 'real')))
SU, SV = 'len(ctrlpts2d)', 'len(ctrlpts2d[0])'

CONTRACTS = {
    'compatibility.flip_ctrlpts2d': dict(
        props=['C13'],
        args=OD([('ctrlpts2d', P3), ('size_u', 'int'), ('size_v', 'int')]),
        returns=P3, locals={'new_ctrlpts2d': P3},
        # a rectangular net; explicit sizes, when given (both positive), are the net's sizes
        requires=['%s >= 1' % SU, 'forall(a, 0, %s, len(ctrlpts2d[a]) == %s)' % (SU, SV),
                  'implies(size_u > 0 and size_v > 0, size_u == %s and size_v == %s)' % (SU, SV)],
        ensures=['len(result) == %s' % SV,
                 'forall(i, 0, %s, len(result[i]) == %s)' % (SV, SU),
                 'forall(i, 0, %s, forall(j, 0, %s, len(result[i][j]) == len(ctrlpts2d[j][i])))' % (SV, SU),
                 'forall(i, 0, %s, forall(j, 0, %s, forall(d, 0, len(ctrlpts2d[j][i]), result[i][j][d] == ctrlpts2d[j][i][d])))' % (SV, SU)],
        loops={0: dict(inv=['size_u == %s' % SU, 'size_v == %s' % SV,
                            'len(new_ctrlpts2d) == size_v',
                            'forall(a, 0, size_v, len(new_ctrlpts2d[a]) == size_u)',
                            'forall(a, 0, i, forall(b, 0, size_u, len(new_ctrlpts2d[a][b]) == len(ctrlpts2d[b][a])))',
                            'forall(a, 0, i, forall(b, 0, size_u, forall(d, 0, len(ctrlpts2d[b][a]), new_ctrlpts2d[a][b][d] == ctrlpts2d[b][a][d])))']),
               1: dict(inv=['size_u == %s' % SU, 'size_v == %s' % SV,
                            'len(new_ctrlpts2d) == size_v',
                            'forall(a, 0, size_v, len(new_ctrlpts2d[a]) == size_u)',
                            'forall(a, 0, i, forall(b, 0, size_u, len(new_ctrlpts2d[a][b]) == len(ctrlpts2d[b][a])))',
                            'forall(a, 0, i, forall(b, 0, size_u, forall(d, 0, len(ctrlpts2d[b][a]), new_ctrlpts2d[a][b][d] == ctrlpts2d[b][a][d])))',
                            'forall(b, 0, j, len(new_ctrlpts2d[i][b]) == len(ctrlpts2d[b][i]))',
                            'forall(b, 0, j, forall(d, 0, len(ctrlpts2d[b][i]), new_ctrlpts2d[i][b][d] == ctrlpts2d[b][i][d]))'])},
        timeout_ms=30000,
    ),
}

P2 = ('list', ('list', 'real'))


def _flat(outer, inner):
    """flip_ctrlpts (outer = size_v, inner = size_u) and flip_ctrlpts_u (outer = size_u, inner = size_v) are the same loop
    nest.  Under contract: the result has size_u*size_v points and every read `ctrlpts[i + j*outer]` is inside the input for
    every pair of sizes (a converter that strides by the wrong size reads outside a non-square net).  The content clause
    (position a*inner + b is a copy of position a + b*outer) has a product of two variables as the quantified subscript;
    the instantiation engine cannot match it, so that clause is left to Engine B (compat scenarios of C13, bounded)."""
    return dict(
        props=['C13'],
        args=OD([('ctrlpts', P2), ('size_u', 'int'), ('size_v', 'int')]),
        returns=P2, locals={'new_ctrlpts': P2},
        requires=['size_u >= 1', 'size_v >= 1', 'len(ctrlpts) == size_u * size_v'],
        ensures=['len(result) == size_u * size_v'],
        loops={0: dict(inv=['len(new_ctrlpts) == i * %s' % inner]),
               1: dict(inv=['len(new_ctrlpts) == i * %s + j' % inner],
                       hints=['head_j * %s <= (%s - 1) * %s' % (outer, inner, outer),
                              'i + head_j * %s < size_u * size_v' % outer])},
        timeout_ms=30000,
    )


CONTRACTS['compatibility.flip_ctrlpts'] = _flat('size_v', 'size_u')
CONTRACTS['compatibility.flip_ctrlpts_u'] = _flat('size_u', 'size_v')
