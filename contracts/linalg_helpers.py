"""Contracts for the vector / matrix helpers of linalg.py and utilities.evaluate_bounding_box.   C16, C18."""
from collections import OrderedDict as OD

V = ('list', 'real')
M = ('list', ('list', 'real'))

CONTRACTS = {
    'linalg.vector_dot': dict(
        props=['C16'],
        args=OD([('vector1', V), ('vector2', V)]), returns='real',
        requires=['len(vector1) >= 1', 'len(vector2) >= 1', 'len(vector1) == len(vector2)'],
        raises={'ValueError': 'len(vector1) == 0 or len(vector2) == 0'},
        funcs={'dotp': ([V, V, 'int'], 'real')},
        # dotp(a, b, k) = sum_{q<k} a[q]*b[q]   (definition by recursion on k)
        axioms=['forall(a, dotp(vector1, vector2, 0) == 0)',
                'forall(k, 0, len(vector1), dotp(vector1, vector2, k + 1) == dotp(vector1, vector2, k) + vector1[k] * vector2[k])'],
        ensures=['result == dotp(vector1, vector2, len(vector1))'],
        loops={0: dict(inv=['prod == dotp(vector1, vector2, _i0)'])},
    ),
    'linalg.vector_cross': dict(
        props=['C16'],
        args=OD([('vector1', V), ('vector2', V)]), returns=V,
        requires=['len(vector1) == 2 or len(vector1) == 3', 'len(vector2) == 2 or len(vector2) == 3'],
        raises={'ValueError': 'len(vector1) == 0 or len(vector2) == 0 or not (1 < len(vector1) and len(vector1) <= 3) or not (1 < len(vector2) and len(vector2) <= 3)'},
        ensures=['len(result) == 3',
                 'implies(len(vector1) == 3 and len(vector2) == 3, result[0] == vector1[1] * vector2[2] - vector1[2] * vector2[1] and '
                 'result[1] == vector1[2] * vector2[0] - vector1[0] * vector2[2] and result[2] == vector1[0] * vector2[1] - vector1[1] * vector2[0])',
                 'implies(len(vector1) == 2 and len(vector2) == 2, result[0] == 0 and result[1] == 0 and '
                 'result[2] == vector1[0] * vector2[1] - vector1[1] * vector2[0])'],
    ),
    'linalg.vector_multiply': dict(
        props=['C16'],
        args=OD([('vector_in', V), ('scalar', 'real')]), returns=V, requires=[],
        ensures=['len(result) == len(vector_in)', 'forall(q, 0, len(vector_in), result[q] == vector_in[q] * scalar)'],
    ),
    'linalg.vector_sum': dict(
        props=['C16'],
        args=OD([('vector1', V), ('vector2', V), ('coeff', 'real')]), defaults={'coeff': '1'}, returns=V,
        requires=['len(vector1) == len(vector2)'],
        ensures=['len(result) == len(vector1)', 'forall(q, 0, len(vector1), result[q] == vector1[q] + coeff * vector2[q])'],
    ),
    'linalg.point_translate': dict(
        props=['C16'],
        args=OD([('point_in', V), ('vector_in', V)]), returns=V,
        requires=['len(point_in) >= 1', 'len(point_in) == len(vector_in)'],
        raises={'ValueError': 'len(point_in) == 0 or len(vector_in) == 0'},
        ensures=['len(result) == len(point_in)', 'forall(q, 0, len(point_in), result[q] == point_in[q] + vector_in[q])'],
    ),
    'linalg.vector_magnitude': dict(
        props=['C16'],
        args=OD([('vector_in', V)]), returns='real', requires=[],
        funcs={'sq': ([V, 'int'], 'real')},
        axioms=['sq(vector_in, 0) == 0',
                'forall(k, 0, len(vector_in), sq(vector_in, k + 1) == sq(vector_in, k) + vector_in[k] * vector_in[k])'],
        # Euclidean norm: non-negative and its square is the sum of squares (math.sqrt by contract, A4)
        # ... and it dominates every component (so it is zero only for the zero vector)
        ensures=['result >= 0', 'result * result == sq(vector_in, len(vector_in))',
                 'forall(q, 0, len(vector_in), vector_in[q] * vector_in[q] <= result * result)'],
        loops={0: dict(inv=['sq_sum == sq(vector_in, _i0)', 'sq_sum >= 0',
                            'forall(q, 0, _i0, vector_in[q] * vector_in[q] <= sq_sum)'])},
    ),
    'linalg.matrix_transpose': dict(
        props=['C16'],
        args=OD([('m', M)]), returns=M, locals={'m_t': M, 'temp': V},
        requires=['len(m) >= 1', 'forall(q, 0, len(m), len(m[q]) == len(m[0]))'],
        ensures=['len(result) == len(m[0])',
                 'forall(a, 0, len(m[0]), len(result[a]) == len(m))',
                 'forall(a, 0, len(m[0]), forall(b, 0, len(m), result[a][b] == m[b][a]))'],
        loops={0: dict(inv=['len(m_t) == i', 'num_cols == len(m)', 'num_rows == len(m[0])',
                            'forall(a, 0, i, len(m_t[a]) == num_cols)',
                            'forall(a, 0, i, forall(b, 0, num_cols, m_t[a][b] == m[b][a]))']),
               1: dict(inv=['len(temp) == j', 'forall(b, 0, j, temp[b] == m[b][i])'])},
    ),
    'linalg.matrix_scalar': dict(
        props=['C16'],
        args=OD([('m', M), ('sc', 'real')]), returns=M,
        requires=['len(m) >= 1', 'forall(q, 0, len(m), len(m[q]) == len(m[0]))'],
        ensures=['len(result) == len(m)',
                 'forall(a, 0, len(m), len(result[a]) == len(m[0]))',
                 'forall(a, 0, len(m), forall(b, 0, len(m[0]), result[a][b] == m[a][b] * sc))'],
        loops={0: dict(inv=['len(mm) == len(m)', 'forall(a, 0, len(m), len(mm[a]) == len(m[0]))',
                            'forall(a, 0, i, forall(b, 0, len(m[0]), mm[a][b] == m[a][b] * sc))']),
               1: dict(inv=['len(mm) == len(m)', 'forall(a, 0, len(m), len(mm[a]) == len(m[0]))',
                            'forall(a, 0, i, forall(b, 0, len(m[0]), mm[a][b] == m[a][b] * sc))',
                            'forall(b, 0, j, mm[i][b] == m[i][b] * sc)'])},
    ),
    'utilities.evaluate_bounding_box': dict(
        props=['C18'],
        args=OD([('ctrlpts', M)]), ghost_args=OD([('INF', 'real')]),
        returns=('tuple', V, V),
        # float('inf') is modelled by the ghost bound INF: larger in magnitude than every coordinate (A1)
        requires=['len(ctrlpts) >= 1', 'forall(q, 0, len(ctrlpts), len(ctrlpts[q]) == len(ctrlpts[0]))',
                  'forall(q, 0, len(ctrlpts), forall(d, 0, len(ctrlpts[0]), ctrlpts[q][d] < INF and 0 - INF < ctrlpts[q][d]))'],
        ensures=['len(result[0]) == len(ctrlpts[0])', 'len(result[1]) == len(ctrlpts[0])',
                 # every control point is inside the box
                 'forall(q, 0, len(ctrlpts), forall(d, 0, len(ctrlpts[0]), result[0][d] <= ctrlpts[q][d] and ctrlpts[q][d] <= result[1][d]))'],
        loops={0: dict(inv=['len(bbmin) == dimension', 'len(bbmax) == dimension', 'dimension == len(ctrlpts[0])',
                            'forall(q, 0, _i0, forall(d, 0, dimension, bbmin[d] <= ctrlpts[q][d] and ctrlpts[q][d] <= bbmax[d]))']),
               1: dict(snapshot={'bbmin0': 'bbmin'},
                       inv=['len(bbmin) == dimension',
                            'forall(d, 0, dimension, bbmin[d] <= bbmin0[d])',
                            'forall(d, 0, _i1, bbmin[d] <= cpt[d])']),
               2: dict(snapshot={'bbmax0': 'bbmax'},
                       inv=['len(bbmax) == dimension',
                            'forall(d, 0, dimension, bbmax[d] >= bbmax0[d])',
                            'forall(d, 0, _i2, bbmax[d] >= cpt[d])'])},
        rounds=3,
    ),
}
