"""Contract for helpers.basis_function (Algorithm A2.2), helpers.py:140-172.   C01, C03, C18.

Spec function (span-anchored Cox-de Boor, DESIGN.md section 4), parametrised explicitly by (U, span, u):
    Bf(U, s, u, i, 0) = [i == s]
    Bf(U, s, u, i, d) = Fc(U,u,i,d) * Bf(.., i, d-1) + Gc(U,u,i,d) * Bf(.., i+1, d-1)          d >= 1
    Fc(U,u,i,d) = (u - U[i]) / (U[i+d] - U[i])      or 0 when the denominator is 0   (stated division-free)
    Gc(U,u,i,d) = (U[i+d+1] - u) / (U[i+d+1] - U[i+1])  or 0
The axioms below are definitions (recursion on d), a conservative extension.
Local support  (i + d < s or i > s  ==>  Bf = 0)  is not assumed: it is the outer loop invariant I7, proved by the
induction the loop itself performs.
"""
from collections import OrderedDict as OD

U, S, K = 'knot_vector', 'span', 'knot'
BF = lambda i, d: 'Bf(knot_vector, span, knot, %s, %s)' % (i, d)
FC = lambda i, d: 'Fc(knot_vector, knot, %s, %s)' % (i, d)
GC = lambda i, d: 'Gc(knot_vector, knot, %s, %s)' % (i, d)

FUNCS = {'Bf': ([('list', 'real'), 'int', 'real', 'int', 'int'], 'real'),
         'Fc': ([('list', 'real'), 'real', 'int', 'int'], 'real'),
         'Gc': ([('list', 'real'), 'real', 'int', 'int'], 'real')}

AXIOMS = [
    'forall(i, %s == (1 if i == span else 0))' % BF('i', '0'),
    'forall(i, forall(d, implies(d >= 1, %s == %s * %s + %s * %s)))' % (BF('i', 'd'), FC('i', 'd'), BF('i', 'd - 1'),
                                                                      GC('i', 'd'), BF('i + 1', 'd - 1')),
    'forall(i, forall(d, (%s * (knot_vector[i + d] - knot_vector[i]) == knot - knot_vector[i]) '
    'if knot_vector[i + d] != knot_vector[i] else (%s == 0)))' % (FC('i', 'd'), FC('i', 'd')),
    'forall(i, forall(d, (%s * (knot_vector[i + d + 1] - knot_vector[i + 1]) == knot_vector[i + d + 1] - knot) '
    'if knot_vector[i + d + 1] != knot_vector[i + 1] else (%s == 0)))' % (GC('i', 'd'), GC('i', 'd')),
]

SORTED_T = 'forall(a, 0, len(knot_vector), forall(b, a, len(knot_vector), knot_vector[a] <= knot_vector[b]))'

LEFTRIGHT = 'forall(q, 1, %s, left[q] == knot - knot_vector[span + 1 - q] and right[q] == knot_vector[span + q] - knot)'
LENS = 'len(N) == degree + 1 and len(left) == degree + 1 and len(right) == degree + 1'

CONTRACTS = {
    'helpers.basis_function': dict(
        props=['C01', 'C03', 'C18'],
        args=OD([('degree', 'int'), ('knot_vector', ('list', 'real')), ('span', 'int'), ('knot', 'real')]),
        returns=('list', 'real'),
        funcs=FUNCS, axioms=AXIOMS,
        requires=['degree >= 0', SORTED_T, 'span >= 0', 'span + 1 - degree >= 0', 'span + degree < len(knot_vector)',
                  'span + 1 < len(knot_vector)', 'knot_vector[span] < knot_vector[span + 1]',
                  'knot_vector[span] <= knot', 'knot <= knot_vector[span + 1]'],
        ensures=['len(result) == degree + 1',
                 'forall(r, 0, degree + 1, result[r] == %s)' % BF('span - degree + r', 'degree'),
                 'forall(r, 0, degree + 1, result[r] >= 0)',
                 'sum(result, 0, degree + 1) == 1'],
        loops={
            0: dict(inv=[LENS, '1 <= j',
                         LEFTRIGHT % 'j',
                         'forall(q, 0, j, N[q] == %s)' % BF('span - (j - 1) + q', 'j - 1'),
                         'forall(q, 0, j, N[q] >= 0)',
                         'sum(N, 0, j) == 1',
                         'forall(i, implies(i + (j - 1) < span or i > span, %s == 0))' % BF('i', 'j - 1')]),
            1: dict(snapshot={'N0': 'N'},
                    inv=[LENS, LEFTRIGHT % 'j + 1',
                         'forall(q, 0, r, N[q] == %s)' % BF('span - j + q', 'j'),
                         'forall(q, r, j, N[q] == N0[q])',
                         'saved == %s * %s' % (FC('span - j + r', 'j'), BF('span - j + r', 'j - 1')),
                         'forall(q, 0, r, N[q] >= 0)', 'saved >= 0',
                         'sum(N, 0, r) + saved == sum(N0, 0, r)'],
                    hints=['right[head_r + 1] + left[j - head_r] == knot_vector[span + head_r + 1] - knot_vector[span + 1 - j + head_r]',
                           'right[head_r + 1] + left[j - head_r] > 0',
                           '%s * (right[head_r + 1] + left[j - head_r]) == right[head_r + 1]' % GC('span - j + head_r', 'j'),
                           '%s * (right[head_r + 1] + left[j - head_r]) == left[j - head_r]' % FC('span - j + head_r + 1', 'j'),
                           'temp >= 0',
                           'temp * (right[head_r + 1] + left[j - head_r]) == N0[head_r]',
                           'N0[head_r] == %s' % BF('span - j + head_r + 1', 'j - 1'),
                           'right[head_r + 1] * temp == %s * N0[head_r]' % GC('span - j + head_r', 'j'),
                           'left[j - head_r] * temp == %s * N0[head_r]' % FC('span - j + head_r + 1', 'j'),
                           '%s == %s * %s + %s * %s' % (BF('span - j + head_r', 'j'), FC('span - j + head_r', 'j'),
                                                        BF('span - j + head_r', 'j - 1'), GC('span - j + head_r', 'j'),
                                                        BF('span - j + head_r + 1', 'j - 1')),
                           ]),
        },
        timeout_ms=20000, chunks=3,
    ),
}
