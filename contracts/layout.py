"""Contracts for the control-net layout convention  index(u,v,w) = v + size_v*(u + size_u*w)   (C13) and the flips."""
from collections import OrderedDict as OD

P = ('list', ('list', 'real'))
DROP = {'super.find_index': 'abstract base method, returns 0, no effect'}

CONTRACTS = {
    'control_points.SurfaceManager.find_index': dict(
        props=['C13'],
        args=OD([('self', 'self'), ('args', ('varargs', 2, 'int'))]),
        self={'_size': ('tuple', 'int', 'int')}, dropped_calls=DROP,
        returns='int',
        requires=['self._size[0] >= 1', 'self._size[1] >= 1'],
        ensures=['result == args[1] + self._size[1] * args[0]',
                 # in range whenever the arguments are
                 'implies(0 <= args[0] and args[0] < self._size[0] and 0 <= args[1] and args[1] < self._size[1], '
                 '0 <= result and result < self._size[0] * self._size[1])'],
    ),
    'control_points.VolumeManager.find_index': dict(
        props=['C13'],
        args=OD([('self', 'self'), ('args', ('varargs', 3, 'int'))]),
        self={'_size': ('tuple', 'int', 'int', 'int')}, dropped_calls=DROP,
        returns='int',
        requires=['self._size[0] >= 1', 'self._size[1] >= 1', 'self._size[2] >= 1'],
        ensures=['result == args[1] + self._size[1] * (args[0] + self._size[0] * args[2])',
                 'implies(0 <= args[0] and args[0] < self._size[0] and 0 <= args[1] and args[1] < self._size[1] and '
                 '0 <= args[2] and args[2] < self._size[2], 0 <= result and result < self._size[0] * self._size[1] * self._size[2])'],
    ),
    # the layout map is injective on the index box: two different (u,v,w) never address the same slot
    'lemma.layout_injective': dict(
        props=['C13'],
        source='''
def lemma(su, sv, sw, u1, v1, w1, u2, v2, w2):
    return (v1 + sv * (u1 + su * w1)) - (v2 + sv * (u2 + su * w2))
''',
        args=OD([(n, 'int') for n in ('su', 'sv', 'sw', 'u1', 'v1', 'w1', 'u2', 'v2', 'w2')]),
        returns='int',
        requires=['su >= 1', 'sv >= 1', 'sw >= 1', '0 <= u1', 'u1 < su', '0 <= v1', 'v1 < sv', '0 <= w1', 'w1 < sw',
                  '0 <= u2', 'u2 < su', '0 <= v2', 'v2 < sv', '0 <= w2', 'w2 < sw'],
        ensures=['implies(result == 0, u1 == u2 and v1 == v2 and w1 == w2)'],
        timeout_ms=30000,
    ),
    'compatibility.flip_ctrlpts': dict(
        props=['C13'],
        args=OD([('ctrlpts', P), ('size_u', 'int'), ('size_v', 'int')]),
        returns=P, locals={'new_ctrlpts': P},
        requires=['size_u >= 1', 'size_v >= 1', 'len(ctrlpts) == size_u * size_v'],
        # v-row order -> u-row order:  result[i*size_u + j] == ctrlpts[i + j*size_v]
        ensures=['len(result) == size_u * size_v',
                 'forall(a, 0, size_v, forall(b, 0, size_u, len(result[a * size_u + b]) == len(ctrlpts[a + b * size_v])))',
                 'forall(a, 0, size_v, forall(b, 0, size_u, forall(d, 0, len(ctrlpts[a + b * size_v]), '
                 'result[a * size_u + b][d] == ctrlpts[a + b * size_v][d])))'],
        loops={0: dict(inv=['len(new_ctrlpts) == i * size_u',
                            'forall(a, 0, i, forall(b, 0, size_u, len(new_ctrlpts[a * size_u + b]) == len(ctrlpts[a + b * size_v])))',
                            'forall(a, 0, i, forall(b, 0, size_u, forall(d, 0, len(ctrlpts[a + b * size_v]), '
                            'new_ctrlpts[a * size_u + b][d] == ctrlpts[a + b * size_v][d])))']),
               1: dict(inv=['len(new_ctrlpts) == i * size_u + j',
                            'forall(a, 0, i, forall(b, 0, size_u, len(new_ctrlpts[a * size_u + b]) == len(ctrlpts[a + b * size_v])))',
                            'forall(a, 0, i, forall(b, 0, size_u, forall(d, 0, len(ctrlpts[a + b * size_v]), '
                            'new_ctrlpts[a * size_u + b][d] == ctrlpts[a + b * size_v][d])))',
                            'forall(b, 0, j, len(new_ctrlpts[i * size_u + b]) == len(ctrlpts[i + b * size_v]))',
                            'forall(b, 0, j, forall(d, 0, len(ctrlpts[i + b * size_v]), new_ctrlpts[i * size_u + b][d] == ctrlpts[i + b * size_v][d]))'])},
        timeout_ms=30000, rounds=2,
    ),
}
