"""Contracts for the control-net layout convention  index(u,v,w) = v + size_v*(u + size_u*w)   (C13).

The flips (compatibility.flip_ctrlpts*) are NOT under an Engine-A contract: their invariants need three nested quantifiers over
nonlinear integer index terms (a*size_u + b) and did not discharge within budget; they are covered by Engine B only (harness/c13.py).
"""
from collections import OrderedDict as OD

P = ('list', ('list', 'real'))
DROP = {'super.find_index': 'abstract base method, returns 0, no effect'}

CONTRACTS = {
    'control_points.SurfaceManager.find_index': dict(
        props=['C13'],
        args=OD([('self', 'self'), ('args', ('varargs', 2, 'int'))]),
        self={'_size': ('tuple', 'int', 'int')}, dropped_calls=DROP,
        replay_call="lambda m, a: m.SurfaceManager(*a['self._size']).find_index(*a['args'])",
        returns='int',
        requires=['self._size[0] >= 1', 'self._size[1] >= 1'],
        ensures=['result == args[1] + self._size[1] * args[0]',
                 # in range whenever the arguments are
                 'implies(0 <= args[0] and args[0] < self._size[0] and 0 <= args[1] and args[1] < self._size[1], '
                 '0 <= result and result < self._size[0] * self._size[1])'],
    ),
    'control_points.VolumeManager.find_index': dict(
        props=['C13'],
        args=OD([('self', 'self'), ('args', ('varargs', 3, 'int'))]),
        self={'_size': ('tuple', 'int', 'int', 'int')}, dropped_calls=DROP,
        replay_call="lambda m, a: m.VolumeManager(*a['self._size']).find_index(*a['args'])",
        returns='int',
        requires=['self._size[0] >= 1', 'self._size[1] >= 1', 'self._size[2] >= 1'],
        ensures=['result == args[1] + self._size[1] * (args[0] + self._size[0] * args[2])',
                 'implies(0 <= args[0] and args[0] < self._size[0] and 0 <= args[1] and args[1] < self._size[1] and '
                 '0 <= args[2] and args[2] < self._size[2], 0 <= result and result < self._size[0] * self._size[1] * self._size[2])'],
    ),
    # uniqueness of quotient and remainder:  a + s*b == c + s*d  with  0 <= a, c < s   ==>   a == c and b == d
    'lemma.mod_unique': dict(
        props=['C13'],
        source='''
def lemma(s, a, b, c, d):
    k = b - d
    if k >= 1:
        t = s * (k - 1)
        return t
    if k <= -1:
        t = s * (-1 - k)
        return t
    return 0
''',
        args=OD([(n, 'int') for n in ('s', 'a', 'b', 'c', 'd')]),
        returns='int',
        requires=['s >= 1', '0 <= a', 'a < s', '0 <= c', 'c < s', 'a + s * b == c + s * d'],
        ensures=['a == c and b == d'],
        timeout_ms=30000,
    ),
    # the layout map is injective on the index box: two different (u,v,w) never address the same slot
    'lemma.layout_injective': dict(
        props=['C13'],
        source='''
def lemma(su, sv, sw, u1, v1, w1, u2, v2, w2):
    r = (v1 + sv * (u1 + su * w1)) - (v2 + sv * (u2 + su * w2))
    if r == 0:
        mod_unique(sv, v1, u1 + su * w1, v2, u2 + su * w2)
        mod_unique(su, u1, w1, u2, w2)
    return r
''',
        imports={'mod_unique': 'lemma.mod_unique'},
        args=OD([(n, 'int') for n in ('su', 'sv', 'sw', 'u1', 'v1', 'w1', 'u2', 'v2', 'w2')]),
        returns='int',
        requires=['su >= 1', 'sv >= 1', 'sw >= 1', '0 <= u1', 'u1 < su', '0 <= v1', 'v1 < sv', '0 <= w1', 'w1 < sw',
                  '0 <= u2', 'u2 < su', '0 <= v2', 'v2 < sv', '0 <= w2', 'w2 < sw'],
        ensures=['implies(result == 0, u1 == u2 and v1 == v2 and w1 == w2)'],
        timeout_ms=30000,
    ),
}
