"""Contract for helpers.basis_function_ders (Algorithm A2.3, helpers.py).   C02.

Proved for every degree, derivative order, knot vector and span: every subscript of the two triangular tables (ndu, a) and
of the result is in range, every divisor is a positive knot difference (the lower triangle of ndu holds
U[span + b + 1] - U[span + 1 - a + b] > 0), and the result has min(degree, order) + 1 rows of degree + 1 entries (rows of
order above the degree are not produced: the callers fill them with zeros).  That row k holds the k-th derivatives of the
basis functions is decided by the bounded tier (formal derivative of the symbolic basis functions)."""
from collections import OrderedDict as OD

V, M = ('list', 'real'), ('list', ('list', 'real'))
SORTED_T = 'forall(a, 0, len(knot_vector), forall(b, a, len(knot_vector), knot_vector[a] <= knot_vector[b]))'
SQ = lambda a, n: ['len(%s) == %s' % (a, n), 'forall(x, 0, %s, len(%s[x]) == degree + 1)' % (n, a)]
LENS = ['len(left) == degree + 1', 'len(right) == degree + 1'] + SQ('ndu', 'degree + 1')
LEFTRIGHT = 'forall(q, 1, %s, left[q] == knot - knot_vector[span + 1 - q] and right[q] == knot_vector[span + q] - knot)'
LOWER = lambda top: 'forall(x, 1, %s, forall(y, 0, x, ndu[x][y] > 0))' % top
ORD = ['order == min(degree, old(order))', 'order >= 0', 'order <= degree']
DERS = SQ('ders', 'order + 1')
A2 = SQ('a', '2')

CONTRACTS = {
    'helpers.basis_function_ders': dict(
        props=['C02'],
        args=OD([('degree', 'int'), ('knot_vector', V), ('span', 'int'), ('knot', 'real'), ('order', 'int')]),
        returns=M, locals={'ndu': M, 'ders': M, 'a': M},
        requires=['degree >= 0', 'order >= 0', SORTED_T, 'span >= 0', 'span + 1 - degree >= 0', 'span + degree < len(knot_vector)',
                  'span + 1 < len(knot_vector)', 'knot_vector[span] < knot_vector[span + 1]',
                  'knot_vector[span] <= knot', 'knot <= knot_vector[span + 1]'],
        ensures=['len(result) == min(degree, order) + 1', 'forall(x, 0, len(result), len(result[x]) == degree + 1)'],
        loops={
            0: dict(inv=LENS + ['1 <= j', LEFTRIGHT % 'j', LOWER('j')]),
            1: dict(inv=LENS + [LEFTRIGHT % 'j + 1', LOWER('j'), 'forall(y, 0, r, ndu[j][y] > 0)'],
                    hints=['right[head_r + 1] + left[j - head_r] == knot_vector[span + head_r + 1] - knot_vector[span + 1 - j + head_r]',
                           'right[head_r + 1] + left[j - head_r] > 0']),
            2: dict(inv=LENS + [LOWER('degree + 1')] + ORD + DERS),
            3: dict(inv=LENS + [LOWER('degree + 1')] + ORD + DERS + A2),
            4: dict(inv=LENS + [LOWER('degree + 1')] + ORD + DERS + A2 + ['s1 + s2 == 1', '0 <= s1', 's1 <= 1']),
            5: dict(inv=LENS + [LOWER('degree + 1')] + ORD + DERS + A2 + ['s1 + s2 == 1', '0 <= s1', 's1 <= 1', 'rk == r - k', 'pk == degree - k',
                                 '1 <= j1', 'rk + j1 >= 0', 'j2 <= degree', 'rk + j2 <= pk']),
            6: dict(inv=ORD + DERS),
            7: dict(inv=ORD + DERS),
        },
        rounds=3, timeout_ms=30000, chunks=6,
    ),
}
