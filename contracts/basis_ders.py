"""Contract for helpers.basis_function_ders (Algorithm A2.3, helpers.py).   C02.

Proved for every degree, derivative order, knot vector and span: every subscript of the two triangular tables (ndu, a) and
of the result is in range, every divisor is a positive knot difference (the lower triangle of ndu holds
U[span + b + 1] - U[span + 1 - a + b] > 0), the result has min(degree, order) + 1 rows of degree + 1 entries (rows of
order above the degree are not produced: the callers fill them with zeros), and ROW 0 HOLDS THE BASIS FUNCTIONS THEMSELVES:
result[0][y] == Bf(span - degree + y, degree), the span-anchored Cox-de Boor spec function of C03 (the upper triangle of ndu,
column c, holds the degree-c basis functions; same invariants as the contract of helpers.basis_function).  That row k >= 1
holds the k-th derivatives is decided by the bounded tier (formal derivative of the symbolic basis functions)."""
from collections import OrderedDict as OD
from .helpers_basis import FUNCS, AXIOMS, BF, FC, GC

V, M = ('list', 'real'), ('list', ('list', 'real'))
SORTED_T = 'forall(a, 0, len(knot_vector), forall(b, a, len(knot_vector), knot_vector[a] <= knot_vector[b]))'
SQ = lambda a, n: ['len(%s) == %s' % (a, n), 'forall(x, 0, %s, len(%s[x]) == degree + 1)' % (n, a)]
LENS = ['len(left) == degree + 1', 'len(right) == degree + 1'] + SQ('ndu', 'degree + 1')
LEFTRIGHT = 'forall(q, 1, %s, left[q] == knot - knot_vector[span + 1 - q] and right[q] == knot_vector[span + q] - knot)'
LOWER = lambda top: ('forall(x, 1, %s, forall(y, 0, x, ndu[x][y] == knot_vector[span + y + 1] - knot_vector[span + 1 - x + y] '
                     'and ndu[x][y] > 0))' % top)
# upper triangle (diagonal included): column c holds the degree-c basis functions of the span
UPPER = lambda top: 'forall(c, 0, %s, forall(x, 0, c + 1, ndu[x][c] == %s))' % (top, BF('span - c + x', 'c'))
SUPPORT = lambda d: 'forall(i, implies(i + (%s) < span or i > span, %s == 0))' % (d, BF('i', d))
ROW0 = 'forall(y, 0, degree + 1, ders[0][y] == %s)' % BF('span - degree + y', 'degree')
ORD = ['order == min(degree, old(order))', 'order >= 0', 'order <= degree']
DERS = SQ('ders', 'order + 1')
A2 = SQ('a', '2')

CONTRACTS = {
    'helpers.basis_function_ders': dict(
        props=['C02'],
        args=OD([('degree', 'int'), ('knot_vector', V), ('span', 'int'), ('knot', 'real'), ('order', 'int')]),
        returns=M, locals={'ndu': M, 'ders': M, 'a': M},
        funcs=FUNCS, axioms=AXIOMS,
        requires=['degree >= 0', 'order >= 0', SORTED_T, 'span >= 0', 'span + 1 - degree >= 0', 'span + degree < len(knot_vector)',
                  'span + 1 < len(knot_vector)', 'knot_vector[span] < knot_vector[span + 1]',
                  'knot_vector[span] <= knot', 'knot <= knot_vector[span + 1]'],
        ensures=['len(result) == min(degree, order) + 1', 'forall(x, 0, len(result), len(result[x]) == degree + 1)',
                 # row 0 holds the basis functions themselves (span-anchored Cox-de Boor, the spec function of C03)
                 'forall(y, 0, degree + 1, result[0][y] == %s)' % BF('span - degree + y', 'degree')],
        loops={
            0: dict(inv=LENS + ['1 <= j', LEFTRIGHT % 'j', LOWER('j'), UPPER('j'), SUPPORT('j - 1')],
                    # the diagonal entry written after the inner loop: saved = Fc * Bf(span, j-1), and the other Cox-de Boor
                    # term vanishes because Bf(span + 1, j - 1) lies outside the support
                    hints=['%s == 0' % BF('span + 1', 'head_j - 1'),
                           '%s == %s * %s + %s * %s' % (BF('span', 'head_j'), FC('span', 'head_j'), BF('span', 'head_j - 1'),
                                                        GC('span', 'head_j'), BF('span + 1', 'head_j - 1')),
                           'saved == %s * %s' % (FC('span', 'head_j'), BF('span', 'head_j - 1')),
                           'ndu[head_j][head_j] == %s' % BF('span', 'head_j'),
                           'forall(x, 0, head_j + 1, ndu[x][head_j] == %s)' % BF('span - head_j + x', 'head_j')]),
            1: dict(inv=LENS + [LEFTRIGHT % 'j + 1', LOWER('j'),
                                'forall(y, 0, r, ndu[j][y] == knot_vector[span + y + 1] - knot_vector[span + 1 - j + y] and ndu[j][y] > 0)',
                                UPPER('j'), SUPPORT('j - 1'),
                                'forall(x, 0, r, ndu[x][j] == %s)' % BF('span - j + x', 'j'),
                                'saved == %s * %s' % (FC('span - j + r', 'j'), BF('span - j + r', 'j - 1'))],
                    hints=['right[head_r + 1] == knot_vector[span + head_r + 1] - knot',
                           'left[j - head_r] == knot - knot_vector[span + 1 - j + head_r]',
                           'right[head_r + 1] + left[j - head_r] == knot_vector[span + head_r + 1] - knot_vector[span + 1 - j + head_r]',
                           'right[head_r + 1] + left[j - head_r] > 0',
                           # the two definitional axioms at this index, in the axioms' own form
                           '%s * (knot_vector[span + head_r + 1] - knot_vector[span + 1 - j + head_r]) == knot_vector[span + head_r + 1] - knot' % GC('span - j + head_r', 'j'),
                           '%s * (knot_vector[span + head_r + 1] - knot_vector[span + 1 - j + head_r]) == knot - knot_vector[span + 1 - j + head_r]' % FC('span - j + head_r + 1', 'j'),
                           '%s * (right[head_r + 1] + left[j - head_r]) == right[head_r + 1]' % GC('span - j + head_r', 'j'),
                           '%s * (right[head_r + 1] + left[j - head_r]) == left[j - head_r]' % FC('span - j + head_r + 1', 'j'),
                           'temp * (right[head_r + 1] + left[j - head_r]) == %s' % BF('span - j + head_r + 1', 'j - 1'),
                           'right[head_r + 1] * temp == %s * %s' % (GC('span - j + head_r', 'j'), BF('span - j + head_r + 1', 'j - 1')),
                           'left[j - head_r] * temp == %s * %s' % (FC('span - j + head_r + 1', 'j'), BF('span - j + head_r + 1', 'j - 1')),
                           '%s == %s * %s + %s * %s' % (BF('span - j + head_r', 'j'), FC('span - j + head_r', 'j'),
                                                        BF('span - j + head_r', 'j - 1'), GC('span - j + head_r', 'j'),
                                                        BF('span - j + head_r + 1', 'j - 1'))]),
            2: dict(inv=LENS + [LOWER('degree + 1'), UPPER('degree + 1')] + ORD + DERS + ['forall(y, 0, j, ders[0][y] == %s)' % BF('span - degree + y', 'degree')]),
            3: dict(inv=LENS + [LOWER('degree + 1'), ROW0] + ORD + DERS + A2),
            4: dict(inv=LENS + [LOWER('degree + 1'), ROW0] + ORD + DERS + A2 + ['s1 + s2 == 1', '0 <= s1', 's1 <= 1']),
            5: dict(inv=LENS + [LOWER('degree + 1'), ROW0] + ORD + DERS + A2 + ['s1 + s2 == 1', '0 <= s1', 's1 <= 1', 'rk == r - k', 'pk == degree - k',
                                 '1 <= j1', 'rk + j1 >= 0', 'j2 <= degree', 'rk + j2 <= pk']),
            6: dict(inv=ORD + DERS + [ROW0]),
            7: dict(inv=ORD + DERS + [ROW0, 'k >= 1']),
        },
        rounds=3, timeout_ms=30000, chunks=14,
    ),
}
