"""Contracts for the knot-vector surgery of A5.1 / A5.8 (helpers.py:585-614, 786-815).  C04, C06."""
from collections import OrderedDict as OD

CONTRACTS = {
    'helpers.knot_insertion_kv': dict(
        props=['C04', 'C06', 'C07'],
        args=OD([('knotvector', ('list', 'real')), ('u', 'real'), ('span', 'int'), ('r', 'int')]),
        returns=('list', 'real'),
        requires=['r >= 0', 'span >= 0', 'span + 1 <= len(knotvector)'],
        # result == U[:span+1] + [u]*r + U[span+1:]
        ensures=['len(result) == len(knotvector) + r',
                 'forall(i, 0, span + 1, result[i] == knotvector[i])',
                 'forall(i, span + 1, span + 1 + r, result[i] == u)',
                 'forall(i, span + 1, len(knotvector), result[i + r] == knotvector[i])',
                 # "gains exactly the requested copies in sorted position": with U sorted and U[span] <= u <= U[span+1]
                 # (what the span search guarantees) the result is sorted
                 'implies(forall(a, 0, len(knotvector), forall(b, a, len(knotvector), knotvector[a] <= knotvector[b])) and '
                 'knotvector[span] <= u and (span + 1 == len(knotvector) or u <= knotvector[span + 1]), '
                 'forall(i, 0, len(result) - 1, result[i] <= result[i + 1]))'],
        loops={0: dict(inv=['len(kv_updated) == kv_size + r', 'kv_size == len(knotvector)',
                            'forall(q, 0, i, kv_updated[q] == knotvector[q])']),
               1: dict(inv=['len(kv_updated) == kv_size + r', 'kv_size == len(knotvector)',
                            'forall(q, 0, span + 1, kv_updated[q] == knotvector[q])',
                            'forall(q, span + 1, span + i, kv_updated[q] == u)']),
               2: dict(inv=['len(kv_updated) == kv_size + r', 'kv_size == len(knotvector)',
                            'forall(q, 0, span + 1, kv_updated[q] == knotvector[q])',
                            'forall(q, span + 1, span + 1 + r, kv_updated[q] == u)',
                            'forall(q, span + 1, i, kv_updated[q + r] == knotvector[q])'])},
    ),
    'helpers.knot_removal_kv': dict(
        props=['C06'],
        args=OD([('knotvector', ('list', 'real')), ('span', 'int'), ('r', 'int')]),
        returns=('list', 'real'),
        requires=['span >= 0', 'span + 1 <= len(knotvector)', 'r <= span + 1', 'r < len(knotvector)'],
        # r < 1: the input itself; else result == U[:span+1-r] + U[span+1:]
        ensures=['implies(r < 1, len(result) == len(knotvector) and forall(i, 0, len(knotvector), result[i] == knotvector[i]))',
                 'implies(r >= 1, len(result) == len(knotvector) - r)',
                 'implies(r >= 1, forall(i, 0, span + 1 - r, result[i] == knotvector[i]))',
                 'implies(r >= 1, forall(i, span + 1, len(knotvector), result[i - r] == knotvector[i]))'],
        calls={'deepcopy': 'copy.deepcopy'},
        loops={0: dict(inv=['len(kv_updated) == len(knotvector)',
                            'forall(q, 0, span + 1 - r, kv_updated[q] == knotvector[q])',
                            'forall(q, span + 1, k, kv_updated[q - r] == knotvector[q])',
                            'r >= 1'])},
    ),
}
