"""Contract for evaluators.CurveEvaluator.evaluate (A3.1 accumulation loop, evaluators.py:91-130).   C01, C18.

Carries: result size, point dimension, every index in range, and the per-coordinate hull/bounding-box fact
  (forall control points P[i][d0] <= c)  ==>  (forall evaluated points result[k][d0] <= c)     [same with >=]
which is the convex-combination lemma (lemma.convex_combination_in_halfspace) carried through the real loop by the
invariant  crvpt[d0] <= c * sum(basis[idx], 0, i).  d0 and c are ghost (universally quantified) inputs."""
from collections import OrderedDict as OD
from .helpers_basis import FUNCS

DD = ('dict', OD([('degree', ('tuple', 'int')), ('knotvector', ('tuple', ('list', 'real'))),
                  ('control_points', ('list', ('list', 'real'))), ('size', ('tuple', 'int')),
                  ('sample_size', ('tuple', 'int')), ('dimension', 'int'), ('rational', 'bool'), ('precision', 'int')]))
P_, U_, N_ = "datadict['degree'][0]", "datadict['knotvector'][0]", "datadict['size'][0]"
CP = "datadict['control_points']"

DIM = "(datadict['dimension'] + (1 if datadict['rational'] else 0))"
REQ = ['%s >= 0' % P_, '%s >= %s + 1' % (N_, P_), 'len(%s) == %s + %s + 1' % (U_, N_, P_),
       'forall(a, 0, len(%s), forall(b, a, len(%s), %s[a] <= %s[b]))' % (U_, U_, U_, U_),
       '%s[%s - 1] < %s[%s]' % (U_, N_, U_, N_),
       'len(%s) == %s' % (CP, N_), "datadict['dimension'] >= 1",
       "forall(q, 0, len(%s), len(%s[q]) == %s)" % (CP, CP, DIM),
       '%s[%s] <= kw_start' % (U_, P_), 'kw_start <= %s[%s]' % (U_, N_),
       '%s[%s] <= kw_stop' % (U_, P_), 'kw_stop <= %s[%s]' % (U_, N_),
       # ghost half-space: coordinate d0 of every control point is <= c
       "0 <= d0", "d0 < %s" % DIM,
       'implies(h0, forall(q, 0, len(%s), %s[q][d0] <= c))' % (CP, CP),
       # ghost homogeneous half-space: P[q][d0] <= c * P[q][d1] for every control point (rational shapes: d1 = weight)
       'implies(h2, forall(q, 0, len(%s), %s[q][d2] <= ch * %s[q][d1]))' % (CP, CP, CP), '0 <= d2', 'd2 < %s' % DIM,
       'implies(h2, h1)',
       # ghost positivity: coordinate d1 of every control point is > 0 (the weight coordinate of a rational shape)
       "0 <= d1", "d1 < %s" % DIM,
       'implies(h1, forall(q, 0, len(%s), %s[q][d1] > 0))' % (CP, CP)]

CONTRACTS = {
    'evaluators.CurveEvaluator.evaluate': dict(
        props=['C01', 'C18'],
        replay_call="lambda m, a: m.CurveEvaluator().evaluate(a['datadict'], start=a['kw_start'], stop=a['kw_stop'])",
        args=OD([('self', 'self'), ('datadict', DD), ('kwargs', 'kwargs')]),
        ghost_args=OD([('kw_start', 'real'), ('kw_stop', 'real'), ('d0', 'int'), ('c', 'real'), ('d1', 'int'), ('d2', 'int'), ('ch', 'real'), ('h0', 'bool'), ('h1', 'bool'), ('h2', 'bool')]),
        kwargs={'start': '$kw_start', 'stop': '$kw_stop'},
        self={'_span_func': ('func', 'helpers.find_span_linear')},
        funcs=FUNCS,
        returns=('list', ('list', 'real')), locals={'eval_points': ('list', ('list', 'real'))},
        requires=REQ,
        ensures=["implies(abs(kw_start - kw_stop) <= '1/10000000', len(result) == 1)",
                 "implies(abs(kw_start - kw_stop) > '1/10000000' and datadict['sample_size'][0] > 1, len(result) == datadict['sample_size'][0])",
                 "forall(k, 0, len(result), len(result[k]) == %s)" % DIM,
                 # hull / bounding box, coordinate d0
                 'implies(h0, forall(k, 0, len(result), result[k][d0] <= c))',
                 # a convex combination of positive numbers is positive (weight function of a rational curve)
                 'implies(h1, forall(k, 0, len(result), result[k][d1] > 0))',
                 # homogeneous hull: the half-space  x[d2] <= ch * x[d1]  is preserved by the convex combination
                 'implies(h2, forall(k, 0, len(result), result[k][d2] <= ch * result[k][d1]))'],
        loops={0: dict(inv=['len(eval_points) == idx',
                            "forall(k, 0, idx, len(eval_points[k]) == %s)" % DIM,
                            'implies(h0, forall(k, 0, idx, eval_points[k][d0] <= c))',
                            'implies(h1, forall(k, 0, idx, eval_points[k][d1] > 0))',
                            'implies(h2, forall(k, 0, idx, eval_points[k][d2] <= ch * eval_points[k][d1]))']),
               1: dict(inv=["len(crvpt) == %s" % DIM,
                            'implies(h0, crvpt[d0] <= c * sum(basis[idx], 0, i))',
                            'implies(h2, crvpt[d2] <= ch * crvpt[d1])',
                            'sum(basis[idx], 0, i) >= 0',
                            'implies(h1, crvpt[d1] >= 0 and ((sum(basis[idx], 0, i) == 0 and crvpt[d1] == 0) or crvpt[d1] > 0))'],
                       hints=['basis[idx][head_i] >= 0',
                              'c * sum(basis[idx], 0, head_i + 1) == c * sum(basis[idx], 0, head_i) + c * basis[idx][head_i]',
                              'implies(h2, basis[idx][head_i] * ctrlpts[spans[idx] - degree + head_i][d2] <= '
                              'basis[idx][head_i] * (ch * ctrlpts[spans[idx] - degree + head_i][d1]))',
                              'implies(h0, basis[idx][head_i] * ctrlpts[spans[idx] - degree + head_i][d0] <= basis[idx][head_i] * c)',
                              'implies(h1, basis[idx][head_i] * ctrlpts[spans[idx] - degree + head_i][d1] >= 0)'])},
        rounds=3, chunks=12, timeout_ms=30000,
    ),

    # A4.1: homogeneous evaluation followed by the division by the weight coordinate.  Carries: the divisor is a convex
    # combination of positive weights, hence never zero (the Engine-A side of 'L.weight_function_positive'); sizes; and the
    # hull property of the projected point: every half-space  x[d0] <= c  containing the control points (Pw[d0] <= c*w)
    # contains the evaluated point.
    'evaluators.CurveEvaluatorRational.evaluate': dict(
        props=['C01', 'C18'],
        replay_call="lambda m, a: m.CurveEvaluatorRational().evaluate(a['datadict'], start=a['kw_start'], stop=a['kw_stop'])",
        args=OD([('self', 'self'), ('datadict', DD), ('kwargs', 'kwargs')]),
        ghost_args=OD([('kw_start', 'real'), ('kw_stop', 'real'), ('d0', 'int'), ('c', 'real')]),
        kwargs={'start': '$kw_start', 'stop': '$kw_stop'},
        self={'_span_func': ('func', 'helpers.find_span_linear')},
        super_calls={'evaluate': 'evaluators.CurveEvaluator.evaluate'},
        ghost_bind={'evaluators.CurveEvaluator.evaluate': {'kw_start': 'kw_start', 'kw_stop': 'kw_stop', 'd0': 'd0',
                                                           'c': 'c', 'd1': "datadict['dimension']", 'd2': 'd0', 'ch': 'c',
                                                           'h0': 'False', 'h1': 'True', 'h2': 'True'}},
        funcs=FUNCS,
        returns=('list', ('list', 'real')), locals={'eval_points': ('list', ('list', 'real'))},
        requires=["datadict['rational']", '%s >= 0' % P_, '%s >= %s + 1' % (N_, P_), 'len(%s) == %s + %s + 1' % (U_, N_, P_),
                  'forall(a, 0, len(%s), forall(b, a, len(%s), %s[a] <= %s[b]))' % (U_, U_, U_, U_),
                  '%s[%s - 1] < %s[%s]' % (U_, N_, U_, N_), 'len(%s) == %s' % (CP, N_), "datadict['dimension'] >= 1",
                  "forall(q, 0, len(%s), len(%s[q]) == datadict['dimension'] + 1)" % (CP, CP),
                  '%s[%s] <= kw_start' % (U_, P_), 'kw_start <= %s[%s]' % (U_, N_),
                  '%s[%s] <= kw_stop' % (U_, P_), 'kw_stop <= %s[%s]' % (U_, N_),
                  # positive weights, and the ghost half-space in homogeneous form
                  "forall(q, 0, len(%s), %s[q][datadict['dimension']] > 0)" % (CP, CP),
                  '0 <= d0', "d0 < datadict['dimension']",
                  "forall(q, 0, len(%s), %s[q][d0] <= c * %s[q][datadict['dimension']])" % (CP, CP, CP)],
        ensures=["implies(abs(kw_start - kw_stop) <= '1/10000000', len(result) == 1)",
                 "implies(abs(kw_start - kw_stop) > '1/10000000' and datadict['sample_size'][0] > 1, len(result) == datadict['sample_size'][0])",
                 "forall(k, 0, len(result), len(result[k]) == datadict['dimension'])",
                 'forall(k, 0, len(result), result[k][d0] <= c)'],
        loops={0: dict(inv=['len(eval_points) == _i0',
                            "forall(k, 0, _i0, len(eval_points[k]) == datadict['dimension'] and eval_points[k][d0] <= c)"])},
        rounds=3, chunks=4, timeout_ms=30000,
    ),
}

# ---- hull of the ACTIVE control points (C18: "the degree+1 control points active on its knot interval").
# Ghost bounding sequences, non-decreasing in the control-point index:  lu[q] <= P[q][d0] <= cu[q].  Then for every
# evaluated point k, with spans[k] the knot span the function found for parameter k,
#     lu[spans[k] - degree]  <=  C(u_k)[d0]  <=  cu[spans[k]]
# (the postcondition mentions the function's final local `spans`; no caller uses this contract).  A control-point index
# outside [span - degree, span] in either direction cannot satisfy both for all such sequences.
MONO = lambda a: 'forall(x, 0, len(%s), forall(y, x, len(%s), %s[x] <= %s[y]))' % (a, a, a, a)
_base = CONTRACTS['evaluators.CurveEvaluator.evaluate']
_PI = 'ctrlpts[spans[idx] - degree + head_i][d0]'
CONTRACTS['evaluators.CurveEvaluator.evaluate#active_hull'] = dict(
    _base,
    target='evaluators.CurveEvaluator.evaluate',
    props=['C18'],
    ghost_args=OD([('kw_start', 'real'), ('kw_stop', 'real'), ('d0', 'int'), ('cu', ('list', 'real')), ('lu', ('list', 'real'))]),
    requires=[r for r in REQ if 'h0' not in r and 'h1' not in r and 'h2' not in r and 'd1' not in r and 'd2' not in r] + [
        'len(cu) == %s' % N_, 'len(lu) == %s' % N_, MONO('cu'), MONO('lu'),
        'forall(q, 0, len(%s), %s[q][d0] <= cu[q] and %s[q][d0] >= lu[q])' % (CP, CP, CP)],
    ensures=_base['ensures'][:3] + [
        'forall(k, 0, len(result), result[k][d0] <= cu[spans[k]] and result[k][d0] >= lu[spans[k] - degree])'],
    loops={0: dict(inv=['len(eval_points) == idx',
                        "forall(k, 0, idx, len(eval_points[k]) == %s)" % DIM,
                        'forall(k, 0, idx, eval_points[k][d0] <= cu[spans[k]] and eval_points[k][d0] >= lu[spans[k] - degree])']),
           1: dict(inv=["len(crvpt) == %s" % DIM,
                        'crvpt[d0] <= cu[spans[idx]] * sum(basis[idx], 0, i)',
                        'crvpt[d0] >= lu[spans[idx] - degree] * sum(basis[idx], 0, i)'],
                   hints=['basis[idx][head_i] >= 0',
                          '%s <= cu[spans[idx] - degree + head_i]' % _PI, '%s >= lu[spans[idx] - degree + head_i]' % _PI,
                          'cu[spans[idx] - degree + head_i] <= cu[spans[idx]]', 'lu[spans[idx] - degree + head_i] >= lu[spans[idx] - degree]',
                          'basis[idx][head_i] * %s <= basis[idx][head_i] * cu[spans[idx]]' % _PI,
                          'basis[idx][head_i] * %s >= basis[idx][head_i] * lu[spans[idx] - degree]' % _PI,
                          'cu[spans[idx]] * sum(basis[idx], 0, head_i + 1) == cu[spans[idx]] * sum(basis[idx], 0, head_i) + cu[spans[idx]] * basis[idx][head_i]',
                          'lu[spans[idx] - degree] * sum(basis[idx], 0, head_i + 1) == lu[spans[idx] - degree] * sum(basis[idx], 0, head_i) + lu[spans[idx] - degree] * basis[idx][head_i]'])},
    rounds=3, chunks=8, timeout_ms=60000,
)
del _base

# ---- A3.2: derivatives of a non-rational curve at one parameter.   C02
# Proved for every degree, order, size and dimension: the result has deriv_order + 1 rows of `dimension` entries; the rows of
# order above the degree are zero (the C02 clause "orders above the degree (zero for non-rational shapes)"); and row k <= degree
# is the sum over the span window of (k-th basis-function derivative) x (control point), coordinate by coordinate:
#     CK[k][d0] == sum_{j=0..p} ders[k][j] * P[span - p + j][d0]
# with ders the table returned by helpers.basis_function_ders (callee contract: shape and safety, contracts/basis_ders.py)
# and span the result of the span search (callee contract).  d0 is a ghost coordinate.  The equation is asserted where each
# row is completed (the table and the span are locals of the function).
DREQ = ['%s >= 0' % P_, '%s >= %s + 1' % (N_, P_), 'len(%s) == %s + %s + 1' % (U_, N_, P_),
        'forall(a, 0, len(%s), forall(b, a, len(%s), %s[a] <= %s[b]))' % (U_, U_, U_, U_),
        '%s[%s - 1] < %s[%s]' % (U_, N_, U_, N_),
        'len(%s) == %s' % (CP, N_), "datadict['dimension'] >= 1",
        "forall(q, 0, len(%s), len(%s[q]) == %s)" % (CP, CP, DIM),
        '%s[%s] <= parpos' % (U_, P_), 'parpos <= %s[%s]' % (U_, N_), 'deriv_order >= 0', '0 <= d0', 'd0 < %s' % DIM]
CONTRACTS['evaluators.CurveEvaluator.derivatives'] = dict(
    props=['C02'],
    args=OD([('self', 'self'), ('datadict', DD), ('parpos', 'real'), ('deriv_order', 'int'), ('kwargs', 'kwargs')]),
    ghost_args=OD([('d0', 'int')]),
    kwargs={},
    self={'_span_func': ('func', 'helpers.find_span_linear')},
    funcs=FUNCS,
    replay_call="lambda m, a: m.CurveEvaluator().derivatives(a['datadict'], a['parpos'], a['deriv_order'])",
    replay_locals=OD([('degree', "datadict['degree'][0]"), ('ctrlpts', "datadict['control_points']"),
                      ('span', "helpers.find_span_linear(datadict['degree'][0], datadict['knotvector'][0], datadict['size'][0], parpos)"),
                      ('bfunsders', "helpers.basis_function_ders(datadict['degree'][0], datadict['knotvector'][0], "
                                    "helpers.find_span_linear(datadict['degree'][0], datadict['knotvector'][0], datadict['size'][0], parpos), "
                                    "parpos, min(datadict['degree'][0], deriv_order))")]),
    pyfuncs={'cdoto': "def cdoto(a, m, c, off, lo, hi):\n    t = 0.0\n    for j in range(lo, hi):\n        t += a[j] * m[off + j][c]\n    return t\n"},
    returns=('list', ('list', 'real')), locals={'CK': ('list', ('list', 'real')), 'bfunsders': ('list', ('list', 'real'))},
    requires=DREQ,
    ensures=['len(result) == deriv_order + 1', 'forall(k, 0, len(result), len(result[k]) == %s)' % DIM,
             'forall(k, min(%s, deriv_order) + 1, deriv_order + 1, forall(d, 0, %s, result[k][d] == 0))' % (P_, DIM),
             # every row up to min(degree, order), stated over the function's own locals `span` and `bfunsders` (the results
             # of its two callee calls, visible at the return statement)
             'forall(k, 0, min(%s, deriv_order) + 1, result[k][d0] == cdoto(bfunsders[k], ctrlpts, d0, span - degree, 0, degree + 1))' % P_],
    loops={0: dict(inv=['len(CK) == deriv_order + 1', 'forall(q, 0, len(CK), len(CK[q]) == dimension)',
                        'du == min(degree, deriv_order)',
                        'forall(q, k, deriv_order + 1, forall(d, 0, dimension, CK[q][d] == 0))',
                        'forall(q, 0, k, CK[q][d0] == cdoto(bfunsders[q], ctrlpts, d0, span - degree, 0, degree + 1))']),
           1: dict(inv=['len(CK) == deriv_order + 1', 'forall(q, 0, len(CK), len(CK[q]) == dimension)',
                        'du == min(degree, deriv_order)',
                        'forall(q, k + 1, deriv_order + 1, forall(d, 0, dimension, CK[q][d] == 0))',
                        'forall(q, 0, k, CK[q][d0] == cdoto(bfunsders[q], ctrlpts, d0, span - degree, 0, degree + 1))',
                        'CK[k][d0] == cdoto(bfunsders[k], ctrlpts, d0, span - degree, 0, j)'])},
    rounds=3, timeout_ms=30000, chunks=2,
)
