"""Contracts for fitting.compute_knot_vector (Eq. 9.8) and linalg.is_left.   C11, C20."""
from collections import OrderedDict as OD

V = ('list', 'real')

CONTRACTS = {
    'fitting.compute_knot_vector': dict(
        props=['C11'],
        args=OD([('degree', 'int'), ('num_points', 'int'), ('params', V)]),
        returns=V,
        requires=['degree >= 1', 'num_points >= degree + 1', 'len(params) == num_points'],
        # clamped, documented length, interior knots are the averages of Eq. 9.8 (stated division-free)
        ensures=['len(result) == num_points + degree + 1',
                 'forall(q, 0, degree + 1, result[q] == 0)',
                 'forall(q, num_points, num_points + degree + 1, result[q] == 1)',
                 'forall(i, 0, num_points - degree - 1, result[degree + 1 + i] * real(degree) == sum(params, i + 1, i + degree + 1))'],
        loops={0: dict(inv=['len(kv) == degree + 1 + i',
                            'forall(q, 0, degree + 1, kv[q] == 0)',
                            'forall(a, 0, i, kv[degree + 1 + a] * real(degree) == sum(params, a + 1, a + degree + 1))'])},
        rounds=3,
    ),
    'linalg.is_left': dict(
        props=['C20'],
        args=OD([('point0', V), ('point1', V), ('point2', V)]),
        returns='real',
        requires=['len(point0) >= 2', 'len(point1) >= 2', 'len(point2) >= 2'],
        # twice the signed area of the triangle (P0, P1, P2): > 0 left, = 0 on the line, < 0 right
        ensures=['result == (point1[0] - point0[0]) * (point2[1] - point0[1]) - (point2[0] - point0[0]) * (point1[1] - point0[1])',
                 # antisymmetry under swapping the line's points, invariance under cyclic rotation
                 'result == point0[0] * point1[1] - point0[1] * point1[0] + point1[0] * point2[1] - point1[1] * point2[0] '
                 '+ point2[0] * point0[1] - point2[1] * point0[0]'],
    ),
}
