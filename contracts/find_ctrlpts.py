"""Contracts for _operations.find_ctrlpts_curve (the control points active at a parameter) and a few point helpers.  C18, C20, C16."""
from collections import OrderedDict as OD
from .helpers_span import SORTED_T

V = ('list', 'real')
M = ('list', ('list', 'real'))
CURVE = ('obj', OD([('degree', 'int'), ('knotvector', V), ('ctrlpts', M)]))

CONTRACTS = {
    '_operations.find_ctrlpts_curve': dict(
        props=['C18', 'C20'],
        args=OD([('t', 'real'), ('curve', CURVE), ('kwargs', 'kwargs')]), kwargs={},
        returns=M,
        requires=['curve.degree >= 0', 'len(curve.ctrlpts) >= curve.degree + 1',
                  'len(curve.knotvector) == len(curve.ctrlpts) + curve.degree + 1',
                  SORTED_T.replace('knot_vector', 'curve.knotvector'),
                  'curve.knotvector[curve.degree] <= t', 't <= curve.knotvector[len(curve.ctrlpts)]',
                  'curve.knotvector[len(curve.ctrlpts) - 1] < curve.knotvector[len(curve.ctrlpts)]'],
        # exactly the degree+1 control points P[span-p .. span] of the knot span that contains t (`span` is the function's
        # local at the return; it is pinned down uniquely by the span postcondition, lemma.span_searches_agree)
        ensures=['len(result) == curve.degree + 1',
                 'curve.degree <= span and span <= len(curve.ctrlpts) - 1',
                 'curve.knotvector[span] <= t and (t < curve.knotvector[span + 1] or (t == curve.knotvector[len(curve.ctrlpts)] and span == len(curve.ctrlpts) - 1))',
                 'curve.knotvector[span] < curve.knotvector[span + 1]',
                 'forall(i, 0, curve.degree + 1, len(result[i]) == len(curve.ctrlpts[span - curve.degree + i]))',
                 'forall(i, 0, curve.degree + 1, forall(d, 0, len(result[i]), result[i][d] == curve.ctrlpts[span - curve.degree + i][d]))'],
        loops={0: dict(inv=['len(curve_ctrlpts) == curve.degree + 1', 'idx == span - curve.degree',
                            'curve.degree <= span and span <= len(curve.ctrlpts) - 1',
                            'forall(q, 0, i, len(curve_ctrlpts[q]) == len(curve.ctrlpts[idx + q]))',
                            'forall(q, 0, i, forall(d, 0, len(curve_ctrlpts[q]), curve_ctrlpts[q][d] == curve.ctrlpts[idx + q][d]))'])},
    ),
    'linalg.vector_generate': dict(
        props=['C16'],
        args=OD([('start_pt', V), ('end_pt', V), ('normalize', 'bool')]), defaults={'normalize': False},
        returns=V, locals={'ret_vec': V},
        requires=['len(start_pt) >= 1', 'len(start_pt) == len(end_pt)', 'not normalize'],
        raises={'ValueError': 'len(start_pt) == 0 or len(end_pt) == 0'},
        ensures=['len(result) == len(start_pt)', 'forall(q, 0, len(start_pt), result[q] == end_pt[q] - start_pt[q])'],
        loops={0: dict(inv=['len(ret_vec) == _i0', 'forall(q, 0, _i0, ret_vec[q] == end_pt[q] - start_pt[q])'])},
    ),
    'linalg.point_mid': dict(
        props=['C16'],
        args=OD([('pt1', V), ('pt2', V)]), returns=V,
        requires=['len(pt1) >= 1', 'len(pt1) == len(pt2)'],
        raises={'ValueError': 'len(pt1) != len(pt2)'},
        imports={'vector_generate': 'linalg.vector_generate', 'vector_multiply': 'linalg.vector_multiply',
                 'point_translate': 'linalg.point_translate'},
        ensures=['len(result) == len(pt1)', "forall(q, 0, len(pt1), result[q] * 2 == pt1[q] + pt2[q])"],
    ),
}
