"""Element-wise lifts (helpers.find_spans, helpers.basis_functions) and all-degrees variant.  C01, C03."""
from collections import OrderedDict as OD
from .helpers_span import SPAN_REQ, SORTED_T
from .helpers_basis import FUNCS, AXIOMS, BF

REQ_NO_KNOT = [r for r in SPAN_REQ if 'knot ' not in r and ' knot' not in r and not r.startswith('knot ')]
REQ_NO_KNOT = ['degree >= 0', 'num_ctrlpts >= degree + 1', 'len(knot_vector) == num_ctrlpts + degree + 1', SORTED_T,
               'knot_vector[num_ctrlpts - 1] < knot_vector[num_ctrlpts]']

CONTRACTS = {
    'helpers.find_spans': dict(
        props=['C01', 'C03'],
        args=OD([('degree', 'int'), ('knot_vector', ('list', 'real')), ('num_ctrlpts', 'int'), ('knots', ('list', 'real')),
                 ('func', ('func', 'helpers.find_span_linear'))]),
        returns=('list', 'int'), locals={'spans': ('list', 'int')},
        requires=REQ_NO_KNOT + ['forall(q, 0, len(knots), knot_vector[degree] <= knots[q] and knots[q] <= knot_vector[num_ctrlpts])'],
        ensures=['len(result) == len(knots)',
                 'forall(q, 0, len(knots), degree <= result[q] and result[q] <= num_ctrlpts - 1 and '
                 'knot_vector[result[q]] <= knots[q] and knot_vector[result[q]] < knot_vector[result[q] + 1] and '
                 '(knots[q] < knot_vector[result[q] + 1] or (knots[q] == knot_vector[num_ctrlpts] and result[q] == num_ctrlpts - 1)))'],
        loops={0: dict(inv=['len(spans) == _i0',
                            'forall(q, 0, _i0, degree <= spans[q] and spans[q] <= num_ctrlpts - 1 and '
                            'knot_vector[spans[q]] <= knots[q] and knot_vector[spans[q]] < knot_vector[spans[q] + 1] and '
                            '(knots[q] < knot_vector[spans[q] + 1] or (knots[q] == knot_vector[num_ctrlpts] and spans[q] == num_ctrlpts - 1)))'])},
    ),
    'helpers.find_spans#binsearch': dict(
        target='helpers.find_spans',
        props=['C01', 'C03', 'C17'],
        args=OD([('degree', 'int'), ('knot_vector', ('list', 'real')), ('num_ctrlpts', 'int'), ('knots', ('list', 'real')),
                 ('func', ('func', 'helpers.find_span_binsearch'))]),
        returns=('list', 'int'), locals={'spans': ('list', 'int')},
        requires=REQ_NO_KNOT + ['degree >= 1',
                                'forall(q, 0, len(knots), knot_vector[degree] <= knots[q] and knots[q] <= knot_vector[num_ctrlpts])',
                                "forall(q, 0, len(knots), knots[q] == knot_vector[num_ctrlpts] or knot_vector[num_ctrlpts] - knots[q] > '1/100000')"],
        ensures=['len(result) == len(knots)',
                 'forall(q, 0, len(knots), degree <= result[q] and result[q] <= num_ctrlpts - 1 and '
                 'knot_vector[result[q]] <= knots[q] and knot_vector[result[q]] < knot_vector[result[q] + 1] and '
                 '(knots[q] < knot_vector[result[q] + 1] or (knots[q] == knot_vector[num_ctrlpts] and result[q] == num_ctrlpts - 1)))'],
        loops={0: dict(inv=['len(spans) == _i0',
                            'forall(q, 0, _i0, degree <= spans[q] and spans[q] <= num_ctrlpts - 1 and '
                            'knot_vector[spans[q]] <= knots[q] and knot_vector[spans[q]] < knot_vector[spans[q] + 1] and '
                            '(knots[q] < knot_vector[spans[q] + 1] or (knots[q] == knot_vector[num_ctrlpts] and spans[q] == num_ctrlpts - 1)))'])},
    ),

    'helpers.basis_functions': dict(
        props=['C01', 'C03'],
        args=OD([('degree', 'int'), ('knot_vector', ('list', 'real')), ('spans', ('list', 'int')), ('knots', ('list', 'real'))]),
        returns=('list', ('list', 'real')), locals={'basis': ('list', ('list', 'real'))},
        funcs=FUNCS,
        requires=['degree >= 0', SORTED_T, 'len(spans) == len(knots)',
                  'forall(q, 0, len(spans), spans[q] >= 0 and spans[q] + 1 - degree >= 0 and spans[q] + degree < len(knot_vector) and '
                  'spans[q] + 1 < len(knot_vector) and knot_vector[spans[q]] < knot_vector[spans[q] + 1] and '
                  'knot_vector[spans[q]] <= knots[q] and knots[q] <= knot_vector[spans[q] + 1])'],
        ensures=['len(result) == len(knots)',
                 'forall(q, 0, len(knots), len(result[q]) == degree + 1)',
                 'forall(q, 0, len(knots), forall(r, 0, degree + 1, result[q][r] == Bf(knot_vector, spans[q], knots[q], spans[q] - degree + r, degree) '
                 'and result[q][r] >= 0))',
                 'forall(q, 0, len(knots), sum(result[q], 0, degree + 1) == 1)'],
        loops={0: dict(inv=['len(basis) == _i0',
                            'forall(q, 0, _i0, len(basis[q]) == degree + 1)',
                            'forall(q, 0, _i0, forall(r, 0, degree + 1, basis[q][r] == Bf(knot_vector, spans[q], knots[q], spans[q] - degree + r, degree) '
                            'and basis[q][r] >= 0))',
                            'forall(q, 0, _i0, sum(basis[q], 0, degree + 1) == 1)'])},
    ),

    # all degrees 0..p at once: N[j][i] = B(span - i + j, i) for j <= i  (calls basis_function through its contract)
    'helpers.basis_function_all': dict(
        props=['C03'],
        args=OD([('degree', 'int'), ('knot_vector', ('list', 'real')), ('span', 'int'), ('knot', 'real')]),
        returns=('list', ('list', 'real')),
        funcs=FUNCS,
        requires=['degree >= 0', SORTED_T, 'span >= 0', 'span + 1 - degree >= 0', 'span + degree < len(knot_vector)',
                  'span + 1 < len(knot_vector)', 'knot_vector[span] < knot_vector[span + 1]',
                  'knot_vector[span] <= knot', 'knot <= knot_vector[span + 1]'],
        ensures=['len(result) == degree + 1',
                 'forall(j, 0, degree + 1, len(result[j]) == degree + 1)',
                 'forall(i, 0, degree + 1, forall(j, 0, i + 1, result[j][i] == Bf(knot_vector, span, knot, span - i + j, i)))'],
        loops={0: dict(inv=['len(N) == degree + 1', 'forall(j, 0, degree + 1, len(N[j]) == degree + 1)',
                            'forall(a, 0, i, forall(j, 0, a + 1, N[j][a] == Bf(knot_vector, span, knot, span - a + j, a)))']),
               1: dict(inv=['len(N) == degree + 1', 'forall(q, 0, degree + 1, len(N[q]) == degree + 1)',
                            'forall(a, 0, i, forall(q, 0, a + 1, N[q][a] == Bf(knot_vector, span, knot, span - a + q, a)))',
                            'forall(q, 0, j, N[q][i] == Bf(knot_vector, span, knot, span - i + q, i))'])},
    ),
}
