"""Contracts for the knot-span search and multiplicity count (helpers.py:20-137).  C01, C03, C04, C17, C18."""
from collections import OrderedDict as OD

SORTED = 'forall(i, 0, len(knot_vector) - 1, knot_vector[i] <= knot_vector[i + 1])'
# transitive form (what sortedness means; the adjacent form above follows from it and vice versa by induction —
# the contracts require the transitive form so that no induction is needed inside the function proofs)
SORTED_T = 'forall(i, 0, len(knot_vector), forall(j, i, len(knot_vector), knot_vector[i] <= knot_vector[j]))'

SPAN_REQ = ['degree >= 0', 'num_ctrlpts >= degree + 1', 'len(knot_vector) == num_ctrlpts + degree + 1', SORTED_T,
            'knot_vector[degree] <= knot', 'knot <= knot_vector[num_ctrlpts]',
            # the domain has positive length (otherwise there is no non-empty knot interval to return); the domain-end knot
            # may be repeated to its left (unclamped vectors)
            'knot_vector[degree] < knot_vector[num_ctrlpts]']
# the unique non-empty half-open interval containing the parameter; at the domain end the last non-empty one
SPAN_ENS = ['degree <= result', 'result <= num_ctrlpts - 1', 'knot_vector[result] <= knot',
            'knot < knot_vector[result + 1] or (knot == knot_vector[num_ctrlpts] and knot_vector[result + 1] == knot_vector[num_ctrlpts])',
            'knot_vector[result] < knot_vector[result + 1]']

CONTRACTS = {
    'helpers.find_span_linear': dict(
        props=['C01', 'C02', 'C03', 'C04', 'C05', 'C06', 'C07', 'C17', 'C18'],
        args=OD([('degree', 'int'), ('knot_vector', ('list', 'real')), ('num_ctrlpts', 'int'), ('knot', 'real'),
                 ('kwargs', 'kwargs')]),
        returns='int',
        requires=SPAN_REQ,
        ensures=SPAN_ENS,
        loops={0: dict(inv=['degree + 1 <= span', 'span <= num_ctrlpts', 'forall(i, degree, span, knot_vector[i] <= knot)'],
                       decreases='num_ctrlpts - span'),
               # walking back over empty intervals (only ever entered at the domain end)
               1: dict(inv=['degree + 1 <= span', 'span <= num_ctrlpts', 'knot_vector[span - 1] <= knot',
                            'knot < knot_vector[span] or (knot == knot_vector[num_ctrlpts] and knot_vector[span] == knot_vector[num_ctrlpts])'],
                       decreases='span')},
    ),
    'helpers.find_span_binsearch': dict(
        props=['C01', 'C02', 'C03', 'C17'],
        args=OD([('degree', 'int'), ('knot_vector', ('list', 'real')), ('num_ctrlpts', 'int'), ('knot', 'real'),
                 ('kwargs', 'kwargs')]),
        returns='int',
        # tol_separated at the domain end: the code identifies every u within 1e-5 of U[n] with U[n]
        requires=SPAN_REQ + ['degree >= 1', "knot == knot_vector[num_ctrlpts] or knot_vector[num_ctrlpts] - knot > '1/100000'"],
        ensures=SPAN_ENS,
        loops={0: dict(inv=['degree <= n', 'n <= num_ctrlpts - 1', 'knot == knot_vector[num_ctrlpts]',
                            'knot_vector[n + 1] == knot_vector[num_ctrlpts]'],
                       decreases='n'),
               1: dict(inv=['degree <= low', 'low < high', 'high <= num_ctrlpts', 'low <= mid', 'mid <= high',
                            'knot_vector[low] <= knot', 'knot < knot_vector[high]',
                            'implies(mid == low, high == low + 1)'],
                       decreases='2 * (high - low) + (1 if mid == high else 0)')},
    ),
    'helpers.find_multiplicity': dict(
        props=['C03', 'C04', 'C05', 'C06', 'C07'],
        args=OD([('knot', 'real'), ('knot_vector', ('list', 'real')), ('kwargs', 'kwargs')]),
        returns='int',
        requires=[],
        funcs={'cnt': (['int'], 'int')},
        # cnt(k) = number of q < k with |knot - U[q]| <= tol  (definition by recursion on k)
        axioms=['cnt(0) == 0',
                "forall(q, 0, len(knot_vector), cnt(q + 1) == cnt(q) + (1 if abs(knot - knot_vector[q]) <= '1/10000000' else 0))"],
        ensures=['result == cnt(len(knot_vector))', '0 <= result', 'result <= len(knot_vector)'],
        loops={0: dict(inv=['mult == cnt(_i0)', '0 <= mult', 'mult <= _i0'])},
    ),
}
