"""Contract for evaluators.SurfaceEvaluator.evaluate (A3.5, evaluators.py:259-308).   C01, C13, C18.

Proved for every degree pair, net size and sample size: the flat control-point index  idx_v + l + size_v*(idx_u + k)  (the
layout convention v fastest, then u) is always inside the net, the result has len(u samples) * len(v samples) points in
u-outer / v-inner order, every point has the right dimension, and the per-coordinate hull fact
   (P[q][d0] <= c for every control point)  ==>  (result[k][d0] <= c for every evaluated point)
carried through both accumulation loops (a convex combination of convex combinations)."""
from collections import OrderedDict as OD
from .helpers_basis import FUNCS

V, VI = ('list', 'real'), ('list', 'int')
DD = ('dict', OD([('degree', VI), ('knotvector', ('list', V)), ('control_points', ('list', V)), ('size', VI),
                  ('sample_size', VI), ('dimension', 'int'), ('rational', 'bool'), ('pdimension', 'int'), ('precision', 'int')]))
DEG, KV, CP, SZ, SS = ("datadict['degree']", "datadict['knotvector']", "datadict['control_points']", "datadict['size']",
                       "datadict['sample_size']")
DIM = "(datadict['dimension'] + (1 if datadict['rational'] else 0))"
TOL = "'1/10000000'"
NS = lambda d: "(1 if (abs(g_start[%s] - g_stop[%s]) <= %s or %s[%s] <= 1) else %s[%s])" % (d, d, TOL, SS, d, SS, d)

PER_DIR = lambda d: [
    '%s[%s] >= 0' % (DEG, d), '%s[%s] >= %s[%s] + 1' % (SZ, d, DEG, d),
    'len(%s[%s]) == %s[%s] + %s[%s] + 1' % (KV, d, SZ, d, DEG, d),
    'forall(a, 0, len(%s[%s]), forall(b, a, len(%s[%s]), %s[%s][a] <= %s[%s][b]))' % (KV, d, KV, d, KV, d, KV, d),
    '%s[%s][%s[%s] - 1] < %s[%s][%s[%s]]' % (KV, d, SZ, d, KV, d, SZ, d),
    '%s[%s][%s[%s]] <= g_start[%s] and g_start[%s] <= %s[%s][%s[%s]]' % (KV, d, DEG, d, d, d, KV, d, SZ, d),
    '%s[%s][%s[%s]] <= g_stop[%s] and g_stop[%s] <= %s[%s][%s[%s]]' % (KV, d, DEG, d, d, d, KV, d, SZ, d)]

SPAN_OK = lambda sp, d: ('len(%s[%s]) == %s and forall(q, 0, len(%s[%s]), %s[%s] <= %s[%s][q] and %s[%s][q] <= %s[%s] - 1)'
                         % (sp, d, NS(d), sp, d, DEG, d, sp, d, sp, d, SZ, d))
BASIS_OK = lambda bs, sp, d: ('len(%s[%s]) == len(%s[%s]) and forall(q, 0, len(%s[%s]), len(%s[%s][q]) == %s[%s] + 1 and '
                              'sum(%s[%s][q], 0, %s[%s] + 1) == 1 and forall(r, 0, %s[%s] + 1, %s[%s][q][r] >= 0))'
                              % (bs, d, sp, d, bs, d, bs, d, DEG, d, bs, d, DEG, d, DEG, d, bs, d))

CONTRACTS = {
    'evaluators.SurfaceEvaluator.evaluate': dict(
        props=['C01', 'C13', 'C18'],
        args=OD([('self', 'self'), ('datadict', DD), ('kwargs', 'kwargs')]),
        ghost_args=OD([('g_start', V), ('g_stop', V), ('d0', 'int'), ('c', 'real')]),
        kwargs={'start': '$g_start', 'stop': '$g_stop'},
        self={'_span_func': ('func', 'helpers.find_span_linear')},
        funcs=FUNCS,
        returns=('list', V),
        replay_call="lambda m, a: m.SurfaceEvaluator().evaluate(a['datadict'], start=a['g_start'], stop=a['g_stop'])",
        locals={'spans': ('list', VI), 'basis': ('list', ('list', V)), 'eval_points': ('list', V)},
        requires=["datadict['pdimension'] == 2", 'len(g_start) == 2', 'len(g_stop) == 2',
                  'len(%s) == 2' % DEG, 'len(%s) == 2' % KV, 'len(%s) == 2' % SZ, 'len(%s) == 2' % SS,
                  "datadict['dimension'] >= 1",
                  'len(%s) == %s[0] * %s[1]' % (CP, SZ, SZ),
                  'forall(q, 0, len(%s), len(%s[q]) == %s)' % (CP, CP, DIM),
                  '0 <= d0', 'd0 < %s' % DIM, 'forall(q, 0, len(%s), %s[q][d0] <= c)' % (CP, CP)]
                 + PER_DIR('0') + PER_DIR('1'),
        ensures=['len(result) == %s * %s' % (NS('0'), NS('1')),
                 'forall(k, 0, len(result), len(result[k]) == %s)' % DIM,
                 'forall(k, 0, len(result), result[k][d0] <= c)'],
        loops={
            0: dict(inv=['len(spans) == 2', 'len(basis) == 2', 'pdimension == 2',
                         'implies(idx >= 1, %s and %s)' % (SPAN_OK('spans', '0'), BASIS_OK('basis', 'spans', '0')),
                         'implies(idx >= 2, %s and %s)' % (SPAN_OK('spans', '1'), BASIS_OK('basis', 'spans', '1'))]),
            1: dict(inv=['len(eval_points) == i * len(spans[1])',
                         'forall(q, 0, len(eval_points), len(eval_points[q]) == dimension and eval_points[q][d0] <= c)']),
            2: dict(inv=['len(eval_points) == i * len(spans[1]) + j', 'idx_u == spans[0][i] - degree[0]',
                         'forall(q, 0, len(eval_points), len(eval_points[q]) == dimension and eval_points[q][d0] <= c)']),
            3: dict(inv=['len(spt) == dimension', 'idx_v == spans[1][j] - degree[1]', 'idx_u == spans[0][i] - degree[0]',
                         'spt[d0] <= c * sum(basis[0][i], 0, k)']),
            4: dict(inv=['len(temp) == dimension', 'temp[d0] <= c * sum(basis[1][j], 0, l)',
                         '0 <= idx_u + k', 'idx_u + k <= size[0] - 1', 'size[1] * (idx_u + k) <= size[1] * (size[0] - 1)',
                         'size[1] * (idx_u + k) >= 0'],
                    hints=['basis[1][j][head_l] >= 0',
                           'basis[1][j][head_l] * ctrlpts[idx_v + head_l + (size[1] * (idx_u + k))][d0] <= basis[1][j][head_l] * c',
                           'c * sum(basis[1][j], 0, head_l + 1) == c * sum(basis[1][j], 0, head_l) + c * basis[1][j][head_l]']),
        },
        rounds=2, timeout_ms=120000, chunks=14,
    ),

    # the volume evaluator: layout index  iv + dv + size_v*(iu + du + size_u*(iw + dw))  (v fastest, then u, then w)
    'evaluators.VolumeEvaluator.evaluate': dict(
        props=['C01', 'C13', 'C18'],
        args=OD([('self', 'self'), ('datadict', DD), ('kwargs', 'kwargs')]),
        ghost_args=OD([('g_start', V), ('g_stop', V), ('d0', 'int'), ('c', 'real')]),
        kwargs={'start': '$g_start', 'stop': '$g_stop'},
        self={'_span_func': ('func', 'helpers.find_span_linear')},
        funcs=FUNCS,
        returns=('list', V),
        replay_call="lambda m, a: m.VolumeEvaluator().evaluate(a['datadict'], start=a['g_start'], stop=a['g_stop'])",
        locals={'spans': ('list', VI), 'basis': ('list', ('list', V)), 'eval_points': ('list', V)},
        requires=["datadict['pdimension'] == 3", 'len(g_start) == 3', 'len(g_stop) == 3',
                  'len(%s) == 3' % DEG, 'len(%s) == 3' % KV, 'len(%s) == 3' % SZ, 'len(%s) == 3' % SS,
                  "datadict['dimension'] >= 1",
                  'len(%s) == %s[0] * %s[1] * %s[2]' % (CP, SZ, SZ, SZ),
                  'forall(q, 0, len(%s), len(%s[q]) == %s)' % (CP, CP, DIM),
                  '0 <= d0', 'd0 < %s' % DIM, 'forall(q, 0, len(%s), %s[q][d0] <= c)' % (CP, CP)]
                 + PER_DIR('0') + PER_DIR('1') + PER_DIR('2'),
        ensures=['len(result) == %s * %s * %s' % (NS('0'), NS('1'), NS('2')),
                 'forall(k, 0, len(result), len(result[k]) == %s)' % DIM,
                 'forall(k, 0, len(result), result[k][d0] <= c)'],
        loops={
            0: dict(inv=['len(spans) == 3', 'len(basis) == 3', 'pdimension == 3',
                         'implies(idx >= 1, %s and %s)' % (SPAN_OK('spans', '0'), BASIS_OK('basis', 'spans', '0')),
                         'implies(idx >= 2, %s and %s)' % (SPAN_OK('spans', '1'), BASIS_OK('basis', 'spans', '1')),
                         'implies(idx >= 3, %s and %s)' % (SPAN_OK('spans', '2'), BASIS_OK('basis', 'spans', '2'))]),
            1: dict(inv=['len(eval_points) == i * (len(spans[1]) * len(spans[2]))',
                         'forall(q, 0, len(eval_points), len(eval_points[q]) == dimension and eval_points[q][d0] <= c)']),
            2: dict(inv=['len(eval_points) == i * (len(spans[1]) * len(spans[2])) + j * len(spans[2])', 'iu == spans[0][i] - degree[0]',
                         'forall(q, 0, len(eval_points), len(eval_points[q]) == dimension and eval_points[q][d0] <= c)']),
            3: dict(inv=['len(eval_points) == i * (len(spans[1]) * len(spans[2])) + j * len(spans[2]) + k',
                         'iu == spans[0][i] - degree[0]', 'iv == spans[1][j] - degree[1]',
                         'forall(q, 0, len(eval_points), len(eval_points[q]) == dimension and eval_points[q][d0] <= c)']),
            4: dict(inv=['len(spt) == dimension', 'iu == spans[0][i] - degree[0]', 'iv == spans[1][j] - degree[1]',
                         'iw == spans[2][k] - degree[2]', 'spt[d0] <= c * sum(basis[0][i], 0, du)']),
            5: dict(inv=['len(temp2) == dimension', 'temp2[d0] <= c * sum(basis[1][j], 0, dv)',
                         '0 <= iu + du', 'iu + du <= size[0] - 1']),
            6: dict(inv=['len(temp) == dimension', 'temp[d0] <= c * sum(basis[2][k], 0, dw)',
                         '0 <= iv + dv', 'iv + dv <= size[1] - 1', '0 <= iu + du', 'iu + du <= size[0] - 1'],
                    hints=['0 <= iw + head_dw', 'iw + head_dw <= size[2] - 1',
                           'size[0] * (iw + head_dw) >= 0', 'size[0] * (iw + head_dw) <= size[0] * (size[2] - 1)',
                           'iu + du + (size[0] * (iw + head_dw)) <= size[0] * size[2] - 1',
                           'iu + du + (size[0] * (iw + head_dw)) >= 0',
                           'size[1] * (iu + du + (size[0] * (iw + head_dw))) <= size[1] * (size[0] * size[2] - 1)',
                           'size[1] * (iu + du + (size[0] * (iw + head_dw))) >= 0',
                           'basis[2][k][head_dw] >= 0',
                           'basis[2][k][head_dw] * ctrlpts[iv + dv + (size[1] * (iu + du + (size[0] * (iw + head_dw))))][d0] <= basis[2][k][head_dw] * c',
                           'c * sum(basis[2][k], 0, head_dw + 1) == c * sum(basis[2][k], 0, head_dw) + c * basis[2][k][head_dw]']),
        },
        rounds=2, timeout_ms=120000, chunks=14,
    ),
}
