"""Contract for evaluators.SurfaceEvaluator.evaluate (A3.5, evaluators.py:259-308).   C01, C13, C18.

Proved for every degree pair, net size and sample size: the flat control-point index  idx_v + l + size_v*(idx_u + k)  (the
layout convention v fastest, then u) is always inside the net, the result has len(u samples) * len(v samples) points in
u-outer / v-inner order, every point has the right dimension, and the per-coordinate hull fact
   (P[q][d0] <= c for every control point)  ==>  (result[k][d0] <= c for every evaluated point)
carried through both accumulation loops (a convex combination of convex combinations)."""
from collections import OrderedDict as OD
from .helpers_basis import FUNCS

V, VI = ('list', 'real'), ('list', 'int')
DD = ('dict', OD([('degree', VI), ('knotvector', ('list', V)), ('control_points', ('list', V)), ('size', VI),
                  ('sample_size', VI), ('dimension', 'int'), ('rational', 'bool'), ('pdimension', 'int'), ('precision', 'int')]))
DEG, KV, CP, SZ, SS = ("datadict['degree']", "datadict['knotvector']", "datadict['control_points']", "datadict['size']",
                       "datadict['sample_size']")
DIM = "(datadict['dimension'] + (1 if datadict['rational'] else 0))"
TOL = "'1/10000000'"
NS = lambda d: "(1 if (abs(g_start[%s] - g_stop[%s]) <= %s or %s[%s] <= 1) else %s[%s])" % (d, d, TOL, SS, d, SS, d)

PER_DIR = lambda d: [
    '%s[%s] >= 0' % (DEG, d), '%s[%s] >= %s[%s] + 1' % (SZ, d, DEG, d),
    'len(%s[%s]) == %s[%s] + %s[%s] + 1' % (KV, d, SZ, d, DEG, d),
    'forall(a, 0, len(%s[%s]), forall(b, a, len(%s[%s]), %s[%s][a] <= %s[%s][b]))' % (KV, d, KV, d, KV, d, KV, d),
    '%s[%s][%s[%s] - 1] < %s[%s][%s[%s]]' % (KV, d, SZ, d, KV, d, SZ, d),
    '%s[%s][%s[%s]] <= g_start[%s] and g_start[%s] <= %s[%s][%s[%s]]' % (KV, d, DEG, d, d, d, KV, d, SZ, d),
    '%s[%s][%s[%s]] <= g_stop[%s] and g_stop[%s] <= %s[%s][%s[%s]]' % (KV, d, DEG, d, d, d, KV, d, SZ, d)]

SPAN_OK = lambda sp, d: ('len(%s[%s]) == %s and forall(q, 0, len(%s[%s]), %s[%s] <= %s[%s][q] and %s[%s][q] <= %s[%s] - 1)'
                         % (sp, d, NS(d), sp, d, DEG, d, sp, d, sp, d, SZ, d))
BASIS_OK = lambda bs, sp, d: ('len(%s[%s]) == len(%s[%s]) and forall(q, 0, len(%s[%s]), len(%s[%s][q]) == %s[%s] + 1 and '
                              'sum(%s[%s][q], 0, %s[%s] + 1) == 1 and forall(r, 0, %s[%s] + 1, %s[%s][q][r] >= 0))'
                              % (bs, d, sp, d, bs, d, bs, d, DEG, d, bs, d, DEG, d, DEG, d, bs, d))

CONTRACTS = {
    'evaluators.SurfaceEvaluator.evaluate': dict(
        props=['C01'],
        args=OD([('self', 'self'), ('datadict', DD), ('kwargs', 'kwargs')]),
        ghost_args=OD([('g_start', V), ('g_stop', V), ('d0', 'int'), ('c', 'real')]),
        kwargs={'start': '$g_start', 'stop': '$g_stop'},
        self={'_span_func': ('func', 'helpers.find_span_linear')},
        funcs=FUNCS,
        returns=('list', V),
        replay_call="lambda m, a: m.SurfaceEvaluator().evaluate(a['datadict'], start=a['g_start'], stop=a['g_stop'])",
        locals={'spans': ('list', VI), 'basis': ('list', ('list', V)), 'eval_points': ('list', V)},
        requires=["datadict['pdimension'] == 2", 'len(g_start) == 2', 'len(g_stop) == 2',
                  'len(%s) == 2' % DEG, 'len(%s) == 2' % KV, 'len(%s) == 2' % SZ, 'len(%s) == 2' % SS,
                  "datadict['dimension'] >= 1",
                  'len(%s) == %s[0] * %s[1]' % (CP, SZ, SZ),
                  'forall(q, 0, len(%s), len(%s[q]) == %s)' % (CP, CP, DIM),
                  '0 <= d0', 'd0 < %s' % DIM, 'forall(q, 0, len(%s), %s[q][d0] <= c)' % (CP, CP)]
                 + PER_DIR('0') + PER_DIR('1'),
        ensures=['len(result) == %s * %s' % (NS('0'), NS('1')),
                 'forall(k, 0, len(result), len(result[k]) == %s)' % DIM,
                 'forall(k, 0, len(result), result[k][d0] <= c)'],
        loops={
            0: dict(inv=['len(spans) == 2', 'len(basis) == 2', 'pdimension == 2',
                         'implies(idx >= 1, %s and %s)' % (SPAN_OK('spans', '0'), BASIS_OK('basis', 'spans', '0')),
                         'implies(idx >= 2, %s and %s)' % (SPAN_OK('spans', '1'), BASIS_OK('basis', 'spans', '1'))]),
            1: dict(inv=['len(eval_points) == i * len(spans[1])',
                         'forall(q, 0, len(eval_points), len(eval_points[q]) == dimension and eval_points[q][d0] <= c)']),
            2: dict(inv=['len(eval_points) == i * len(spans[1]) + j', 'idx_u == spans[0][i] - degree[0]',
                         'forall(q, 0, len(eval_points), len(eval_points[q]) == dimension and eval_points[q][d0] <= c)']),
            3: dict(inv=['len(spt) == dimension', 'idx_v == spans[1][j] - degree[1]', 'idx_u == spans[0][i] - degree[0]',
                         'spt[d0] <= c * sum(basis[0][i], 0, k)']),
            4: dict(inv=['len(temp) == dimension', 'temp[d0] <= c * sum(basis[1][j], 0, l)',
                         '0 <= idx_u + k', 'idx_u + k <= size[0] - 1', 'size[1] * (idx_u + k) <= size[1] * (size[0] - 1)',
                         'size[1] * (idx_u + k) >= 0'],
                    hints=['idx_v + head_l + (size[1] * (idx_u + k)) >= 0',
                           'idx_v + head_l + (size[1] * (idx_u + k)) <= len(ctrlpts) - 1',
                           'len(ctrlpts[idx_v + head_l + (size[1] * (idx_u + k))]) == dimension',
                           'basis[1][j][head_l] >= 0',
                           'basis[1][j][head_l] * ctrlpts[idx_v + head_l + (size[1] * (idx_u + k))][d0] <= basis[1][j][head_l] * c',
                           'c * sum(basis[1][j], 0, head_l + 1) == c * sum(basis[1][j], 0, head_l) + c * basis[1][j][head_l]']),
        },
        rounds=2, timeout_ms=120000, chunks=14,
    ),

    # the volume evaluator: layout index  iv + dv + size_v*(iu + du + size_u*(iw + dw))  (v fastest, then u, then w)
    'evaluators.VolumeEvaluator.evaluate': dict(
        props=['C01'],
        args=OD([('self', 'self'), ('datadict', DD), ('kwargs', 'kwargs')]),
        ghost_args=OD([('g_start', V), ('g_stop', V), ('d0', 'int'), ('c', 'real')]),
        kwargs={'start': '$g_start', 'stop': '$g_stop'},
        self={'_span_func': ('func', 'helpers.find_span_linear')},
        funcs=FUNCS,
        returns=('list', V),
        replay_call="lambda m, a: m.VolumeEvaluator().evaluate(a['datadict'], start=a['g_start'], stop=a['g_stop'])",
        locals={'spans': ('list', VI), 'basis': ('list', ('list', V)), 'eval_points': ('list', V)},
        requires=["datadict['pdimension'] == 3", 'len(g_start) == 3', 'len(g_stop) == 3',
                  'len(%s) == 3' % DEG, 'len(%s) == 3' % KV, 'len(%s) == 3' % SZ, 'len(%s) == 3' % SS,
                  "datadict['dimension'] >= 1",
                  'len(%s) == %s[0] * %s[1] * %s[2]' % (CP, SZ, SZ, SZ),
                  'forall(q, 0, len(%s), len(%s[q]) == %s)' % (CP, CP, DIM),
                  '0 <= d0', 'd0 < %s' % DIM, 'forall(q, 0, len(%s), %s[q][d0] <= c)' % (CP, CP)]
                 + PER_DIR('0') + PER_DIR('1') + PER_DIR('2'),
        ensures=['len(result) == %s * %s * %s' % (NS('0'), NS('1'), NS('2')),
                 'forall(k, 0, len(result), len(result[k]) == %s)' % DIM,
                 'forall(k, 0, len(result), result[k][d0] <= c)'],
        loops={
            0: dict(inv=['len(spans) == 3', 'len(basis) == 3', 'pdimension == 3',
                         'implies(idx >= 1, %s and %s)' % (SPAN_OK('spans', '0'), BASIS_OK('basis', 'spans', '0')),
                         'implies(idx >= 2, %s and %s)' % (SPAN_OK('spans', '1'), BASIS_OK('basis', 'spans', '1')),
                         'implies(idx >= 3, %s and %s)' % (SPAN_OK('spans', '2'), BASIS_OK('basis', 'spans', '2'))]),
            1: dict(inv=['len(eval_points) == i * (len(spans[1]) * len(spans[2]))',
                         'forall(q, 0, len(eval_points), len(eval_points[q]) == dimension and eval_points[q][d0] <= c)']),
            2: dict(inv=['len(eval_points) == i * (len(spans[1]) * len(spans[2])) + j * len(spans[2])', 'iu == spans[0][i] - degree[0]',
                         'forall(q, 0, len(eval_points), len(eval_points[q]) == dimension and eval_points[q][d0] <= c)']),
            3: dict(inv=['len(eval_points) == i * (len(spans[1]) * len(spans[2])) + j * len(spans[2]) + k',
                         'iu == spans[0][i] - degree[0]', 'iv == spans[1][j] - degree[1]',
                         'forall(q, 0, len(eval_points), len(eval_points[q]) == dimension and eval_points[q][d0] <= c)']),
            4: dict(inv=['len(spt) == dimension', 'iu == spans[0][i] - degree[0]', 'iv == spans[1][j] - degree[1]',
                         'iw == spans[2][k] - degree[2]', 'spt[d0] <= c * sum(basis[0][i], 0, du)']),
            5: dict(inv=['len(temp2) == dimension', 'temp2[d0] <= c * sum(basis[1][j], 0, dv)',
                         '0 <= iu + du', 'iu + du <= size[0] - 1']),
            6: dict(inv=['len(temp) == dimension', 'temp[d0] <= c * sum(basis[2][k], 0, dw)',
                         '0 <= iv + dv', 'iv + dv <= size[1] - 1', '0 <= iu + du', 'iu + du <= size[0] - 1'],
                    entry_hints=['0 <= iw + dw', 'iw + dw <= size[2] - 1',
                                 'size[0] * (iw + dw) >= 0', 'size[0] * (iw + dw) <= size[0] * (size[2] - 1)',
                                 'iu + du + (size[0] * (iw + dw)) <= size[0] * size[2] - 1',
                                 'iu + du + (size[0] * (iw + dw)) >= 0',
                                 'size[1] * (iu + du + (size[0] * (iw + dw))) <= size[1] * (size[0] * size[2] - 1)',
                                 'size[1] * (iu + du + (size[0] * (iw + dw))) >= 0',
                                 'iv + dv + (size[1] * (iu + du + (size[0] * (iw + dw)))) >= 0',
                                 'iv + dv + (size[1] * (iu + du + (size[0] * (iw + dw)))) <= len(ctrlpts) - 1'],
                    hints=['0 <= iw + head_dw', 'iw + head_dw <= size[2] - 1',
                           'size[0] * (iw + head_dw) >= 0', 'size[0] * (iw + head_dw) <= size[0] * (size[2] - 1)',
                           'iu + du + (size[0] * (iw + head_dw)) <= size[0] * size[2] - 1',
                           'iu + du + (size[0] * (iw + head_dw)) >= 0',
                           'size[1] * (iu + du + (size[0] * (iw + head_dw))) <= size[1] * (size[0] * size[2] - 1)',
                           'size[1] * (iu + du + (size[0] * (iw + head_dw))) >= 0',
                           'iv + dv + (size[1] * (iu + du + (size[0] * (iw + head_dw)))) >= 0',
                           'iv + dv + (size[1] * (iu + du + (size[0] * (iw + head_dw)))) <= len(ctrlpts) - 1',
                           'len(ctrlpts[iv + dv + (size[1] * (iu + du + (size[0] * (iw + head_dw))))]) == dimension',
                           'basis[2][k][head_dw] >= 0',
                           'basis[2][k][head_dw] * ctrlpts[iv + dv + (size[1] * (iu + du + (size[0] * (iw + head_dw))))][d0] <= basis[2][k][head_dw] * c',
                           'c * sum(basis[2][k], 0, head_dw + 1) == c * sum(basis[2][k], 0, head_dw) + c * basis[2][k][head_dw]']),
        },
        rounds=2, timeout_ms=120000, chunks=14,
    ),
}

# ---- hull of the ACTIVE control points (C18) and the layout convention (C13), stated where each point is produced.
# Ghost bounding sequences, non-decreasing in the index:   lu[a] + lv[b] <= P(a, b)[d0] <= cu[a] + cv[b]   where P(a, b) is the
# control point the layout convention puts at  b + size_v * a.  Asserted at the append site of every evaluated point:
#     lu[span_u - p] + lv[span_v - q]  <=  S(u_i, v_j)[d0]  <=  cu[span_u] + cv[span_v]
# An index outside [span - degree, span] in either direction, or a transposed layout, cannot satisfy both for all such sequences.
MONO = lambda a: 'forall(x, 0, len(%s), forall(y, x, len(%s), %s[x] <= %s[y]))' % (a, a, a, a)
UB = '(cu[spans[0][i]] + cv[spans[1][j]])'
LB = '(lu[spans[0][i] - degree[0]] + lv[spans[1][j] - degree[1]])'
UBk = '(cu[idx_u + k] + cv[spans[1][j]])'
LBk = '(lu[idx_u + k] + lv[idx_v])'
PIJ = 'ctrlpts[idx_v + head_l + (size[1] * (idx_u + k))][d0]'
base = CONTRACTS['evaluators.SurfaceEvaluator.evaluate']
CONTRACTS['evaluators.SurfaceEvaluator.evaluate#active_hull'] = dict(
    base,
    target='evaluators.SurfaceEvaluator.evaluate',
    props=['C13', 'C18'],
    ghost_args=OD([('g_start', V), ('g_stop', V), ('d0', 'int'), ('cu', V), ('cv', V), ('lu', V), ('lv', V)]),
    replay_call=None,
    requires=[r for r in base['requires'] if '<= c)' not in r] + [
        'len(cu) == %s[0]' % SZ, 'len(lu) == %s[0]' % SZ, 'len(cv) == %s[1]' % SZ, 'len(lv) == %s[1]' % SZ,
        MONO('cu'), MONO('cv'), MONO('lu'), MONO('lv'),
        'forall(a, 0, len(cu), forall(b, 0, len(cv), %s[b + %s[1] * a][d0] <= cu[a] + cv[b]))' % (CP, SZ),
        'forall(a, 0, len(lu), forall(b, 0, len(lv), %s[b + %s[1] * a][d0] >= lu[a] + lv[b]))' % (CP, SZ)],
    ensures=base['ensures'][:2],
    loops={
        0: base['loops'][0],
        1: dict(inv=['len(eval_points) == i * len(spans[1])',
                     'forall(q, 0, len(eval_points), len(eval_points[q]) == dimension)']),
        2: dict(inv=['len(eval_points) == i * len(spans[1]) + j', 'idx_u == spans[0][i] - degree[0]',
                     'forall(q, 0, len(eval_points), len(eval_points[q]) == dimension)'],
                asserts=['eval_points[len(eval_points) - 1][d0] <= cu[spans[0][i]] + cv[spans[1][head_j]]',
                         'eval_points[len(eval_points) - 1][d0] >= lu[spans[0][i] - degree[0]] + lv[spans[1][head_j] - degree[1]]']),
        3: dict(inv=['len(spt) == dimension', 'idx_v == spans[1][j] - degree[1]', 'idx_u == spans[0][i] - degree[0]',
                     'spt[d0] <= %s * sum(basis[0][i], 0, k)' % UB, 'spt[d0] >= %s * sum(basis[0][i], 0, k)' % LB],
                hints=['basis[0][i][head_k] >= 0',
                       'cu[idx_u + head_k] <= cu[spans[0][i]]', 'lu[idx_u + head_k] >= lu[idx_u]',
                       'temp[d0] <= %s' % UB, 'temp[d0] >= %s' % LB,
                       'basis[0][i][head_k] * temp[d0] <= basis[0][i][head_k] * %s' % UB,
                       'basis[0][i][head_k] * temp[d0] >= basis[0][i][head_k] * %s' % LB,
                       '%s * sum(basis[0][i], 0, head_k + 1) == %s * sum(basis[0][i], 0, head_k) + %s * basis[0][i][head_k]' % (UB, UB, UB),
                       '%s * sum(basis[0][i], 0, head_k + 1) == %s * sum(basis[0][i], 0, head_k) + %s * basis[0][i][head_k]' % (LB, LB, LB)]),
        4: dict(inv=['len(temp) == dimension',
                     'temp[d0] <= %s * sum(basis[1][j], 0, l)' % UBk, 'temp[d0] >= %s * sum(basis[1][j], 0, l)' % LBk,
                     '0 <= idx_u + k', 'idx_u + k <= size[0] - 1', 'size[1] * (idx_u + k) <= size[1] * (size[0] - 1)',
                     'size[1] * (idx_u + k) >= 0'],
                hints=['idx_v + head_l + (size[1] * (idx_u + k)) >= 0',
                       'idx_v + head_l + (size[1] * (idx_u + k)) <= len(ctrlpts) - 1',
                       'len(ctrlpts[idx_v + head_l + (size[1] * (idx_u + k))]) == dimension',
                       'basis[1][j][head_l] >= 0',
                       '%s <= cu[idx_u + k] + cv[idx_v + head_l]' % PIJ, '%s >= lu[idx_u + k] + lv[idx_v + head_l]' % PIJ,
                       'cv[idx_v + head_l] <= cv[spans[1][j]]', 'lv[idx_v + head_l] >= lv[idx_v]',
                       'basis[1][j][head_l] * %s <= basis[1][j][head_l] * %s' % (PIJ, UBk),
                       'basis[1][j][head_l] * %s >= basis[1][j][head_l] * %s' % (PIJ, LBk),
                       '%s * sum(basis[1][j], 0, head_l + 1) == %s * sum(basis[1][j], 0, head_l) + %s * basis[1][j][head_l]' % (UBk, UBk, UBk),
                       '%s * sum(basis[1][j], 0, head_l + 1) == %s * sum(basis[1][j], 0, head_l) + %s * basis[1][j][head_l]' % (LBk, LBk, LBk)]),
    },
)

# ---- the same for volumes:  lu[a] + lv[b] + lw[e] <= P(a, b, e)[d0] <= cu[a] + cv[b] + cw[e]  with P(a, b, e) at  b + size_v*(a + size_u*e)
vU = '(cu[spans[0][i]] + cv[spans[1][j]] + cw[spans[2][k]])'
vL = '(lu[iu] + lv[iv] + lw[iw])'
vU5 = '(cu[iu + du] + cv[spans[1][j]] + cw[spans[2][k]])'
vL5 = '(lu[iu + du] + lv[iv] + lw[iw])'
vU6 = '(cu[iu + du] + cv[iv + dv] + cw[spans[2][k]])'
vL6 = '(lu[iu + du] + lv[iv + dv] + lw[iw])'
vP = 'ctrlpts[iv + dv + (size[1] * (iu + du + (size[0] * (iw + head_dw))))][d0]'
DISTR = lambda B, S, h: '%s * sum(%s, 0, %s + 1) == %s * sum(%s, 0, %s) + %s * %s[%s]' % (B, S, h, B, S, h, B, S, h)
vbase = CONTRACTS['evaluators.VolumeEvaluator.evaluate']
CONTRACTS['evaluators.VolumeEvaluator.evaluate#active_hull'] = dict(
    vbase,
    target='evaluators.VolumeEvaluator.evaluate',
    props=['C13', 'C18'],
    ghost_args=OD([('g_start', V), ('g_stop', V), ('d0', 'int'), ('cu', V), ('cv', V), ('cw', V), ('lu', V), ('lv', V), ('lw', V)]),
    replay_call=None,
    requires=[r for r in vbase['requires'] if '<= c)' not in r] + [
        'len(cu) == %s[0]' % SZ, 'len(lu) == %s[0]' % SZ, 'len(cv) == %s[1]' % SZ, 'len(lv) == %s[1]' % SZ,
        'len(cw) == %s[2]' % SZ, 'len(lw) == %s[2]' % SZ,
        MONO('cu'), MONO('cv'), MONO('cw'), MONO('lu'), MONO('lv'), MONO('lw'),
        'forall(a, 0, len(cu), forall(b, 0, len(cv), forall(e, 0, len(cw), %s[b + %s[1] * (a + %s[0] * e)][d0] <= cu[a] + cv[b] + cw[e])))' % (CP, SZ, SZ),
        'forall(a, 0, len(lu), forall(b, 0, len(lv), forall(e, 0, len(lw), %s[b + %s[1] * (a + %s[0] * e)][d0] >= lu[a] + lv[b] + lw[e])))' % (CP, SZ, SZ)],
    ensures=vbase['ensures'][:2],
    loops={
        0: vbase['loops'][0],
        1: dict(inv=['len(eval_points) == i * (len(spans[1]) * len(spans[2]))',
                     'forall(q, 0, len(eval_points), len(eval_points[q]) == dimension)']),
        2: dict(inv=['len(eval_points) == i * (len(spans[1]) * len(spans[2])) + j * len(spans[2])', 'iu == spans[0][i] - degree[0]',
                     'forall(q, 0, len(eval_points), len(eval_points[q]) == dimension)']),
        3: dict(inv=['len(eval_points) == i * (len(spans[1]) * len(spans[2])) + j * len(spans[2]) + k',
                     'iu == spans[0][i] - degree[0]', 'iv == spans[1][j] - degree[1]',
                     'forall(q, 0, len(eval_points), len(eval_points[q]) == dimension)'],
                asserts=['eval_points[len(eval_points) - 1][d0] <= cu[spans[0][i]] + cv[spans[1][j]] + cw[spans[2][head_k]]',
                         'eval_points[len(eval_points) - 1][d0] >= lu[spans[0][i] - degree[0]] + lv[spans[1][j] - degree[1]] + lw[spans[2][head_k] - degree[2]]']),
        4: dict(inv=['len(spt) == dimension', 'iu == spans[0][i] - degree[0]', 'iv == spans[1][j] - degree[1]',
                     'iw == spans[2][k] - degree[2]',
                     'spt[d0] <= %s * sum(basis[0][i], 0, du)' % vU, 'spt[d0] >= %s * sum(basis[0][i], 0, du)' % vL],
                hints=['basis[0][i][head_du] >= 0', 'cu[iu + head_du] <= cu[spans[0][i]]', 'lu[iu + head_du] >= lu[iu]',
                       'temp2[d0] <= %s' % vU, 'temp2[d0] >= %s' % vL,
                       'basis[0][i][head_du] * temp2[d0] <= basis[0][i][head_du] * %s' % vU,
                       'basis[0][i][head_du] * temp2[d0] >= basis[0][i][head_du] * %s' % vL,
                       DISTR(vU, 'basis[0][i]', 'head_du'), DISTR(vL, 'basis[0][i]', 'head_du')]),
        5: dict(inv=['len(temp2) == dimension', '0 <= iu + du', 'iu + du <= size[0] - 1',
                     'temp2[d0] <= %s * sum(basis[1][j], 0, dv)' % vU5, 'temp2[d0] >= %s * sum(basis[1][j], 0, dv)' % vL5],
                hints=['basis[1][j][head_dv] >= 0', 'cv[iv + head_dv] <= cv[spans[1][j]]', 'lv[iv + head_dv] >= lv[iv]',
                       'temp[d0] <= %s' % vU5, 'temp[d0] >= %s' % vL5,
                       'basis[1][j][head_dv] * temp[d0] <= basis[1][j][head_dv] * %s' % vU5,
                       'basis[1][j][head_dv] * temp[d0] >= basis[1][j][head_dv] * %s' % vL5,
                       DISTR(vU5, 'basis[1][j]', 'head_dv'), DISTR(vL5, 'basis[1][j]', 'head_dv')]),
        6: dict(inv=['len(temp) == dimension', '0 <= iv + dv', 'iv + dv <= size[1] - 1', '0 <= iu + du', 'iu + du <= size[0] - 1',
                     'temp[d0] <= %s * sum(basis[2][k], 0, dw)' % vU6, 'temp[d0] >= %s * sum(basis[2][k], 0, dw)' % vL6],
                # the index chain once more at the start of the body, where the subscript itself is checked
                entry_hints=[h.replace('head_dw', 'dw') for h in vbase['loops'][6]['hints'][:10]],
                hints=vbase['loops'][6]['hints'][:12] + [
                       '%s <= cu[iu + du] + cv[iv + dv] + cw[iw + head_dw]' % vP, '%s >= lu[iu + du] + lv[iv + dv] + lw[iw + head_dw]' % vP,
                       'cw[iw + head_dw] <= cw[spans[2][k]]', 'lw[iw + head_dw] >= lw[iw]',
                       'basis[2][k][head_dw] * %s <= basis[2][k][head_dw] * %s' % (vP, vU6),
                       'basis[2][k][head_dw] * %s >= basis[2][k][head_dw] * %s' % (vP, vL6),
                       DISTR(vU6, 'basis[2][k]', 'head_dw'), DISTR(vL6, 'basis[2][k]', 'head_dw')]),
    },
)
del base, vbase
