"""Contracts for the control-point part of A5.1: helpers.knot_insertion_alpha and the structural / frame part of
helpers.knot_insertion (helpers.py:496-582).   C04.

What Engine A proves here for every degree, size, multiplicity and insertion count: every index is in range, no division
by zero (the alpha denominators are knot differences across the insertion span), the result has exactly len(ctrlpts)+num
points, and the control points outside the affected window are copied unchanged (result[i] == ctrlpts[i] for
i <= span-degree, result[i+num] == ctrlpts[i] for i >= span-s).  That the recomputed window preserves the shape is Boehm's
identity (an induction over the degree no SMT solver finds): it is decided per shape by Engine B (harness/c04.py)."""
from collections import OrderedDict as OD

V = ('list', 'real')
M = ('list', ('list', 'real'))
SORTED = 'forall(a, 0, len(knotvector), forall(b, a, len(knotvector), knotvector[a] <= knotvector[b]))'

EQPT = lambda a, ia, b, ib: ('len(%s[%s]) == len(%s[%s]) and forall(d, 0, len(%s[%s]), %s[%s][d] == %s[%s][d])'
                             % (a, ia, b, ib, b, ib, a, ia, b, ib))

CONTRACTS = {
    'helpers.knot_insertion_alpha': dict(
        props=['C04', 'C06', 'C07'],
        args=OD([('u', 'real'), ('knotvector', V), ('span', 'int'), ('idx', 'int'), ('leg', 'int')]),
        returns='real',
        requires=['0 <= leg + idx', 'idx + span + 1 < len(knotvector)', 'leg + idx < len(knotvector)', '0 <= idx + span + 1',
                  'knotvector[idx + span + 1] != knotvector[leg + idx]'],
        ensures=['result * (knotvector[idx + span + 1] - knotvector[leg + idx]) == u - knotvector[leg + idx]'],
    ),
    'helpers.knot_insertion': dict(
        props=['C04', 'C06', 'C07'],
        args=OD([('degree', 'int'), ('knotvector', V), ('ctrlpts', M), ('u', 'real'), ('kwargs', 'kwargs')]),
        ghost_args=OD([('g_num', 'int'), ('g_s', 'int'), ('g_span', 'int'), ('dim', 'int')]),
        kwargs={'num': '$g_num', 's': '$g_s', 'span': '$g_span'},
        returns=M,
        requires=['degree >= 1', 'len(ctrlpts) >= degree + 1', 'len(knotvector) == len(ctrlpts) + degree + 1', SORTED,
                  'degree <= g_span', 'g_span <= len(ctrlpts) - 1',
                  'knotvector[g_span] <= u', 'u < knotvector[g_span + 1]',
                  '0 <= g_s', 'g_num >= 1', 'g_num + g_s <= degree', 'g_span - g_s >= 0',
                  'dim >= 1', 'forall(q, 0, len(ctrlpts), len(ctrlpts[q]) == dim)'],
        ensures=['len(result) == len(ctrlpts) + g_num',
                 # the points in front of and behind the affected window are copied unchanged
                 'forall(i, 0, g_span - degree + 1, %s)' % EQPT('result', 'i', 'ctrlpts', 'i'),
                 'forall(i, g_span - g_s, len(ctrlpts), %s)' % EQPT('result', 'i + g_num', 'ctrlpts', 'i')],
        loops={
            0: dict(inv=['len(ctrlpts_new) == nq', 'nq == np + num', 'np == len(ctrlpts)', 'len(temp) == degree + 1',
                         'forall(q, 0, i, %s)' % EQPT('ctrlpts_new', 'q', 'ctrlpts', 'q')]),
            1: dict(inv=['len(ctrlpts_new) == nq', 'nq == np + num', 'np == len(ctrlpts)', 'len(temp) == degree + 1',
                         'forall(q, 0, k - degree + 1, %s)' % EQPT('ctrlpts_new', 'q', 'ctrlpts', 'q'),
                         'forall(q, k - s, i, %s)' % EQPT('ctrlpts_new', 'q + num', 'ctrlpts', 'q')]),
            2: dict(inv=['len(ctrlpts_new) == nq', 'len(temp) == degree + 1',
                         'forall(q, 0, i, len(temp[q]) == dim)']),
            3: dict(inv=['len(ctrlpts_new) == nq', 'nq == np + num', 'np == len(ctrlpts)', 'len(temp) == degree + 1',
                         'forall(q, 0, degree - s + 1, len(temp[q]) == dim)',
                         'forall(q, 0, k - degree + 1, %s)' % EQPT('ctrlpts_new', 'q', 'ctrlpts', 'q'),
                         'forall(q, k - s, np, %s)' % EQPT('ctrlpts_new', 'q + num', 'ctrlpts', 'q')]),
            4: dict(inv=['len(temp) == degree + 1', 'forall(q, 0, degree - s + 1, len(temp[q]) == dim)',
                         'L == k - degree + j']),
            6: dict(inv=['len(ctrlpts_new) == nq', 'nq == np + num', 'np == len(ctrlpts)', 'len(temp) == degree + 1',
                         'L == k - degree + num',
                         'forall(q, 0, k - degree + 1, %s)' % EQPT('ctrlpts_new', 'q', 'ctrlpts', 'q'),
                         'forall(q, k - s, np, %s)' % EQPT('ctrlpts_new', 'q + num', 'ctrlpts', 'q')]),
        },
        rounds=3, timeout_ms=20000, chunks=6,
    ),
}
