"""Contracts for linalg.linspace (linalg.py:694) and knotvector.generate / normalize / check (knotvector.py).  C01, C03, C16."""
from collections import OrderedDict as OD

SORTED_ADJ = 'forall(i, 0, len(%s) - 1, %s[i] <= %s[i + 1])'

CONTRACTS = {
    'linalg.linspace': dict(
        props=['C01', 'C03', 'C16'],
        args=OD([('start', 'real'), ('stop', 'real'), ('num', 'int'), ('decimals', 'int')]),
        defaults={'decimals': 18},
        returns=('list', 'real'),
        requires=[],
        ensures=["implies(abs(start - stop) <= '1/10000000', len(result) == 1 and result[0] == start)",
                 "implies(abs(start - stop) > '1/10000000' and num <= 1, len(result) == 1 and result[0] == start)",
                 "implies(abs(start - stop) > '1/10000000' and num > 1, len(result) == num)",
                 # evenly spaced, stated division-free:  result[x] * (num-1) == start*(num-1) + x*(stop-start)
                 "implies(abs(start - stop) > '1/10000000' and num > 1, forall(x, 0, num, "
                 "result[x] * real(num - 1) == start * real(num - 1) + real(x) * (stop - start)))",
                 # every sample lies between start and stop
                 "forall(x, 0, len(result), (start <= result[x] and result[x] <= stop) or (stop <= result[x] and result[x] <= start))",
                 # starts and ends exactly on the interval ends
                 "implies(abs(start - stop) > '1/10000000' and num > 1, result[0] == start and result[num - 1] == stop)"],
    ),
    'knotvector.check': dict(
        props=['C03'],
        args=OD([('degree', 'int'), ('knot_vector', ('list', 'real')), ('num_ctrlpts', 'int')]),
        returns='bool',
        requires=['len(knot_vector) >= 1'],
        raises={'ValueError': 'len(knot_vector) == 0'},
        # accepted iff the length matches and the vector is non-decreasing (both directions)
        ensures=['implies(result, len(knot_vector) == degree + num_ctrlpts + 1)',
                 'implies(result, ' + SORTED_ADJ % (('knot_vector',) * 3) + ')',
                 'implies(len(knot_vector) == degree + num_ctrlpts + 1 and ' + SORTED_ADJ % (('knot_vector',) * 3) + ', result)'],
        loops={0: dict(inv=['forall(q, 0, _i0 - 1, knot_vector[q] <= knot_vector[q + 1])',
                            'implies(_i0 >= 1, prev_knot == knot_vector[_i0 - 1])',
                            'implies(_i0 == 0, prev_knot == knot_vector[0])',
                            'len(knot_vector) == degree + num_ctrlpts + 1'])},
    ),
    'knotvector.normalize': dict(
        props=['C03'],
        args=OD([('knot_vector', ('list', 'real')), ('decimals', 'int')]),
        defaults={'decimals': 18},
        returns=('list', 'real'),
        requires=['len(knot_vector) >= 1', 'knot_vector[0] != knot_vector[len(knot_vector) - 1]'],
        raises={'ValueError': 'len(knot_vector) == 0'},
        # affine map onto [0,1]:  result[i] * (U[-1]-U[0]) == U[i]-U[0]
        ensures=['len(result) == len(knot_vector)',
                 'forall(i, 0, len(knot_vector), result[i] * (knot_vector[len(knot_vector) - 1] - knot_vector[0]) == knot_vector[i] - knot_vector[0])',
                 'result[0] == 0', 'result[len(knot_vector) - 1] == 1',
                 # order preserving when the vector runs upwards
                 'implies(knot_vector[0] < knot_vector[len(knot_vector) - 1], forall(i, 0, len(knot_vector), forall(j, 0, len(knot_vector), '
                 'implies(knot_vector[i] <= knot_vector[j], result[i] <= result[j]))))'],
    ),
    'knotvector.generate': dict(
        props=['C03'],
        args=OD([('degree', 'int'), ('num_ctrlpts', 'int'), ('kwargs', 'kwargs')]),
        kwargs={}, rounds=4,
        imports={'linspace': 'linalg.linspace'},
        returns=('list', 'real'),
        requires=['degree >= 1', 'num_ctrlpts >= degree + 1'],
        raises={'ValueError': 'degree == 0 or num_ctrlpts == 0'},
        ensures=['len(result) == degree + num_ctrlpts + 1',
                 # end multiplicities degree+1
                 'forall(i, 0, degree + 1, result[i] == 0)',
                 'forall(i, num_ctrlpts, num_ctrlpts + degree + 1, result[i] == 1)',
                 # evenly spaced interior
                 'forall(i, 0, num_ctrlpts - degree + 1, result[degree + i] * real(num_ctrlpts - degree) == real(i))',
                 SORTED_ADJ % (('result',) * 3)],
    ),
    'knotvector.generate#unclamped': dict(
        target='knotvector.generate',
        props=['C03'],
        args=OD([('degree', 'int'), ('num_ctrlpts', 'int'), ('kwargs', 'kwargs')]),
        kwargs={'clamped': False}, rounds=4,
        imports={'linspace': 'linalg.linspace'},
        returns=('list', 'real'),
        requires=['degree >= 1', 'num_ctrlpts >= 1'],
        raises={'ValueError': 'degree == 0 or num_ctrlpts == 0'},
        ensures=['len(result) == degree + num_ctrlpts + 1',
                 'forall(i, 0, degree + num_ctrlpts + 1, result[i] * real(degree + num_ctrlpts) == real(i))',
                 'result[0] == 0', 'result[degree + num_ctrlpts] == 1',
                 SORTED_ADJ % (('result',) * 3)],
    ),
}
