"""Contract for abstract.SplineGeometry.__eq__ (abstract.py:331-378).   C19.

`self` and `other` are objects with the attributes the method reads (`pdimension` and `rational` are properties: they are
declared as attributes of the model objects).  tol = 10 ** (-min(precision_self, precision_other)) is the positive real
pow10(-min(..)) (A4: only its positivity and its symmetry in the two objects are used).

Proved for every parametric dimension, size, degree, number of knots and control points:
  * "equal ONLY IF": a True result implies same parametric dimension and rationality, equal sizes and degrees, knot
    vectors of equal lengths and all knots within tol, control points of equal dimension and all coordinates within tol;
  * conversely those conditions imply True (so == is decided by a condition that is symmetric in the two objects: symmetry);
  * reflexivity is the case other = self of the converse."""
from collections import OrderedDict as OD

VI, M = ('list', 'int'), ('list', ('list', 'real'))
ATTRS = OD([('_pdim', 'int'), ('_degree', VI), ('_knot_vector', M), ('_control_points', M), ('_control_points_size', VI),
            ('_precision', 'int'), ('pdimension', 'int'), ('rational', 'bool')])
TOL = 'pow10(0 - min(self._precision, other._precision))'
SAME = lambda a: ('forall(i, 0, len(self.%s), len(self.%s[i]) == len(other.%s[i]) and '
                  'forall(j, 0, len(self.%s[i]), abs(self.%s[i][j] - other.%s[i][j]) < %s))' % (a, a, a, a, a, a, TOL))
COND = ['self.pdimension == other.pdimension', 'self.rational == other.rational',
        'forall(i, 0, len(self._control_points_size), self._control_points_size[i] == other._control_points_size[i])',
        'forall(i, 0, len(self._degree), self._degree[i] == other._degree[i])',
        SAME('_knot_vector'), SAME('_control_points')]

KV = lambda i, j: 'abs(self._knot_vector[%s][%s] - other._knot_vector[%s][%s]) < tol' % (i, j, i, j)
CP = lambda i, j: 'abs(self._control_points[%s][%s] - other._control_points[%s][%s]) < tol' % (i, j, i, j)

CONTRACTS = {
    'abstract.SplineGeometry.__eq__': dict(
        props=['C19'],
        args=OD([('self', ('obj', ATTRS)), ('other', ('obj', ATTRS))]),
        # ghost flag: `same` = "the two shapes satisfy the equality conditions" (for the converse direction)
        ghost_args=OD([('same', 'bool')]),
        returns='bool',
        replay_call=("lambda m, a: m.SplineGeometry.__eq__("
                     "type('A', (), {k.split('.', 1)[1]: v for k, v in a.items() if k.startswith('self.')})(), "
                     "type('B', (), {k.split('.', 1)[1]: v for k, v in a.items() if k.startswith('other.')})())"),
        funcs={'pow10': (['int'], 'real')},
        locals={'chk_degree': ('list', 'bool'), 'chk_kv': ('list', 'bool'), 'chk_ctrlpts': ('list', 'bool'), 'chk': ('list', 'bool')},
        # class invariants of the two shapes (the per-direction arrays have one entry per parametric direction)
        requires=['len(self._degree) == len(other._degree)', 'len(self._knot_vector) == len(other._knot_vector)',
                  'len(self._control_points_size) == len(other._control_points_size)',
                  'len(self._control_points) == len(other._control_points)']
                 + ['implies(same, %s)' % c for c in COND],
        ensures=['implies(result, %s)' % c for c in COND] + ['implies(same, result)'],
        loops={
            0: dict(inv=['forall(i, 0, _i0, self._control_points_size[i] == other._control_points_size[i])']),
            1: dict(inv=['len(chk_degree) == _i1',
                         'forall(i, 0, _i1, implies(chk_degree[i], self._degree[i] == other._degree[i]))',
                         'implies(same, forall(i, 0, _i1, chk_degree[i]))']),
            2: dict(inv=['len(chk_kv) == _i2',
                         'forall(i, 0, _i2, len(self._knot_vector[i]) == len(other._knot_vector[i]))',
                         'forall(i, 0, _i2, forall(j, 0, len(self._knot_vector[i]), implies(chk_kv[i], %s)))' % KV('i', 'j'),
                         'implies(same, forall(i, 0, _i2, chk_kv[i]))']),
            3: dict(inv=['len(chk) == _i3', 'forall(j, 0, _i3, chk[j] == (abs(sk[j] - ok[j]) < tol))']),
            4: dict(inv=['len(chk_ctrlpts) == _i4',
                         'forall(i, 0, _i4, len(self._control_points[i]) == len(other._control_points[i]))',
                         'forall(i, 0, _i4, forall(j, 0, len(self._control_points[i]), implies(chk_ctrlpts[i], %s)))' % CP('i', 'j'),
                         'implies(same, forall(i, 0, _i4, chk_ctrlpts[i]))']),
            5: dict(inv=['len(chk) == _i5', 'forall(j, 0, _i5, chk[j] == (abs(sk[j] - ok[j]) < tol))']),
        },
        rounds=3, timeout_ms=30000,
    ),
}
