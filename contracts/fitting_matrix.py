"""Contract for fitting._build_coeff_matrix (global interpolation, The NURBS Book pp. 364-370; fitting.py).   C11.

The interpolation matrix A[i][c] = N_{c,p}(params[i]).  Proved for every number of points and every degree:
  * every call of the span search and of basis_function is inside the callee's precondition (the parameter lies in a
    non-empty knot interval, the window span-degree .. span fits in the row), every subscript is in range;
  * the splice `matrix_a[i][span-degree:span+1] = basis` keeps the row length (the window has degree+1 entries);
  * shape: n rows of n entries; every entry is >= 0;
  * content: for every knot interval [U[s], U[s+1]) that contains params[i], row i is basis function values
    Bf(U, s, params[i], c, degree) inside the window s-degree..s and 0 outside it (uniqueness of the interval: from the
    span contract and sortedness)."""
from collections import OrderedDict as OD
from .helpers_basis import FUNCS

U = 'knotvector'
N = 'len(points)'
SORTED_T = 'forall(a, 0, len(%s), forall(b, a, len(%s), %s[a] <= %s[b]))' % (U, U, U, U)
ROW = lambda m, i, s: ('forall(c, 0, %s, %s[%s][c] == (Bf(knotvector, %s, params[%s], c, degree) '
                       'if (c >= %s - degree and c <= %s) else 0))' % (N, m, i, s, i, s, s))
CONTENT = lambda m, hi: ('forall(r, 0, %s, forall(s, degree, %s, implies(knotvector[s] <= params[r] and '
                         'params[r] < knotvector[s + 1], %s)))' % (hi, N, ROW(m, 'r', 's')))

CONTRACTS = {
    'fitting._build_coeff_matrix': dict(
        props=['C11'],
        args=OD([('degree', 'int'), ('knotvector', ('list', 'real')), ('params', ('list', 'real')),
                 ('points', ('list', ('list', 'real')))]),
        returns=('list', ('list', 'real')),
        funcs=FUNCS,
        # the spec function, executable for the native replay of a counter-model (Cox-de Boor, 0/0 = 0)
        pyfuncs={'Bf': "def Bf(U, s, u, i, d):\n"
                       "    if d == 0:\n        return 1.0 if i == s else 0.0\n"
                       "    f = (u - U[i]) / (U[i + d] - U[i]) if U[i + d] != U[i] else 0.0\n"
                       "    g = (U[i + d + 1] - u) / (U[i + d + 1] - U[i + 1]) if U[i + d + 1] != U[i + 1] else 0.0\n"
                       "    return f * Bf(U, s, u, i, d - 1) + g * Bf(U, s, u, i + 1, d - 1)\n"},
        requires=['degree >= 0', '%s >= degree + 1' % N, 'len(%s) == %s + degree + 1' % (U, N), SORTED_T,
                  '%s[degree] < %s[%s]' % (U, U, N), 'len(params) == %s' % N,
                  'forall(q, 0, %s, %s[degree] <= params[q] and params[q] <= %s[%s])' % (N, U, U, N)],
        ensures=['len(result) == %s' % N,
                 'forall(r, 0, %s, len(result[r]) == %s)' % (N, N),
                 'forall(r, 0, %s, forall(c, 0, %s, result[r][c] >= 0))' % (N, N),
                 CONTENT('result', N)],
        loops={0: dict(inv=['len(matrix_a) == %s' % N,
                            'forall(r, 0, %s, len(matrix_a[r]) == %s)' % (N, N),
                            'forall(r, 0, i, forall(c, 0, %s, matrix_a[r][c] >= 0))' % N,
                            'forall(r, i, %s, forall(c, 0, %s, matrix_a[r][c] == 0))' % (N, N),
                            CONTENT('matrix_a', 'i')])},
        timeout_ms=30000,
    ),
}
