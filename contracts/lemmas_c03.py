"""Ghost composition lemmas over the contracts (no code of their own: each calls real functions through their contracts)."""
from collections import OrderedDict as OD

CONTRACTS = {
    # "Generated knot vectors pass the validity check"
    'lemma.generate_passes_check': dict(
        props=['C03'],
        source='''
def lemma(degree, num_ctrlpts):
    kv = generate(degree, num_ctrlpts)
    return check(degree, kv, num_ctrlpts)
''',
        args=OD([('degree', 'int'), ('num_ctrlpts', 'int')]),
        imports={'generate': 'knotvector.generate', 'check': 'knotvector.check'},
        returns='bool',
        requires=['degree >= 1', 'num_ctrlpts >= degree + 1'],
        ensures=['result'],
    ),
    'lemma.generate_unclamped_passes_check': dict(
        props=['C03'],
        source='''
def lemma(degree, num_ctrlpts):
    kv = generate(degree, num_ctrlpts, clamped=False)
    return check(degree, kv, num_ctrlpts)
''',
        args=OD([('degree', 'int'), ('num_ctrlpts', 'int')]),
        imports={'generate': 'knotvector.generate#unclamped', 'check': 'knotvector.check'},
        returns='bool',
        requires=['degree >= 1', 'num_ctrlpts >= 1'],
        ensures=['result'],
    ),
    # "span search returns the unique interval": at most one r satisfies the span postcondition,
    # hence the linear and the binary search return the same value
    'lemma.span_searches_agree': dict(
        props=['C03', 'C17'],
        source='''
def lemma(degree, knot_vector, num_ctrlpts, knot):
    a = find_span_linear(degree, knot_vector, num_ctrlpts, knot)
    b = find_span_binsearch(degree, knot_vector, num_ctrlpts, knot)
    return a - b
''',
        args=OD([('degree', 'int'), ('knot_vector', ('list', 'real')), ('num_ctrlpts', 'int'), ('knot', 'real')]),
        imports={'find_span_linear': 'helpers.find_span_linear', 'find_span_binsearch': 'helpers.find_span_binsearch'},
        returns='int',
        requires=['degree >= 1', 'num_ctrlpts >= degree + 1', 'len(knot_vector) == num_ctrlpts + degree + 1',
                  'forall(i, 0, len(knot_vector), forall(j, i, len(knot_vector), knot_vector[i] <= knot_vector[j]))',
                  'knot_vector[degree] <= knot', 'knot <= knot_vector[num_ctrlpts]',
                  'knot_vector[num_ctrlpts - 1] < knot_vector[num_ctrlpts]',
                  "knot == knot_vector[num_ctrlpts] or knot_vector[num_ctrlpts] - knot > '1/100000'"],
        ensures=['result == 0'],
    ),
}
