"""Contracts for the parametrisation step of global interpolation / approximation (fitting.py:420-453) and the distance
helper under it (linalg.py point_distance).   C11 (data points are interpolated *at their chord-length or centripetal
parameter*: the parameters start at 0, end at 1 and strictly increase when consecutive data points are distinct), C18."""
from collections import OrderedDict as OD

V, VI, M = ('list', 'real'), ('list', 'int'), ('list', ('list', 'real'))

CONTRACTS = {
    'linalg.point_distance': dict(
        props=['C11', 'C18'],
        args=OD([('pt1', V), ('pt2', V)]), returns='real',
        requires=['len(pt1) >= 1', 'len(pt1) == len(pt2)'],
        raises={'ValueError': 'len(pt1) != len(pt2)'},
        funcs={'sq': ([V, 'int'], 'real')},
        # Euclidean distance: non-negative and at least every coordinate difference (zero only for equal points)
        ensures=['result >= 0',
                 'forall(q, 0, len(pt1), (pt2[q] - pt1[q]) * (pt2[q] - pt1[q]) <= result * result)'],
    ),
    'fitting.compute_params_curve': dict(
        props=['C11'],
        args=OD([('points', M), ('centripetal', 'bool')]), defaults={'centripetal': False},
        # ghost witness: wit[i] is a coordinate in which data point i differs from data point i-1
        ghost_args=OD([('wit', VI)]),
        funcs={'sq': ([V, 'int'], 'real')},
        returns=V, locals={'cds': V, 'uk': V},
        requires=['len(points) >= 2', 'len(points[0]) >= 1', 'forall(q, 0, len(points), len(points[q]) == len(points[0]))',
                  'len(wit) == len(points)',
                  'forall(q, 1, len(points), 0 <= wit[q] and wit[q] < len(points[0]) and points[q][wit[q]] != points[q - 1][wit[q]])'],
        ensures=['len(result) == len(points)', 'result[0] == 0', 'result[len(points) - 1] == 1',
                 'forall(q, 0, len(points) - 1, result[q] < result[q + 1])'],
        loops={0: dict(inv=['len(cds) == num_points + 1', 'cds[0] == 0', 'cds[num_points] == 1',
                            'forall(q, 1, i, cds[q] > 0)', 'sum(cds, 1, i) >= 0', 'implies(i >= 2, sum(cds, 1, i) > 0)'],
                       hints=['points[head_i][wit[head_i]] != points[head_i - 1][wit[head_i]]',
                              '(points[head_i - 1][wit[head_i]] - points[head_i][wit[head_i]]) * (points[head_i - 1][wit[head_i]] - points[head_i][wit[head_i]]) <= distance * distance',
                              'distance > 0', 'cds[head_i] > 0']),
               1: dict(inv=['len(uk) == num_points', 'd > 0', 'sum(cds, 0, i) == sum(cds, 1, i)',
                            'forall(q, 0, i, uk[q] * d == sum(cds, 0, q + 1))'])},
        rounds=3, timeout_ms=20000,
    ),
}
