"""Ghost lemmas about convex combinations (no code of their own).  C01, C18 and the lemma used by Engine B for rational
shapes ('L.weight_function_positive').  Each is a few lines of Python executed through the VC generator with a loop invariant
— the induction is over the accumulation loop, exactly the loop shape of the evaluators (evaluators.py:121-128)."""
from collections import OrderedDict as OD

CONTRACTS = {
    # N >= 0, sum N = 1, w > 0  ==>  sum N[i]*w[i] > 0      (weight function of a rational shape is positive)
    'lemma.weight_function_positive': dict(
        props=['C01', 'C02', 'C04', 'C09', 'C18'],
        source='''
def lemma(N, w):
    acc = 0.0
    for i in range(0, len(N)):
        acc = acc + N[i] * w[i]
    return acc
''',
        args=OD([('N', ('list', 'real')), ('w', ('list', 'real'))]),
        returns='real',
        requires=['len(N) == len(w)', 'len(N) >= 1', 'forall(q, 0, len(N), N[q] >= 0)', 'forall(q, 0, len(w), w[q] > 0)',
                  'sum(N, 0, len(N)) == 1'],
        ensures=['result > 0'],
        loops={0: dict(inv=['acc >= 0', 'sum(N, 0, i) >= 0', '(sum(N, 0, i) == 0 and acc == 0) or acc > 0'])},
    ),
    # hull lemma: every half-space  a.x <= c  that contains the active control points contains the evaluated point.
    # One coordinate of the half-space functional suffices (d[i] = a . P_i):  d[i] <= c for all i  ==>  sum N[i]*d[i] <= c
    'lemma.convex_combination_in_halfspace': dict(
        props=['C18'],
        source='''
def lemma(N, d, c):
    acc = 0.0
    for i in range(0, len(N)):
        acc = acc + N[i] * d[i]
    return acc
''',
        args=OD([('N', ('list', 'real')), ('d', ('list', 'real')), ('c', 'real')]),
        returns='real',
        requires=['len(N) == len(d)', 'forall(q, 0, len(N), N[q] >= 0)', 'forall(q, 0, len(d), d[q] <= c)',
                  'sum(N, 0, len(N)) == 1'],
        ensures=['result <= c'],
        loops={0: dict(inv=['acc <= c * sum(N, 0, i)']),
               },
    ),
}
