"""Contract for helpers.curve_deriv_cpts (Algorithm A3.3, helpers.py).   C02.

Proved for every dimension, degree, span window and derivative order: the result is a (deriv_order+1) x (r+1) x dim table,
row 0 is the window of control points, and every further entry obeys the defining recurrence of the derivative control
points (Eq. 3.8), stated division-free,
      P^(k)_i * (u_{i+p+1} - u_{i+k}) == (p - k + 1) * (P^(k-1)_{i+1} - P^(k-1)_i),
with the documented 0/0 = 0 convention where the knot difference vanishes; every index is in range and no division by
zero can happen.  That the recurrence *is* the k-th derivative's control net is the textbook definition (not re-derived)."""
from collections import OrderedDict as OD

V, M, T3 = ('list', 'real'), ('list', ('list', 'real')), ('list', ('list', ('list', 'real')))
R0 = 'rs[0]'
SHAPE = lambda a: ['len(%s) == deriv_order + 1' % a,
                   'forall(x, 0, len(%s), len(%s[x]) == rs[1] - rs[0] + 1)' % (a, a),
                   'forall(x, 0, len(%s), forall(y, 0, rs[1] - rs[0] + 1, len(%s[x][y]) == dim))' % (a, a)]
ROW0 = lambda a, hi: 'forall(y, 0, %s, forall(d, 0, dim, %s[0][y][d] == cpts[rs[0] + y][d]))' % (hi, a)
DEN = 'kv[rs[0] + y + degree + 1] - kv[rs[0] + y + x]'
REC_AT = lambda a, x, ylo, yhi: (
    'forall(y, %s, %s, forall(d, 0, dim, '
    'implies(%s == 0, %s[%s][y][d] == 0) and '
    'implies(%s != 0, %s[%s][y][d] * (%s) == real(degree - %s + 1) * (%s[%s - 1][y + 1][d] - %s[%s - 1][y][d]))))'
    % (ylo, yhi, DEN.replace('x', x), a, x, DEN.replace('x', x), a, x, DEN.replace('x', x), x, a, x, a, x))
REC = lambda a, xhi: 'forall(x, 1, %s, %s)' % (xhi, REC_AT(a, 'x', '0', 'rs[1] - rs[0] - x + 1'))

CONTRACTS = {
    'helpers.curve_deriv_cpts': dict(
        props=['C02'],
        args=OD([('dim', 'int'), ('degree', 'int'), ('kv', V), ('cpts', M), ('rs', ('tuple', 'int', 'int')), ('deriv_order', 'int')]),
        defaults={'deriv_order': 0},
        returns=T3, locals={'PK': T3},
        requires=['dim >= 1', 'degree >= 0', 'deriv_order >= 0', '0 <= rs[0]', 'rs[0] <= rs[1]', 'rs[1] < len(cpts)',
                  'forall(q, 0, len(cpts), len(cpts[q]) == dim)', 'len(kv) >= rs[1] + degree + 2'],
        ensures=SHAPE('result') + [ROW0('result', 'rs[1] - rs[0] + 1'), REC('result', 'deriv_order + 1')],
        loops={0: dict(inv=SHAPE('PK') + ['r == rs[1] - rs[0]', ROW0('PK', 'i')]),
               1: dict(inv=SHAPE('PK') + ['r == rs[1] - rs[0]', ROW0('PK', 'r + 1'), REC('PK', 'k')]),
               2: dict(inv=SHAPE('PK') + ['r == rs[1] - rs[0]', 'tmp == degree - k + 1', ROW0('PK', 'r + 1'), REC('PK', 'k'),
                                          REC_AT('PK', 'k', '0', 'i')])},
        rounds=3, timeout_ms=30000, chunks=8,
    ),
}
