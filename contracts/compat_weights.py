"""Contracts for the weighted / unweighted converters (compatibility.py:86-235) and their inverse-pair lemmas.  C09."""
from collections import OrderedDict as OD

LAST = lambda a, i: '%s[%s][len(%s[%s]) - 1]' % (a, i, a, i)

CONTRACTS = {
    'compatibility.combine_ctrlpts_weights': dict(
        props=['C09'],
        args=OD([('ctrlpts', ('list', ('list', 'real'))), ('weights', ('list', 'real'))]),
        returns=('list', ('list', 'real')), locals={'ctrlptsw': ('list', ('list', 'real'))},
        requires=['len(ctrlpts) == len(weights)'],
        ensures=['len(result) == len(ctrlpts)',
                 'forall(i, 0, len(ctrlpts), len(result[i]) == len(ctrlpts[i]) + 1)',
                 'forall(i, 0, len(ctrlpts), forall(d, 0, len(ctrlpts[i]), result[i][d] == ctrlpts[i][d] * weights[i]))',
                 'forall(i, 0, len(ctrlpts), result[i][len(ctrlpts[i])] == weights[i])'],
        loops={0: dict(inv=['len(ctrlptsw) == _i0',
                            'forall(i, 0, _i0, len(ctrlptsw[i]) == len(ctrlpts[i]) + 1)',
                            'forall(i, 0, _i0, forall(d, 0, len(ctrlpts[i]), ctrlptsw[i][d] == ctrlpts[i][d] * weights[i]))',
                            'forall(i, 0, _i0, ctrlptsw[i][len(ctrlpts[i])] == weights[i])'])},
    ),
    'compatibility.separate_ctrlpts_weights': dict(
        props=['C09'],
        args=OD([('ctrlptsw', ('list', ('list', 'real')))]),
        returns=('tuple', ('list', ('list', 'real')), ('list', 'real')),
        locals={'ctrlpts': ('list', ('list', 'real')), 'weights': ('list', 'real')},
        requires=['forall(i, 0, len(ctrlptsw), len(ctrlptsw[i]) >= 1)',
                  'forall(i, 0, len(ctrlptsw), %s != 0)' % LAST('ctrlptsw', 'i')],
        ensures=['len(result[0]) == len(ctrlptsw)', 'len(result[1]) == len(ctrlptsw)',
                 'forall(i, 0, len(ctrlptsw), len(result[0][i]) == len(ctrlptsw[i]) - 1)',
                 'forall(i, 0, len(ctrlptsw), forall(d, 0, len(ctrlptsw[i]) - 1, result[0][i][d] * %s == ctrlptsw[i][d]))' % LAST('ctrlptsw', 'i'),
                 'forall(i, 0, len(ctrlptsw), result[1][i] == %s)' % LAST('ctrlptsw', 'i')],
        loops={0: dict(inv=['len(ctrlpts) == _i0', 'len(weights) == _i0',
                            'forall(i, 0, _i0, len(ctrlpts[i]) == len(ctrlptsw[i]) - 1)',
                            'forall(i, 0, _i0, forall(d, 0, len(ctrlptsw[i]) - 1, ctrlpts[i][d] * %s == ctrlptsw[i][d]))' % LAST('ctrlptsw', 'i'),
                            'forall(i, 0, _i0, weights[i] == %s)' % LAST('ctrlptsw', 'i')])},
    ),
    'compatibility.generate_ctrlptsw': dict(
        props=['C09'],
        args=OD([('ctrlpts', ('list', ('list', 'real')))]),
        returns=('list', ('list', 'real')), locals={'new_ctrlpts': ('list', ('list', 'real'))},
        requires=['forall(i, 0, len(ctrlpts), len(ctrlpts[i]) >= 1)'],
        # (x, y, z, w) -> (x*w, y*w, z*w, w)
        ensures=['len(result) == len(ctrlpts)',
                 'forall(i, 0, len(ctrlpts), len(result[i]) == len(ctrlpts[i]))',
                 'forall(i, 0, len(ctrlpts), forall(d, 0, len(ctrlpts[i]) - 1, result[i][d] == ctrlpts[i][d] * %s))' % LAST('ctrlpts', 'i'),
                 'forall(i, 0, len(ctrlpts), %s == %s)' % (LAST('result', 'i'), LAST('ctrlpts', 'i'))],
        loops={0: dict(inv=['len(new_ctrlpts) == _i0',
                            'forall(i, 0, _i0, len(new_ctrlpts[i]) == len(ctrlpts[i]))',
                            'forall(i, 0, _i0, forall(d, 0, len(ctrlpts[i]) - 1, new_ctrlpts[i][d] == ctrlpts[i][d] * %s))' % LAST('ctrlpts', 'i'),
                            'forall(i, 0, _i0, %s == %s)' % (LAST('new_ctrlpts', 'i'), LAST('ctrlpts', 'i'))])},
    ),
    'compatibility.generate_ctrlpts_weights': dict(
        props=['C09'],
        args=OD([('ctrlpts', ('list', ('list', 'real')))]),
        returns=('list', ('list', 'real')), locals={'new_ctrlpts': ('list', ('list', 'real'))},
        requires=['forall(i, 0, len(ctrlpts), len(ctrlpts[i]) >= 1)',
                  'forall(i, 0, len(ctrlpts), %s != 0)' % LAST('ctrlpts', 'i')],
        # (x*w, y*w, z*w, w) -> (x, y, z, w), stated division-free
        ensures=['len(result) == len(ctrlpts)',
                 'forall(i, 0, len(ctrlpts), len(result[i]) == len(ctrlpts[i]))',
                 'forall(i, 0, len(ctrlpts), forall(d, 0, len(ctrlpts[i]) - 1, result[i][d] * %s == ctrlpts[i][d]))' % LAST('ctrlpts', 'i'),
                 'forall(i, 0, len(ctrlpts), %s == %s)' % (LAST('result', 'i'), LAST('ctrlpts', 'i'))],
        loops={0: dict(inv=['len(new_ctrlpts) == _i0',
                            'forall(i, 0, _i0, len(new_ctrlpts[i]) == len(ctrlpts[i]))',
                            'forall(i, 0, _i0, forall(d, 0, len(ctrlpts[i]) - 1, new_ctrlpts[i][d] * %s == ctrlpts[i][d]))' % LAST('ctrlpts', 'i'),
                            'forall(i, 0, _i0, %s == %s)' % (LAST('new_ctrlpts', 'i'), LAST('ctrlpts', 'i'))])},
    ),
    # inverse pairs (two-line lemmas over the contracts)
    'lemma.separate_after_combine': dict(
        props=['C09'],
        source='''
def lemma(ctrlpts, weights):
    pw = combine_ctrlpts_weights(ctrlpts, weights)
    return separate_ctrlpts_weights(pw)
''',
        imports={'combine_ctrlpts_weights': 'compatibility.combine_ctrlpts_weights',
                 'separate_ctrlpts_weights': 'compatibility.separate_ctrlpts_weights'},
        args=OD([('ctrlpts', ('list', ('list', 'real'))), ('weights', ('list', 'real'))]),
        returns=('tuple', ('list', ('list', 'real')), ('list', 'real')),
        requires=['len(ctrlpts) == len(weights)', 'forall(i, 0, len(weights), weights[i] != 0)'],
        ensures=['len(result[0]) == len(ctrlpts)', 'len(result[1]) == len(weights)',
                 'forall(i, 0, len(ctrlpts), len(result[0][i]) == len(ctrlpts[i]))',
                 'forall(i, 0, len(ctrlpts), forall(d, 0, len(ctrlpts[i]), result[0][i][d] == ctrlpts[i][d]))',
                 'forall(i, 0, len(weights), result[1][i] == weights[i])'],
        rounds=3,
    ),
    'lemma.combine_after_separate': dict(
        props=['C09'],
        source='''
def lemma(ctrlptsw):
    r = separate_ctrlpts_weights(ctrlptsw)
    return combine_ctrlpts_weights(r[0], r[1])
''',
        imports={'combine_ctrlpts_weights': 'compatibility.combine_ctrlpts_weights',
                 'separate_ctrlpts_weights': 'compatibility.separate_ctrlpts_weights'},
        args=OD([('ctrlptsw', ('list', ('list', 'real')))]),
        returns=('list', ('list', 'real')),
        requires=['forall(i, 0, len(ctrlptsw), len(ctrlptsw[i]) >= 1)',
                  'forall(i, 0, len(ctrlptsw), %s != 0)' % LAST('ctrlptsw', 'i')],
        ensures=['len(result) == len(ctrlptsw)',
                 'forall(i, 0, len(ctrlptsw), len(result[i]) == len(ctrlptsw[i]))',
                 'forall(i, 0, len(ctrlptsw), forall(d, 0, len(ctrlptsw[i]), result[i][d] == ctrlptsw[i][d]))'],
        rounds=3,
    ),
    'lemma.ctrlpts_weights_after_ctrlptsw': dict(
        props=['C09'],
        source='''
def lemma(ctrlpts):
    pw = generate_ctrlptsw(ctrlpts)
    return generate_ctrlpts_weights(pw)
''',
        imports={'generate_ctrlptsw': 'compatibility.generate_ctrlptsw',
                 'generate_ctrlpts_weights': 'compatibility.generate_ctrlpts_weights'},
        args=OD([('ctrlpts', ('list', ('list', 'real')))]),
        returns=('list', ('list', 'real')),
        requires=['forall(i, 0, len(ctrlpts), len(ctrlpts[i]) >= 1)',
                  'forall(i, 0, len(ctrlpts), %s != 0)' % LAST('ctrlpts', 'i')],
        ensures=['len(result) == len(ctrlpts)',
                 'forall(i, 0, len(ctrlpts), len(result[i]) == len(ctrlpts[i]))',
                 'forall(i, 0, len(ctrlpts), forall(d, 0, len(ctrlpts[i]), result[i][d] == ctrlpts[i][d]))'],
        rounds=3,
    ),
    'lemma.ctrlptsw_after_ctrlpts_weights': dict(
        props=['C09'],
        source='''
def lemma(ctrlpts):
    p = generate_ctrlpts_weights(ctrlpts)
    return generate_ctrlptsw(p)
''',
        imports={'generate_ctrlptsw': 'compatibility.generate_ctrlptsw',
                 'generate_ctrlpts_weights': 'compatibility.generate_ctrlpts_weights'},
        args=OD([('ctrlpts', ('list', ('list', 'real')))]),
        returns=('list', ('list', 'real')),
        requires=['forall(i, 0, len(ctrlpts), len(ctrlpts[i]) >= 1)',
                  'forall(i, 0, len(ctrlpts), %s != 0)' % LAST('ctrlpts', 'i')],
        ensures=['len(result) == len(ctrlpts)',
                 'forall(i, 0, len(ctrlpts), len(result[i]) == len(ctrlpts[i]))',
                 'forall(i, 0, len(ctrlpts), forall(d, 0, len(ctrlpts[i]), result[i][d] == ctrlpts[i][d]))'],
        rounds=3,
    ),
}
