"""Contracts for Bezier degree elevation / reduction (helpers.py degree_elevation, degree_reduction) and
linalg.binomial_coefficient.    C08.

Proved for every degree, elevation count and dimension: the result has degree + num + 1 (resp. degree) control points of the
input's dimension, the END POINTS ARE UNCHANGED, every index is in range, no divisor is zero, and a normal return implies
the input was a Bezier polygon (degree + 1 points) with a positive elevation count (resp. degree >= 2) - i.e. anything
else is rejected by an exception.  NOT proved here: that the interior points define the same curve (needs the Vandermonde
identity on binomial coefficients; covered by Engine B, bounded)."""
from collections import OrderedDict as OD

V, M = ('list', 'real'), ('list', ('list', 'real'))
ROWS = 'forall(q, 0, len(ctrlpts), len(ctrlpts[q]) == len(ctrlpts[0]))'

CONTRACTS = {
    'linalg.binomial_coefficient': dict(
        props=['C08'],
        args=OD([('k', 'int'), ('i', 'int')]), returns='real',
        requires=['k >= 0', 'i >= 0'],
        ensures=['implies(i > k, result == 0)', 'implies(i <= k, result > 0)',
                 'implies(i == 0, result == 1)', 'implies(i == k, result == 1)'],
    ),
    'helpers.degree_elevation': dict(
        props=['C08'],
        args=OD([('degree', 'int'), ('ctrlpts', M), ('kwargs', 'kwargs')]),
        ghost_args=OD([('g_num', 'int')]), kwargs={'num': '$g_num'},
        returns=M, locals={'pts_elev': M},
        requires=['degree >= 0', 'len(ctrlpts) >= 1', ROWS],
        raises={'GeomdlException': 'degree + 1 != len(ctrlpts) or g_num <= 0'},
        ensures=['degree + 1 == len(ctrlpts)', 'g_num >= 1',            # anything else is rejected
                 'len(result) == degree + 1 + g_num',
                 'forall(q, 0, len(result), len(result[q]) == len(ctrlpts[0]))',
                 'forall(d, 0, len(ctrlpts[0]), result[0][d] == ctrlpts[0][d])',
                 'forall(d, 0, len(ctrlpts[0]), result[degree + g_num][d] == ctrlpts[degree][d])'],
        loops={0: dict(inv=['len(pts_elev) == num_pts_elev', 'forall(q, 0, len(pts_elev), len(pts_elev[q]) == len(ctrlpts[0]))',
                            'implies(i >= 1, forall(d, 0, len(ctrlpts[0]), pts_elev[0][d] == ctrlpts[0][d]))',
                            'implies(i >= num_pts_elev, forall(d, 0, len(ctrlpts[0]), pts_elev[degree + num][d] == ctrlpts[degree][d]))',
                            'forall(q, i, num_pts_elev, forall(d, 0, len(ctrlpts[0]), pts_elev[q][d] == 0))']),
               1: dict(snapshot={'pe0': 'pts_elev'},
                       inv=['len(pts_elev) == num_pts_elev', 'forall(q, 0, len(pts_elev), len(pts_elev[q]) == len(ctrlpts[0]))',
                            'forall(q, 0, len(pts_elev), implies(q != i, forall(d, 0, len(ctrlpts[0]), pts_elev[q][d] == pe0[q][d])))',
                            'implies(i == 0 and j == start, forall(d, 0, len(ctrlpts[0]), pts_elev[0][d] == 0))',
                            'implies(i == 0 and j > start, forall(d, 0, len(ctrlpts[0]), pts_elev[0][d] == ctrlpts[0][d]))',
                            'implies(i == degree + num and j == start, forall(d, 0, len(ctrlpts[0]), pts_elev[i][d] == 0))',
                            'implies(i == degree + num and j > start, forall(d, 0, len(ctrlpts[0]), pts_elev[i][d] == ctrlpts[degree][d]))'])},
        rounds=3, timeout_ms=30000, chunks=6,
    ),
    'helpers.degree_reduction': dict(
        props=['C08'],
        args=OD([('degree', 'int'), ('ctrlpts', M), ('kwargs', 'kwargs')]), kwargs={},
        returns=M, locals={'pts_red': M},
        requires=['degree >= 0', 'len(ctrlpts) >= 1', ROWS],
        raises={'GeomdlException': 'degree + 1 != len(ctrlpts) or degree < 2'},
        ensures=['degree + 1 == len(ctrlpts)', 'degree >= 2',
                 'len(result) == degree',
                 'forall(q, 0, len(result), len(result[q]) == len(ctrlpts[0]))',
                 'forall(d, 0, len(ctrlpts[0]), result[0][d] == ctrlpts[0][d])',
                 'forall(d, 0, len(ctrlpts[0]), result[degree - 1][d] == ctrlpts[degree][d])'],
        loops={0: dict(inv=['len(pts_red) == degree', 'forall(q, 0, len(pts_red), len(pts_red[q]) == len(ctrlpts[0]))',
                            'forall(d, 0, len(ctrlpts[0]), pts_red[0][d] == ctrlpts[0][d])',
                            'forall(d, 0, len(ctrlpts[0]), pts_red[degree - 1][d] == ctrlpts[degree][d])']),
               1: dict(inv=['len(pts_red) == degree', 'forall(q, 0, len(pts_red), len(pts_red[q]) == len(ctrlpts[0]))',
                            'forall(d, 0, len(ctrlpts[0]), pts_red[0][d] == ctrlpts[0][d])',
                            'forall(d, 0, len(ctrlpts[0]), pts_red[degree - 1][d] == ctrlpts[degree][d])'])},
        rounds=3, timeout_ms=30000, chunks=4,
    ),
}

# ---- reduction inverts elevation (C08: "reducing the degree of a polygon that is an exact elevation returns the original
# control points for every degree").  Ghost P (degree - 1, `degree` points): the input Q is its elevation by one,
#     Q[0] = P[0],   Q[i] = (i/degree) P[i-1] + (1 - i/degree) P[i]   (0 < i < degree),   Q[degree] = P[degree-1]
# (Eq. 5.36 with num = 1).  Then the forward recurrence, the backward recurrence and the averaged middle point of
# degree_reduction all return P, for every degree >= 2 and every dimension.
ELEV = ('forall(q, 1, degree, forall(d, 0, len(ctrlpts[0]), '
        'ctrlpts[q][d] == (real(q) / real(degree)) * P[q - 1][d] + (1 - real(q) / real(degree)) * P[q][d]))')
_b = CONTRACTS['helpers.degree_reduction']
CONTRACTS['helpers.degree_reduction#inverts_elevation'] = dict(
    _b, target='helpers.degree_reduction', props=['C08'],
    ghost_args=OD([('P', M)]),
    requires=['degree >= 2', 'len(ctrlpts) == degree + 1', ROWS, 'len(ctrlpts[0]) >= 1',
              'len(P) == degree', 'forall(q, 0, len(P), len(P[q]) == len(ctrlpts[0]))',
              'forall(d, 0, len(ctrlpts[0]), ctrlpts[0][d] == P[0][d])',
              'forall(d, 0, len(ctrlpts[0]), ctrlpts[degree][d] == P[degree - 1][d])', ELEV],
    raises={},
    ensures=['len(result) == degree', 'forall(q, 0, degree, len(result[q]) == len(ctrlpts[0]))',
             'forall(q, 0, degree, forall(d, 0, len(ctrlpts[0]), result[q][d] == P[q][d]))'],
    loops={0: dict(inv=['len(pts_red) == degree', 'forall(q, 0, len(pts_red), len(pts_red[q]) == len(ctrlpts[0]))',
                        'forall(q, 0, i, forall(d, 0, len(ctrlpts[0]), pts_red[q][d] == P[q][d]))',
                        'forall(d, 0, len(ctrlpts[0]), pts_red[degree - 1][d] == P[degree - 1][d])'],
                   hints=['alpha * real(degree) == real(head_i)', 'alpha == real(head_i) / real(degree)', 'alpha > 0', 'alpha < 1',
                          'forall(d, 0, len(ctrlpts[0]), ctrlpts[head_i][d] - alpha * P[head_i - 1][d] == (1 - alpha) * P[head_i][d])',
                          'forall(d, 0, len(ctrlpts[0]), pts_red[head_i][d] * (1 - alpha) == ctrlpts[head_i][d] - alpha * P[head_i - 1][d])',
                          'forall(d, 0, len(ctrlpts[0]), pts_red[head_i][d] == P[head_i][d])']),
           # the backward loop runs i = degree-2, ..., r+1:  after _i1 iterations the rows degree-1-_i1 .. degree-1 are final
           1: dict(inv=['len(pts_red) == degree', 'forall(q, 0, len(pts_red), len(pts_red[q]) == len(ctrlpts[0]))',
                        'forall(q, 0, r1 + 1, forall(d, 0, len(ctrlpts[0]), pts_red[q][d] == P[q][d]))',
                        'forall(q, degree - 1 - _i1, degree, forall(d, 0, len(ctrlpts[0]), pts_red[q][d] == P[q][d]))',
                        'forall(d, 0, len(ctrlpts[0]), pts_red[0][d] == P[0][d])'],
                   hints=['alpha * real(degree) == real(head_i + 1)', 'alpha == real(head_i + 1) / real(degree)', 'alpha > 0', 'alpha < 1',
                          'forall(d, 0, len(ctrlpts[0]), ctrlpts[head_i + 1][d] - (1 - alpha) * P[head_i + 1][d] == alpha * P[head_i][d])',
                          'forall(d, 0, len(ctrlpts[0]), pts_red[head_i][d] * alpha == ctrlpts[head_i + 1][d] - (1 - alpha) * P[head_i + 1][d])',
                          'forall(d, 0, len(ctrlpts[0]), pts_red[head_i][d] == P[head_i][d])'])},
    # the averaged middle point of an odd degree: both one-sided estimates are exact
    after={'left': ['alpha * real(degree) == real(r)', 'alpha == real(r) / real(degree)', 'alpha < 1', 'len(left) == len(ctrlpts[0])',
                    'forall(d, 0, len(ctrlpts[0]), ctrlpts[r][d] - alpha * P[r - 1][d] == (1 - alpha) * P[r][d])',
                    'forall(d, 0, len(ctrlpts[0]), pts_red[r - 1][d] == P[r - 1][d])',
                    'forall(d, 0, len(ctrlpts[0]), left[d] * (1 - alpha) == ctrlpts[r][d] - alpha * pts_red[r - 1][d])',
                    'forall(d, 0, len(ctrlpts[0]), left[d] * (1 - alpha) == ctrlpts[r][d] - alpha * P[r - 1][d])',
                    'forall(d, 0, len(ctrlpts[0]), left[d] == P[r][d])'],
           'right': ['alpha * real(degree) == real(r + 1)', 'alpha == real(r + 1) / real(degree)', 'alpha > 0', 'len(right) == len(ctrlpts[0])',
                     'forall(d, 0, len(ctrlpts[0]), ctrlpts[r + 1][d] - (1 - alpha) * P[r + 1][d] == alpha * P[r][d])',
                     'forall(d, 0, len(ctrlpts[0]), pts_red[r + 1][d] == P[r + 1][d])',
                     'forall(d, 0, len(ctrlpts[0]), right[d] * alpha == ctrlpts[r + 1][d] - (1 - alpha) * pts_red[r + 1][d])',
                     'forall(d, 0, len(ctrlpts[0]), right[d] * alpha == ctrlpts[r + 1][d] - (1 - alpha) * P[r + 1][d])',
                     'forall(d, 0, len(ctrlpts[0]), right[d] == P[r][d])']},
    rounds=3, timeout_ms=30000, chunks=6,
)
del _b
