"""Contracts for Bezier degree elevation / reduction (helpers.py degree_elevation, degree_reduction) and
linalg.binomial_coefficient.    C08.

Proved for every degree, elevation count and dimension: the result has degree + num + 1 (resp. degree) control points of the
input's dimension, the END POINTS ARE UNCHANGED, every index is in range, no divisor is zero, and a normal return implies
the input was a Bezier polygon (degree + 1 points) with a positive elevation count (resp. degree >= 2) - i.e. anything
else is rejected by an exception.  NOT proved here: that the interior points define the same curve (needs the Vandermonde
identity on binomial coefficients; covered by Engine B, bounded)."""
from collections import OrderedDict as OD

V, M = ('list', 'real'), ('list', ('list', 'real'))
ROWS = 'forall(q, 0, len(ctrlpts), len(ctrlpts[q]) == len(ctrlpts[0]))'

CONTRACTS = {
    'linalg.binomial_coefficient': dict(
        props=['C08'],
        args=OD([('k', 'int'), ('i', 'int')]), returns='real',
        requires=['k >= 0', 'i >= 0'],
        funcs={'fact': (['int'], 'int'), 'binom': (['int', 'int'], 'real')},
        # binom is the name of the value for other contracts; its defining equation is the third clause
        # definition of the spec function binom (unique, because the factorials are >= 1)
        axioms=['forall(n, fact(n) >= 1)',
                'forall(a, forall(b, implies(0 <= b and b <= a, binom(a, b) * real(fact(a - b) * fact(b)) == real(fact(a)))))',
                'forall(a, forall(b, implies(b > a, binom(a, b) == 0)))'],
        ensures=['implies(i > k, result == 0)', 'implies(i <= k, result > 0)',
                 'implies(i == 0, result == 1)', 'implies(i == k, result == 1)',
                 'implies(i <= k, result * real(fact(k - i) * fact(i)) == real(fact(k)))',
                 'result == binom(k, i)'],
    ),
    'helpers.degree_elevation': dict(
        props=['C08'],
        args=OD([('degree', 'int'), ('ctrlpts', M), ('kwargs', 'kwargs')]),
        ghost_args=OD([('g_num', 'int')]), kwargs={'num': '$g_num'},
        funcs={'fact': (['int'], 'int'), 'binom': (['int', 'int'], 'real')},
        returns=M, locals={'pts_elev': M},
        requires=['degree >= 0', 'len(ctrlpts) >= 1', ROWS],
        raises={'GeomdlException': 'degree + 1 != len(ctrlpts) or g_num <= 0'},
        ensures=['degree + 1 == len(ctrlpts)', 'g_num >= 1',            # anything else is rejected
                 'len(result) == degree + 1 + g_num',
                 'forall(q, 0, len(result), len(result[q]) == len(ctrlpts[0]))',
                 'forall(d, 0, len(ctrlpts[0]), result[0][d] == ctrlpts[0][d])',
                 'forall(d, 0, len(ctrlpts[0]), result[degree + g_num][d] == ctrlpts[degree][d])'],
        loops={0: dict(inv=['len(pts_elev) == num_pts_elev', 'forall(q, 0, len(pts_elev), len(pts_elev[q]) == len(ctrlpts[0]))',
                            'implies(i >= 1, forall(d, 0, len(ctrlpts[0]), pts_elev[0][d] == ctrlpts[0][d]))',
                            'implies(i >= num_pts_elev, forall(d, 0, len(ctrlpts[0]), pts_elev[degree + num][d] == ctrlpts[degree][d]))',
                            'forall(q, i, num_pts_elev, forall(d, 0, len(ctrlpts[0]), pts_elev[q][d] == 0))']),
               1: dict(snapshot={'pe0': 'pts_elev'},
                       inv=['len(pts_elev) == num_pts_elev', 'forall(q, 0, len(pts_elev), len(pts_elev[q]) == len(ctrlpts[0]))',
                            'forall(q, 0, len(pts_elev), implies(q != i, forall(d, 0, len(ctrlpts[0]), pts_elev[q][d] == pe0[q][d])))',
                            'implies(i == 0 and j == start, forall(d, 0, len(ctrlpts[0]), pts_elev[0][d] == 0))',
                            'implies(i == 0 and j > start, forall(d, 0, len(ctrlpts[0]), pts_elev[0][d] == ctrlpts[0][d]))',
                            'implies(i == degree + num and j == start, forall(d, 0, len(ctrlpts[0]), pts_elev[i][d] == 0))',
                            'implies(i == degree + num and j > start, forall(d, 0, len(ctrlpts[0]), pts_elev[i][d] == ctrlpts[degree][d]))'])},
        rounds=3, timeout_ms=30000, chunks=6,
    ),
    'helpers.degree_reduction': dict(
        props=['C08'],
        args=OD([('degree', 'int'), ('ctrlpts', M), ('kwargs', 'kwargs')]), kwargs={},
        returns=M, locals={'pts_red': M},
        requires=['degree >= 0', 'len(ctrlpts) >= 1', ROWS],
        raises={'GeomdlException': 'degree + 1 != len(ctrlpts) or degree < 2'},
        ensures=['degree + 1 == len(ctrlpts)', 'degree >= 2',
                 'len(result) == degree',
                 'forall(q, 0, len(result), len(result[q]) == len(ctrlpts[0]))',
                 'forall(d, 0, len(ctrlpts[0]), result[0][d] == ctrlpts[0][d])',
                 'forall(d, 0, len(ctrlpts[0]), result[degree - 1][d] == ctrlpts[degree][d])'],
        loops={0: dict(inv=['len(pts_red) == degree', 'forall(q, 0, len(pts_red), len(pts_red[q]) == len(ctrlpts[0]))',
                            'forall(d, 0, len(ctrlpts[0]), pts_red[0][d] == ctrlpts[0][d])',
                            'forall(d, 0, len(ctrlpts[0]), pts_red[degree - 1][d] == ctrlpts[degree][d])']),
               1: dict(inv=['len(pts_red) == degree', 'forall(q, 0, len(pts_red), len(pts_red[q]) == len(ctrlpts[0]))',
                            'forall(d, 0, len(ctrlpts[0]), pts_red[0][d] == ctrlpts[0][d])',
                            'forall(d, 0, len(ctrlpts[0]), pts_red[degree - 1][d] == ctrlpts[degree][d])'])},
        rounds=3, timeout_ms=30000, chunks=4,
    ),
}

# ---- reduction inverts elevation (C08: "reducing the degree of a polygon that is an exact elevation returns the original
# control points for every degree").  Ghost P (degree - 1, `degree` points): the input Q is its elevation by one,
#     Q[0] = P[0],   Q[i] = (i/degree) P[i-1] + (1 - i/degree) P[i]   (0 < i < degree),   Q[degree] = P[degree-1]
# (Eq. 5.36 with num = 1).  Then the forward recurrence, the backward recurrence and the averaged middle point of
# degree_reduction all return P, for every degree >= 2 and every dimension.
ELEV = ('forall(q, 1, degree, forall(d, 0, len(ctrlpts[0]), '
        'ctrlpts[q][d] == (real(q) / real(degree)) * P[q - 1][d] + (1 - real(q) / real(degree)) * P[q][d]))')
_b = CONTRACTS['helpers.degree_reduction']
CONTRACTS['helpers.degree_reduction#inverts_elevation'] = dict(
    _b, target='helpers.degree_reduction', props=['C08'],
    ghost_args=OD([('P', M)]),
    requires=['degree >= 2', 'len(ctrlpts) == degree + 1', ROWS, 'len(ctrlpts[0]) >= 1',
              'len(P) == degree', 'forall(q, 0, len(P), len(P[q]) == len(ctrlpts[0]))',
              'forall(d, 0, len(ctrlpts[0]), ctrlpts[0][d] == P[0][d])',
              'forall(d, 0, len(ctrlpts[0]), ctrlpts[degree][d] == P[degree - 1][d])', ELEV],
    raises={},
    ensures=['len(result) == degree', 'forall(q, 0, degree, len(result[q]) == len(ctrlpts[0]))',
             'forall(q, 0, degree, forall(d, 0, len(ctrlpts[0]), result[q][d] == P[q][d]))'],
    loops={0: dict(inv=['len(pts_red) == degree', 'forall(q, 0, len(pts_red), len(pts_red[q]) == len(ctrlpts[0]))',
                        'forall(q, 0, i, forall(d, 0, len(ctrlpts[0]), pts_red[q][d] == P[q][d]))',
                        'forall(d, 0, len(ctrlpts[0]), pts_red[degree - 1][d] == P[degree - 1][d])'],
                   hints=['alpha * real(degree) == real(head_i)', 'alpha == real(head_i) / real(degree)', 'alpha > 0', 'alpha < 1',
                          'forall(d, 0, len(ctrlpts[0]), ctrlpts[head_i][d] - alpha * P[head_i - 1][d] == (1 - alpha) * P[head_i][d])',
                          'forall(d, 0, len(ctrlpts[0]), pts_red[head_i][d] * (1 - alpha) == ctrlpts[head_i][d] - alpha * P[head_i - 1][d])',
                          'forall(d, 0, len(ctrlpts[0]), pts_red[head_i][d] == P[head_i][d])']),
           # the backward loop runs i = degree-2, ..., r+1:  after _i1 iterations the rows degree-1-_i1 .. degree-1 are final
           1: dict(inv=['len(pts_red) == degree', 'forall(q, 0, len(pts_red), len(pts_red[q]) == len(ctrlpts[0]))',
                        'forall(q, 0, r1 + 1, forall(d, 0, len(ctrlpts[0]), pts_red[q][d] == P[q][d]))',
                        'forall(q, degree - 1 - _i1, degree, forall(d, 0, len(ctrlpts[0]), pts_red[q][d] == P[q][d]))',
                        'forall(d, 0, len(ctrlpts[0]), pts_red[0][d] == P[0][d])'],
                   hints=['alpha * real(degree) == real(head_i + 1)', 'alpha == real(head_i + 1) / real(degree)', 'alpha > 0', 'alpha < 1',
                          'forall(d, 0, len(ctrlpts[0]), ctrlpts[head_i + 1][d] - (1 - alpha) * P[head_i + 1][d] == alpha * P[head_i][d])',
                          'forall(d, 0, len(ctrlpts[0]), pts_red[head_i][d] * alpha == ctrlpts[head_i + 1][d] - (1 - alpha) * P[head_i + 1][d])',
                          'forall(d, 0, len(ctrlpts[0]), pts_red[head_i][d] == P[head_i][d])'])},
    # the averaged middle point of an odd degree: both one-sided estimates are exact
    after={'left': ['alpha * real(degree) == real(r)', 'alpha == real(r) / real(degree)', 'alpha < 1', 'len(left) == len(ctrlpts[0])',
                    'forall(d, 0, len(ctrlpts[0]), ctrlpts[r][d] - alpha * P[r - 1][d] == (1 - alpha) * P[r][d])',
                    'forall(d, 0, len(ctrlpts[0]), pts_red[r - 1][d] == P[r - 1][d])',
                    'forall(d, 0, len(ctrlpts[0]), left[d] * (1 - alpha) == ctrlpts[r][d] - alpha * pts_red[r - 1][d])',
                    'forall(d, 0, len(ctrlpts[0]), left[d] * (1 - alpha) == ctrlpts[r][d] - alpha * P[r - 1][d])',
                    'forall(d, 0, len(ctrlpts[0]), left[d] == P[r][d])'],
           'right': ['alpha * real(degree) == real(r + 1)', 'alpha == real(r + 1) / real(degree)', 'alpha > 0', 'len(right) == len(ctrlpts[0])',
                     'forall(d, 0, len(ctrlpts[0]), ctrlpts[r + 1][d] - (1 - alpha) * P[r + 1][d] == alpha * P[r][d])',
                     'forall(d, 0, len(ctrlpts[0]), pts_red[r + 1][d] == P[r + 1][d])',
                     'forall(d, 0, len(ctrlpts[0]), right[d] * alpha == ctrlpts[r + 1][d] - (1 - alpha) * pts_red[r + 1][d])',
                     'forall(d, 0, len(ctrlpts[0]), right[d] * alpha == ctrlpts[r + 1][d] - (1 - alpha) * P[r + 1][d])',
                     'forall(d, 0, len(ctrlpts[0]), right[d] == P[r][d])']},
    rounds=3, timeout_ms=30000, chunks=6,
)
del _b

# ---- elevation by one in closed form (Eq. 5.36 with num = 1), from two binomial identities proved as ghost lemmas:
#        C(n-1, i-1) * n == C(n, i) * i            C(n-1, i) * n == C(n, i) * (n - i)
FACT_AX = ['forall(n, fact(n) >= 1)', 'forall(n, implies(n >= 1, fact(n) == n * fact(n - 1)))']
BF = {'fact': (['int'], 'int'), 'binom': (['int', 'int'], 'real')}
CONTRACTS.update({
    'lemma.binom_ratio_low': dict(
        props=['C08'],
        source="""
def lemma(n, i):
    a = binomial_coefficient(n - 1, i - 1)
    b = binomial_coefficient(n, i)
    return 0
""",
        imports={'binomial_coefficient': 'linalg.binomial_coefficient'},
        args=OD([('n', 'int'), ('i', 'int')]), returns='int', funcs=BF, axioms=FACT_AX,
        requires=['1 <= i', 'i <= n'],
        ensures=['binom(n - 1, i - 1) * real(n) == binom(n, i) * real(i)'],
        after={'b': ['a == binom(n - 1, i - 1)', 'b == binom(n, i)','fact(n) == n * fact(n - 1)', 'fact(i) == i * fact(i - 1)', 'fact(n - i) >= 1', 'fact(i - 1) >= 1', 'fact(n - 1) >= 1',
                     'a * real(fact(n - i) * fact(i - 1)) == real(fact(n - 1))',
                     'b * real(fact(n - i) * fact(i)) == real(fact(n))',
                     'b * real(i) * real(fact(n - i) * fact(i - 1)) == real(n) * real(fact(n - 1))',
                     'b * real(i) * real(fact(n - i) * fact(i - 1)) == real(n) * a * real(fact(n - i) * fact(i - 1))',
                     'real(fact(n - i) * fact(i - 1)) > 0',
                     'b * real(i) == real(n) * a']},
        timeout_ms=30000,
    ),
})
CONTRACTS.update({
    'lemma.binom_ratio_same': dict(
        props=['C08'],
        source="""
def lemma(n, i):
    a = binomial_coefficient(n - 1, i)
    b = binomial_coefficient(n, i)
    return 0
""",
        imports={'binomial_coefficient': 'linalg.binomial_coefficient'},
        args=OD([('n', 'int'), ('i', 'int')]), returns='int', funcs=BF, axioms=FACT_AX,
        requires=['0 <= i', 'i <= n - 1'],
        ensures=['binom(n - 1, i) * real(n) == binom(n, i) * real(n - i)'],
        after={'b': ['a == binom(n - 1, i)', 'b == binom(n, i)',
                     'fact(n) == n * fact(n - 1)', 'fact(n - i) == (n - i) * fact(n - i - 1)', 'fact(n - i - 1) >= 1', 'fact(i) >= 1',
                     'a * real(fact(n - 1 - i) * fact(i)) == real(fact(n - 1))',
                     'b * real(fact(n - i) * fact(i)) == real(fact(n))',
                     'b * real(n - i) * real(fact(n - i - 1) * fact(i)) == real(n) * real(fact(n - 1))',
                     'b * real(n - i) * real(fact(n - i - 1) * fact(i)) == real(n) * a * real(fact(n - i - 1) * fact(i))',
                     'real(fact(n - i - 1) * fact(i)) > 0',
                     'b * real(n - i) == real(n) * a']},
        timeout_ms=30000,
    ),
})
Q1 = 'real(%s) / real(degree + 1)'
FORM = lambda arr, q: ('forall(d, 0, len(ctrlpts[0]), %s[%s][d] == (%s) * ctrlpts[%s - 1][d] + (1 - %s) * ctrlpts[%s][d])'
                       % (arr, q, Q1 % q, q, Q1 % q, q))
_e = CONTRACTS['helpers.degree_elevation']
CONTRACTS['helpers.degree_elevation#by_one'] = dict(
    _e, target='helpers.degree_elevation', props=['C08'], funcs=BF,
    uses_lemmas=['lemma.binom_ratio_low', 'lemma.binom_ratio_same'],
    requires=['degree >= 0', 'len(ctrlpts) == degree + 1', ROWS, 'g_num == 1'],
    raises={},
    ensures=['len(result) == degree + 2', 'forall(q, 0, len(result), len(result[q]) == len(ctrlpts[0]))',
             'forall(d, 0, len(ctrlpts[0]), result[0][d] == ctrlpts[0][d])',
             'forall(d, 0, len(ctrlpts[0]), result[degree + 1][d] == ctrlpts[degree][d])',
             'forall(q, 1, degree + 1, %s)' % FORM('result', 'q')],
    loops={0: dict(inv=['len(pts_elev) == num_pts_elev', 'forall(q, 0, len(pts_elev), len(pts_elev[q]) == len(ctrlpts[0]))',
                        'implies(i >= 1, forall(d, 0, len(ctrlpts[0]), pts_elev[0][d] == ctrlpts[0][d]))',
                        'implies(i >= num_pts_elev, forall(d, 0, len(ctrlpts[0]), pts_elev[degree + 1][d] == ctrlpts[degree][d]))',
                        'forall(q, i, num_pts_elev, forall(d, 0, len(ctrlpts[0]), pts_elev[q][d] == 0))',
                        'forall(q, 1, min(i, degree + 1), %s)' % FORM('pts_elev', 'q')]),
           1: dict(snapshot={'pe0': 'pts_elev'},
                   inv=_e['loops'][1]['inv'] + [
                       'implies(1 <= i and i <= degree and j == start, forall(d, 0, len(ctrlpts[0]), pts_elev[i][d] == 0))',
                       'implies(1 <= i and i <= degree and j == start + 1, forall(d, 0, len(ctrlpts[0]), pts_elev[i][d] == (%s) * ctrlpts[i - 1][d]))' % (Q1 % 'i'),
                       'implies(1 <= i and i <= degree and j == start + 2, %s)' % FORM('pts_elev', 'i')],
                   hints=['implies(1 <= i and i <= degree, start == i - 1 and end == i)',
                          'implies(1 <= i and i <= degree and head_j == i - 1, coeff * binom(degree + 1, i) == binom(degree, i - 1))',
                          'implies(1 <= i and i <= degree and head_j == i - 1, binom(degree, i - 1) * real(degree + 1) == binom(degree + 1, i) * real(i))',
                          'implies(1 <= i and i <= degree and head_j == i - 1, coeff * real(degree + 1) == real(i))',
                          'implies(1 <= i and i <= degree and head_j == i - 1, coeff == %s)' % (Q1 % 'i'),
                          'implies(1 <= i and i <= degree and head_j == i, coeff * binom(degree + 1, i) == binom(degree, i))',
                          'implies(1 <= i and i <= degree and head_j == i, binom(degree, i) * real(degree + 1) == binom(degree + 1, i) * real(degree + 1 - i))',
                          'implies(1 <= i and i <= degree and head_j == i, coeff * real(degree + 1) == real(degree + 1 - i))',
                          'implies(1 <= i and i <= degree and head_j == i, coeff == 1 - %s)' % (Q1 % 'i')])},
    rounds=3, timeout_ms=30000, chunks=8,
)
del _e

# ---- C08: reducing an exact elevation returns the original control points, for every degree >= 1 and dimension
CONTRACTS['lemma.reduction_inverts_elevation'] = dict(
    props=['C08'],
    source="""
def lemma(degree, ctrlpts):
    q = degree_elevation(degree, ctrlpts, num=1)
    r = degree_reduction(degree + 1, q)
    return r
""",
    imports={'degree_elevation': 'helpers.degree_elevation#by_one', 'degree_reduction': 'helpers.degree_reduction#inverts_elevation'},
    ghost_bind={'helpers.degree_reduction#inverts_elevation': {'P': 'ctrlpts'}},
    args=OD([('degree', 'int'), ('ctrlpts', M)]), returns=M, funcs=BF,
    requires=['degree >= 1', 'len(ctrlpts) == degree + 1', ROWS, 'len(ctrlpts[0]) >= 1'],
    ensures=['len(result) == degree + 1', 'forall(q, 0, degree + 1, len(result[q]) == len(ctrlpts[0]))',
             'forall(q, 0, degree + 1, forall(d, 0, len(ctrlpts[0]), result[q][d] == ctrlpts[q][d]))'],
    rounds=3, timeout_ms=30000,
)
