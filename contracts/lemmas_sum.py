"""The frame lemmas of the ghost function sum(a, lo, hi) used by pyvc/solve.py as instance schemas:
     k outside [lo, hi)  ==>  sum(store(a,k,v), lo, hi) == sum(a, lo, hi)
     k inside  [lo, hi)  ==>  sum(store(a,k,v), lo, hi) == sum(a, lo, hi) - a[k] + v
Proved here by induction on hi from the two defining (unfolding) axioms ALONE: these contracts switch the frame
instances off (`no_sum_frame`), so the proof is not circular.  The induction is the (empty) ghost loop: its invariant
preservation obligation is exactly the induction step."""
from collections import OrderedDict as OD

V = ('list', 'real')
SRC = '''
def lemma(a, k, v, lo, hi):
    b = list(a)
    b[k] = v
    for h in range(lo, hi):
        pass
    return 0
'''

CONTRACTS = {
    'lemma.sum_frame_outside': dict(
        props=['C01', 'C03', 'C18'], no_sum_frame=True,
        source=SRC, args=OD([('a', V), ('k', 'int'), ('v', 'real'), ('lo', 'int'), ('hi', 'int')]), returns='int',
        requires=['0 <= k', 'k < len(a)', 'lo <= hi', 'k < lo or k >= hi'],
        ensures=['sum(b, lo, hi) == sum(a, lo, hi)'],
        loops={0: dict(inv=['sum(b, lo, h) == sum(a, lo, h)'])},
    ),
    'lemma.sum_frame_inside': dict(
        props=['C01', 'C03', 'C18'], no_sum_frame=True,
        source=SRC, args=OD([('a', V), ('k', 'int'), ('v', 'real'), ('lo', 'int'), ('hi', 'int')]), returns='int',
        requires=['0 <= k', 'k < len(a)', 'lo <= k', 'k < hi'],
        ensures=['sum(b, lo, hi) == sum(a, lo, hi) - a[k] + v'],
        loops={0: dict(inv=['implies(h <= k, sum(b, lo, h) == sum(a, lo, h))',
                            'implies(h > k, sum(b, lo, h) == sum(a, lo, h) - a[k] + v)'])},
    ),
}

# ---- the same for the ghost dot(a, b, lo, hi) = sum_{lo <= j < hi} a[j]*b[j]
SRC_DOT_B = '''
def lemma(a, b, k, v, lo, hi):
    c = list(b)
    c[k] = v
    for h in range(lo, hi):
        pass
    return 0
'''
SRC_DOT_A = '''
def lemma(a, b, k, v, lo, hi):
    c = list(a)
    c[k] = v
    for h in range(lo, hi):
        pass
    return 0
'''
CONTRACTS.update({
    'lemma.dot_frame_second': dict(
        props=['C16'], no_sum_frame=True,
        source=SRC_DOT_B, args=OD([('a', V), ('b', V), ('k', 'int'), ('v', 'real'), ('lo', 'int'), ('hi', 'int')]), returns='int',
        requires=['0 <= k', 'k < len(b)', 'lo <= hi', 'k < lo or k >= hi'],
        ensures=['dot(a, c, lo, hi) == dot(a, b, lo, hi)'],
        loops={0: dict(inv=['dot(a, c, lo, h) == dot(a, b, lo, h)'])},
    ),
    'lemma.dot_frame_first': dict(
        props=['C16'], no_sum_frame=True,
        source=SRC_DOT_A, args=OD([('a', V), ('b', V), ('k', 'int'), ('v', 'real'), ('lo', 'int'), ('hi', 'int')]), returns='int',
        requires=['0 <= k', 'k < len(a)', 'lo <= hi', 'k < lo or k >= hi'],
        ensures=['dot(c, b, lo, hi) == dot(a, b, lo, hi)'],
        loops={0: dict(inv=['dot(c, b, lo, h) == dot(a, b, lo, h)'])},
    ),
})

CONTRACTS.update({
    # dot(a, b, lo, hi) == a[lo]*b[lo] + dot(a, b, lo+1, hi)   for hi > lo   (induction on hi, from the top-unfolding alone)
    'lemma.dot_unfold_low': dict(
        props=['C16'], no_sum_frame=True,
        source='''
def lemma(a, b, lo, hi):
    for h in range(lo + 1, hi):
        pass
    return 0
''',
        args=OD([('a', V), ('b', V), ('lo', 'int'), ('hi', 'int')]), returns='int',
        requires=['lo < hi'],
        ensures=['dot(a, b, lo, hi) == a[lo] * b[lo] + dot(a, b, lo + 1, hi)'],
        loops={0: dict(inv=['dot(a, b, lo, h) == a[lo] * b[lo] + dot(a, b, lo + 1, h)'])},
    ),
})

# ---- the same for the ghost cdot(a, M, c, lo, hi) = sum_{lo <= j < hi} a[j]*M[j][c]   (row against a matrix column)
MM = ('list', ('list', 'real'))
CONTRACTS.update({
    # a row entry outside [lo, hi) does not matter
    'lemma.cdot_frame_first': dict(
        props=['C16'], no_sum_frame=True,
        source='''
def lemma(a, m, c, k, v, lo, hi):
    b = list(a)
    b[k] = v
    for h in range(lo, hi):
        pass
    return 0
''',
        args=OD([('a', V), ('m', MM), ('c', 'int'), ('k', 'int'), ('v', 'real'), ('lo', 'int'), ('hi', 'int')]), returns='int',
        requires=['0 <= k', 'k < len(a)', 'lo <= hi', 'k < lo or k >= hi'],
        ensures=['cdot(b, m, c, lo, hi) == cdot(a, m, c, lo, hi)'],
        loops={0: dict(inv=['cdot(b, m, c, lo, h) == cdot(a, m, c, lo, h)'])},
    ),
    # replacing row r of the matrix does not matter if r is outside [lo, hi) or the new row agrees in column c
    'lemma.cdot_frame_matrix': dict(
        props=['C16'], no_sum_frame=True,
        source='''
def lemma(a, m, c, r, row, lo, hi):
    w = list(m)
    w[r] = row
    for h in range(lo, hi):
        pass
    return 0
''',
        args=OD([('a', V), ('m', MM), ('c', 'int'), ('r', 'int'), ('row', V), ('lo', 'int'), ('hi', 'int')]), returns='int',
        requires=['0 <= r', 'r < len(m)', 'lo <= hi', 'r < lo or r >= hi or row[c] == m[r][c]'],
        ensures=['cdot(a, w, c, lo, hi) == cdot(a, m, c, lo, hi)'],
        loops={0: dict(inv=['cdot(a, w, c, lo, h) == cdot(a, m, c, lo, h)'])},
    ),
})
