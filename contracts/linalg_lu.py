"""Contracts for _linalg.doolittle (the LU factorisation behind linalg.lu_decomposition).   C16, C11.

cdot(a, M, c, lo, hi) is the ghost sum_{lo <= j < hi} a[j]*M[j][c]; the code's
sum([L[i][j] * U[j][k] for j in range(0, i)]) is encoded as exactly that term.

The postcondition is L U = A written through the triangular shape (the entries of L above and of U below the
diagonal are 0, so the full row-by-column sums reduce to the ones below):
    row r, column c >= r :  sum_{j<r} L[r][j] U[j][c] + 1 * U[r][c]       == A[r][c]        (always)
    row r, column c <  r :  sum_{j<c} L[r][j] U[j][c] + L[r][c] * U[c][c] == A[r][c]        (if the pivot U[c][c] != 0)
A zero pivot is swallowed by the code's `except ZeroDivisionError` (the multiplier becomes 0.0): the second equation is
then not claimed for that column - exactly the property's "raises or returns a correct result" split, which the callers
decide from U[c][c]."""
from collections import OrderedDict as OD

V = ('list', 'real')
M = ('list', ('list', 'real'))

SHAPE = ['len(matrix_l) == len(matrix_a)', 'len(matrix_u) == len(matrix_a)', 
         'forall(a, 0, len(matrix_a), len(matrix_l[a]) == len(matrix_a))', 'forall(a, 0, len(matrix_a), len(matrix_u[a]) == len(matrix_a))',
         # triangular zeros
         'forall(a, 0, len(matrix_a), forall(b, a + 1, len(matrix_a), matrix_l[a][b] == 0))',
         'forall(a, 0, len(matrix_a), forall(b, 0, a, matrix_u[a][b] == 0))']
DONE_ROWS = lambda top: [
    'forall(a, 0, %s, matrix_l[a][a] == 1)' % top,
    'forall(a, 0, %s, forall(b, a, len(matrix_a), matrix_u[a][b] + cdot(matrix_l[a], matrix_u, b, 0, a) == matrix_a[a][b]))' % top,
    'forall(b, 0, %s, forall(a, b + 1, len(matrix_a), implies(matrix_u[b][b] != 0, '
    'matrix_l[a][b] * matrix_u[b][b] + cdot(matrix_l[a], matrix_u, b, 0, b) == matrix_a[a][b])))' % top]

ENSURES = ['len(result[0]) == len(matrix_a)', 'len(result[1]) == len(matrix_a)',
           'forall(a, 0, len(matrix_a), len(result[0][a]) == len(matrix_a))',
           'forall(a, 0, len(matrix_a), len(result[1][a]) == len(matrix_a))',
           'forall(a, 0, len(matrix_a), result[0][a][a] == 1)',
           'forall(a, 0, len(matrix_a), forall(b, a + 1, len(matrix_a), result[0][a][b] == 0))',
           'forall(a, 0, len(matrix_a), forall(b, 0, a, result[1][a][b] == 0))',
           'forall(a, 0, len(matrix_a), forall(b, a, len(matrix_a), '
           'result[1][a][b] + cdot(result[0][a], result[1], b, 0, a) == matrix_a[a][b]))',
           'forall(b, 0, len(matrix_a), forall(a, b + 1, len(matrix_a), implies(result[1][b][b] != 0, '
           'result[0][a][b] * result[1][b][b] + cdot(result[0][a], result[1], b, 0, b) == matrix_a[a][b])))']

CONTRACTS = {
    # the public wrapper: squareness check (never raises on a square matrix), then the factorisation by contract
    'linalg.lu_decomposition': dict(
        props=['C16', 'C11'],
        args=OD([('matrix_a', M)]), returns=('tuple', M, M),
        requires=['forall(a, 0, len(matrix_a), len(matrix_a[a]) == len(matrix_a))'],
        ensures=ENSURES,
        loops={0: dict(inv=['q == len(matrix_a)'])},
    ),
    '_linalg.doolittle': dict(
        props=['C16', 'C11'],
        args=OD([('matrix_a', M)]), returns=('tuple', M, M),
        locals={'matrix_l': M, 'matrix_u': M},
        requires=['forall(a, 0, len(matrix_a), len(matrix_a[a]) == len(matrix_a))'],
        ensures=ENSURES,
        loops={0: dict(inv=SHAPE + DONE_ROWS('i')),
               1: dict(inv=SHAPE + DONE_ROWS('i') + [
                   'implies(k > i, matrix_l[i][i] == 1)',
                   'forall(b, i, k, matrix_u[i][b] + cdot(matrix_l[i], matrix_u, b, 0, i) == matrix_a[i][b])',
                   'forall(a, i + 1, k, implies(matrix_u[i][i] != 0, '
                   'matrix_l[a][i] * matrix_u[i][i] + cdot(matrix_l[a], matrix_u, i, 0, i) == matrix_a[a][i]))'])},
        rounds=3, timeout_ms=60000, chunks=4,
    ),
}

# ---- linalg.matrix_multiply, matrix x matrix branch: result[i][j] == sum_k mat1[i][k] * mat2[k][j]   (C16 "matrix product
# equals its definition", every size).  The `except TypeError` branch (matrix x flat vector) is a dispatch on the type of
# mat2's entries and is not part of this contract (mat2 is a list of rows here); Engine B covers it.
ROWS3 = ['len(mat3) == n', 'forall(a, 0, n, len(mat3[a]) == m)', 'n == len(mat1)', 'm == len(mat2[0])', 'p2 == len(mat2)']
DONE = lambda top: 'forall(a, 0, %s, forall(b, 0, m, mat3[a][b] == cdot(mat1[a], mat2, b, 0, p2)))' % top
CONTRACTS['linalg.matrix_multiply'] = dict(
    props=['C16', 'C11'],
    args=OD([('mat1', M), ('mat2', M)]), returns=M, locals={'mat3': M},
    requires=['len(mat1) >= 1', 'len(mat2) >= 1', 'forall(a, 0, len(mat1), len(mat1[a]) == len(mat2))',
              'forall(b, 0, len(mat2), len(mat2[b]) == len(mat2[0]))'],
    ensures=['len(result) == len(mat1)', 'forall(a, 0, len(mat1), len(result[a]) == len(mat2[0]))',
             'forall(a, 0, len(mat1), forall(b, 0, len(mat2[0]), result[a][b] == cdot(mat1[a], mat2, b, 0, len(mat2))))'],
    raises={'GeomdlException': 'False'},
    loops={0: dict(inv=ROWS3 + [DONE('i'), 'forall(a, i, n, forall(b, 0, m, mat3[a][b] == 0))']),
           1: dict(inv=ROWS3 + [DONE('i'), 'forall(a, i + 1, n, forall(b, 0, m, mat3[a][b] == 0))',
                                'forall(b, 0, j, mat3[i][b] == cdot(mat1[i], mat2, b, 0, p2))',
                                'forall(b, j, m, mat3[i][b] == 0)']),
           2: dict(inv=ROWS3 + [DONE('i'), 'forall(a, i + 1, n, forall(b, 0, m, mat3[a][b] == 0))',
                                'forall(b, 0, j, mat3[i][b] == cdot(mat1[i], mat2, b, 0, p2))',
                                'forall(b, j + 1, m, mat3[i][b] == 0)',
                                'mat3[i][j] == cdot(mat1[i], mat2, j, 0, k)'])},
    rounds=3, timeout_ms=30000, chunks=3,
)
