"""Contracts for _linalg.doolittle (the LU factorisation behind linalg.lu_decomposition).   C16, C11.

cdot(a, M, c, lo, hi) is the ghost sum_{lo <= j < hi} a[j]*M[j][c]; the code's
sum([L[i][j] * U[j][k] for j in range(0, i)]) is encoded as exactly that term.

The postcondition is L U = A written through the triangular shape (the entries of L above and of U below the
diagonal are 0, so the full row-by-column sums reduce to the ones below):
    row r, column c >= r :  sum_{j<r} L[r][j] U[j][c] + 1 * U[r][c]       == A[r][c]        (always)
    row r, column c <  r :  sum_{j<c} L[r][j] U[j][c] + L[r][c] * U[c][c] == A[r][c]        (if the pivot U[c][c] != 0)
A zero pivot is swallowed by the code's `except ZeroDivisionError` (the multiplier becomes 0.0): the second equation is
then not claimed for that column - exactly the property's "raises or returns a correct result" split, which the callers
decide from U[c][c]."""
from collections import OrderedDict as OD

V = ('list', 'real')
M = ('list', ('list', 'real'))

SHAPE = ['len(matrix_l) == len(matrix_a)', 'len(matrix_u) == len(matrix_a)', 
         'forall(a, 0, len(matrix_a), len(matrix_l[a]) == len(matrix_a))', 'forall(a, 0, len(matrix_a), len(matrix_u[a]) == len(matrix_a))',
         # triangular zeros
         'forall(a, 0, len(matrix_a), forall(b, a + 1, len(matrix_a), matrix_l[a][b] == 0))',
         'forall(a, 0, len(matrix_a), forall(b, 0, a, matrix_u[a][b] == 0))']
DONE_ROWS = lambda top: [
    'forall(a, 0, %s, matrix_l[a][a] == 1)' % top,
    'forall(a, 0, %s, forall(b, a, len(matrix_a), matrix_u[a][b] + cdot(matrix_l[a], matrix_u, b, 0, a) == matrix_a[a][b]))' % top,
    'forall(b, 0, %s, forall(a, b + 1, len(matrix_a), implies(matrix_u[b][b] != 0, '
    'matrix_l[a][b] * matrix_u[b][b] + cdot(matrix_l[a], matrix_u, b, 0, b) == matrix_a[a][b])))' % top]

ENSURES = ['len(result[0]) == len(matrix_a)', 'len(result[1]) == len(matrix_a)',
           'forall(a, 0, len(matrix_a), len(result[0][a]) == len(matrix_a))',
           'forall(a, 0, len(matrix_a), len(result[1][a]) == len(matrix_a))',
           'forall(a, 0, len(matrix_a), result[0][a][a] == 1)',
           'forall(a, 0, len(matrix_a), forall(b, a + 1, len(matrix_a), result[0][a][b] == 0))',
           'forall(a, 0, len(matrix_a), forall(b, 0, a, result[1][a][b] == 0))',
           'forall(a, 0, len(matrix_a), forall(b, a, len(matrix_a), '
           'result[1][a][b] + cdot(result[0][a], result[1], b, 0, a) == matrix_a[a][b]))',
           'forall(b, 0, len(matrix_a), forall(a, b + 1, len(matrix_a), implies(result[1][b][b] != 0, '
           'result[0][a][b] * result[1][b][b] + cdot(result[0][a], result[1], b, 0, b) == matrix_a[a][b])))']

CONTRACTS = {
    # the public wrapper: squareness check (never raises on a square matrix), then the factorisation by contract
    'linalg.lu_decomposition': dict(
        props=['C16', 'C11'],
        args=OD([('matrix_a', M)]), returns=('tuple', M, M),
        requires=['forall(a, 0, len(matrix_a), len(matrix_a[a]) == len(matrix_a))'],
        ensures=ENSURES,
        loops={0: dict(inv=['q == len(matrix_a)'])},
    ),
    '_linalg.doolittle': dict(
        props=['C16', 'C11'],
        args=OD([('matrix_a', M)]), returns=('tuple', M, M),
        locals={'matrix_l': M, 'matrix_u': M},
        requires=['forall(a, 0, len(matrix_a), len(matrix_a[a]) == len(matrix_a))'],
        ensures=ENSURES,
        loops={0: dict(inv=SHAPE + DONE_ROWS('i')),
               1: dict(inv=SHAPE + DONE_ROWS('i') + [
                   'implies(k > i, matrix_l[i][i] == 1)',
                   'forall(b, i, k, matrix_u[i][b] + cdot(matrix_l[i], matrix_u, b, 0, i) == matrix_a[i][b])',
                   'forall(a, i + 1, k, implies(matrix_u[i][i] != 0, '
                   'matrix_l[a][i] * matrix_u[i][i] + cdot(matrix_l[a], matrix_u, i, 0, i) == matrix_a[a][i]))'])},
        rounds=3, timeout_ms=60000, chunks=4,
    ),
}
