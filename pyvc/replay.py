"""Native replay of an Engine-A counter-model: call the real function of the repository on the model's inputs
(native floats, untouched package) and evaluate the contract's requires / ensures text on the concrete result.
exit 1 = the ensures clause named in the replay file is violated by the real code (reproduced)."""
import ast
import importlib
import os
import sys
from fractions import Fraction

TOL = 1e-9


def _close(a, b):
    if isinstance(a, bool) or isinstance(b, bool) or (isinstance(a, int) and isinstance(b, int)):
        return a == b
    if isinstance(a, (list, tuple)) and isinstance(b, (list, tuple)):
        return len(a) == len(b) and all(_close(x, y) for x, y in zip(a, b))
    return abs(a - b) <= TOL * (1.0 + abs(a) + abs(b))


class _T(ast.NodeTransformer):
    """contract language -> executable Python (quantifiers to all()/any(), tolerant equality)"""

    def visit_Call(self, n):
        self.generic_visit(n)
        if isinstance(n.func, ast.Name) and n.func.id in ('forall', 'exists'):
            var = n.args[0].id
            if len(n.args) == 4:
                rng = ast.Call(func=ast.Name(id='range', ctx=ast.Load()), args=[n.args[1], n.args[2]], keywords=[])
                body = n.args[3]
            else:
                rng = ast.Name(id='_UNBOUNDED', ctx=ast.Load())
                body = n.args[1]
            gen = ast.GeneratorExp(elt=body, generators=[ast.comprehension(target=ast.Name(id=var, ctx=ast.Store()), iter=rng,
                                                                           ifs=[], is_async=0)])
            return ast.Call(func=ast.Name(id='all' if n.func.id == 'forall' else 'any', ctx=ast.Load()), args=[gen], keywords=[])
        return n

    def visit_Compare(self, n):
        self.generic_visit(n)
        if len(n.ops) == 1 and isinstance(n.ops[0], (ast.Eq, ast.NotEq)):
            c = ast.Call(func=ast.Name(id='_close', ctx=ast.Load()), args=[n.left, n.comparators[0]], keywords=[])
            return c if isinstance(n.ops[0], ast.Eq) else ast.UnaryOp(op=ast.Not(), operand=c)
        return n

    def visit_Constant(self, n):
        if isinstance(n.value, str):
            try:
                return ast.copy_location(ast.Constant(value=float(Fraction(n.value))), n)
            except ValueError:
                return n
        return n


def evaluate(txt, ns):
    tree = _T().visit(ast.parse(txt.strip(), mode='eval'))
    ast.fix_missing_locations(tree)
    return eval(compile(tree, '<contract>', 'eval'), ns)


def _dot(a, b, lo, hi):
    t = 0.0
    for j in range(lo, hi):
        t += a[j] * b[j]
    return t


def _cdot(a, m, c, lo, hi):
    t = 0.0
    for j in range(lo, hi):
        t += a[j] * m[j][c]
    return t


def _cdoto(a, m, c, off, lo, hi):
    t = 0.0
    for j in range(lo, hi):
        t += a[j] * m[off + j][c]
    return t


def namespace(c, args):
    ns = {'dot': _dot, 'cdot': _cdot, 'cdoto': _cdoto, 'min': min, 'max': max, 'abs': abs, 'len': len,
          '_close': _close, 'implies': lambda a, b: (not a) or b, 'iff': lambda a, b: bool(a) == bool(b),
          'sum': lambda a, lo, hi: sum(a[lo:hi]) if hi > lo else 0, 'real': float, 'old': lambda x: x,
          '_UNBOUNDED': range(-3, 40)}
    for name, src in c.get('pyfuncs', {}).items():
        exec(src, ns)
    ns.update({k: v for k, v in args.items() if '.' not in k})
    # object-valued arguments arrive as "name.attribute" entries
    objs = {}
    for k, v in args.items():
        if '.' in k:
            o, a = k.split('.', 1)
            objs.setdefault(o, {})[a] = v
    for o, attrs in objs.items():
        ns[o] = type('Obj_' + o, (), dict(attrs))()
    ns.setdefault('pow10', lambda e: 10.0 ** e)
    return ns


def to_py(v):
    if isinstance(v, dict) and 'list' in v:
        return [to_py(x) for x in v['list']]
    if isinstance(v, dict) and 'dict' in v:
        return dict((k, to_py(x)) for k, x in v['dict'].items())
    if isinstance(v, str):
        return float(Fraction(v))
    return v


def replay(rp):
    from pyvc import contracts_io
    d = rp['detail']
    fn_name = d['function']
    reg = contracts_io.load_contracts()
    c = reg[fn_name]
    inputs = {k: to_py(v) for k, v in d.get('inputs', {}).items()}
    mod = importlib.import_module('geomdl.' + fn_name.split('.')[0])
    f = mod
    for p in c.get('target', fn_name).split('.')[1:]:
        f = getattr(f, p)
    print('calling geomdl.%s with %r' % (fn_name, inputs))
    ns = namespace(c, inputs)
    for txt in c.get('requires', []):
        try:
            if not evaluate(txt, ns):
                print('precondition %r does not hold on the model inputs (spurious model): NOT-REPRODUCED' % txt)
                return 0
        except Exception as e:
            print('precondition %r not evaluable (%s)' % (txt, e))
            return 0
    import copy
    # building the call is the replay's own business: a failure here says nothing about the real function
    try:
        if c.get('replay_call'):
            # methods: the contract says how to build the receiver from the model values
            caller = eval(c['replay_call'])
            thunk = lambda: caller(mod, copy.deepcopy(inputs))
        else:
            call_args = [copy.deepcopy(inputs[a]) for a, t in c['args'].items() if t != 'kwargs']
            thunk = lambda: f(*call_args)
    except Exception as e:
        print('REPLAY-ERROR: the call cannot be built from the model (%s: %s): NOT-REPRODUCED' % (type(e).__name__, e))
        return 0
    try:
        res = thunk()
    except Exception as e:
        print('REPRODUCED: real function raises %s: %s (contract allows no exception here)' % (type(e).__name__, e))
        return 1
    ns['result'] = res
    # locals of the function that an ensures clause names (results of its callee calls), recomputed natively
    for name, expr in c.get('replay_locals', {}).items():
        try:
            ns[name] = eval(expr, dict(ns, geomdl=importlib.import_module('geomdl'), helpers=importlib.import_module('geomdl.helpers')))
        except Exception as e:
            print('replay local %s not computable natively (%s: %s)' % (name, type(e).__name__, e))
    bad = []
    for k, txt in enumerate(c.get('ensures', [])):
        try:
            ok = evaluate(txt, ns)
        except Exception as e:
            print('ensures[%d] not evaluable natively (%s: %s)' % (k, type(e).__name__, e))
            continue
        if not ok:
            bad.append((k, txt))
    if bad:
        for k, txt in bad:
            print('REPRODUCED: ensures[%d] %r is false for result %r' % (k, txt, res))
        return 1
    print('result %r satisfies every ensures clause: NOT-REPRODUCED' % (res,))
    return 0
