"""Discharging obligations: own quantifier instantiation -> quantifier-free query -> z3 (API), then the same
SMT-LIB text to /usr/bin/z3 and cvc5 when z3 says unknown.

Soundness: universally quantified *hypotheses* are replaced by finitely many instances (weaker hypotheses), goal
quantifiers are skolemised, so `unsat` of  hyps' /\\ not goal  implies the obligation is valid.  `sat` may be an
artefact of missing instances: it is a *candidate* refutation that the caller must confirm (replay) before it
is reported as a violation.
"""
import itertools
import subprocess
import tempfile
import time
import os

import z3

from .core import I, R, B, atom, to_z3, f_subst, is_qf, fresh

MAX_INST_PER_HYP = 4000


# ------------------------------------------------------------------------------------------------
def split_goal(goal, hyps):
    """-> list of (extra hyps (trees), quantifier-free goal tree)"""
    k = goal[0]
    if k == 'and':
        out = []
        for g in goal[1]:
            out += split_goal(g, hyps)
        return out
    if k == 'implies':
        return [([goal[1]] + eh, g) for eh, g in split_goal(goal[2], hyps)]
    if k == 'forall':
        pairs = [(v, fresh(str(v).rstrip('?') + '_sk', v.sort())) for v in goal[1]]
        return split_goal(f_subst(goal[2], pairs), hyps)
    if k == 'exists':
        raise NotImplementedError('existential goal')
    if not is_qf(goal):
        raise NotImplementedError('quantifier under or/not in a goal')
    return [([], goal)]


def polarize(t, positive=True, scope=0):
    """remove quantifiers that are existential in effect by skolem constants:
    `exists` in positive position, `forall` in negative position (antecedent of implies / under not).
    Only outside the scope of a universal quantifier (a constant would otherwise have to be a Skolem function)."""
    k = t[0]
    if k == 'atom':
        return t
    if k in ('and', 'or'):
        return (k, [polarize(x, positive, scope) for x in t[1]])
    if k == 'not':
        return ('not', polarize(t[1], not positive, scope))
    if k == 'implies':
        return ('implies', polarize(t[1], not positive, scope), polarize(t[2], positive, scope))
    if k in ('forall', 'exists'):
        universal = (k == 'forall') == positive
        if universal:
            if not positive:
                raise NotImplementedError('existential quantifier in negative position')
            return ('forall', t[1], polarize(t[2], positive, scope + 1))
        if scope:
            raise NotImplementedError('existential effect inside a universal quantifier (needs a Skolem function)')
        pairs = [(v, fresh(str(v).rstrip('?') + '_wit', v.sort())) for v in t[1]]
        return f_subst(polarize(t[2], positive, scope), pairs)
    raise ValueError(k)


def flatten_hyp(h, qf, univ, guard=None, _pol=False):
    """hypothesis tree -> qf list of z3 Bools, univ list of (vars, qf body tree)"""
    if not _pol:
        h = polarize(h, True)
    return _flatten_hyp(h, qf, univ, guard)


def _flatten_hyp(h, qf, univ, guard=None):
    k = h[0]
    if k == 'and':
        for x in h[1]:
            _flatten_hyp(x, qf, univ, guard)
        return
    if k == 'forall':
        body = h[2]
        vars_ = list(h[1])
        if guard is not None:
            body = ('implies', guard, body)
            guard = None
        # pull nested foralls in positive position
        while True:
            if body[0] == 'forall':
                vars_ += body[1]
                body = body[2]
                continue
            if body[0] == 'implies' and body[2][0] == 'forall':
                inner = body[2]
                vars_ += inner[1]
                body = ('implies', body[1], inner[2])
                continue
            if body[0] == 'implies' and body[2][0] == 'implies' and not is_qf(body[2]) and is_qf(body[1]) and is_qf(body[2][1]):
                # g1 -> (g2 -> X)   ==   (g1 and g2) -> X
                body = ('implies', ('and', [body[1], body[2][1]]), body[2][2])
                continue
            break
        if not is_qf(body):
            # split conjunction bodies containing quantifiers
            if body[0] == 'implies' and body[2][0] == 'implies' and is_qf(body[1]) and is_qf(body[2][1]):
                _flatten_hyp(('forall', vars_, ('implies', ('and', [body[1], body[2][1]]), body[2][2])), qf, univ, None)
                return
            if body[0] == 'implies' and body[2][0] == 'and':
                for part in body[2][1]:
                    _flatten_hyp(('forall', vars_, ('implies', body[1], part)), qf, univ, None)
                return
            if body[0] == 'and':
                for part in body[1]:
                    _flatten_hyp(('forall', vars_, part), qf, univ, None)
                return
            raise NotImplementedError('quantifier alternation in a hypothesis')
        # rename bound variables apart
        pairs = [(v, z3.Const('%s#%d' % (str(v), len(univ)), v.sort())) for v in vars_]
        univ.append(([p[1] for p in pairs], f_subst(body, pairs)))
        return
    if k == 'implies' and not is_qf(h[2]):
        g = h[1] if guard is None else ('and', [guard, h[1]])
        if not is_qf(h[1]):
            raise NotImplementedError('quantified antecedent in a hypothesis')
        _flatten_hyp(h[2], qf, univ, g)
        return
    if k == 'exists':
        pairs = [(v, fresh(str(v).rstrip('?') + '_ex', v.sort())) for v in h[1]]
        _flatten_hyp(f_subst(h[2], pairs), qf, univ, guard)
        return
    if not is_qf(h):
        raise NotImplementedError('quantifier under or/not in a hypothesis')
    e = to_z3(h)
    if guard is not None:
        e = z3.Implies(to_z3(guard), e)
    qf.append(e)


# ------------------------------------------------------------------------------------------------
def _walk(e, seen, fn):
    stack = [e]
    while stack:
        x = stack.pop()
        i = x.get_id()
        if i in seen:
            continue
        seen.add(i)
        fn(x)
        stack.extend(x.children())


def index_terms(exprs, bound_ids, seen=None):
    """ground Int terms used as array indices or as arguments of uninterpreted functions"""
    out = {}
    seen = set() if seen is None else seen

    def visit(x):
        if not z3.is_app(x):
            return
        d = x.decl()
        kd = d.kind()
        cands = []
        if kd == z3.Z3_OP_SELECT:
            cands = [x.arg(1)]
        elif kd == z3.Z3_OP_STORE:
            cands = [x.arg(1)]
        elif kd == z3.Z3_OP_UNINTERPRETED and x.num_args() > 0:
            cands = [a for a in x.children() if a.sort() == I]
        for c in cands:
            if c.sort() == I and not _mentions(c, bound_ids):
                out[c.get_id()] = c
    for e in exprs:
        _walk(e, seen, visit)
    return out


def _mentions(e, ids):
    if not ids:
        return False
    found = [False]

    def visit(x):
        if x.get_id() in ids:
            found[0] = True
    _walk(e, set(), visit)
    return found[0]


def sum_apps(exprs, seen=None):
    out = {}
    seen = set() if seen is None else seen

    def visit(x):
        if z3.is_app(x) and x.decl().kind() == z3.Z3_OP_UNINTERPRETED and x.decl().name().startswith('sum_') \
                and x.num_args() == 3:
            out[x.get_id()] = x
    for e in exprs:
        _walk(e, seen, visit)
    return out


def dot_apps(exprs, seen=None):
    out = {}
    seen = set() if seen is None else seen

    def visit(x):
        if z3.is_app(x) and x.decl().kind() == z3.Z3_OP_UNINTERPRETED and x.decl().name() == 'dot_R' and x.num_args() == 4:
            out[x.get_id()] = x
    for e in exprs:
        _walk(e, seen, visit)
    return out


def cdot_apps(exprs, seen=None):
    out = {}
    seen = set() if seen is None else seen

    def visit(x):
        if z3.is_app(x) and x.decl().kind() == z3.Z3_OP_UNINTERPRETED and \
                ((x.decl().name() == 'cdot_R' and x.num_args() == 5) or (x.decl().name() == 'cdoto_R' and x.num_args() == 6)):
            out[x.get_id()] = x
    for e in exprs:
        _walk(e, seen, visit)
    return out


def cdoto_axioms(app, frame=True):
    """unfolding from the top and the frame instance for the row argument of cdoto(a, M, c, off, lo, hi) = sum a[j]*M[off+j][c]"""
    f = app.decl()
    a, m, c, off, lo, hi = [app.arg(k) for k in range(6)]
    out = [z3.Implies(hi <= lo, app == 0),
           z3.Implies(hi > lo, app == f(a, m, c, off, lo, hi - 1)
                      + z3.Select(a, hi - 1) * z3.Select(z3.Select(m, off + hi - 1), c))]
    return out


def cdot_axioms(app, frame=True):
    """unfolding from the top (= Python's left fold) and frame instances for cdot(a, M, c, lo, hi) = sum a[j]*M[j][c]"""
    f = app.decl()
    a, m, c, lo, hi = [app.arg(k) for k in range(5)]
    out = [z3.Implies(hi <= lo, app == 0),
           z3.Implies(hi > lo, app == f(a, m, c, lo, hi - 1) + z3.Select(a, hi - 1) * z3.Select(z3.Select(m, hi - 1), c))]
    if frame:
        # frame lemmas (proved by induction in contracts/lemmas_sum.py: cdot_frame_*)
        if z3.is_app(a) and a.decl().kind() == z3.Z3_OP_STORE:
            k = a.arg(1)
            out.append(z3.Implies(z3.Or(k < lo, k >= hi), app == f(a.arg(0), m, c, lo, hi)))
        if z3.is_app(a) and a.decl().kind() == z3.Z3_OP_SELECT and z3.is_app(a.arg(0)) \
                and a.arg(0).decl().kind() == z3.Z3_OP_STORE:
            # a is row r of store(M0, k, row): case split by congruence (no lemma), so that the rows get their own instances
            st, r = a.arg(0), a.arg(1)
            out.append(z3.Implies(r == st.arg(1), app == f(st.arg(2), m, c, lo, hi)))
            out.append(z3.Implies(r != st.arg(1), app == f(z3.Select(st.arg(0), r), m, c, lo, hi)))
        if z3.is_app(m) and m.decl().kind() == z3.Z3_OP_STORE:
            r, row = m.arg(1), m.arg(2)
            out.append(z3.Implies(z3.Or(r < lo, r >= hi, z3.Select(row, c) == z3.Select(z3.Select(m.arg(0), r), c)),
                                  app == f(a, m.arg(0), c, lo, hi)))
    return out


def dot_axioms(app, frame=True):
    """unfolding from the top (= Python's left fold) and frame instances for dot(a, b, lo, hi)"""
    f = app.decl()
    a, b, lo, hi = app.arg(0), app.arg(1), app.arg(2), app.arg(3)
    out = [z3.Implies(hi <= lo, app == 0),
           z3.Implies(hi > lo, app == f(a, b, lo, hi - 1) + z3.Select(a, hi - 1) * z3.Select(b, hi - 1))]
    if frame:
        # unfolding from the bottom (lemma.dot_unfold_low, proved by induction)
        out.append(z3.Implies(hi > lo, app == z3.Select(a, lo) * z3.Select(b, lo) + f(a, b, lo + 1, hi)))
        # frame lemmas (proved by induction in contracts/lemmas_sum.py: dot_frame_*)
        if z3.is_app(a) and a.decl().kind() == z3.Z3_OP_STORE:
            k = a.arg(1)
            out.append(z3.Implies(z3.Or(k < lo, k >= hi), app == f(a.arg(0), b, lo, hi)))
        if z3.is_app(b) and b.decl().kind() == z3.Z3_OP_STORE:
            k = b.arg(1)
            out.append(z3.Implies(z3.Or(k < lo, k >= hi), app == f(a, b.arg(0), lo, hi)))
    return out


def sum_axioms(app, frame=True):
    """definition unfolding and frame instances for one ground application sum(a, lo, hi)"""
    f = app.decl()
    a, lo, hi = app.arg(0), app.arg(1), app.arg(2)
    zero = z3.RealVal(0) if f.range() == R else z3.IntVal(0)
    out = [z3.Implies(hi <= lo, app == zero),
           z3.Implies(hi > lo, app == f(a, lo, hi - 1) + z3.Select(a, hi - 1))]
    if frame and z3.is_app(a) and a.decl().kind() == z3.Z3_OP_STORE:
        base, k = a.arg(0), a.arg(1)
        # frame lemma (proved by induction on hi in contracts/lemmas.py: sum_frame)
        out.append(z3.Implies(z3.Or(k < lo, k >= hi), app == f(base, lo, hi)))
        out.append(z3.Implies(z3.And(lo <= k, k < hi),
                              app == f(base, lo, hi) - z3.Select(base, k) + z3.Select(a, k)))
    return out


def instantiate(qf, univ, goal, rounds=2, extra_terms=(), budget=60000, sum_frame=True, seed=None):
    """returns the list of ground z3 hypotheses (qf + instances).
    seed='goal': the candidate terms of the first round come from the goal and the most recent quantifier-free hypotheses
    only (goal-directed: a small subset of the instances, so `unsat` of the result is still a proof)"""
    ground = list(qf)
    done = set()
    bound = set()
    for vars_, _b in univ:
        for v in vars_:
            bound.add(v.get_id())
    seen_terms = set()
    seen_sum = set()
    seen_dot = set()
    seen_cdot = set()
    pending_dot = []
    terms = {}
    total = 0
    sums_done = set()
    triggers = {}
    chain_pats = {}
    usage_acc = {'sel': {}, 'apps': {}, 'seen': set(), 'appseen': set(), 'symcache': {}}
    new_exprs = ground + [goal] + list(extra_terms)
    if seed == 'goal':
        new_exprs = list(qf[-FOCUS_TAIL:]) + [goal] + list(extra_terms)
    for rnd in range(rounds + 1):
        t_new = index_terms(new_exprs, bound, seen_terms)
        s_new = sum_apps(new_exprs, seen_sum)
        for did, app in dot_apps(new_exprs, seen_dot).items():
            if did not in sums_done:
                sums_done.add(did)
                pending_dot.append(app)
        for did, app in cdot_apps(new_exprs, seen_cdot).items():
            if did not in sums_done:
                sums_done.add(did)
                pending_dot.append(app)
        # terms occurring inside quantified bodies that do not mention bound variables are candidates too
        for k, v in t_new.items():
            terms.setdefault(k, v)
        fresh_exprs = []
        while pending_dot:
            app_ = pending_dot.pop()
            ax_ = {'cdot_R': cdot_axioms, 'cdoto_R': cdoto_axioms}.get(app_.decl().name(), dot_axioms)(app_, sum_frame)
            fresh_exprs += ax_
            if sum_frame:
                # the frame instances (everything after the two unfolding equations) name the application over the array
                # underneath a store: follow the chain of stores to its end now instead of one store per round
                for finder, seen_ in ((dot_apps, seen_dot), (cdot_apps, seen_cdot)):
                    for did, a2 in finder(ax_[2:], set()).items():
                        if did not in sums_done and a2.arg(a2.num_args() - 1).get_id() == app_.arg(app_.num_args() - 1).get_id() \
                                and a2.arg(a2.num_args() - 2).get_id() == app_.arg(app_.num_args() - 2).get_id():
                            sums_done.add(did)
                            pending_dot.append(a2)
        for sid, app in s_new.items():
            if sid in sums_done:
                continue
            sums_done.add(sid)
            fresh_exprs += sum_axioms(app, sum_frame)
        if rnd == rounds:
            ground += fresh_exprs
            break
        tl = list(terms.values())
        usage = term_usage(new_exprs, bound, usage_acc)
        for ui, (vars_, body) in enumerate(univ):
            if ui not in triggers:
                triggers[ui] = (_find_trigger(vars_, body) if len(vars_) >= 2 else None, var_patterns(vars_, body))
            trg, pats = triggers[ui]
            if trg is not None:
                # an application that binds every bound variable: match each such trigger against the ground applications
                combos = []
                for tg in trg:
                    pos = [[k for k, a in enumerate(tg.children()) if a.get_id() == v.get_id()][0] for v in vars_]
                    for app in usage['apps'].get(tg.decl().name(), []):
                        combos.append(tuple(app.arg(p) for p in pos))
            else:
                per_var = []
                for v in vars_:
                    cands = {}
                    ps = pats.get(v.get_id())
                    if not ps:
                        cands = dict(terms)
                    else:
                        for kind, key, argpos in ps:
                            if kind == 'sel':
                                src = {}
                                if key is None:
                                    src = dict(usage['sel'].get(None) or {}) or dict(terms)
                                else:
                                    for kk in key:
                                        src.update(usage['sel'].get(kk) or {})
                                    src.update(usage['sel'].get('unk') or {})      # indices into arrays of unknown base
                                for t in src.values():
                                    if argpos is not None:
                                        t = z3.simplify(t - argpos[1] if argpos[0] == 'minus' else t + argpos[1])
                                    cands[t.get_id()] = t
                            else:
                                for app in usage['apps'].get(key, []):
                                    t = app.arg(argpos)
                                    cands[t.get_id()] = t
                    per_var.append(list(cands.values()))
                n = 1
                for c in per_var:
                    n *= max(1, len(c))
                if n > MAX_INST_PER_HYP or (seed == 'goal' and len(vars_) >= 2 and n > 64):
                    # (goal-directed mode: no large cartesian products; the ground chains below bind the variables together)
                    combos = [tuple([t] * len(vars_)) for t in per_var[0]] if len(set(map(len, per_var))) == 1 else []
                else:
                    combos = list(itertools.product(*per_var))
                if len(vars_) >= 2:
                    # nested-list hypotheses: bind all variables at once from a ground chain A[i][j](..) over the same list
                    if ui not in chain_pats:
                        chain_pats[ui] = _chain_patterns(vars_, body, usage_acc.setdefault('symcache', {}))
                    for syms, pos in chain_pats[ui]:
                        for gsyms, gidx in (usage.get('chains', {}).get(len(pos)) or {}).values():
                            if 'unk' in syms or 'unk' in gsyms or (syms & gsyms):
                                combo = [None] * len(vars_)
                                for lvl, pv in enumerate(pos):
                                    if pv is not None:
                                        combo[pv] = gidx[lvl]
                                combos.append(tuple(combo))
            for combo in combos:
                key = (ui,) + tuple(t.get_id() for t in combo)
                if key in done:
                    continue
                done.add(key)
                inst = to_z3(f_subst(body, list(zip(vars_, combo))))
                inst = z3.simplify(inst)
                if z3.is_true(inst):
                    continue
                fresh_exprs.append(inst)
                total += 1
                if total > budget:
                    break
        ground += fresh_exprs
        new_exprs = fresh_exprs
        if not fresh_exprs:
            break
    return ground


def _find_trigger(vars_, body):
    """an application of an uninterpreted function that has every bound variable as a direct argument"""
    ids = [v.get_id() for v in vars_]
    found = []

    def visit(x):
        if not z3.is_app(x) or x.decl().kind() != z3.Z3_OP_UNINTERPRETED or x.num_args() == 0:
            return
        argids = [a.get_id() for a in x.children()]
        if all(i in argids for i in ids):
            found.append(x)
    seen = set()
    for e in _atoms_of(body):
        _walk(e, seen, visit)
    return found or None


def _chain_patterns(vars_, body, cache):
    """select chains  A[t1]..[tk]  (k = 2, 3) of the body in which every bound variable occurs as a bare index:
    -> list of (symbols of A, [level -> position of the variable in vars_ or None])"""
    ids = [v.get_id() for v in vars_]
    out, seen_pat = [], set()

    def visit(x):
        if not (z3.is_app(x) and x.decl().kind() == z3.Z3_OP_SELECT):
            return
        idxs, a = [], x
        while z3.is_app(a) and a.decl().kind() == z3.Z3_OP_SELECT and len(idxs) < 3:
            idxs.append(a.arg(1))
            a = a.arg(0)
        idxs.reverse()
        if len(idxs) < 2:
            return
        pos = [ids.index(i.get_id()) if i.get_id() in ids else None for i in idxs]
        if set(p_ for p_ in pos if p_ is not None) != set(range(len(ids))):
            return
        syms = frozenset(_array_symbols(a, cache) or {'unk'})
        key = (syms, tuple(pos))
        if key not in seen_pat:
            seen_pat.add(key)
            out.append((syms, pos))
    seen = set()
    for e in _atoms_of(body):
        _walk(e, seen, visit)
    return out


def _atoms_of(tree):
    k = tree[0]
    if k == 'atom':
        return [tree[1]]
    if k in ('and', 'or'):
        out = []
        for x in tree[1]:
            out += _atoms_of(x)
        return out
    if k == 'implies':
        return _atoms_of(tree[1]) + _atoms_of(tree[2])
    if k == 'not':
        return _atoms_of(tree[1])
    return []



def _base_array(a):
    """the array symbol an array-valued term is derived from: strips Store chains and row selections (rows of nested lists)"""
    while z3.is_app(a) and a.decl().kind() in (z3.Z3_OP_STORE, z3.Z3_OP_SELECT):
        a = a.arg(0)
    return a


def _array_symbols(a, cache=None):
    """ids of all array-sorted uninterpreted constants occurring in the array-valued term a (a row of a nested list, a
    Store chain, an ite of arrays, ...): an index used on `a` may be an index into any of them.
    (z3 AST ids are only unique among LIVE terms: the cache keeps the term alive and lives no longer than one query)"""
    i = a.get_id()
    if cache is not None:
        hit = cache.get(i)
        if hit is not None:
            return hit[1]
    r = set()

    def visit(x):
        if z3.is_const(x) and x.decl().kind() == z3.Z3_OP_UNINTERPRETED and z3.is_array(x):
            r.add(x.get_id())
    _walk(a, set(), visit)
    if cache is not None:
        cache[i] = (a, r)
    return r


def term_usage(exprs, bound_ids, acc=None):
    """ground index terms per base array, ground applications per uninterpreted function (incremental when acc is given)"""
    if acc is None:
        acc = {'sel': {}, 'apps': {}, 'seen': set(), 'appseen': set(), 'symcache': {}}
    sel, apps = acc['sel'], acc['apps']
    seen = acc['seen']

    chains = acc.setdefault('chains', {})

    def visit(x):
        if not z3.is_app(x):
            return
        kd = x.decl().kind()
        if kd == z3.Z3_OP_SELECT and z3.is_app(x.arg(0)) and x.arg(0).decl().kind() == z3.Z3_OP_SELECT \
                and not _mentions(x, bound_ids):
            # ground chain  A[i1][i2](...)[ik]  of nested lists (depth 2 or 3): candidates for multi-variable hypotheses
            idxs, a = [], x
            while z3.is_app(a) and a.decl().kind() == z3.Z3_OP_SELECT and len(idxs) < 3:
                idxs.append(a.arg(1))
                a = a.arg(0)
            idxs.reverse()
            if all(i.sort() == I for i in idxs):
                syms = _array_symbols(a, acc.setdefault('symcache', {})) or {'unk'}
                chains.setdefault(len(idxs), {})[tuple(i.get_id() for i in idxs)] = (frozenset(syms), tuple(idxs))
        if kd in (z3.Z3_OP_SELECT, z3.Z3_OP_STORE):
            idx = x.arg(1)
            if idx.sort() == I and not _mentions(idx, bound_ids):
                keys = _array_symbols(x.arg(0), acc.setdefault('symcache', {})) or {'unk'}
                for key in keys:
                    sel.setdefault(key, {})[idx.get_id()] = idx
                sel.setdefault(None, {})[idx.get_id()] = idx
        elif kd == z3.Z3_OP_UNINTERPRETED and x.num_args() > 0 and not _mentions(x, bound_ids):
            if x.get_id() not in acc['appseen']:
                acc['appseen'].add(x.get_id())
                apps.setdefault(x.decl().name(), []).append(x)
    for e in exprs:
        _walk(e, seen, visit)
    return acc


def var_patterns(vars_, body):
    """for each bound variable: where it occurs *directly* as an array index or function argument"""
    ids = {v.get_id() for v in vars_}
    pats = {}
    seen = set()

    def visit(x):
        if not z3.is_app(x):
            return
        kd = x.decl().kind()
        if kd == z3.Z3_OP_SELECT:
            idx = x.arg(1)
            syms = frozenset(k for k in _array_symbols(x.arg(0)) if k not in ids)
            key = syms if syms else None
            if idx.get_id() in ids:
                pats.setdefault(idx.get_id(), []).append(('sel', key, None))
            elif z3.is_app(idx) and idx.decl().kind() in (z3.Z3_OP_ADD, z3.Z3_OP_SUB):
                # index of the form  v + c / c + v / v - c  with c free of bound variables: candidates t - c / t + c
                ch = idx.children()
                vs = [a for a in ch if a.get_id() in ids]
                rest = [a for a in ch if a.get_id() not in ids]
                if len(vs) == 1 and not any(_mentions(a, ids) for a in rest) and \
                        (idx.decl().kind() == z3.Z3_OP_ADD or ch[0].get_id() == vs[0].get_id()):
                    if idx.decl().kind() == z3.Z3_OP_ADD:
                        off = rest[0] if len(rest) == 1 else z3.Sum(*rest)
                        pats.setdefault(vs[0].get_id(), []).append(('sel', key, ('minus', off)))
                    else:
                        off = rest[0] if len(rest) == 1 else z3.Sum(*rest)
                        pats.setdefault(vs[0].get_id(), []).append(('sel', key, ('plus', off)))
        elif kd == z3.Z3_OP_UNINTERPRETED and x.num_args() > 0:
            for k, a in enumerate(x.children()):
                if a.get_id() in ids:
                    pats.setdefault(a.get_id(), []).append(('app', x.decl().name(), k))
    for e in _atoms_of(body):
        _walk(e, seen, visit)
    return pats


def ground_apps(exprs, decl_name, bound_ids, seen):
    out = []

    def visit(x):
        if z3.is_app(x) and x.decl().kind() == z3.Z3_OP_UNINTERPRETED and x.decl().name() == decl_name \
                and not _mentions(x, bound_ids):
            out.append(x)
    for e in exprs:
        _walk(e, seen, visit)
    return out


# ------------------------------------------------------------------------------------------------
def smt2_text(assertions):
    s = z3.Solver()
    for a in assertions:
        s.add(a)
    return s.to_smt2()


def run_cli(cmd, text, timeout_s):
    with tempfile.NamedTemporaryFile('w', suffix='.smt2', delete=False, dir=os.environ.get('TMPDIR', '/tmp')) as f:
        f.write(text)
        name = f.name
    try:
        r = subprocess.run(cmd + [name], capture_output=True, text=True, timeout=timeout_s + 5)
        out = (r.stdout or '').strip().split('\n')[0].strip()
        return out if out in ('sat', 'unsat', 'unknown') else 'unknown'
    except subprocess.TimeoutExpired:
        return 'unknown'
    finally:
        try:
            os.unlink(name)
        except OSError:
            pass


def refine_model(assertions, univ, model, small=(), timeout_ms=10000, max_rounds=10, deadline_s=30):
    """Model-based refinement of a counter-model candidate.  The ground query only contains the instances our triggers
    selected, so its model may violate a quantified hypothesis at an index nobody mentioned (a knot vector that is not
    sorted between the cells the proof looked at, a row of the wrong length...).  Evaluate every integer-quantified
    hypothesis in the model on all small index tuples, add the violated instances and re-solve, with the list lengths in
    `small` bounded so that the enumeration is exhaustive for the model at hand.  Returns a model in which every
    integer-quantified hypothesis holds on the enumerated range, or None (nothing is ever concluded from a failure:
    the caller still only has a candidate that must reproduce natively)."""
    t_end = time.time() + deadline_s
    int_univ = []
    for vars_, body in univ:
        if all(v.sort() == I for v in vars_) and len(vars_) <= 2:
            int_univ.append((vars_, to_z3(body)))
    for cap in (6, 12):
        s = z3.Solver()
        s.set('timeout', timeout_ms)
        for a in assertions:
            s.add(a)
        for t in small:
            s.add(t <= cap)
        K = [z3.IntVal(k) for k in range(-1, cap + 2)]
        m = None
        for _rnd in range(max_rounds):
            if time.time() > t_end or s.check() != z3.sat:
                m = None
                break
            m = s.model()
            added = 0
            for vars_, bz in int_univ:
                for combo in itertools.product(K, repeat=len(vars_)):
                    inst = z3.substitute(bz, *zip(vars_, combo))
                    if z3.is_false(m.eval(inst, model_completion=True)):
                        s.add(inst)
                        added += 1
                        if added > 4000:
                            break
            if not added:
                return m
        # sizes capped at `cap` admit no repaired model within the rounds: try larger sizes
    return None


def discharge(ob, timeout_ms=10000, rounds=2, sum_frame=True, small=()):
    """-> dict(status=proved|refuted|undecided, backend, ms, model, why)"""
    t0 = time.time()
    try:
        parts = split_goal(ob.goal, ob.hyps)
    except NotImplementedError as e:
        return dict(status='undecided', why=str(e), ms=0, backend='-')
    results = []
    for extra, g in parts:
        qf, univ = [], []
        try:
            for h in list(ob.hyps) + list(extra):
                flatten_hyp(h, qf, univ)
        except NotImplementedError as e:
            return dict(status='undecided', why=str(e), ms=0, backend='-')
        goal = to_z3(g)
        r = None
        if univ and len(qf) > FOCUS_TAIL:
            # goal-directed first attempt: instances whose terms come from the goal and the latest facts only
            try:
                ground_s = instantiate(qf, univ, goal, rounds=rounds, sum_frame=sum_frame, seed='goal', budget=6000)
                r = _check_abs(ground_s + [z3.Not(goal)], timeout_ms)
                if r is not None:
                    r['backend'] += '(goal-directed instances)'
                    r['nhyps'] = len(ground_s)
                    results.append(r)
                    continue
            except (NotImplementedError, z3.Z3Exception):
                r = None
        ground = instantiate(qf, univ, goal, rounds=rounds, sum_frame=sum_frame)
        assertions = ground + [z3.Not(goal)]
        r = _check_abs(assertions, timeout_ms)
        if r is None and len(ob.hyps) > FOCUS_TAIL:
            # focused attempts: the goal from the most recent hypotheses alone (the preceding hints / the statement just
            # executed), then the same plus the function's preconditions and definitional axioms.  Subsets of the
            # hypotheses, so `unsat` is still a proof; they keep the nonlinear solver away from the unrelated products of
            # a long path, which is what makes such queries unstable.
            hs = list(ob.hyps)
            npre = min(getattr(ob, 'npre', 0) or 0, max(0, len(hs) - FOCUS_TAIL))
            for label, subset in (('last %d hypotheses' % FOCUS_TAIL, hs[-FOCUS_TAIL:]),
                                  ('preconditions + last %d hypotheses' % FOCUS_TAIL, hs[:npre] + hs[-FOCUS_TAIL:])):
                if r is not None or (label.startswith('pre') and npre == 0):
                    continue
                try:
                    qf2, univ2 = [], []
                    for h in subset + list(extra):
                        flatten_hyp(h, qf2, univ2)
                    ground2 = instantiate(qf2, univ2, goal, rounds=rounds, sum_frame=sum_frame)
                    s2 = z3.Solver()
                    s2.set('timeout', min(timeout_ms, 8000))
                    for a in ground2:
                        s2.add(a)
                    s2.add(z3.Not(goal))
                    if s2.check() == z3.unsat:
                        r = dict(status='proved', backend='z3-api(%s)' % label)
                except (NotImplementedError, z3.Z3Exception):
                    pass
        if r is None:
            r = _check(assertions, timeout_ms, skip_abs=True)
        r['nhyps'] = len(ground)
        if r['status'] == 'refuted' and r.get('z3model') is not None and univ:
            try:
                m2 = refine_model(assertions, univ, r['z3model'], small=small, timeout_ms=timeout_ms)
            except z3.Z3Exception:
                m2 = None
            if m2 is not None:
                r['z3model'], r['model'], r['model_refined'] = m2, model_dict(m2), True
        results.append(r)
        if r['status'] != 'proved':
            break
    ms = int(1000 * (time.time() - t0))
    bad = [r for r in results if r['status'] != 'proved']
    if not bad:
        be = sorted(set(r['backend'] for r in results))
        return dict(status='proved', backend='+'.join(be), ms=ms, nhyps=sum(r['nhyps'] for r in results))
    r = bad[0]
    r['ms'] = ms
    return r


_MUL = z3.Function('mul@abs', R, R, R)
_DIV = z3.Function('div@abs', R, R, R)
_IMUL = z3.Function('imul@abs', I, I, I)


def _is_num(c):
    return z3.is_rational_value(c) or z3.is_int_value(c)


def _addends(t):
    """t as a list of (numeral coefficient as Fraction, term) addends: sums, differences, negations and numeral multiples
    are flattened, and to_real is pushed inside a linear integer term (to_real is additive), so that the same polynomial
    abstracts alike whether it is written  to_real(p - k + 1) * x  or  (to_real(p) - to_real(k) + 1) * x"""
    from fractions import Fraction
    out = []

    def val(c):
        return Fraction(c.as_long()) if z3.is_int_value(c) else Fraction(c.numerator_as_long(), c.denominator_as_long())

    def linear(x):
        return z3.is_app(x) and (x.decl().kind() in (z3.Z3_OP_ADD, z3.Z3_OP_SUB, z3.Z3_OP_UMINUS)
                                 or (x.decl().kind() == z3.Z3_OP_MUL and x.num_args() == 2 and _is_num(x.arg(0))))

    def go(x, coef, real, depth):
        if z3.is_app(x) and depth < 6:
            kd = x.decl().kind()
            if kd == z3.Z3_OP_ADD:
                for c in x.children():
                    go(c, coef, real, depth + 1)
                return
            if kd == z3.Z3_OP_SUB and x.num_args() >= 2:
                ch = x.children()
                go(ch[0], coef, real, depth + 1)
                for c in ch[1:]:
                    go(c, -coef, real, depth + 1)
                return
            if kd == z3.Z3_OP_UMINUS:
                go(x.arg(0), -coef, real, depth + 1)
                return
            if kd == z3.Z3_OP_MUL and x.num_args() == 2 and _is_num(x.arg(0)):
                go(x.arg(1), coef * val(x.arg(0)), real, depth + 1)
                return
            if kd == z3.Z3_OP_TO_REAL and linear(x.arg(0)):
                go(x.arg(0), coef, True, depth + 1)
                return
        if real and x.sort() == I:
            x = z3.RealVal(x.as_long()) if z3.is_int_value(x) else z3.ToReal(x)
        out.append((coef, x))
    go(t, Fraction(1), False, 0)
    return out


def _atoms_of_product(t, f):
    """factors of an already abstracted product  f(f(a, b), c) -> [a, b, c]"""
    if z3.is_app(t) and t.num_args() == 2 and t.decl().eq(f):
        return _atoms_of_product(t.arg(0), f) + _atoms_of_product(t.arg(1), f)
    return [t]


def abstract_nl(e, cache):
    """replace every product of two non-numeral factors (and division by a non-numeral) by an uninterpreted
    function application.  Products are first distributed over sums (one level per factor, bounded) and the factors of
    each monomial sorted, so that (a + b) * s and a * s + b * s abstract to the same term whichever form z3's
    simplifier produced.  The abstraction only forgets facts about multiplication, so `unsat` of the abstracted query
    implies `unsat` of the original."""
    i = e.get_id()
    r = cache.get(i)
    if r is not None:
        return r
    if not z3.is_app(e) or e.num_args() == 0:
        cache[i] = e
        return e
    ch = [abstract_nl(c, cache) for c in e.children()]
    kd = e.decl().kind()
    if kd == z3.Z3_OP_MUL:
        nums = [c for c in ch if _is_num(c)]
        rest = [c for c in ch if not _is_num(c)]
        if len(rest) >= 2:
            f = _MUL if e.sort() == R else _IMUL
            parts = [_addends(c) for c in rest]
            n = 1
            for p_ in parts:
                n *= len(p_)
            if n > 48:
                parts = [[(1, c)] for c in rest]
            monos = []
            for combo in itertools.product(*parts):
                sign = 1
                atoms = []
                for co, t in combo:
                    sign = sign * co
                    if _is_num(t):
                        atoms.append(t)
                    else:
                        atoms += _atoms_of_product(t, f)
                lits = [a for a in atoms if _is_num(a)]
                atoms = [a for a in atoms if not _is_num(a)]
                atoms.sort(key=lambda c: c.get_id())
                if not atoms:
                    acc = z3.RealVal(1) if e.sort() == R else z3.IntVal(1)
                else:
                    acc = atoms[0]
                    for c in atoms[1:]:
                        # commutativity instance of this node: the order of the factors is syntactic (term ids), and two
                        # products whose factors are equal only semantically (a select through a store) may be sorted
                        # differently
                        cache.setdefault('@comm', []).append(f(acc, c) == f(c, acc))
                        acc = f(acc, c)
                for c in lits:
                    acc = c * acc
                if sign == -1:
                    acc = -acc
                elif sign != 1:
                    acc = (z3.RealVal(str(sign)) if e.sort() == R else z3.IntVal(int(sign))) * acc
                monos.append(acc)
            acc = monos[0] if len(monos) == 1 else z3.Sum(monos)
            for c in nums:
                acc = c * acc
            cache[i] = acc
            return acc
    if kd == z3.Z3_OP_DIV and not _is_num(ch[1]):
        r = _DIV(ch[0], ch[1])
        cache[i] = r
        return r
    r = e.decl()(*ch) if kd != z3.Z3_OP_UNINTERPRETED or e.num_args() else e
    cache[i] = r
    return r


FOCUS_TAIL = 14


def _check_abs(assertions, timeout_ms):
    # pass 1: products as uninterpreted terms (congruence + linear arithmetic): fast and robust when the contract's
    # hints spell out the algebra
    cache = {}
    try:
        s0 = z3.Solver()
        s0.set('timeout', min(timeout_ms, 5000))
        for a in assertions:
            s0.add(abstract_nl(a, cache))
        for a in cache.get('@comm', []):
            s0.add(a)
        if s0.check() == z3.unsat:
            return dict(status='proved', backend='z3-api(products abstracted)')
    except z3.Z3Exception:
        pass
    return None


def _check(assertions, timeout_ms, skip_abs=False):
    # pass 2: the real nonlinear query
    if not skip_abs:
        r = _check_abs(assertions, timeout_ms)
        if r is not None:
            return r
    s = z3.Solver()
    s.set('timeout', timeout_ms)
    for a in assertions:
        s.add(a)
    r = s.check()
    if r == z3.unsat:
        return dict(status='proved', backend='z3-api')
    if r == z3.sat:
        m = s.model()
        return dict(status='refuted', backend='z3-api', model=model_dict(m), z3model=m)
    text = s.to_smt2()
    for name, cmd in (('z3-4.8.12', ['/usr/bin/z3', '-T:%d' % max(1, timeout_ms // 1000)]),
                      ('cvc5', ['/usr/bin/cvc5', '--tlimit=%d' % timeout_ms])):
        out = run_cli(cmd, text, timeout_ms // 1000)
        if out == 'unsat':
            return dict(status='proved', backend=name)
        if out == 'sat':
            return dict(status='refuted', backend=name, model=None)
    return dict(status='undecided', backend='z3-api,z3-4.8.12,cvc5', why='unknown/timeout on all back ends (%s)' % s.reason_unknown())


def model_dict(m):
    out = {}
    for d in m.decls():
        try:
            v = m[d]
            out[d.name()] = str(v)
        except Exception:
            pass
    return out
