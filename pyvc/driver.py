"""Engine A driver: binds sidecar contracts to the functions in the repository's current source, generates the
verification conditions, discharges them, guards against vacuity."""
import ast
import importlib
import os
import time

import z3

from . import core, solve

REPO = os.environ.get('VERIF_REPO', '/repo')
ROOT = os.path.dirname(os.path.dirname(os.path.abspath(__file__)))


from .contracts_io import load_contracts


def find_function(qual):
    """'helpers.basis_function' or 'evaluators.CurveEvaluator.evaluate' -> (ast.FunctionDef, file)"""
    parts = qual.split('.')
    path = os.path.join(REPO, 'geomdl', parts[0] + '.py')
    with open(path) as f:
        tree = ast.parse(f.read(), path)
    body = tree.body
    node = None
    for p in parts[1:]:
        node = None
        for n in body:
            if isinstance(n, (ast.FunctionDef, ast.ClassDef)) and n.name == p:
                node = n
                break
        if node is None:
            raise core.Unsupported('%s not found in %s' % (qual, path))
        body = node.body
    if not isinstance(node, ast.FunctionDef):
        raise core.Unsupported('%s is not a function' % qual)
    return node, path


def tasks_for(prop, tier):
    reg = load_contracts()
    out = []
    for name, c in sorted(reg.items()):
        if prop in c.get('props', []) and not c.get('abstract'):
            n = int(c.get('chunks', 1))
            for i in range(n):          # the obligations of one function can be discharged by several processes
                out.append({'function': name, 'tier': tier, 'chunk': [i, n]})
    return out


def run_contract(task, budget_s=120):
    reg = load_contracts()
    name = task['function']
    c = reg[name]
    out = {'function': name, 'obligations': [], 'dropped': [], 'canary_proved': False,
           # what the proof of this function assumes beyond its requires clauses
           'assumed': {'definitional_axioms': list(c.get('axioms', [])), 'lemmas_used_as_axioms': list(c.get('uses_lemmas', [])),
                       'ghost_arguments': list(c.get('ghost_args', {})),
                       'callee_contracts': sorted(set(list(c.get('imports', {}).values()) + list(c.get('super_calls', {}).values())))}}
    t_end = time.time() + budget_s
    try:
        if c.get('kind') == 'lemma':
            from . import lemma
            obls, gen = lemma.obligations(c, reg)
            out['file'] = 'contracts (ghost lemma)'
        elif c.get('source'):
            # ghost lemma over contracts: a few lines of Python that only call functions through their contracts
            fn = ast.parse(c['source'].strip()).body[0]
            out['file'] = 'contracts (ghost composition lemma)'
            gen = core.Gen(fn, c, reg, name.split('.')[0])
            obls = gen.run()
        else:
            fn, path = find_function(c.get('target', name))
            out['file'] = path
            from . import alias
            probs = alias.check(fn)
            if probs:
                raise core.Unsupported('possible aliasing, value semantics of lists would be unsound: ' + '; '.join(probs[:3]))
            gen = core.Gen(fn, c, reg, name.split('.')[0])
            obls = gen.run()
            out['dropped'] = gen.dropped + ['docstrings', 'exception message strings']
    except core.Unsupported as e:
        out['obligations'].append({'name': 'bind-contract-to-source', 'status': 'undecided', 'why': 'outside the supported subset / contract '
                                   'cannot be bound: %s' % e, 'kind': 'scaffolding'})
        return out
    except (KeyError, AttributeError, TypeError, IndexError, ValueError, z3.Z3Exception, AssertionError, RecursionError) as e:
        # source that the generator cannot bind the sidecar contract to (renamed locals the invariants mention, constructs
        # outside the subset that surface as a type confusion...): the function is NOT proved; never an alarm, never a crash
        out['obligations'].append({'name': 'bind-contract-to-source', 'status': 'undecided', 'why': 'contract cannot be bound to the '
                                   'current source (%s: %s)' % (type(e).__name__, str(e)[:200]), 'kind': 'scaffolding'})
        return out
    if not obls:
        out['obligations'].append({'name': 'non-vacuity', 'status': 'undecided', 'why': 'zero obligations generated', 'kind': 'scaffolding'})
        return out
    tmo = c.get('timeout_ms', 10000)
    rounds = c.get('rounds', 2)
    counts = {}
    ci, cn = task.get('chunk') or [0, 1]
    small = entry_lengths(gen.entry_env) if c.get('kind') != 'lemma' else ()
    for oi, ob in enumerate(obls):
        k = counts.get(ob.name, 0)
        counts[ob.name] = k + 1
        nm = ob.name if k == 0 else '%s#%d' % (ob.name, k)
        if oi % cn != ci:
            continue
        if time.time() > t_end:
            out['obligations'].append({'name': nm, 'status': 'undecided', 'why': 'function budget exhausted', 'kind': ob.kind})
            continue
        try:
            r = solve.discharge(ob, timeout_ms=tmo, rounds=rounds, sum_frame=not c.get('no_sum_frame'), small=small)
        except (z3.Z3Exception, KeyError, AttributeError, TypeError, RecursionError) as e:
            r = {'status': 'undecided', 'why': 'solver interface error (%s: %s)' % (type(e).__name__, str(e)[:160]), 'backend': '-', 'ms': 0}
        rec = {'name': nm, 'status': r['status'], 'backend': r.get('backend'), 'ms': r.get('ms'), 'kind': ob.kind,
               'nhyps': r.get('nhyps'), 'line': ob.line}
        if r['status'] == 'refuted':
            rec['model'] = r.get('model')
            rec['function'] = name
            rec['msg'] = 'solver found a counter-model for %s of %s (source line %s)' % (nm, name, ob.line)
            if r.get('z3model') is not None and c.get('kind') != 'lemma':
                try:
                    rec['inputs'] = inputs_from_model(r['z3model'], gen.entry_env, c)
                except Exception as e:        # the model is then only reported verbatim
                    rec['inputs_error'] = str(e)
        if r['status'] == 'undecided':
            rec['why'] = r.get('why')
        out['obligations'].append(rec)
    # vacuity canary: `false` must NOT follow from the preconditions (+ axioms)
    if c.get('kind') != 'lemma' and ci == 0:
        can = core.Obligation('canary', gen.pre_hyps, core.atom(z3.BoolVal(False)), 'canary')
        r = solve.discharge(can, timeout_ms=5000, rounds=1)
        out['canary_proved'] = (r['status'] == 'proved')
        out['canary'] = r['status']
    return out


def entry_lengths(env):
    """the integer terms that decide how big a counter-model is: list lengths (all levels) of the entry state"""
    out = []

    def walk(x, depth=0):
        if isinstance(x, core.SList):
            out.append(x.ln)
            if x.nested():
                for i in range(13):
                    r = x.row(z3.IntVal(i))
                    out.append(r.ln)
                    if r.nested():
                        for j in range(13):
                            out.append(r.row(z3.IntVal(j)).ln)
        elif isinstance(x, core.STuple):
            for i in x.items:
                walk(i)
        elif isinstance(x, core.SDict):
            for v in x.d.values():
                walk(v)
        elif isinstance(x, core.SObject):
            for v in x.attrs.values():
                walk(v)
    for v in (env or {}).values():
        walk(v)
    return out


def inputs_from_model(m, entry_env, c, maxlen=40):
    """function arguments of the counter-model as JSON-able values (reals as 'p/q' strings)"""
    def val(e):
        v = m.eval(e, model_completion=True)
        if z3.is_int_value(v):
            return v.as_long()
        if z3.is_rational_value(v):
            return '%d/%d' % (v.numerator_as_long(), v.denominator_as_long())
        if z3.is_true(v):
            return True
        if z3.is_false(v):
            return False
        if z3.is_algebraic_value(v):
            a = v.approx(20)
            return '%d/%d' % (a.numerator_as_long(), a.denominator_as_long())
        raise ValueError('no concrete value for %s' % e)
    def lst(x):
        n = val(x.ln)
        if n > maxlen:
            raise ValueError('list too long in the model (%d)' % n)
        if n < 0:
            raise ValueError('negative length in the model')
        if x.nested():
            return {'list': [lst(x.row(z3.IntVal(i))) for i in range(n)]}
        return {'list': [val(z3.Select(x.arr, i)) for i in range(n)]}

    def conv(x):
        if isinstance(x, core.SList):
            return lst(x)
        if z3.is_expr(x):
            return val(x)
        if isinstance(x, core.STuple):
            return {'list': [conv(i) for i in x.items]}
        if isinstance(x, core.SDict):
            return {'dict': dict((k, conv(v)) for k, v in x.d.items())}
        raise ValueError('no JSON form for %r' % (x,))
    out = {}
    names = list(c['args'].items()) + list((c.get('ghost_args') or {}).items())
    for a, t in names:
        x = entry_env.get(a)
        if x is None or t == 'kwargs' or isinstance(x, core.SKwargs):
            continue
        if isinstance(x, core.SObject):
            for k, v in x.attrs.items():
                try:
                    out['%s.%s' % (a, k)] = conv(v)
                except ValueError:
                    pass
            continue
        out[a] = conv(x)
    return out
