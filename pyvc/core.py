"""Engine A (pyvc): verification-condition generation from the AST of the real geomdl functions.

Forward symbolic execution of one function body with
  * loops cut at their sidecar invariants (establish / preserve / use) + `decreases` variants on `while`,
  * calls replaced by the callee's contract (assert requires, havoc result, assume ensures),
  * an index-safety obligation on every subscript, a non-zero obligation on every real division,
  * `raise` reachable only where the contract's `raises` clause allows it,
  * every `return` checked against every `ensures`.
Integers are mathematical (z3 Int), floats are reals (z3 Real) [assumptions A1, A6], lists are values
(Array Int T, length).  What reaches the solver is built in solve.py (own quantifier instantiation).

Formulas are small trees:  ('atom', z3 Bool) | ('and', [..]) | ('or', [..]) | ('implies', a, b) | ('not', a)
                         | ('forall', [z3 consts], body)
"""
import ast
import itertools

import z3

I, R, B = z3.IntSort(), z3.RealSort(), z3.BoolSort()
DOT = z3.Function('dot_R', z3.ArraySort(I, R), z3.ArraySort(I, R), I, I, R)      # ghost: sum_{lo <= j < hi} a[j]*b[j]
# ghost: cdot(a, M, c, lo, hi) = sum_{lo <= j < hi} a[j]*M[j][c]   (a row against column c of a matrix)
CDOT = z3.Function('cdot_R', z3.ArraySort(I, R), z3.ArraySort(I, z3.ArraySort(I, R)), I, I, I, R)
# ghost: cdoto(a, M, c, off, lo, hi) = sum_{lo <= j < hi} a[j]*M[off + j][c]   (the same against a window of rows starting at off)
CDOTO = z3.Function('cdoto_R', z3.ArraySort(I, R), z3.ArraySort(I, z3.ArraySort(I, R)), I, I, I, I, R)


class Unsupported(Exception):
    """construct outside the supported subset: the function is not counted as verified by Engine A"""


# ------------------------------------------------------------------------------------------------
# values
# ------------------------------------------------------------------------------------------------
def sort_of(et):
    if et == 'real':
        return R
    if et == 'int':
        return I
    if et == 'bool':
        return B
    if isinstance(et, tuple) and et[0] == 'list':
        return z3.ArraySort(I, sort_of(et[1]))
    raise Unsupported('element type %r' % (et,))


class SList(object):
    """list value: arr : Array Int <et>, ln : Int.
    nested lists carry ilen : Array Int Int (the lengths of the rows) and, when the rows are nested themselves (depth 3),
    isub : Array Int (Array Int Int) (for every row, the lengths of ITS rows).  Depth > 3 is not supported."""
    __slots__ = ('arr', 'ln', 'et', 'ilen', 'isub')

    def __init__(self, arr, ln, et, ilen=None, isub=None):
        self.arr, self.ln, self.et, self.ilen, self.isub = arr, ln, et, ilen, isub

    def nested(self):
        return isinstance(self.et, tuple)

    def deep(self):
        return isinstance(self.et, tuple) and isinstance(self.et[1], tuple)

    def row(self, i):
        """element i: a z3 term, or the row as an SList"""
        v = z3.Select(self.arr, i)
        if not self.nested():
            return v
        inner = SList(v, z3.Select(self.ilen, i), self.et[1])
        if inner.nested():
            if isinstance(inner.et[1], tuple):
                raise Unsupported('lists nested deeper than 3 levels')
            inner.ilen = z3.Select(self.isub, i)
        return inner

    def with_row(self, i, val):
        """functional update  self[i] = val  (val: z3 term or SList)"""
        if isinstance(val, SList):
            if not self.nested():
                raise Unsupported('storing a list into a flat list')
            isub = self.isub
            if self.deep():
                if not val.nested():
                    raise Unsupported('row nesting mismatch')
                isub = z3.Store(self.isub, i, val.ilen)
            return SList(z3.Store(self.arr, i, val.arr), self.ln, self.et, z3.Store(self.ilen, i, val.ln), isub)
        if self.nested():
            raise Unsupported('storing a scalar into a nested list')
        return SList(z3.Store(self.arr, i, val), self.ln, self.et)

    def resized(self, ln):
        return SList(self.arr, ln, self.et, self.ilen, self.isub)


class STuple(object):
    __slots__ = ('items',)

    def __init__(self, items):
        self.items = list(items)


class SNone(object):
    pass


NONE = SNone()


class SFunc(object):
    def __init__(self, name):
        self.name = name


class SKwargs(object):
    def __init__(self, d):
        self.d = d


class SDict(object):
    """dict with a shape fixed by the contract (string keys)"""
    def __init__(self, d):
        self.d = d


class SObject(object):
    """`self` with the attributes the contract declares"""
    def __init__(self, attrs):
        self.attrs = attrs


FACT = z3.Function('fact@spec', z3.IntSort(), z3.IntSort())      # = the contract-language spec function `fact`
POW10 = z3.Function('pow10@spec', z3.IntSort(), z3.RealSort())
_fresh = itertools.count()


def fresh(name, sort):
    return z3.Const('%s!%d' % (name, next(_fresh)), sort)


def fresh_list(name, et, ln=None):
    s = SList(fresh(name, z3.ArraySort(I, sort_of(et))), ln if ln is not None else fresh(name + '_len', I), et)
    if s.nested():
        s.ilen = fresh(name + '_ilen', z3.ArraySort(I, I))
    if s.deep():
        s.isub = fresh(name + '_isub', z3.ArraySort(I, z3.ArraySort(I, I)))
    return s


def to_real(x):
    if z3.is_expr(x) and x.sort() == I:
        return z3.ToReal(x)
    return x


def is_int(x):
    return z3.is_expr(x) and x.sort() == I


def is_real(x):
    return z3.is_expr(x) and x.sort() == R


def is_bool(x):
    return z3.is_expr(x) and x.sort() == B


def unify(a, b):
    """arithmetic operands to a common sort"""
    if is_int(a) and is_real(b):
        return z3.ToReal(a), b
    if is_real(a) and is_int(b):
        return a, z3.ToReal(b)
    return a, b


# ------------------------------------------------------------------------------------------------
# formula trees
# ------------------------------------------------------------------------------------------------
def atom(e):
    return ('atom', e)


def f_and(fs):
    fs = [f for f in fs if not (f[0] == 'atom' and z3.is_true(f[1]))]
    if len(fs) == 1:
        return fs[0]
    return ('and', fs)


def f_implies(a, b):
    return ('implies', a, b)


def is_qf(f):
    k = f[0]
    if k == 'atom':
        return True
    if k == 'forall' or k == 'exists':
        return False
    if k in ('and', 'or'):
        return all(is_qf(x) for x in f[1])
    if k == 'implies':
        return is_qf(f[1]) and is_qf(f[2])
    if k == 'not':
        return is_qf(f[1])
    raise ValueError(k)


def to_z3(f):
    """quantifier-free tree -> z3"""
    k = f[0]
    if k == 'atom':
        return f[1]
    if k == 'and':
        return z3.And(*[to_z3(x) for x in f[1]]) if f[1] else z3.BoolVal(True)
    if k == 'or':
        return z3.Or(*[to_z3(x) for x in f[1]]) if f[1] else z3.BoolVal(False)
    if k == 'implies':
        return z3.Implies(to_z3(f[1]), to_z3(f[2]))
    if k == 'not':
        return z3.Not(to_z3(f[1]))
    raise ValueError('quantifier in to_z3: %s' % k)


def f_subst(f, pairs):
    k = f[0]
    if k == 'atom':
        return ('atom', z3.substitute(f[1], *pairs))
    if k in ('and', 'or'):
        return (k, [f_subst(x, pairs) for x in f[1]])
    if k == 'implies':
        return (k, f_subst(f[1], pairs), f_subst(f[2], pairs))
    if k == 'not':
        return (k, f_subst(f[1], pairs))
    if k in ('forall', 'exists'):
        return (k, f[1], f_subst(f[2], pairs))
    raise ValueError(k)


# ------------------------------------------------------------------------------------------------
class Obligation(object):
    __slots__ = ('name', 'hyps', 'goal', 'kind', 'line', 'npre')

    def __init__(self, name, hyps, goal, kind, line=0):
        self.name, self.hyps, self.goal, self.kind, self.line, self.npre = name, list(hyps), goal, kind, line, 0


def lemma_as_axiom(name, lc):
    """the universally quantified statement of a proved ghost lemma over scalar arguments:
    forall args. requires ==> ensures   (generated from the lemma's own contract text, so it cannot drift from what
    the lemma proves; the lemma is discharged as a contract of its own)"""
    if lc.get('ghost_args') or any(t not in ('int', 'real') for t in lc['args'].values()):
        raise Unsupported('lemma %s cannot be used as an axiom: non-scalar or ghost arguments' % name)
    if any('result' in {x.id for x in ast.walk(ast.parse(e, mode='eval')) if isinstance(x, ast.Name)} for e in lc['ensures']):
        raise Unsupported('lemma %s: ensures mentions result' % name)
    ren = {a: '%s_%s' % (a, name.split('.')[-1]) for a in lc['args']}

    class R(ast.NodeTransformer):
        def visit_Name(self, n):
            return ast.copy_location(ast.Name(id=ren.get(n.id, n.id), ctx=n.ctx), n)

    def rn(txt):
        return ast.unparse(R().visit(ast.parse(txt.strip(), mode='eval')))
    body = ' and '.join('(%s)' % rn(e) for e in lc['ensures'])
    if lc.get('requires'):
        body = 'implies(%s, %s)' % (' and '.join('(%s)' % rn(r) for r in lc['requires']), body)
    for a in reversed(list(lc['args'])):
        body = 'forall(%s, %s)' % (ren[a], body)
    return body


class Path(object):
    def __init__(self, env, hyps):
        self.env = dict(env)
        self.hyps = list(hyps)

    def fork(self):
        p = Path(self.env, self.hyps)
        p.comp = getattr(self, 'comp', False)
        p.sidefacts = getattr(self, 'sidefacts', None)
        return p


class SpecFunc(object):
    """uninterpreted spec function with a z3 declaration; args are ints/reals; arrays of the enclosing function are
    captured (the function under contract never reassigns them)"""

    def __init__(self, name, argsorts, retsort):
        self.name = name
        self.decl = z3.Function(name, *(list(argsorts) + [retsort]))


class Gen(object):
    """VC generator for one function"""

    def __init__(self, fn_ast, contract, registry, modname):
        self.fn = fn_ast
        self.c = contract
        self.registry = registry          # qualified name -> contract (for calls)
        self.modname = modname
        self.obls = []
        self.loopno = 0
        self.loop_ids = None
        self.specfuncs = {}
        self.dropped = []
        self.array_sum = {}
        self.axioms = []                  # formula trees assumed on every path (definitions of spec functions + proved lemmas)
        self.entry_env = None

    # ---------------------------------------------------------------- obligations
    def oblige(self, name, path, goal, kind, line=0, extra=()):
        if name.startswith('nonzero-divisor@') and getattr(self, 'zdiv_capture', None) is not None:
            self.zdiv_capture.append(goal)          # inside `try: <one statement> except ZeroDivisionError:` - a branch
            return
        ob = Obligation(name, list(path.hyps) + list(extra), goal, kind, line)
        ob.npre = len(getattr(self, 'pre_hyps', ()) or ())       # declarations, axioms, lemmas and requires come first on every path
        self.obls.append(ob)

    # ---------------------------------------------------------------- spec expressions
    def spec(self, txt, env, extra=None):
        e = dict(env)
        if extra:
            e.update(extra)
        node = ast.parse(txt.strip(), mode='eval').body
        return self.sform(node, e)

    def sform(self, n, env):
        """contract-language expression -> formula tree"""
        if isinstance(n, ast.BoolOp):
            parts = [self.sform(v, env) for v in n.values]
            return ('and', parts) if isinstance(n.op, ast.And) else ('or', parts)
        if isinstance(n, ast.UnaryOp) and isinstance(n.op, ast.Not):
            return ('not', self.sform(n.operand, env))
        if isinstance(n, ast.Call) and isinstance(n.func, ast.Name):
            f = n.func.id
            if f == 'implies':
                return ('implies', self.sform(n.args[0], env), self.sform(n.args[1], env))
            if f in ('forall', 'exists'):
                # forall(i, lo, hi, body)  |  forall(i, body)
                v = z3.Int(n.args[0].id + '?')
                e2 = dict(env)
                e2[n.args[0].id] = v
                if len(n.args) == 4:
                    lo = self.sterm(n.args[1], e2)
                    hi = self.sterm(n.args[2], e2)
                    body = self.sform(n.args[3], e2)
                    g = atom(z3.And(lo <= v, v < hi))
                    body = ('implies', g, body) if f == 'forall' else ('and', [g, body])
                else:
                    body = self.sform(n.args[1], e2)
                if body[0] == f:
                    return (f, [v] + body[1], body[2])
                return (f, [v], body)
            if f == 'iff':
                a, b = self.sform(n.args[0], env), self.sform(n.args[1], env)
                return ('and', [('implies', a, b), ('implies', b, a)])
        if isinstance(n, ast.IfExp):
            c = self.sform(n.test, env)
            return ('and', [('implies', c, self.sform(n.body, env)), ('implies', ('not', c), self.sform(n.orelse, env))])
        t = self.sterm(n, env)
        if not is_bool(t):
            raise Unsupported('spec expression is not boolean: %s' % ast.dump(n)[:80])
        return atom(t)

    def sterm(self, n, env):
        """contract-language term -> z3 expr / SList"""
        ev = lambda x: self.sterm(x, env)
        if isinstance(n, ast.Constant):
            v = n.value
            if isinstance(v, bool):
                return z3.BoolVal(v)
            if isinstance(v, int):
                return z3.IntVal(v)
            if isinstance(v, float):
                return z3.RealVal(repr(v))
            if isinstance(v, str):
                return z3.RealVal(v)          # 'p/q' rational literal
            raise Unsupported('constant %r' % (v,))
        if isinstance(n, ast.Name):
            if n.id not in env:
                raise Unsupported('unknown name %s in contract' % n.id)
            return env[n.id]
        if isinstance(n, ast.BinOp):
            a, b = ev(n.left), ev(n.right)
            a, b = unify(a, b)
            if isinstance(n.op, ast.Add):
                return a + b
            if isinstance(n.op, ast.Sub):
                return a - b
            if isinstance(n.op, ast.Mult):
                return a * b
            if isinstance(n.op, ast.Div):
                return to_real(a) / to_real(b)
            if isinstance(n.op, ast.FloorDiv):
                return a / b          # z3 Int division (euclidean; operands are non-negative where used)
            if isinstance(n.op, ast.Mod):
                return a % b
            raise Unsupported('spec operator')
        if isinstance(n, ast.UnaryOp) and isinstance(n.op, ast.USub):
            return -ev(n.operand)
        if isinstance(n, ast.UnaryOp) and isinstance(n.op, ast.Not):
            return z3.Not(ev(n.operand))
        if isinstance(n, ast.Compare):
            terms = [ev(n.left)] + [ev(c) for c in n.comparators]
            out = []
            for op, a, b in zip(n.ops, terms, terms[1:]):
                a, b = unify(a, b)
                out.append(self.cmp(op, a, b))
            return z3.And(*out) if len(out) > 1 else out[0]
        if isinstance(n, ast.BoolOp):
            vs = [ev(v) for v in n.values]
            return z3.And(*vs) if isinstance(n.op, ast.And) else z3.Or(*vs)
        if isinstance(n, ast.IfExp):
            a, b = unify(ev(n.body), ev(n.orelse))
            return z3.If(ev(n.test), a, b)
        if isinstance(n, ast.Attribute) and isinstance(n.value, ast.Name) and isinstance(env.get(n.value.id), SObject):
            return env[n.value.id].attrs[n.attr]
        if isinstance(n, ast.Subscript):
            l = ev(n.value)
            if isinstance(l, SDict):
                return l.d[n.slice.value]
            if isinstance(l, STuple):
                return l.items[n.slice.value]
            i = ev(n.slice)
            if isinstance(n.slice, ast.Constant) and isinstance(n.slice.value, int) and n.slice.value < 0:
                i = l.ln + i
            return self.select(l, i)
        if isinstance(n, ast.Call) and isinstance(n.func, ast.Name):
            f = n.func.id
            if f == 'len':
                return ev(n.args[0]).ln
            if f == 'abs':
                a = ev(n.args[0])
                return z3.If(a >= 0, a, -a)
            if f == 'min':
                a, b = unify(ev(n.args[0]), ev(n.args[1]))
                return z3.If(a <= b, a, b)
            if f == 'max':
                a, b = unify(ev(n.args[0]), ev(n.args[1]))
                return z3.If(a >= b, a, b)
            if f == 'real':
                return to_real(ev(n.args[0]))
            if f == 'implies':
                return z3.Implies(ev(n.args[0]), ev(n.args[1]))
            if f == 'old':
                e0 = dict(env)
                e0.update(self.entry_env)
                return self.sterm(n.args[0], e0)
            if f == 'dot':          # dot(a, b, lo, hi) ghost
                a_, b_ = ev(n.args[0]), ev(n.args[1])
                return DOT(a_.arr, b_.arr, ev(n.args[2]), ev(n.args[3]))
            if f == 'cdot':         # cdot(a, M, c, lo, hi) ghost
                a_, m_ = ev(n.args[0]), ev(n.args[1])
                return CDOT(a_.arr, m_.arr, ev(n.args[2]), ev(n.args[3]), ev(n.args[4]))
            if f == 'cdoto':        # cdoto(a, M, c, off, lo, hi) ghost
                a_, m_ = ev(n.args[0]), ev(n.args[1])
                return CDOTO(a_.arr, m_.arr, ev(n.args[2]), ev(n.args[3]), ev(n.args[4]), ev(n.args[5]))
            if f == 'sum':          # sum(a, lo, hi) ghost
                l = ev(n.args[0])
                return self.sumfn(l)(l.arr, ev(n.args[1]), ev(n.args[2]))
            if f in self.specfuncs:
                args = [ev(a) for a in n.args]
                sf = self.specfuncs[f]
                args = [a.arr if isinstance(a, SList) else (to_real(a) if sf.decl.domain(k) == R else a)
                        for k, a in enumerate(args)]
                return sf.decl(*args)
            if f in ('forall', 'exists'):
                raise Unsupported('quantifier nested inside a term')
        raise Unsupported('spec term %s' % ast.dump(n)[:100])

    def sumfn(self, l):
        key = str(l.arr.sort())
        fn = self.array_sum.get(key)
        if fn is None:
            fn = self.array_sum[key] = z3.Function('sum_' + ('R' if l.et == 'real' else 'I'), l.arr.sort(), I, I,
                                                  R if l.et == 'real' else I)
        return fn

    @staticmethod
    def cmp(op, a, b):
        t = type(op)
        if t is ast.Lt:
            return a < b
        if t is ast.LtE:
            return a <= b
        if t is ast.Gt:
            return a > b
        if t is ast.GtE:
            return a >= b
        if t is ast.Eq:
            return a == b
        if t is ast.NotEq:
            return a != b
        raise Unsupported('comparison operator')

    @staticmethod
    def select(l, i):
        if not isinstance(l, SList):
            raise Unsupported('subscript of non-list')
        return l.row(i)

    # ---------------------------------------------------------------- program expressions
    def expr(self, n, path):
        """program expression -> value; emits safety obligations"""
        env = path.env
        ev = lambda x: self.expr(x, path)
        if isinstance(n, ast.Constant):
            v = n.value
            if v is None:
                return NONE
            if isinstance(v, bool):
                return z3.BoolVal(v)
            if isinstance(v, int):
                return z3.IntVal(v)
            if isinstance(v, float):
                return z3.RealVal(repr(v))
            if isinstance(v, str):
                return ('str', v)
            raise Unsupported('constant')
        if isinstance(n, ast.Name):
            if n.id in env:
                return env[n.id]
            if n.id in ('True', 'False'):
                return z3.BoolVal(n.id == 'True')
            qual = self.modname + '.' + n.id
            if qual in self.registry:
                return SFunc(qual)
            raise Unsupported('unknown name %s' % n.id)
        if isinstance(n, ast.Tuple):
            if not n.elts:
                return SList(z3.K(I, z3.RealVal(0)), z3.IntVal(0), 'real')      # () used as an empty placeholder row
            return STuple([ev(e) for e in n.elts])
        if isinstance(n, ast.List):
            items = [ev(e) for e in n.elts]
            return self.list_literal(items)
        if isinstance(n, ast.BinOp):
            a, b = ev(n.left), ev(n.right)
            if isinstance(a, SList) and isinstance(b, SList) and isinstance(n.op, ast.Add):
                return self.concat(a, b, path)
            if not isinstance(n.op, ast.Pow):
                a, b = unify(a, b)
            if isinstance(n.op, ast.Add):
                return a + b
            if isinstance(n.op, ast.Sub):
                return a - b
            if isinstance(n.op, ast.Mult):
                return a * b
            if isinstance(n.op, ast.Div):
                a, b = to_real(a), to_real(b)
                self.oblige('nonzero-divisor@%d' % n.lineno, path, atom(b != 0), 'safety', n.lineno)
                if getattr(path, 'comp', False):
                    # inside a comprehension element: no per-element temporaries; the defining fact of the quotient
                    # (a valid formula of real arithmetic) is stated next to the element so that the products-abstracted
                    # pass can use it
                    side = getattr(path, 'sidefacts', None)
                    if side is not None:
                        side.append(atom(z3.Implies(b != 0, (a / b) * b == a)))
                    return a / b
                t = fresh('quot', R)
                path.hyps.append(atom(t * b == a))
                return t
            if isinstance(n.op, ast.FloorDiv):
                if not (is_int(a) and is_int(b)):
                    raise Unsupported('floor division on reals')
                self.oblige('nonzero-divisor@%d' % n.lineno, path, atom(b != 0), 'safety', n.lineno)
                q = fresh('fdiv', I)
                r = fresh('fmod', I)
                path.hyps.append(atom(z3.And(a == b * q + r, z3.If(b > 0, z3.And(0 <= r, r < b), z3.And(b < r, r <= 0)))))
                return q
            if isinstance(n.op, ast.Mod):
                if not (is_int(a) and is_int(b)):
                    raise Unsupported('mod on reals')
                self.oblige('nonzero-divisor@%d' % n.lineno, path, atom(b != 0), 'safety', n.lineno)
                q = fresh('fdiv', I)
                r = fresh('fmod', I)
                path.hyps.append(atom(z3.And(a == b * q + r, z3.If(b > 0, z3.And(0 <= r, r < b), z3.And(b < r, r <= 0)))))
                return r
            if isinstance(n.op, ast.Pow):
                if z3.is_int_value(b) and 0 <= b.as_long() <= 4:
                    r = z3.RealVal(1) if is_real(a) else z3.IntVal(1)
                    for _ in range(b.as_long()):
                        r = r * a
                    return r
                if z3.is_int_value(a) and a.as_long() == 10 and is_int(b):
                    # 10 ** e for an integer e of either sign: the positive real pow10(e)  (A4; only positivity is used)
                    path.hyps.append(atom(POW10(b) > 0))
                    return POW10(b)
                raise Unsupported('power with a non-constant exponent')
            raise Unsupported('operator %s' % type(n.op).__name__)
        if isinstance(n, ast.UnaryOp):
            v = ev(n.operand)
            if isinstance(n.op, ast.USub):
                return -v
            if isinstance(n.op, ast.UAdd):
                return v
            if isinstance(n.op, ast.Not):
                return z3.Not(self.truth(v))
        if isinstance(n, ast.Compare):
            terms = [ev(n.left)] + [ev(c) for c in n.comparators]
            out = []
            for op, a, b in zip(n.ops, terms, terms[1:]):
                if isinstance(op, (ast.Is, ast.IsNot)):
                    isn = isinstance(a, SNone) == isinstance(b, SNone) if (isinstance(a, SNone) or isinstance(b, SNone)) else None
                    if isn is None:
                        raise Unsupported('is on non-None')
                    out.append(z3.BoolVal(isn if isinstance(op, ast.Is) else not isn))
                    continue
                a, b = unify(a, b)
                out.append(self.cmp(op, a, b))
            return z3.And(*out) if len(out) > 1 else out[0]
        if isinstance(n, ast.BoolOp):
            # short-circuit: later operands are evaluated under the earlier ones
            vals = []
            saved = len(path.hyps)
            guards, kept = [], []
            for v in n.values:
                mark = len(path.hyps)
                t = self.truth(ev(v))
                # facts produced while evaluating this operand (callee postconditions, sqrt/int definitions) stay, guarded
                # by the operands that must have held for it to be evaluated
                for f in path.hyps[mark:]:
                    kept.append(('implies', atom(z3.And(*guards)), f) if guards else f)
                del path.hyps[mark:]
                vals.append(t)
                g = t if isinstance(n.op, ast.And) else z3.Not(t)
                guards.append(g)
                path.hyps.append(atom(g))
            del path.hyps[saved:]
            path.hyps.extend(kept)
            return z3.And(*vals) if isinstance(n.op, ast.And) else z3.Or(*vals)
        if isinstance(n, ast.IfExp):
            c = self.truth(ev(n.test))
            saved = len(path.hyps)
            path.hyps.append(atom(c))
            a = ev(n.body)
            kept = [('implies', atom(c), f) for f in path.hyps[saved + 1:]]
            del path.hyps[saved:]
            path.hyps.append(atom(z3.Not(c)))
            b = ev(n.orelse)
            kept += [('implies', atom(z3.Not(c)), f) for f in path.hyps[saved + 1:]]
            del path.hyps[saved:]
            path.hyps.extend(kept)
            a, b = unify(a, b)
            return z3.If(c, a, b)
        if isinstance(n, ast.Subscript):
            l = ev(n.value)
            if isinstance(l, SDict):
                if isinstance(n.slice, ast.Constant) and n.slice.value in l.d:
                    return l.d[n.slice.value]
                raise Unsupported('dict key')
            if isinstance(l, STuple):
                if isinstance(n.slice, ast.Constant):
                    return l.items[n.slice.value]
                raise Unsupported('tuple index')
            if isinstance(n.slice, ast.Slice):
                return self.slice(l, n.slice, path, n.lineno)
            i = ev(n.slice)
            if is_int(i):
                i = z3.simplify(i)
            return self.index(l, i, path, n.lineno)
        if isinstance(n, ast.Call):
            return self.call(n, path)
        if isinstance(n, ast.ListComp):
            return self.listcomp(n, path)
        if isinstance(n, ast.Attribute):
            if isinstance(n.value, ast.Name) and isinstance(env.get(n.value.id), SObject) and n.attr in env[n.value.id].attrs:
                return env[n.value.id].attrs[n.attr]
            if isinstance(n.value, ast.Name) and n.value.id not in env and (n.value.id + '.' + n.attr) in self.registry:
                return SFunc(n.value.id + '.' + n.attr)          # e.g. helpers.find_span_linear used as a value
            raise Unsupported('attribute %s' % ast.dump(n)[:60])
        raise Unsupported('expression %s' % type(n).__name__)

    def truth(self, v):
        if is_bool(v):
            return v
        if isinstance(v, SList):
            return v.ln > 0
        if isinstance(v, SNone):
            return z3.BoolVal(False)
        if is_int(v) or is_real(v):
            return v != 0
        raise Unsupported('truth value')

    def index(self, l, i, path, line, store=False):
        if not isinstance(l, SList):
            raise Unsupported('subscript of %s' % type(l).__name__)
        if not is_int(i):
            raise Unsupported('non-integer index')
        # Python negative indices: allowed range is [-len, len)
        lit_neg = z3.is_int_value(i) and i.as_long() < 0
        if lit_neg:
            j = l.ln + i
            self.oblige('index-in-range@%d' % line, path, atom(z3.And(j >= 0, j < l.ln)), 'safety', line)
            return self.select(l, j)
        # non-literal index: obligation 0 <= i < len (a negative value would silently wrap in Python; the contract
        # language treats that as an error, which is what every function under contract intends)
        self.oblige('index-in-range@%d' % line, path, atom(z3.And(i >= 0, i < l.ln)), 'safety', line)
        return self.select(l, i)

    def slice_bounds(self, l, s, path):
        lo = self.expr(s.lower, path) if s.lower is not None else z3.IntVal(0)
        hi = self.expr(s.upper, path) if s.upper is not None else l.ln

        def normi(v, node):
            if z3.is_int_value(v):
                return l.ln + v if v.as_long() < 0 else v
            return z3.If(v < 0, l.ln + v, v)          # Python: a negative bound counts from the end
        lo, hi = normi(lo, s.lower), normi(hi, s.upper)
        # clamp as Python does
        clamp = lambda v: z3.If(v < 0, z3.IntVal(0), z3.If(v > l.ln, l.ln, v))
        return z3.simplify(clamp(lo)), z3.simplify(clamp(hi))

    def slice(self, l, s, path, line):
        if s.step is not None:
            raise Unsupported('slice step')
        lo, hi = self.slice_bounds(l, s, path)
        n = z3.If(hi >= lo, hi - lo, z3.IntVal(0))
        out = fresh_list('slice', l.et, fresh('slice_len', I))
        path.hyps.append(atom(out.ln == n))
        k = z3.Int('k?')
        path.hyps.append(('forall', [k], ('implies', atom(z3.And(0 <= k, k < n)),
                                          atom(z3.Select(out.arr, k) == z3.Select(l.arr, lo + k)))))
        if l.nested():
            path.hyps.append(('forall', [k], ('implies', atom(z3.And(0 <= k, k < n)),
                                              atom(z3.Select(out.ilen, k) == z3.Select(l.ilen, lo + k)))))
        if l.deep():
            path.hyps.append(('forall', [k], ('implies', atom(z3.And(0 <= k, k < n)),
                                              atom(z3.Select(out.isub, k) == z3.Select(l.isub, lo + k)))))
        return out

    def splice(self, l, s, val, path):
        """l[lo:hi] = val on a flat list: the elements before lo, then val, then the elements from max(lo, hi) on."""
        lo, hi = self.slice_bounds(l, s, path)
        hi = z3.simplify(z3.If(hi >= lo, hi, lo))
        out = fresh_list('splice', l.et, fresh('splice_len', I))
        path.hyps.append(atom(out.ln == l.ln - (hi - lo) + val.ln))
        k = z3.Int('k?')
        path.hyps.append(('forall', [k], ('implies', atom(z3.And(0 <= k, k < lo)),
                                          atom(z3.Select(out.arr, k) == z3.Select(l.arr, k)))))
        path.hyps.append(('forall', [k], ('implies', atom(z3.And(lo <= k, k < lo + val.ln)),
                                          atom(z3.Select(out.arr, k) == z3.Select(val.arr, k - lo)))))
        path.hyps.append(('forall', [k], ('implies', atom(z3.And(lo + val.ln <= k, k < out.ln)),
                                          atom(z3.Select(out.arr, k) == z3.Select(l.arr, k - val.ln + (hi - lo))))))
        return out

    def list_literal(self, items):
        if not items:
            return SList(z3.K(I, z3.RealVal(0)), z3.IntVal(0), 'real')
        if isinstance(items[0], SList) and any(it.et != items[0].et for it in items if isinstance(it, SList)):
            return STuple(items)          # heterogeneous list literal, e.g. `return [ctrlpts, weights]`: fixed arity
        if isinstance(items[0], SList):
            et = ('list', items[0].et)
            out = SList(z3.K(I, items[0].arr), z3.IntVal(len(items)), et, z3.K(I, z3.IntVal(0)),
                        z3.K(I, items[0].ilen) if items[0].nested() else None)
            for k, it in enumerate(items):
                out = out.with_row(z3.IntVal(k), it)
            return out
        if any(is_real(x) for x in items):
            items = [to_real(x) for x in items]
            et = 'real'
        elif all(is_int(x) for x in items):
            et = 'int'
        else:
            raise Unsupported('list literal of mixed types')
        arr = z3.K(I, items[0])
        for k, it in enumerate(items):
            arr = z3.Store(arr, k, it)
        return SList(arr, z3.IntVal(len(items)), et)

    def concat(self, a, b, path):
        if a.et != b.et:
            if {a.et, b.et} == {'real', 'int'}:
                raise Unsupported('concat of int and real lists')
            raise Unsupported('concat of different element types')
        out = fresh_list('cat', a.et, fresh('cat_len', I))
        path.hyps.append(atom(out.ln == a.ln + b.ln))
        k = z3.Int('k?')
        path.hyps.append(('forall', [k], ('implies', atom(z3.And(0 <= k, k < a.ln)),
                                          atom(z3.Select(out.arr, k) == z3.Select(a.arr, k)))))
        path.hyps.append(('forall', [k], ('implies', atom(z3.And(0 <= k, k < b.ln)),
                                          atom(z3.Select(out.arr, a.ln + k) == z3.Select(b.arr, k)))))
        return out

    # ---------------------------------------------------------------- comprehensions
    def listcomp(self, n, path):
        if len(n.generators) != 1 or n.generators[0].ifs:
            raise Unsupported('comprehension shape')
        g = n.generators[0]
        it = g.iter
        # [[c for _ in range(a)] for _ in range(b)]  with an element that does not depend on either position
        if isinstance(n.elt, ast.ListComp) and len(n.elt.generators) == 1 and not n.elt.generators[0].ifs \
                and isinstance(it, ast.Call) and isinstance(it.func, ast.Name) and it.func.id == 'range' and len(it.args) == 1 \
                and isinstance(n.elt.generators[0].iter, ast.Call) and isinstance(n.elt.generators[0].iter.func, ast.Name) \
                and n.elt.generators[0].iter.func.id == 'range' and len(n.elt.generators[0].iter.args) == 1 \
                and isinstance(g.target, ast.Name) and isinstance(n.elt.generators[0].target, ast.Name):
            used = {x.id for x in ast.walk(n.elt.elt) if isinstance(x, ast.Name)} | \
                   {x.id for x in ast.walk(n.elt.generators[0].iter) if isinstance(x, ast.Name)}
            if g.target.id not in used and n.elt.generators[0].target.id not in used:
                outer_n = self.expr(it.args[0], path)
                inner_n = self.expr(n.elt.generators[0].iter.args[0], path)
                c = self.expr(n.elt.elt, path)
                if isinstance(c, SNone):
                    c = fresh('none', R)
                if isinstance(c, SList) and not c.nested() and isinstance(n.elt.elt, ast.List) and not n.elt.elt.elts:
                    # [[[] for _ in range(a)] for _ in range(b)]: b rows of a empty lists (value semantics)
                    clamp = lambda v: z3.If(v >= 0, v, z3.IntVal(0))
                    return SList(z3.K(I, z3.K(I, c.arr)), clamp(outer_n), ('list', ('list', c.et)), z3.K(I, clamp(inner_n)),
                                 z3.K(I, z3.K(I, z3.IntVal(0))))
                if z3.is_expr(c) and not is_bool(c):
                    et = 'int' if is_int(c) else 'real'
                    clamp = lambda v: z3.If(v >= 0, v, z3.IntVal(0))
                    return SList(z3.K(I, z3.K(I, c)), clamp(outer_n), ('list', et), z3.K(I, clamp(inner_n)))
        k = fresh('ci', I)          # symbolic position in the result
        sub = path.fork()
        sub.comp = True
        sub.sidefacts = []
        if isinstance(it, ast.Call) and isinstance(it.func, ast.Name) and it.func.id == 'range':
            rng = [self.expr(a, path) for a in it.args]
            lo, hi = (z3.IntVal(0), rng[0]) if len(rng) == 1 else (rng[0], rng[1])
            if len(rng) == 3:
                raise Unsupported('range step in comprehension')
            ln = z3.If(hi >= lo, hi - lo, z3.IntVal(0))
            self.bind(g.target, lo + k, sub)
        elif isinstance(it, ast.Call) and isinstance(it.func, ast.Name) and it.func.id == 'zip':
            ls = [self.expr(a, path) for a in it.args]
            ln = ls[0].ln
            for l in ls[1:]:
                ln = z3.If(l.ln < ln, l.ln, ln)
            self.bind(g.target, STuple([self.select(l, k) for l in ls]), sub)
        else:
            l = self.expr(it, path)
            if not isinstance(l, SList):
                raise Unsupported('comprehension over %s' % type(l).__name__)
            ln = l.ln
            self.bind(g.target, self.select(l, k), sub)
        sub.hyps.append(atom(z3.And(0 <= k, k < ln)))
        nob = len(self.obls)
        val = self.expr(n.elt, sub)
        # obligations raised inside the element expression hold for the arbitrary position k (k is fresh): fine as they are
        new_hyps = sub.hyps[len(path.hyps) + 1:]
        if isinstance(val, SList):
            out = fresh_list('comp', ('list', val.et), fresh('comp_len', I))
            body = [atom(z3.Select(out.arr, k) == val.arr), atom(z3.Select(out.ilen, k) == val.ln)]
            if val.nested():
                body.append(atom(z3.Select(out.isub, k) == val.ilen))
        else:
            if is_bool(val):
                raise Unsupported('bool list')
            et = 'int' if is_int(val) else 'real'
            out = fresh_list('comp', et, fresh('comp_len', I))
            body = [atom(z3.Select(out.arr, k) == val)]
        path.hyps.append(atom(out.ln == ln))
        # forall k in [0, ln): (side facts about fresh temporaries of the element) and out[k] == val
        kv = z3.Int('k?')
        inner = f_and(list(new_hyps) + list(sub.sidefacts) + body)
        tree = ('implies', atom(z3.And(0 <= k, k < ln)), inner)
        # temporaries created while evaluating the element depend on k: they are existentially bound per k;
        # sound over-approximation: skolem functions are avoided by keeping only those element facts that do not
        # mention fresh temporaries (division results etc.) unless there are none
        if new_hyps:
            raise Unsupported('comprehension element needs per-element temporaries (call / int() / round())')
        path.hyps.append(('forall', [kv], f_subst(tree, [(k, kv)])))
        return out

    # ---------------------------------------------------------------- calls
    def call(self, n, path):
        ev = lambda x: self.expr(x, path)
        if isinstance(n.func, ast.Name):
            f = n.func.id
            if f == 'len':
                v = ev(n.args[0])
                if isinstance(v, STuple):
                    return z3.IntVal(len(v.items))
                if not isinstance(v, SList):
                    raise Unsupported('len of %s' % type(v).__name__)
                return v.ln
            if f == 'abs':
                a = ev(n.args[0])
                return z3.If(a >= 0, a, -a)
            if f == 'float' and isinstance(n.args[0], ast.Constant) and n.args[0].value in ('inf', '-inf'):
                if 'INF' not in path.env:
                    raise Unsupported("float('inf') needs a ghost argument INF in the contract")
                return path.env['INF'] if n.args[0].value == 'inf' else -path.env['INF']
            if f == 'float':
                a0 = n.args[0]
                if isinstance(a0, ast.Call) and isinstance(a0.func, ast.Attribute) and a0.func.attr == 'format' \
                        and len(a0.args) == 1:
                    # float("{:.Nf}".format(x)): rounding to N decimals, the identity under assumption A2
                    self.dropped.append('decimal rounding float("{:.Nf}".format(x)) at line %d treated as identity (A2)' % n.lineno)
                    return to_real(ev(a0.args[0]))
                return to_real(ev(n.args[0]))
            if f == 'int':
                a = ev(n.args[0])
                if is_int(a):
                    return a
                k = fresh('trunc', I)       # truncation toward zero
                path.hyps.append(atom(z3.If(a >= 0, z3.And(z3.ToReal(k) <= a, a < z3.ToReal(k) + 1),
                                            z3.And(z3.ToReal(k) >= a, a > z3.ToReal(k) - 1))))
                return k
            if f == 'round' and len(n.args) == 1:
                a = to_real(ev(n.args[0]))
                k = fresh('round', I)       # round half to even
                d = a - z3.ToReal(k)
                path.hyps.append(atom(z3.And(d <= z3.RealVal('1/2'), d >= z3.RealVal('-1/2'),
                                             z3.Implies(z3.Or(d == z3.RealVal('1/2'), d == z3.RealVal('-1/2')), k % 2 == 0))))
                return k
            if f in ('min', 'max') and len(n.args) == 2:
                a, b = unify(ev(n.args[0]), ev(n.args[1]))
                return z3.If(a <= b, a, b) if f == 'min' else z3.If(a >= b, a, b)
            if f == 'sum' and len(n.args) == 1:
                a0 = n.args[0]
                # sum([X[j] for j in range(lo, hi)])  ==  the ghost sum(X, lo, hi)   (Python's left fold = unfolding from the top)
                if isinstance(a0, ast.ListComp) and len(a0.generators) == 1 and not a0.generators[0].ifs \
                        and isinstance(a0.generators[0].target, ast.Name) and isinstance(a0.elt, ast.Subscript) \
                        and isinstance(a0.elt.slice, ast.Name) and a0.elt.slice.id == a0.generators[0].target.id \
                        and isinstance(a0.generators[0].iter, ast.Call) and isinstance(a0.generators[0].iter.func, ast.Name) \
                        and a0.generators[0].iter.func.id == 'range' and len(a0.generators[0].iter.args) in (1, 2) \
                        and a0.generators[0].target.id not in {x.id for x in ast.walk(a0.elt.value) if isinstance(x, ast.Name)}:
                    X = ev(a0.elt.value)
                    rng = [ev(x) for x in a0.generators[0].iter.args]
                    lo, hi = (z3.IntVal(0), rng[0]) if len(rng) == 1 else (rng[0], rng[1])
                    if isinstance(X, SList) and not X.nested():
                        jv = z3.Int('j?')
                        self.oblige('index-in-range@%d' % n.lineno, path,
                                    ('forall', [jv], ('implies', atom(z3.And(lo <= jv, jv < hi)), atom(z3.And(jv >= 0, jv < X.ln)))),
                                    'safety', n.lineno)
                        return self.sumfn(X)(X.arr, lo, z3.If(hi >= lo, hi, lo))
                # sum([X[j] * Y[j] for j in range(lo, hi)])  ==  the ghost dot(X, Y, lo, hi)
                if isinstance(a0, ast.ListComp) and len(a0.generators) == 1 and not a0.generators[0].ifs \
                        and isinstance(a0.generators[0].target, ast.Name) and isinstance(a0.elt, ast.BinOp) \
                        and isinstance(a0.elt.op, ast.Mult) \
                        and all(isinstance(t, ast.Subscript) and isinstance(t.slice, ast.Name)
                                and t.slice.id == a0.generators[0].target.id for t in (a0.elt.left, a0.elt.right)) \
                        and isinstance(a0.generators[0].iter, ast.Call) and isinstance(a0.generators[0].iter.func, ast.Name) \
                        and a0.generators[0].iter.func.id == 'range' and len(a0.generators[0].iter.args) in (1, 2):
                    jn = a0.generators[0].target.id
                    if all(jn not in {x.id for x in ast.walk(t.value) if isinstance(x, ast.Name)} for t in (a0.elt.left, a0.elt.right)):
                        X, Y = ev(a0.elt.left.value), ev(a0.elt.right.value)
                        rng = [ev(x) for x in a0.generators[0].iter.args]
                        lo, hi = (z3.IntVal(0), rng[0]) if len(rng) == 1 else (rng[0], rng[1])
                        if isinstance(X, SList) and isinstance(Y, SList) and X.et == 'real' and Y.et == 'real':
                            jv = z3.Int('j?')
                            self.oblige('index-in-range@%d' % n.lineno, path,
                                        ('forall', [jv], ('implies', atom(z3.And(lo <= jv, jv < hi)),
                                                          atom(z3.And(jv >= 0, jv < X.ln, jv < Y.ln)))), 'safety', n.lineno)
                            return DOT(X.arr, Y.arr, lo, z3.If(hi >= lo, hi, lo))
                # sum([X[j] * M[j][c] for j in range(lo, hi)])  ==  the ghost cdot(X, M, c, lo, hi)
                if isinstance(a0, ast.ListComp) and len(a0.generators) == 1 and not a0.generators[0].ifs \
                        and isinstance(a0.generators[0].target, ast.Name) and isinstance(a0.elt, ast.BinOp) \
                        and isinstance(a0.elt.op, ast.Mult) \
                        and isinstance(a0.elt.left, ast.Subscript) and isinstance(a0.elt.left.slice, ast.Name) \
                        and a0.elt.left.slice.id == a0.generators[0].target.id \
                        and isinstance(a0.elt.right, ast.Subscript) and isinstance(a0.elt.right.value, ast.Subscript) \
                        and isinstance(a0.elt.right.value.slice, ast.Name) \
                        and a0.elt.right.value.slice.id == a0.generators[0].target.id \
                        and isinstance(a0.generators[0].iter, ast.Call) and isinstance(a0.generators[0].iter.func, ast.Name) \
                        and a0.generators[0].iter.func.id == 'range' and len(a0.generators[0].iter.args) in (1, 2):
                    jn = a0.generators[0].target.id
                    free = lambda t: jn not in {x.id for x in ast.walk(t) if isinstance(x, ast.Name)}
                    if free(a0.elt.left.value) and free(a0.elt.right.value.value) and free(a0.elt.right.slice):
                        X, M_, cix = ev(a0.elt.left.value), ev(a0.elt.right.value.value), ev(a0.elt.right.slice)
                        rng = [ev(x) for x in a0.generators[0].iter.args]
                        lo, hi = (z3.IntVal(0), rng[0]) if len(rng) == 1 else (rng[0], rng[1])
                        if isinstance(X, SList) and X.et == 'real' and isinstance(M_, SList) and M_.et == ('list', 'real') \
                                and is_int(cix):
                            jv = z3.Int('j?')
                            self.oblige('index-in-range@%d' % n.lineno, path,
                                        ('forall', [jv], ('implies', atom(z3.And(lo <= jv, jv < hi)),
                                                          atom(z3.And(jv >= 0, jv < X.ln, jv < M_.ln, cix >= 0,
                                                                      cix < z3.Select(M_.ilen, jv))))), 'safety', n.lineno)
                            return CDOT(X.arr, M_.arr, cix, lo, z3.If(hi >= lo, hi, lo))
                # sum(X[lo:hi])  ==  the ghost sum(X, lo', hi') with the bounds normalised and clamped as Python does
                if isinstance(a0, ast.Subscript) and isinstance(a0.slice, ast.Slice) and a0.slice.step is None:
                    X = ev(a0.value)
                    if isinstance(X, SList) and not X.nested():
                        lo, hi = self.slice_bounds(X, a0.slice, path)
                        return self.sumfn(X)(X.arr, lo, z3.If(hi >= lo, hi, lo))
                l = ev(a0)
                if isinstance(l, SList) and not l.nested():
                    return self.sumfn(l)(l.arr, z3.IntVal(0), l.ln)
                raise Unsupported('sum() of this argument')
            if f == 'all' and len(n.args) == 1:
                l = ev(n.args[0])
                if not (isinstance(l, SList) and l.et == 'bool'):
                    raise Unsupported('all() of a non-bool list')
                b = fresh('all', B)
                kq = z3.Int('k?')
                rng = z3.And(0 <= kq, kq < l.ln)
                path.hyps.append(('implies', atom(b), ('forall', [kq], ('implies', atom(rng), atom(z3.Select(l.arr, kq))))))
                path.hyps.append(('implies', atom(z3.Not(b)), ('exists', [kq], atom(z3.And(rng, z3.Not(z3.Select(l.arr, kq)))))))
                return b
            if f == 'getattr' and len(n.args) in (2, 3) and isinstance(n.args[1], ast.Constant):
                o = ev(n.args[0])
                if isinstance(o, SObject) and n.args[1].value in o.attrs:
                    return o.attrs[n.args[1].value]
                raise Unsupported('getattr of an undeclared attribute')
            if f == 'hasattr' and len(n.args) == 2 and isinstance(n.args[1], ast.Constant):
                o = ev(n.args[0])
                if isinstance(o, SObject) and n.args[1].value in o.attrs:
                    return z3.BoolVal(True)          # the contract declares the object with this attribute
                raise Unsupported('hasattr on an undeclared attribute')
            if f == 'deepcopy':
                return ev(n.args[0])          # A4: deepcopy of plain lists is the identity on values
            if f == 'tuple' or f == 'list':
                return ev(n.args[0]) if n.args else SList(z3.K(I, z3.RealVal(0)), z3.IntVal(0), 'real')
            if f == 'isinstance':
                # points are flat lists of reals in the contracts' data model: isinstance(<real>, float) is True,
                # isinstance(<list>, float) is False (the nested "rows of points" layout of volumes)
                if isinstance(n.args[1], ast.Name) and n.args[1].id == 'float':
                    v = ev(n.args[0])
                    if is_real(v) or is_int(v):
                        return z3.BoolVal(is_real(v))
                    if isinstance(v, SList):
                        return z3.BoolVal(False)
                if isinstance(n.args[1], ast.Tuple) and sorted(getattr(e, 'id', '?') for e in n.args[1].elts) == ['list', 'tuple']:
                    # sequences are lists in the contracts' data model
                    return z3.BoolVal(isinstance(ev(n.args[0]), (SList, STuple)))
                raise Unsupported('isinstance')
            if f == 'print' or f == 'str':
                self.dropped.append('%s() at line %d' % (f, n.lineno))
                return ('str', '')
            if f == 'range':
                raise Unsupported('range outside a for/comprehension')
            target = path.env.get(f)
            if isinstance(target, SFunc):
                return self.call_contract(target.name, n, path)
            qual = self.c.get('imports', {}).get(f, self.modname + '.' + f)
            if qual in self.registry:
                return self.call_contract(qual, n, path)
            raise Unsupported('call of %s' % f)
        if isinstance(n.func, ast.Attribute):
            obj = n.func.value
            meth = n.func.attr
            if isinstance(obj, ast.Call) and isinstance(obj.func, ast.Name) and obj.func.id == 'super' \
                    and meth in self.c.get('super_calls', {}):
                # super().method(...): the parent's method through its own contract (self is passed implicitly)
                return self.call_contract(self.c['super_calls'][meth], n, path, implicit_self=True)
            if isinstance(obj, ast.Call) and isinstance(obj.func, ast.Name) and obj.func.id == 'super':
                key = 'super.' + meth
                if key in self.c.get('dropped_calls', {}):
                    self.dropped.append('%s(...) at line %d: %s' % (key, n.lineno, self.c['dropped_calls'][key]))
                    return NONE
                raise Unsupported('call of super().%s' % meth)
            if isinstance(obj, ast.Name) and isinstance(path.env.get(obj.id), SKwargs) and meth == 'get':
                kw = path.env[obj.id]
                key = n.args[0].value
                if key in kw.d:
                    return kw.d[key]
                return ev(n.args[1]) if len(n.args) > 1 else NONE
            if isinstance(obj, ast.Name) and isinstance(path.env.get(obj.id), SList) and meth == 'append':
                l = path.env[obj.id]
                v = ev(n.args[0])
                path.env[obj.id] = self.append(l, v)
                return NONE
            if isinstance(obj, ast.Name) and obj.id in ('linalg', '_linalg', 'helpers', 'knotvector', 'utilities', 'compatibility'):
                qual = obj.id + '.' + meth
                if qual in self.registry:
                    return self.call_contract(qual, n, path)
                raise Unsupported('call of %s without contract' % qual)
            if isinstance(obj, ast.Name) and isinstance(path.env.get(obj.id), SObject):
                tgt = path.env[obj.id].attrs.get(meth)
                if isinstance(tgt, SFunc):
                    return self.call_contract(tgt.name, n, path)
                raise Unsupported('method %s of self' % meth)
            if isinstance(obj, ast.Name) and obj.id == 'math' and meth == 'sqrt':
                a = to_real(ev(n.args[0]))
                self.oblige('sqrt-domain@%d' % n.lineno, path, atom(a >= 0), 'safety', n.lineno)
                s = fresh('sqrt', R)        # A4: s >= 0, s*s == a
                path.hyps.append(atom(z3.And(s >= 0, s * s == a)))
                return s
            if isinstance(obj, ast.Name) and obj.id == 'math' and meth == 'factorial':
                a = ev(n.args[0])
                if not is_int(a):
                    raise Unsupported('factorial of a non-integer')
                self.oblige('factorial-domain@%d' % n.lineno, path, atom(a >= 0), 'safety', n.lineno)
                # A4: math.factorial by its defining equations  0! = 1, n! = n * (n-1)!  (hence n! >= 1), unfolded once
                path.hyps.append(atom(z3.And(FACT(a) >= 1, FACT(z3.IntVal(0)) == 1, FACT(z3.IntVal(1)) == 1,
                                             z3.Implies(a >= 1, z3.And(FACT(a) == a * FACT(a - 1), FACT(a - 1) >= 1)))))
                return FACT(a)
            raise Unsupported('method call %s' % meth)
        raise Unsupported('call')

    def append(self, l, v):
        if isinstance(v, SList):
            if not l.nested():
                # first append to an empty literal list fixes the element type
                l = SList(z3.K(I, v.arr), l.ln, ('list', v.et), z3.K(I, z3.IntVal(0)),
                          z3.K(I, v.ilen) if v.nested() else None)
            return l.with_row(l.ln, v).resized(l.ln + 1)
        if is_bool(v):
            if l.et == 'bool':
                return SList(z3.Store(l.arr, l.ln, v), l.ln + 1, 'bool')
            if z3.is_int_value(l.ln) and l.ln.as_long() == 0:
                return SList(z3.Store(z3.K(I, z3.BoolVal(False)), l.ln, v), l.ln + 1, 'bool')
            raise Unsupported('append bool to a %s list' % (l.et,))
        if l.et == 'real' and is_int(v):
            if z3.is_int_value(l.ln) and l.ln.as_long() == 0:
                return SList(z3.Store(z3.K(I, z3.IntVal(0)), l.ln, v), l.ln + 1, 'int')
            v = z3.ToReal(v)
        if l.et == 'int' and is_real(v):
            raise Unsupported('append real to int list')
        return SList(z3.Store(l.arr, l.ln, v), l.ln + 1, l.et)

    def call_contract(self, qual, n, path, implicit_self=False):
        c = self.registry[qual]
        names = list(c['args'])
        actual = {}
        pos_names = names
        if implicit_self and names and c['args'][names[0]] == 'self':
            actual[names[0]] = SObject({k: (SFunc(v[1]) if isinstance(v, tuple) and v[0] == 'func' else None)
                                        for k, v in c.get('self', {}).items()})
            pos_names = names[1:]
        for nm, a in zip(pos_names, n.args):
            actual[nm] = self.expr(a, path)
        # a function-valued argument selects the contract variant verified for that function
        for nm, v in list(actual.items()):
            t = c['args'].get(nm)
            if isinstance(v, SFunc) and isinstance(t, tuple) and t[0] == 'func' and t[1] != v.name:
                alt = [k for k, cc in self.registry.items() if cc.get('target', k) == c.get('target', qual)
                       and cc['args'].get(nm) == ('func', v.name)]
                if not alt:
                    raise Unsupported('no contract of %s for %s=%s' % (qual, nm, v.name))
                qual = alt[0]
                c = self.registry[qual]
        explicit_kw, auto_ghost = {}, {}
        for kw in n.keywords:
            if kw.arg is None:
                v = self.expr(kw.value, path)
                kwname = [nm for nm in names if c['args'][nm] == 'kwargs']
                if not isinstance(v, SKwargs) or not kwname:
                    raise Unsupported('**kwargs at a call')
                actual[kwname[0]] = v          # **kwargs passed through unchanged
                continue
            if kw.arg not in names and any(c['args'][nm] == 'kwargs' for nm in names):
                explicit_kw[kw.arg] = self.expr(kw.value, path)      # lands in the callee's **kwargs
                continue
            actual[kw.arg] = self.expr(kw.value, path)
        for nm in names:
            if nm not in actual and c['args'][nm] == 'kwargs':
                spec_kw = c.get('kwargs', {})
                if set(spec_kw) != set(explicit_kw):
                    raise Unsupported('call of %s passes keywords %s but its contract is verified for %s'
                                      % (qual, sorted(explicit_kw), sorted(spec_kw)))
                for k, v in spec_kw.items():
                    if not (isinstance(v, str) and v.startswith('$')):
                        # a keyword fixed by the callee's contract: the call must pass exactly that constant
                        if not (z3.is_expr(explicit_kw[k]) and z3.simplify(explicit_kw[k]).eq(z3.simplify(self.spec_value(v)))):
                            raise Unsupported('keyword %s of %s is fixed to %r by its contract' % (k, qual, v))
                        continue
                    auto_ghost[v[1:]] = explicit_kw[k]               # the ghost that names this keyword's value
                actual[nm] = SKwargs(dict(explicit_kw))
                continue
            if nm not in actual:
                d = c.get('defaults', {}).get(nm)
                if d is None:
                    raise Unsupported('missing argument %s for %s' % (nm, qual))
                actual[nm] = self.spec_value(d)
        # coerce ints to reals where the callee expects reals
        for nm in names:
            if c['args'][nm] == 'real' and z3.is_expr(actual[nm]):
                actual[nm] = to_real(actual[nm])
        # ghost (universally quantified) inputs of the callee are chosen by the caller's contract
        binds = self.c.get('ghost_bind', {}).get(qual, {})
        for g, t in c.get('ghost_args', {}).items():
            if g in auto_ghost:
                v = auto_ghost[g]
            elif g not in binds:
                raise Unsupported('ghost argument %s of %s is not bound by the caller contract' % (g, qual))
            else:
                v = self.sterm(ast.parse(binds[g], mode='eval').body, path.env)
            actual[g] = to_real(v) if t == 'real' and z3.is_expr(v) else v
        sub = Gen(None, c, self.registry, qual.rsplit('.', 1)[0])
        sub.specfuncs = dict(self.specfuncs)
        sub.entry_env = actual
        cenv = dict(actual)
        for k, txt in enumerate(c.get('requires', [])):
            self.oblige('call:%s.requires[%d]@%d' % (qual, k, n.lineno), path, sub.spec(txt, cenv), 'contract', n.lineno)
        res = self.result_value(c, 'res_' + qual.split('.')[-1])
        cenv['result'] = res
        for txt in c.get('ensures', []):
            path.hyps.append(sub.spec(txt, cenv))
        return res

    def result_value(self, c, name):
        rt = c.get('returns', 'real')
        return self.value_of_type(rt, name)

    def value_of_type(self, t, name):
        if t == 'int':
            return fresh(name, I)
        if t == 'real':
            return fresh(name, R)
        if t == 'bool':
            return fresh(name, B)
        if isinstance(t, tuple) and t[0] == 'list':
            return fresh_list(name, t[1])
        if isinstance(t, tuple) and t[0] == 'tuple':
            return STuple([self.value_of_type(x, name) for x in t[1:]])
        if t == 'none':
            return NONE
        raise Unsupported('type %r' % (t,))

    def declare(self, name, t, hyps):
        """symbolic input of a declared type"""
        if isinstance(t, tuple) and t[0] == 'list':
            l = SList(z3.Const(name, z3.ArraySort(I, sort_of(t[1]))), z3.Int('len_' + name), t[1])
            if l.nested():
                l.ilen = z3.Const('ilen_' + name, z3.ArraySort(I, I))
                q = z3.Int('k?')
                hyps.append(('forall', [q], atom(z3.Select(l.ilen, q) >= 0)))
            if l.deep():
                l.isub = z3.Const('isub_' + name, z3.ArraySort(I, z3.ArraySort(I, I)))
                q2 = z3.Int('k2?')
                hyps.append(('forall', [q, q2], atom(z3.Select(z3.Select(l.isub, q), q2) >= 0)))
            hyps.append(atom(l.ln >= 0))
            return l
        if isinstance(t, tuple) and t[0] == 'tuple':
            return STuple([self.declare('%s_%d' % (name, k), x, hyps) for k, x in enumerate(t[1:])])
        return z3.Const(name, {'int': I, 'real': R, 'bool': B}[t])

    def spec_value(self, d):
        if isinstance(d, bool):
            return z3.BoolVal(d)
        if isinstance(d, int):
            return z3.IntVal(d)
        if isinstance(d, str):
            return z3.RealVal(d)
        if d is None:
            return NONE
        raise Unsupported('default value')

    # ---------------------------------------------------------------- statements
    def bind(self, tgt, val, path):
        if isinstance(tgt, ast.Name):
            path.env[tgt.id] = val
        elif isinstance(tgt, (ast.Tuple, ast.List)):
            if not isinstance(val, STuple) or len(val.items) != len(tgt.elts):
                raise Unsupported('tuple unpacking')
            for t, v in zip(tgt.elts, val.items):
                self.bind(t, v, path)
        else:
            raise Unsupported('binding target')

    def assign(self, tgt, val, path, line):
        if isinstance(tgt, (ast.Name, ast.Tuple, ast.List)):
            self.bind(tgt, val, path)
            return
        if isinstance(tgt, ast.Subscript):
            base = tgt.value
            # X[a][b][c] = v   /   X[a][b][:] = row      (depth 3)
            chain, t = [], tgt
            while isinstance(t, ast.Subscript):
                chain.append(t.slice)
                t = t.value
            chain.reverse()
            if isinstance(t, ast.Name) and len(chain) == 3 and not any(isinstance(c, ast.Slice) for c in chain[:2]):
                rows = [path.env[t.id]]
                idxs = []
                for c in chain[:2]:
                    i = self.expr(c, path)
                    if is_int(i):
                        i = z3.simplify(i)
                    self.index(rows[-1], i, path, line)
                    nxt = rows[-1].row(i)
                    if not isinstance(nxt, SList):
                        raise Unsupported('subscript of a scalar')
                    idxs.append(i)
                    rows.append(nxt)
                last = chain[2]
                if isinstance(last, ast.Slice):
                    if not (last.lower is None and last.upper is None and last.step is None and isinstance(val, SList)
                            and not val.nested()):
                        raise Unsupported('slice assignment')
                    new = val
                else:
                    j = self.expr(last, path)
                    if is_int(j):
                        j = z3.simplify(j)
                    new = self.store(rows[-1], j, val, path, line)
                for lvl in (1, 0):
                    new = rows[lvl].with_row(idxs[lvl], new)
                path.env[t.id] = new
                return
            if isinstance(tgt.slice, ast.Slice):
                s = tgt.slice
                if s.lower is None and s.upper is None and s.step is None and isinstance(base, ast.Name):
                    # xs[:] = value   (whole-list replacement, value semantics)
                    old = path.env[base.id]
                    if not isinstance(val, SList):
                        raise Unsupported('slice assignment of non-list')
                    path.env[base.id] = val
                    return
                if s.lower is None and s.upper is None and s.step is None and isinstance(base, ast.Subscript) \
                        and isinstance(base.value, ast.Name) and isinstance(val, SList) and not val.nested():
                    # X[i][:] = row   (whole-row replacement of a nested list, value semantics)
                    outer = path.env[base.value.id]
                    i = self.expr(base.slice, path)
                    self.index(outer, i, path, line)
                    path.env[base.value.id] = outer.with_row(i, val)
                    return
                if s.step is None and isinstance(base, ast.Subscript) and isinstance(base.value, ast.Name) \
                        and isinstance(val, SList) and not val.nested():
                    # X[i][lo:hi] = row   (Python splice semantics, bounds clamped as Python clamps them)
                    outer = path.env[base.value.id]
                    i = self.expr(base.slice, path)
                    row = self.index(outer, i, path, line)
                    if not isinstance(row, SList) or row.nested() or val.et != row.et:
                        raise Unsupported('slice assignment')
                    path.env[base.value.id] = outer.with_row(i, self.splice(row, s, val, path))
                    return
                raise Unsupported('slice assignment')
            if isinstance(base, ast.Name):
                l = path.env[base.id]
                i = self.expr(tgt.slice, path)
                if is_int(i):
                    i = z3.simplify(i)
                path.env[base.id] = self.store(l, i, val, path, line)
                return
            if isinstance(base, ast.Subscript) and isinstance(base.value, ast.Name):
                outer = path.env[base.value.id]
                i = self.expr(base.slice, path)
                if isinstance(tgt.slice, ast.Slice) and tgt.slice.lower is None and tgt.slice.upper is None \
                        and tgt.slice.step is None and isinstance(val, SList) and not val.nested():
                    self.index(outer, i, path, line)
                    path.env[base.value.id] = outer.with_row(i, val)
                    return
                row = self.index(outer, i, path, line)
                j = self.expr(tgt.slice, path)
                newrow = self.store(row, j, val, path, line)
                path.env[base.value.id] = outer.with_row(i, newrow)
                return
        raise Unsupported('assignment target')

    def store(self, l, i, val, path, line):
        if not isinstance(l, SList):
            raise Unsupported('store into %s' % type(l).__name__)
        if z3.is_int_value(i) and i.as_long() < 0:
            i = l.ln + i
        self.oblige('store-index-in-range@%d' % line, path, atom(z3.And(i >= 0, i < l.ln)), 'safety', line)
        if isinstance(val, SList):
            return l.with_row(i, val)
        if l.nested():
            raise Unsupported('storing a scalar into a nested list')
        if l.et == 'real':
            val = to_real(val)
        elif is_real(val):
            raise Unsupported('real into int list')
        return SList(z3.Store(l.arr, i, val), l.ln, l.et)

    def modified(self, body):
        out = set()
        for n in ast.walk(ast.Module(body=body, type_ignores=[])):
            if isinstance(n, (ast.Assign, ast.AugAssign)):
                for t in (n.targets if isinstance(n, ast.Assign) else [n.target]):
                    for nm in self._target_names(t):
                        out.add(nm)
            elif isinstance(n, ast.For):
                for nm in self._target_names(n.target):
                    out.add(nm)
            elif isinstance(n, ast.Call) and isinstance(n.func, ast.Attribute) and n.func.attr == 'append' \
                    and isinstance(n.func.value, ast.Name):
                out.add(n.func.value.id)
        return out

    @staticmethod
    def _name_of(node):
        return node.id if isinstance(node, ast.Name) else None

    def _target_names(self, t):
        if isinstance(t, ast.Name):
            return [t.id]
        if isinstance(t, (ast.Tuple, ast.List)):
            r = []
            for e in t.elts:
                r += self._target_names(e)
            return r
        if isinstance(t, ast.Subscript):
            return self._target_names(t.value)
        return []

    def placeholder_fill(self, st, path):
        """X = [[[None for _ in range(a)] for _ in range(b)] for _ in range(c)]  (1 to 3 levels, innermost element the
        constant None): a list of the shape given by the ranges whose element type comes from the contract's `locals`
        declaration and whose cells hold unspecified values (every cell is overwritten before it is read in the
        functions under contract; a read of a placeholder is simply an unconstrained value, never assumed to be anything)"""
        if not (len(st.targets) == 1 and isinstance(st.targets[0], ast.Name) and st.targets[0].id in self.c.get('locals', {})):
            return None
        dims, n = [], st.value
        while isinstance(n, ast.ListComp) and len(n.generators) == 1 and not n.generators[0].ifs \
                and isinstance(n.generators[0].iter, ast.Call) and isinstance(n.generators[0].iter.func, ast.Name) \
                and n.generators[0].iter.func.id == 'range' and len(n.generators[0].iter.args) == 1:
            dims.append(n.generators[0].iter.args[0])
            n = n.elt
        if not dims or not (isinstance(n, ast.Constant) and n.value is None):
            return None
        dims = [self.expr(d, path) for d in dims]          # outermost first (the top-level comprehension carries the outer range)
        t = self.c['locals'][st.targets[0].id]
        depth, tt = 0, t
        while isinstance(tt, tuple) and tt[0] == 'list':
            depth += 1
            tt = tt[1]
        if depth != len(dims) or depth > 3:
            raise Unsupported('placeholder list does not match its declared type')
        l = fresh_list(st.targets[0].id, t[1], fresh(st.targets[0].id + '_len', I))
        nonneg = lambda d: z3.If(d >= 0, d, z3.IntVal(0))
        path.hyps.append(atom(l.ln == nonneg(dims[0])))
        if depth >= 2:
            q = z3.Int('k?')
            path.hyps.append(('forall', [q], atom(z3.Select(l.ilen, q) == nonneg(dims[1]))))
        if depth == 3:
            q, q2 = z3.Int('k?'), z3.Int('k2?')
            path.hyps.append(('forall', [q, q2], atom(z3.Select(z3.Select(l.isub, q), q2) == nonneg(dims[2]))))
        return l

    def havoc(self, path, names):
        for v in sorted(names):
            old = path.env.get(v)
            if old is None:
                continue
            if isinstance(old, SList):
                nl = fresh_list(v, old.et)
                path.env[v] = nl
                path.hyps.append(atom(nl.ln >= 0))
            elif z3.is_expr(old):
                path.env[v] = fresh(v, old.sort())
            elif isinstance(old, STuple):
                path.env[v] = STuple([fresh(v, x.sort()) for x in old.items])
            # None / functions: unchanged

    def feasible(self, path):
        sv = z3.Solver()
        sv.set('timeout', 300)
        for h in path.hyps:
            if is_qf(h):
                sv.add(to_z3(h))
        return sv.check() != z3.unsat

    def block(self, stmts, paths):
        for st in stmts:
            nxt = []
            for p in paths:
                nxt += self.stmt(st, p)
            paths = nxt
        return paths

    def stmt(self, st, path):
        if isinstance(st, ast.Expr):
            if isinstance(st.value, ast.Constant):
                return [path]          # docstring
            self.expr(st.value, path)
            return [path]
        if isinstance(st, ast.Pass):
            return [path]
        if isinstance(st, ast.Assign):
            ph = self.placeholder_fill(st, path)
            val = ph if ph is not None else self.expr(st.value, path)
            if len(st.targets) == 1 and isinstance(st.targets[0], ast.Name) and isinstance(val, SList) \
                    and st.targets[0].id in self.c.get('locals', {}) and z3.is_int_value(val.ln) and val.ln.as_long() == 0:
                # element type of an empty list literal, from the contract's `locals` declaration
                et = self.c['locals'][st.targets[0].id][1]
                val = SList(z3.K(I, z3.RealVal(0) if et == 'real' else (z3.BoolVal(False) if et == 'bool' else z3.IntVal(0)))
                            if not isinstance(et, tuple)
                            else fresh('empty', z3.ArraySort(I, sort_of(et))), z3.IntVal(0), et,
                            z3.K(I, z3.IntVal(0)) if isinstance(et, tuple) else None,
                            z3.K(I, z3.K(I, z3.IntVal(0))) if isinstance(et, tuple) and isinstance(et[1], tuple) else None)
            if len(st.targets) == 1 and isinstance(st.targets[0], ast.Name) and st.targets[0].id in self.c.get('locals', {}) \
                    and isinstance(st.value, ast.ListComp) and isinstance(st.value.elt, ast.List) and not st.value.elt.elts \
                    and isinstance(val, SList):
                # [[] for _ in range(n)]: n empty rows whose element type comes from the contract's `locals` declaration
                et = self.c['locals'][st.targets[0].id][1]
                typed = fresh_list(st.targets[0].id, et, val.ln)
                kq = z3.Int('k?')
                path.hyps.append(('forall', [kq], atom(z3.Select(typed.ilen, kq) == 0)))
                val = typed
            for t in st.targets:
                self.assign(t, val, path, st.lineno)
            if len(st.targets) == 1 and isinstance(st.targets[0], ast.Name) and st.targets[0].id in self.c.get('after', {}):
                # ghost assertions after an assignment to a named local (keyed by the name, not the line): proved, then assumed
                nm = st.targets[0].id
                for j, txt in enumerate(self.c['after'][nm]):
                    f = self.spec(txt, path.env)
                    self.oblige('after[%s].hint[%d]@%d' % (nm, j, st.lineno), path, f, 'scaffolding', st.lineno)
                    path.hyps.append(f)
            return [path]
        if isinstance(st, ast.AugAssign):
            cur = self.expr(st.target, path)
            v = self.expr(st.value, path)
            if isinstance(cur, SList) and isinstance(v, SList) and isinstance(st.op, ast.Add):
                self.assign(st.target, self.concat(cur, v, path), path, st.lineno)
                return [path]
            fake = ast.BinOp(left=st.target, op=st.op, right=st.value)
            ast.copy_location(fake, st)
            ast.fix_missing_locations(fake)
            # evaluate with already computed operands to avoid double obligations
            a, b = unify(cur, v)
            if isinstance(st.op, ast.Add):
                r = a + b
            elif isinstance(st.op, ast.Sub):
                r = a - b
            elif isinstance(st.op, ast.Mult):
                r = a * b
            else:
                r = self.expr(fake, path)
            self.assign(st.target, r, path, st.lineno)
            return [path]
        if isinstance(st, ast.Return):
            res = self.expr(st.value, path) if st.value is not None else NONE
            e = dict(path.env)
            e.update({'old_' + k: v for k, v in self.entry_env.items()})
            e['result'] = res
            for k, txt in enumerate(self.c.get('ensures', [])):
                self.oblige('ensures[%d]@%d' % (k, st.lineno), path, self.spec(txt, e), 'contract', st.lineno)
            return []
        if isinstance(st, ast.Raise):
            allowed = self.c.get('raises')
            exc = st.exc.func.id if isinstance(st.exc, ast.Call) and isinstance(st.exc.func, ast.Name) else '?'
            if allowed and exc in allowed:
                e = dict(path.env)
                self.oblige('raises[%s].when@%d' % (exc, st.lineno), path, self.spec(allowed[exc], e), 'contract', st.lineno)
            else:
                self.oblige('raise-unreachable[%s]@%d' % (exc, st.lineno), path, atom(z3.BoolVal(False)), 'contract', st.lineno)
            return []
        if isinstance(st, ast.If):
            c = self.truth(self.expr(st.test, path))
            a, b = path.fork(), path.fork()
            a.hyps.append(atom(c))
            b.hyps.append(atom(z3.Not(c)))
            out = []
            # a branch whose condition contradicts the quantifier-free facts of the path is dead: every obligation in it
            # would hold vacuously, so it is not executed (this also keeps unsupported code in dead branches out)
            if self.feasible(a):
                out += self.block(st.body, [a])
            if self.feasible(b):
                out += self.block(st.orelse, [b])
            return out
        if isinstance(st, ast.Try) and len(st.body) == 1 and len(st.handlers) == 1 and not st.orelse and not st.finalbody \
                and isinstance(st.handlers[0].type, ast.Name) and st.handlers[0].type.id == 'ZeroDivisionError' \
                and isinstance(st.body[0], (ast.Assign, ast.AugAssign)):
            # try: <one assignment> except ZeroDivisionError: <handler>.  The assignment raises exactly when one of its
            # divisors is zero (nothing is stored before the right-hand side is evaluated), so the statement is the branch
            #     if every divisor != 0: <assignment>   else: <handler>
            exc = path.fork()
            self.zdiv_capture = []
            try:
                ok = self.stmt(st.body[0], path)
            finally:
                conds, self.zdiv_capture = self.zdiv_capture, None
            for p_ in ok:
                p_.hyps += conds
            exc.hyps.append(('not', f_and(conds)) if conds else atom(z3.BoolVal(False)))
            out = list(ok)
            if conds and self.feasible(exc):
                out += self.block(st.handlers[0].body, [exc])
            return out
        if isinstance(st, ast.Try):
            # supported shape: guards that only re-raise (input validation); the handlers are dropped
            self.dropped.append('try/except handlers at line %d (only re-raise)' % st.lineno)
            return self.block(st.body, [path])
        if isinstance(st, (ast.While, ast.For)):
            return self.loop(st, path)
        raise Unsupported('statement %s' % type(st).__name__)

    # ---------------------------------------------------------------- loops
    def loop(self, st, path):
        # loop ordinal = position in source order (pre-order), independent of how many paths reach it
        if self.loop_ids is None:
            self.loop_ids = {}
            for node in ast.walk(self.fn):
                pass
            order = []

            def visit(nodes):
                for nd in nodes:
                    if isinstance(nd, (ast.For, ast.While)):
                        order.append(nd)
                    for fld in ('body', 'orelse', 'handlers', 'finalbody'):
                        sub = getattr(nd, fld, None)
                        if isinstance(sub, list):
                            visit([x for x in sub if isinstance(x, ast.AST)])
            visit(self.fn.body)
            for i, nd in enumerate(order):
                self.loop_ids[id(nd)] = i
        k = self.loop_ids[id(st)]
        spec = self.c.get('loops', {}).get(k)
        if spec is None:
            raise Unsupported('loop %d at line %d has no invariant in the contract' % (k, st.lineno))
        invs = list(spec.get('inv', []))
        idx = '_i%d' % k                        # hidden position counter of a for loop
        is_for = isinstance(st, ast.For)
        iterobj = None
        if is_for:
            if st.orelse:
                raise Unsupported('for/else')
            it = st.iter
            if isinstance(it, ast.Call) and isinstance(it.func, ast.Name) and it.func.id == 'range':
                rng = [self.expr(a, path) for a in it.args]
                down = False
                if len(rng) == 3:
                    st3 = z3.simplify(rng[2])
                    if not (z3.is_int_value(st3) and st3.as_long() == -1):
                        raise Unsupported('range with a step other than -1')
                    down = True
                lo, hi = (z3.IntVal(0), rng[0]) if len(rng) == 1 else (rng[0], rng[1])
                kind = 'range'
                if down:
                    # range(a, b, -1): positions count up from 0, the loop variable is a - position
                    kind = 'rangedown'
                    down_start = lo
                    lo, hi = z3.IntVal(0), z3.If(rng[0] > rng[1], rng[0] - rng[1], z3.IntVal(0))
            elif isinstance(it, ast.Call) and isinstance(it.func, ast.Name) and it.func.id == 'zip':
                ls = [self.expr(a, path) for a in it.args]
                lo = z3.IntVal(0)
                hi = ls[0].ln
                for l in ls[1:]:
                    hi = z3.If(l.ln < hi, l.ln, hi)
                kind = 'zip'
                iterobj = ls
            elif isinstance(it, ast.Call) and isinstance(it.func, ast.Name) and it.func.id == 'enumerate' and \
                    isinstance(it.args[0], ast.Call) and isinstance(it.args[0].func, ast.Name) and it.args[0].func.id == 'zip':
                ls = [self.expr(a, path) for a in it.args[0].args]
                lo = z3.IntVal(0)
                hi = ls[0].ln
                for l in ls[1:]:
                    hi = z3.If(l.ln < hi, l.ln, hi)
                kind = 'enumzip'
                iterobj = ls
            elif isinstance(it, ast.Call) and isinstance(it.func, ast.Name) and it.func.id == 'enumerate':
                l = self.expr(it.args[0], path)
                lo, hi = z3.IntVal(0), l.ln
                kind = 'enumerate'
                iterobj = l
            else:
                l = self.expr(it, path)
                if not isinstance(l, SList):
                    raise Unsupported('for over %s' % type(l).__name__)
                lo, hi = z3.IntVal(0), l.ln
                kind = 'list'
                iterobj = l
            end = z3.If(hi >= lo, hi, lo)
            path.env['_lo%d' % k] = lo
            path.env['_hi%d' % k] = end
            path.env[idx] = lo
            if kind == 'range' and isinstance(st.target, ast.Name):
                path.env[st.target.id] = lo       # loop variable == position at the loop head
            if kind == 'rangedown':
                path.env['_start%d' % k] = down_start
                path.env[st.target.id] = down_start
        for ghost, src in spec.get('snapshot', {}).items():
            path.env[ghost] = path.env[src]          # ghost copy of a variable's value at loop entry
        # establish
        for j, txt in enumerate(invs):
            self.oblige('loop%d.inv[%d].establish@%d' % (k, j, st.lineno), path, self.spec(txt, path.env), 'scaffolding',
                        st.lineno)
        mod = self.modified(st.body)
        if is_for:
            mod |= set(self._target_names(st.target))
        pre_env = dict(path.env)
        self.havoc(path, mod - {idx})
        if is_for:
            path.env[idx] = fresh(idx, I)
            if kind == 'range' and isinstance(st.target, ast.Name):
                path.env[st.target.id] = path.env[idx]
            if kind == 'rangedown':
                path.env[st.target.id] = path.env['_start%d' % k] - path.env[idx]
            path.hyps.append(atom(z3.And(path.env['_lo%d' % k] <= path.env[idx], path.env[idx] <= path.env['_hi%d' % k])))
        for txt in invs:
            path.hyps.append(self.spec(txt, path.env))
        head_env = dict(path.env)
        # guard
        body = path.fork()
        if is_for:
            guard = path.env[idx] < path.env['_hi%d' % k]
            body.hyps.append(atom(guard))
            pos = body.env[idx]
            if kind == 'list':
                self.bind(st.target, self.select(iterobj, pos), body)
            elif kind == 'zip':
                self.bind(st.target, STuple([self.select(l, pos) for l in iterobj]), body)
            elif kind == 'enumerate':
                self.bind(st.target, STuple([pos, self.select(iterobj, pos)]), body)
            elif kind == 'enumzip':
                # the zip lists may be modified by the body (bbmin[i] = ...): element values are read at the head state
                cur = [body.env.get(self._name_of(a), l) if self._name_of(a) else l
                       for a, l in zip(st.iter.args[0].args, iterobj)]
                self.bind(st.target, STuple([pos, STuple([self.select(l, pos) for l in cur])]), body)
        else:
            guard = self.truth(self.expr(st.test, body))
            body.hyps.append(atom(guard))
        variant0 = None
        if 'decreases' in spec:
            variant0 = self.sterm(ast.parse(spec['decreases'], mode='eval').body, body.env)
            self.oblige('loop%d.variant.bounded@%d' % (k, st.lineno), body, atom(variant0 >= 0), 'contract', st.lineno)
        elif not is_for:
            raise Unsupported('while loop %d without a decreases clause' % k)
        for j, txt in enumerate(spec.get('entry_hints', [])):
            # ghost assertions at the START of the body (the loop variable has its current value): proved, then
            # available to the obligations of the body's statements (index safety of a nonlinear flat index)
            f = self.spec(txt, body.env)
            self.oblige('loop%d.entry_hint[%d]@%d' % (k, j, st.lineno), body, f, 'scaffolding', st.lineno)
            body.hyps.append(f)
        ends = self.block(st.body, [body])
        for e in ends:
            if is_for:
                e.env[idx] = pos + 1
                if kind == 'range' and isinstance(st.target, ast.Name):
                    e.env[st.target.id] = pos + 1
                if kind == 'rangedown':
                    e.env[st.target.id] = e.env['_start%d' % k] - (pos + 1)
            ext = {'head_' + nm: v for nm, v in head_env.items() if isinstance(nm, str)}
            e2 = dict(e.env)
            e2.update(ext)
            for j, txt in enumerate(spec.get('hints', [])):
                # ghost assertions at the end of the body: proved, then available to the invariant proofs
                f = self.spec(txt, e2)
                self.oblige('loop%d.hint[%d]@%d' % (k, j, st.lineno), e, f, 'scaffolding', st.lineno)
                e.hyps.append(f)
            for j, txt in enumerate(spec.get('asserts', [])):
                # contract-level assertions at the end of the body (ACSL-style `assert`): part of what is claimed about
                # the function, stated where the value is produced when the postcondition cannot address it
                f = self.spec(txt, e2)
                self.oblige('loop%d.assert[%d]@%d' % (k, j, st.lineno), e, f, 'contract', st.lineno)
                e.hyps.append(f)
            for j, txt in enumerate(invs):
                self.oblige('loop%d.inv[%d].preserve@%d' % (k, j, st.lineno), e, self.spec(txt, e2), 'scaffolding', st.lineno)
            if variant0 is not None:
                v1 = self.sterm(ast.parse(spec['decreases'], mode='eval').body, e.env)
                self.oblige('loop%d.variant.decreases@%d' % (k, st.lineno), e, atom(v1 < variant0), 'contract', st.lineno)
        # exit
        if is_for:
            path.hyps.append(atom(path.env[idx] == path.env['_hi%d' % k]))
            if kind == 'rangedown':
                path.env[st.target.id] = fresh(st.target.id, I)      # value after the loop is not used by the targets
            if kind == 'range' and isinstance(st.target, ast.Name):
                # Python leaves the last iterated value in the loop variable (unchanged if no iteration)
                last = fresh(st.target.id, I)
                path.hyps.append(atom(z3.Implies(path.env['_hi%d' % k] > path.env['_lo%d' % k],
                                                 last == path.env['_hi%d' % k] - 1)))
                old = pre_env.get(st.target.id)
                if old is not None and is_int(old):
                    path.hyps.append(atom(z3.Implies(path.env['_hi%d' % k] <= path.env['_lo%d' % k], last == old)))
                path.env[st.target.id] = last
                path.env['_end%d' % k] = path.env['_hi%d' % k]
        else:
            g2 = self.truth(self.expr(st.test, path))
            path.hyps.append(atom(z3.Not(g2)))
        return [path]

    # ---------------------------------------------------------------- whole function
    def run(self):
        env = {}
        hyps = []
        c = self.c
        for a, t in c.get('ghost_args', {}).items():
            env[a] = self.declare(a, t, hyps)
        for a, t in c['args'].items():
            if t == 'kwargs':
                env[a] = SKwargs({k: (env[v[1:]] if isinstance(v, str) and v.startswith('$') else self.spec_value(v))
                                  for k, v in c.get('kwargs', {}).items()})
                continue
            if isinstance(t, tuple) and t[0] == 'varargs':
                env[a] = STuple([self.declare('%s_%d' % (a, k), t[2], hyps) for k in range(t[1])])
                continue
            if isinstance(t, tuple) and t[0] == 'obj':
                env[a] = SObject({k: self.declare('%s_%s' % (a, k), v, hyps) for k, v in t[1].items()})
                continue
            if t == 'self':
                env[a] = SObject({k: (SFunc(v[1]) if isinstance(v, tuple) and v[0] == 'func' else self.declare('self_' + k, v, hyps))
                                  for k, v in c.get('self', {}).items()})
                continue
            if isinstance(t, tuple) and t[0] == 'dict':
                env[a] = SDict({k: self.declare('%s_%s' % (a, k), v, hyps) for k, v in t[1].items()})
                continue
            if isinstance(t, tuple) and t[0] == 'func':
                env[a] = SFunc(t[1])
                continue
            env[a] = self.declare(a, t, hyps)
        self.entry_env = dict(env)
        for name, (argsorts, ret) in c.get('funcs', {}).items():
            self.specfuncs[name] = SpecFunc(name + '@spec', [sort_of(s) for s in argsorts], sort_of(ret))
        for txt in c.get('axioms', []):
            hyps.append(self.spec(txt, env))
        for lname in c.get('uses_lemmas', []):
            hyps.append(self.spec(lemma_as_axiom(lname, self.registry[lname]), env))
        for txt in c.get('requires', []):
            hyps.append(self.spec(txt, env))
        self.pre_hyps = list(hyps)
        self.pre_env = dict(env)
        # argument defaults in the signature are bound by the contract ('defaults'), **kwargs by 'kwargs'
        fargs = self.fn.args
        declared = [a.arg for a in fargs.args] + ([fargs.kwarg.arg] if fargs.kwarg else []) + \
                   ([fargs.vararg.arg] if fargs.vararg else [])
        for a in declared:
            if a not in env:
                raise Unsupported('parameter %s is not described by the contract' % a)
        ends = self.block(self.fn.body, [Path(env, hyps)])
        for p in ends:
            # falling off the end returns None
            if self.c.get('returns', 'none') != 'none':
                self.oblige('falls-off-end', p, atom(z3.BoolVal(False)), 'contract')
            else:
                e = dict(p.env)
                e['result'] = NONE
                for k, txt in enumerate(self.c.get('ensures', [])):
                    self.oblige('ensures[%d]@end' % k, p, self.spec(txt, e), 'contract')
        return self.obls
