"""Aliasing pre-pass of Engine A.

pyvc/core.py gives lists VALUE semantics (a list is an (array, length) term; `deepcopy` is the identity).  That is only
faithful to Python when no list object that is mutated in place is reachable through two different paths.  This syntactic,
conservative pass rejects (-> the function is outside the supported subset, its contract is reported undecided, never
proved) every function in which that could happen:

 R1  a row reached through a container is mutated in place (`X[i][j] = v`, `X[i][:] = ...`, `X[i].append(...)`,
     `X[i] += ...`) unless X exclusively owns its rows:
       * X is a local (not a parameter: the caller may hold other references to the rows),
       * every row ever put into X is a fresh object (a call such as deepcopy()/list(), a comprehension, a list literal,
         an arithmetic expression) - not a bare name or a bare `Y[k]`,
       * no row of X is handed out (`Y[k] = X[i]`, `Y.append(X[i])`, `v = X[i]`, `return X[i]`) without a copy.
 R2  a list bound to a name is mutated in place (`v[j] = ...`, `v[:] = ...`, `v.append(...)`, `v += ...`) although the same
     object was stored into a container or bound to a second name (`Y[k] = v`, `Y.append(v)`, `w = v`) - unless, in the
     statement sequence of the block that contains both, v is rebound to a fresh object between the sharing statement and
     the next mutation (following the loop's back edge when the block is a loop body), or v is a parameter.

The pass knows nothing about types; scalars stored into lists are harmless because rules only fire on in-place
mutations.
"""
import ast

FRESH_CALLS_OK = True


def _is_fresh(e):
    """expression that certainly creates a new object (or is not a list at all)"""
    if isinstance(e, (ast.ListComp, ast.List, ast.BinOp, ast.Constant, ast.UnaryOp, ast.Compare, ast.BoolOp, ast.IfExp)):
        return True
    if isinstance(e, ast.Tuple):
        return all(_is_fresh(x) for x in e.elts)
    if isinstance(e, ast.Call):
        return True          # deepcopy(...), list(...), float(...), any function result: a new object or a scalar
    if isinstance(e, ast.Subscript) and isinstance(e.slice, ast.Slice):
        return True          # a slice copies
    return False


def _bare_row(e):
    """`X[i]` (one subscript on a name, not a slice) -> X"""
    if isinstance(e, ast.Subscript) and isinstance(e.value, ast.Name) and not isinstance(e.slice, ast.Slice):
        return e.value.id
    return None


def _nested_base(t):
    """X for a store target X[i][j]..., X[i][:]..., of depth >= 2; None otherwise"""
    depth = 0
    while isinstance(t, ast.Subscript):
        depth += 1
        t = t.value
    if depth >= 2 and isinstance(t, ast.Name):
        return t.id
    return None


def _flat_mutations(st):
    """names mutated in place by statement st (not descending into nested blocks)"""
    out = []
    if isinstance(st, ast.Assign):
        for t in st.targets:
            if isinstance(t, ast.Subscript) and isinstance(t.value, ast.Name):
                out.append(t.value.id)
    elif isinstance(st, ast.AugAssign):
        if isinstance(st.target, ast.Subscript) and isinstance(st.target.value, ast.Name):
            out.append(st.target.value.id)
        elif isinstance(st.target, ast.Name):
            out.append(('aug', st.target.id))          # v += ... : in place only when v is a list
    elif isinstance(st, ast.Expr) and isinstance(st.value, ast.Call) and isinstance(st.value.func, ast.Attribute) \
            and st.value.func.attr in ('append', 'extend', 'insert', 'pop', 'remove', 'sort', 'reverse', 'clear') \
            and isinstance(st.value.func.value, ast.Name):
        out.append(st.value.func.value.id)
    return out


def _shares(st):
    """names whose object is stored into a container / bound to another name by statement st"""
    out = []
    if isinstance(st, ast.Assign):
        if isinstance(st.value, ast.Name):
            out.append(st.value.id)
    elif isinstance(st, ast.Expr) and isinstance(st.value, ast.Call) and isinstance(st.value.func, ast.Attribute) \
            and st.value.func.attr in ('append', 'insert', 'extend') and st.value.args \
            and isinstance(st.value.args[-1], ast.Name):
        out.append(st.value.args[-1].id)
    elif isinstance(st, ast.Return) and isinstance(st.value, ast.Name):
        pass
    return out


def _rebinds(st):
    if isinstance(st, ast.Assign) and _is_fresh(st.value):
        return [t.id for t in st.targets if isinstance(t, ast.Name)]
    return []


def check(fn):
    """-> list of human-readable aliasing problems (empty = value semantics is faithful)"""
    problems = []
    params = {a.arg for a in fn.args.args}
    if fn.args.vararg:
        params.add(fn.args.vararg.arg)

    row_sources = {}        # X -> list of RHS expressions stored as rows of X
    exported = set()        # X whose rows are handed out without a copy
    nested_mut = []         # (X, lineno)
    for n in ast.walk(fn):
        if isinstance(n, ast.Assign):
            for t in n.targets:
                # X[i][j] = v / X[i][:] = v / X[i][j][:] = v ...
                if _nested_base(t) is not None:
                    nested_mut.append((_nested_base(t), n.lineno))
                # X[i] = e  : e becomes a row of X
                if isinstance(t, ast.Subscript) and isinstance(t.value, ast.Name) and not isinstance(t.slice, ast.Slice):
                    row_sources.setdefault(t.value.id, []).append(n.value)
                if isinstance(t, ast.Name) and isinstance(n.value, (ast.ListComp, ast.List)):
                    elts = [n.value.elt] if isinstance(n.value, ast.ListComp) else n.value.elts
                    for e in elts:
                        row_sources.setdefault(t.id, []).append(e)
            src = _bare_row(n.value)
            if src is not None:
                exported.add(src)
        elif isinstance(n, ast.AugAssign):
            t = n.target
            if _nested_base(t) is not None:
                nested_mut.append((_nested_base(t), n.lineno))
        elif isinstance(n, ast.Call) and isinstance(n.func, ast.Attribute):
            if n.func.attr in ('append', 'insert', 'extend') and n.args:
                if isinstance(n.func.value, ast.Name):
                    row_sources.setdefault(n.func.value.id, []).append(n.args[-1])
                src = _bare_row(n.args[-1])
                if src is not None:
                    exported.add(src)
                if isinstance(n.func.value, ast.Subscript) and isinstance(n.func.value.value, ast.Name):
                    nested_mut.append((n.func.value.value.id, n.lineno))
        elif isinstance(n, ast.Return) and n.value is not None:
            src = _bare_row(n.value)
            if src is not None:
                exported.add(src)

    for X, line in nested_mut:
        if X in params:
            problems.append('line %d: a row of parameter %s is mutated in place' % (line, X))
            continue
        bad = [e for e in row_sources.get(X, []) if not _is_fresh(e)]
        if bad:
            problems.append('line %d: a row of %s is mutated in place but %s may hold shared rows (e.g. stored from `%s`)'
                            % (line, X, X, ast.unparse(bad[0])[:40]))
        if X in exported:
            problems.append('line %d: a row of %s is mutated in place but rows of %s are handed out without a copy' % (line, X, X))

    # R2 per block
    def scan(block, is_loop):
        seq = list(block)
        muts = {}
        for i, st in enumerate(seq):
            for m in _flat_mutations(st):
                name = m[1] if isinstance(m, tuple) else m
                muts.setdefault(name, []).append((i, isinstance(m, tuple)))
        for i, st in enumerate(seq):
            for v in _shares(st):
                if v in params or v not in muts:
                    continue
                order = list(range(i + 1, len(seq))) + (list(range(0, i + 1)) if is_loop else [])
                for j in order:
                    if v in _rebinds(seq[j]):
                        break
                    hit = [m for m in muts[v] if m[0] == j]
                    if hit:
                        if all(aug for _j, aug in hit):
                            continue          # `v += x` on a name: in place only for lists; v shared as a list row is flagged
                        problems.append('line %d: %s is mutated in place after being stored / aliased at line %d without a '
                                        'fresh rebinding in between' % (seq[j].lineno, v, st.lineno))
                        break
        for st in seq:
            for fld in ('body', 'orelse', 'finalbody'):
                sub = getattr(st, fld, None)
                if isinstance(sub, list) and sub and isinstance(sub[0], ast.stmt):
                    scan(sub, isinstance(st, (ast.For, ast.While)) and fld == 'body')
            for h in getattr(st, 'handlers', []) or []:
                scan(h.body, False)
    scan(fn.body, False)
    return problems
