"""Loading the sidecar contracts (no solver imports: also used by the native replay under /venv/bin/python)."""
import importlib
import os

ROOT = os.path.dirname(os.path.dirname(os.path.abspath(__file__)))


def load_contracts():
    reg = {}
    d = os.path.join(ROOT, 'contracts')
    for fn in sorted(os.listdir(d)):
        if fn.endswith('.py') and not fn.startswith('_'):
            m = importlib.import_module('contracts.' + fn[:-3])
            for name, c in getattr(m, 'CONTRACTS', {}).items():
                c = dict(c)
                c['name'] = name
                reg[name] = c
    return reg
