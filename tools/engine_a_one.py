import sys, time, ast
sys.path.insert(0, __import__('os').path.dirname(__import__('os').path.dirname(__import__('os').path.abspath(__file__))))
from pyvc import driver, core, solve
import z3
name, pat = sys.argv[1], sys.argv[2]
reg = driver.load_contracts()
c = reg[name]
fn, path = driver.find_function(c.get('target', name))
gen = core.Gen(fn, c, reg, name.split('.')[0])
obls = gen.run()
for ob in obls:
    if pat in ob.name:
        t = time.time()
        r = solve.discharge(ob, timeout_ms=c.get('timeout_ms', 10000), rounds=c.get('rounds', 2))
        print(ob.name, r['status'], r.get('backend'), int(1000*(time.time()-t)), 'ms', r.get('nhyps'), r.get('why',''))
