import json, subprocess, sys
fid, prop, scen, label, what, detail = sys.argv[1:7]
h = subprocess.run(['git', '-C', '/repo', 'log', '--format=%h', '-1'], capture_output=True, text=True).stdout.strip()
p = '/verif/known_findings.json'
k = json.load(open(p))
assert not any(f['id'] == fid for f in k['findings'])
k['findings'].append({"id": fid, "property": prop, "status": "fixed", "commit": h,
                      "fixed": "fixed: property=%s %s %s" % (prop, h, detail), "what": what,
                      "match": {"scenario": scen, "label": label, "params": {}}})
json.dump(k, open(p, 'w'), indent=1)
s = open('/verif/DESIGN.md').read()
anchor = "| C19 | `__eq__` takes the tolerance from `self` only"
row = "| %s | %s (sub-agent note, reproduced by widening `%s`) | %s |\n" % (prop, what, scen, h)
assert anchor in s
s = s.replace(anchor, row + anchor, 1)
open('/verif/DESIGN.md', 'w').write(s)
print('recorded', fid, h)
