import sys, time
sys.path.insert(0, __import__('os').path.dirname(__import__('os').path.dirname(__import__('os').path.abspath(__file__))))
from pyvc import driver
from concurrent.futures import ProcessPoolExecutor
reg = driver.load_contracts()
names = [n for n in sorted(reg) if not sys.argv[1:] or any(a in n for a in sys.argv[1:])]
tasks = []
for n in names:
    ch = reg[n].get('chunks', 1)
    for i in range(ch):
        tasks.append({'function': n, 'chunk': [i, ch]})
def run(t):
    t0=time.time(); r = driver.run_contract(t, 900); return t, r, time.time()-t0
agg = {}
with ProcessPoolExecutor(16) as ex:
    for t, r, dt in ex.map(run, tasks):
        a = agg.setdefault(t['function'], [0, 0, 0.0, [], None])
        a[0] += sum(o['status']=='proved' for o in r['obligations']); a[1] += len(r['obligations']); a[2] = max(a[2], dt)
        a[3] += [(o['name'], o['status'], o.get('why','')) for o in r['obligations'] if o['status']!='proved']
        if t['chunk'][0] == 0: a[4] = r.get('canary')
tot = ok = 0
for n in names:
    a = agg[n]; tot += a[1]; ok += a[0]
    print('%-55s %3d/%-3d canary=%s %.1fs' % (n, a[0], a[1], a[4], a[2]))
    for b in a[3]: print('     ', *b)
print('TOTAL', ok, '/', tot)
