#!/bin/sh
# usage: tools/confirm_mutant.sh <dir with patch.diff demo.py meta.json> <seed name> <property> [check args]
# confirms: suite passes with the change; demo passes without / fails with; then runs the check; writes /verif/seeded/<name>/
SRC="$1"; NAME="$2"; PROP="$3"; shift 3
WT=$(mktemp -d /tmp/wt_cm_XXXXXX); rmdir "$WT"
git -C /repo worktree add -q --detach "$WT" HEAD
trap 'git -C /repo worktree remove --force "$WT" >/dev/null 2>&1 || true' EXIT
D0=$(PYTHONPATH="$WT" /venv/bin/python "$SRC/demo.py" >/dev/null 2>&1; echo $?)
if ! git -C "$WT" apply "$SRC/patch.diff"; then echo "PATCH DOES NOT APPLY"; exit 2; fi
T=$(cd "$WT" && PYTHONPATH="$WT" /venv/bin/python -m pytest -q -p no:cacheprovider tests --ignore tests/test_visualization.py 2>&1 | tail -1)
D1=$(PYTHONPATH="$WT" /venv/bin/python "$SRC/demo.py" >/dev/null 2>&1; echo $?)
cd /verif
OUT=$(VERIF_REPO="$WT" ./check "$PROP" "$@" 2>&1 | grep -v "^WARNING")
RC=$?
NV=$(echo "$OUT" | grep -c "^VIOLATION")
echo "$NAME: demo clean=$D0 mutated=$D1 | tests: $T | check violations=$NV"
echo "$OUT" | grep "VIOLATION\|obligation:" | head -4 | cut -c1-220
mkdir -p "seeded/$NAME"
cp "$SRC/patch.diff" "$SRC/demo.py" "seeded/$NAME/"
python3 - "$SRC/meta.json" "seeded/$NAME/meta.json" "$D0" "$D1" "$T" "$NV" "$PROP" <<'PY'
import json, sys
src, dst, d0, d1, t, nv, prop = sys.argv[1:]
try: m = json.load(open(src))
except Exception: m = {}
m['property'] = prop
m['confirmed_by_verif'] = {'demo_exit_clean_tree': int(d0), 'demo_exit_with_change': int(d1), 'test_suite_with_change': t,
                           'check': './check %s (VERIF_REPO=<scratch worktree with the patch>)' % prop, 'violations_reported': int(nv),
                           'detected': int(nv) > 0}
json.dump(m, open(dst, 'w'), indent=1)
PY
