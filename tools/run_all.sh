#!/bin/sh
# usage: sh tools/run_all.sh quick|thorough [nproc]  -- runs every check once, prints one summary line each
cd "$(dirname "$0")/.."
T=${1:-quick}; NP=${2:-16}
for i in 01 02 03 04 05 06 07 08 09 10 11 12 13 14 15 16 17 18 19 20; do
  S=$(date +%s)
  OUT=$(./check C$i --tier $T --nproc $NP 2>&1 | grep -v "^WARNING")
  RC=$?
  echo "$OUT" | grep "VIOLATION\|UNDECIDED\|CHECKER-ERROR\|KNOWN-FINDING" | head -5 | cut -c1-200
  echo "$OUT" | tail -1 | cut -c1-220
done
