#!/bin/sh
# usage: tools/confirm_harmless.sh <dir with patch.diff equiv.py meta.json> <name> <property> [check args]
# A behaviour-preserving change: the suite passes, equiv.py prints the same digest with and without it, and the check of the
# property must exit 0 without a VIOLATION line (Engine-A obligations may drop to undecided; that is recorded).  Writes harmless/<name>/.
SRC="$1"; NAME="$2"; PROP="$3"; shift 3
WT=$(mktemp -d /tmp/wt_ch_XXXXXX); rmdir "$WT"
git -C /repo worktree add -q --detach "$WT" HEAD
trap 'git -C /repo worktree remove --force "$WT" >/dev/null 2>&1 || true' EXIT
E0=$(PYTHONPATH="$WT" /venv/bin/python "$SRC/equiv.py" 2>&1 | md5sum | cut -c1-12)
if ! git -C "$WT" apply "$SRC/patch.diff"; then echo "$NAME: PATCH DOES NOT APPLY"; exit 2; fi
T=$(cd "$WT" && PYTHONPATH="$WT" /venv/bin/python -m pytest -q -p no:cacheprovider tests --ignore tests/test_visualization.py 2>&1 | tail -1)
E1=$(PYTHONPATH="$WT" /venv/bin/python "$SRC/equiv.py" 2>&1 | md5sum | cut -c1-12)
cd /verif
LOGF=$(mktemp /tmp/ch_log_XXXXXX)
VERIF_REPO="$WT" ./check "$PROP" "$@" > "$LOGF" 2>&1; RC=$?
OUT=$(grep -v "^WARNING" "$LOGF"); rm -f "$LOGF"
NV=$(echo "$OUT" | grep -c "^VIOLATION")
NU=$(echo "$OUT" | grep -c "^UNDECIDED")
SUM=$(echo "$OUT" | grep "^$PROP " | cut -c1-200)
echo "$NAME: equiv same=$([ "$E0" = "$E1" ] && echo yes || echo NO) | tests: $T | check exit=$RC violations=$NV undecided=$NU"
echo "   $SUM"
echo "$OUT" | grep "VIOLATION\|obligation:\|CHECKER" | head -4 | cut -c1-220
mkdir -p "harmless/$NAME"
cp "$SRC/patch.diff" "$SRC/equiv.py" "harmless/$NAME/" 2>/dev/null
python3 - "$SRC/meta.json" "harmless/$NAME/meta.json" "$E0" "$E1" "$T" "$NV" "$NU" "$RC" "$PROP" <<'PY'
import json, sys
src, dst, e0, e1, t, nv, nu, rc, prop = sys.argv[1:]
try: m = json.load(open(src))
except Exception: m = {}
m['property'] = prop
m['confirmed_by_verif'] = {'equiv_digest_same': e0 == e1, 'test_suite_with_change': t, 'check_exit': int(rc), 'violations_reported': int(nv),
                           'engine_A_or_B_undecided_lines': int(nu), 'quiet': int(rc) == 0 and int(nv) == 0}
json.dump(m, open(dst, 'w'), indent=1)
PY
