#!/bin/sh
# usage: tools/try_mutant.sh <patch.diff> <property id> [extra check args]   -- runs a check against a scratch worktree with the patch
set -e
PATCH="$1"; PROP="$2"; shift 2
WT=$(mktemp -d /tmp/wt_mut_XXXXXX); rmdir "$WT"
git -C /repo worktree add -q --detach "$WT" HEAD
trap 'git -C /repo worktree remove --force "$WT" >/dev/null 2>&1 || true' EXIT
git -C "$WT" apply "$PATCH"
cd /verif
VERIF_REPO="$WT" ./check "$PROP" "$@" 2>&1 | grep -v "^WARNING" | grep "VIOLATION\|obligation:\|UNDECIDED\|CHECKER\|^$PROP" | cut -c1-260 | head -14
echo "exit=$?"
