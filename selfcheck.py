"""setup_cmd: verifies offline that the tooling imports and that /repo/geomdl loads through the rewriter."""
import os, sys
ROOT = os.path.dirname(os.path.abspath(__file__))
sys.path.insert(0, ROOT)
import z3
from symx import loader, qnum
loader.install(os.environ.get('VERIF_REPO', '/repo'))
import geomdl.helpers, geomdl.BSpline, geomdl.NURBS, geomdl.operations
print('ok: z3', z3.get_version_string(), '; geomdl loaded from', geomdl.helpers.__file__)
