"""Regenerates MANIFEST.json from harness metadata (python3-vt tools_manifest.py)."""
import json, os, sys
ROOT = os.path.dirname(os.path.abspath(__file__))
sys.path.insert(0, ROOT)
from harness import manifest_data as md

checks = []
for pid in sorted(md.CLAIMED):
    c = md.CLAIMED[pid]
    checks.append({
        'property_id': pid,
        'quick_cmd': './check %s --tier quick' % pid,
        'thorough_cmd': './check %s --tier thorough' % pid,
        'evidence_file': 'evidence/%s.json' % pid,
        'replay_cmd_template': './check %s --replay {path}' % pid,
        'engine': c.get('engine', 'pyvc+symx'),
        'level_claimed': {'category': c['category'], 'text': c['text'], 'design_ref': c.get('design_ref', 'DESIGN.md section 7')},
        'level_note': c['note'],
        'technique': c['technique'],
    })
m = {
    'version': 1,
    'setup_cmd': 'python3-vt selfcheck.py',
    'hooks': {'guard': 'GEOMDL_VERIF', 'enable': 'no hooks: contracts are sidecar files under /verif, the checks read /repo/geomdl/*.py as is',
              'baseline_off_cmd': 'cd /repo && /venv/bin/python -m pytest -ra -q -p no:cacheprovider --timeout=900 --continue-on-collection-errors',
              'source_commits': md.SOURCE_COMMITS, 'add_only': True},
    'engines': [
        {'name': 'pyvc', 'path': 'pyvc', 'serves_properties': sorted(md.PYVC_PROPS),
         'kind_free_text': 'contract-based deductive verification: VCs generated from the AST of the real functions (loops cut at sidecar invariants, calls by contract), discharged by z3 / cvc5 for all inputs'},
        {'name': 'symx', 'path': 'symx', 'serves_properties': sorted(md.CLAIMED),
         'kind_free_text': 'bounded stand-in: exhaustive symbolic execution of the real code over exact rational functions per enumerated shape; contracts = scenarios in harness/'},
    ],
    'checks': checks,
    'notes': md.NOTES,
    'not_applicable': md.NOT_APPLICABLE,
}
json.dump(m, open(os.path.join(ROOT, 'MANIFEST.json'), 'w'), indent=1)
print('wrote MANIFEST.json with %d checks, %d not_applicable' % (len(checks), len(md.NOT_APPLICABLE)))
