"""Depth-first enumeration of every feasible path of a body that runs real (rewritten) code."""
import time

from . import qnum, loader
from .qnum import World, Undecided, Infeasible


class PathResult(object):
    __slots__ = ('world', 'value', 'exc', 'tb')

    def __init__(self, world, value, exc, tb=None):
        self.world, self.value, self.exc, self.tb = world, value, exc, tb


def explore(setup, body, max_paths=20000, deadline=None):
    """setup(w): declare assumptions; body(w): run code, return anything.
    Yields PathResult for every feasible path.  Raises Undecided when the solver cannot decide a
    branch (the instance is then undecided as a whole)."""
    pending = [[]]
    count = 0
    while pending:
        prefix = pending.pop()
        w = World(prefix, pending)
        World.cur = w
        loader.clear_caches()
        try:
            setup(w)
            try:
                val = body(w)
                exc = None
                tb = None
            except (Undecided, Infeasible, KeyboardInterrupt, MemoryError):
                raise
            except Exception as e:      # the code under contract raised: the harness judges it
                import traceback
                val, exc, tb = None, e, traceback.format_exc()
        except Infeasible:
            continue
        finally:
            World.cur = None
        World.cur = w
        yield PathResult(w, val, exc, tb)
        World.cur = None
        count += 1
        if count > max_paths:
            raise Undecided('more than %d paths' % max_paths)
        if deadline is not None and time.time() > deadline:
            raise Undecided('instance deadline exceeded')
