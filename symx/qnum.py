"""Exact numbers for Engine B (symx).

Q is an element of the rational-function field QQ(x_1..x_n) (n grows on demand) kept as
    n / (dc * prod atom_i ** e_i)
with n a ZZ polynomial (zpoly dict), dc a positive integer and the atoms registered primitive
polynomials (in B-spline code: knot differences, parameter-minus-knot, weights).  Constants are
kept as Fractions.  Comparisons ask the current World (one per explored path) which outcomes are
feasible under the path condition and fork.

Nothing here is geomdl specific.
"""
import math
import random
from fractions import Fraction
from math import gcd

import z3

from . import zpoly as zp


class Undecided(BaseException):
    """solver unknown / construct outside the exact model: the instance is undecided, never a violation"""


class Infeasible(BaseException):
    pass


# ----------------------------------------------------------------------------------------------
# registry (per instance; reset() between instances)
# ----------------------------------------------------------------------------------------------
class Registry:
    def __init__(self, seed=0):
        self.names = []
        self.index = {}
        self.point = []
        self.zvars = []
        self.atoms = []          # list of [poly, value, z3term or None]
        self.atom_index = {}
        self.rng = random.Random(12345 + seed)
        self.prod_cache = {}
        self.alg = {}            # var index -> ('sqrt', Q radicand) | ('cos', partner index) | ('sin', partner index)
        self.trig = {}           # key -> (cos var idx, sin var idx)
        self.sqrt_cache = {}
        self.tokens = {}

    def var(self, name):
        i = self.index.get(name)
        if i is None:
            i = len(self.names)
            self.index[name] = i
            self.names.append(name)
            self.point.append(self.rng.randrange(1000, 100000))
            self.zvars.append(z3.Real(name))
        return i

    def atom(self, poly):
        """poly: primitive, positive leading coefficient, non-constant. returns atom index"""
        key = frozenset(poly.items())
        i = self.atom_index.get(key)
        if i is None:
            i = len(self.atoms)
            self.atom_index[key] = i
            self.atoms.append([poly, zp.evaluate(poly, self.point), None])
        return i

    def atom_z3(self, i):
        a = self.atoms[i]
        if a[2] is None:
            a[2] = poly_z3(a[0])
        return a[2]


REG = Registry()


def reset(seed=0):
    global REG
    REG = Registry(seed)
    World.cur = None
    return REG


def poly_z3(p):
    if not p:
        return z3.RealVal(0)
    zv = REG.zvars
    terms = []
    for k, c in p.items():
        fs = []
        for i, e in zp.exps(k).items():
            v = zv[i]
            fs.extend([v] * e)
        if not fs:
            terms.append(z3.RealVal(c))
        else:
            m = fs[0] if len(fs) == 1 else z3.Product(*fs)
            terms.append(m if c == 1 else z3.RealVal(c) * m)
    return terms[0] if len(terms) == 1 else z3.Sum(*terms)


def _dprod(d):
    """expanded product of atoms**e for d = ((atom, e), ...) -> (poly, value)"""
    if not d:
        return {0: 1}, 1
    r = REG.prod_cache.get(d)
    if r is None:
        p = {0: 1}
        v = 1
        for a, e in d:
            ap, av, _ = REG.atoms[a]
            for _i in range(e):
                p = zp.mul(p, ap)
                v *= av
        r = REG.prod_cache[d] = (p, v)
    return r


def _dmerge_max(da, db):
    if da == db:
        return da, (), ()
    A, B = dict(da), dict(db)
    L = dict(A)
    for a, e in B.items():
        if L.get(a, 0) < e:
            L[a] = e
    ra = tuple(sorted((a, e - A.get(a, 0)) for a, e in L.items() if e > A.get(a, 0)))
    rb = tuple(sorted((a, e - B.get(a, 0)) for a, e in L.items() if e > B.get(a, 0)))
    return tuple(sorted(L.items())), ra, rb


def _dsum(da, db):
    if not da:
        return db
    if not db:
        return da
    L = dict(da)
    for a, e in db:
        L[a] = L.get(a, 0) + e
    return tuple(sorted(L.items()))


# ----------------------------------------------------------------------------------------------
class Q(object):
    __slots__ = ('k', 'n', 'dc', 'd', 'vn')

    def __init__(self, k=None, n=None, dc=1, d=(), vn=0):
        self.k = k
        self.n = n
        self.dc = dc
        self.d = d
        self.vn = vn

    # ---- structure
    def __deepcopy__(self, memo):
        return self

    def __copy__(self):
        return self

    def __reduce__(self):
        if self.k is not None:
            return (Q, (self.k,))
        return (Q, (None, self.n, self.dc, self.d, self.vn))

    def __hash__(self):
        return 0

    def __repr__(self):
        if self.k is not None:
            return 'Q(%s)' % self.k
        s = '(%s)' % zp.to_str(self.n, REG.names)
        den = []
        if self.dc != 1:
            den.append(str(self.dc))
        for a, e in self.d:
            den.append('(%s)%s' % (zp.to_str(REG.atoms[a][0], REG.names), '' if e == 1 else '**%d' % e))
        return 'Q[%s%s]' % (s, ('/' + '*'.join(den)) if den else '')

    def const(self):
        return self.k

    def is_const(self):
        return self.k is not None

    def parts(self):
        """(n, dc, d, vn) for constants too"""
        if self.k is not None:
            k = self.k
            return ({0: k.numerator} if k.numerator else {}), k.denominator, (), k.numerator
        return self.n, self.dc, self.d, self.vn

    # ---- arithmetic
    def __add__(s, o):
        o = lift(o)
        if s.k is not None and o.k is not None:
            return Q(s.k + o.k)
        return _add(s, o)
    __radd__ = __add__

    def __sub__(s, o):
        o = lift(o)
        if s.k is not None and o.k is not None:
            return Q(s.k - o.k)
        return _add(s, -o)

    def __rsub__(s, o):
        return lift(o) - s

    def __neg__(s):
        if s.k is not None:
            return Q(-s.k)
        return Q(None, zp.neg(s.n), s.dc, s.d, -s.vn)

    def __pos__(s):
        return s

    def __mul__(s, o):
        o = lift(o)
        if s.k is not None and o.k is not None:
            return Q(s.k * o.k)
        return _mul(s, o)
    __rmul__ = __mul__

    def __truediv__(s, o):
        return vq_div(s, o)

    def __rtruediv__(s, o):
        return vq_div(o, s)

    def __pow__(s, n):
        return vq_pow(s, n)

    # ---- comparisons (fork)
    def _cmp(s, o, op):
        o = lift(o)
        if s.k is not None and o.k is not None:
            return _OPS[op](s.k, o.k)
        d = s - o
        if d.k is not None:
            return _OPS[op](d.k, 0)
        return World.get().decide_sign(d, op)

    def __lt__(s, o):
        return s._cmp(o, '<')

    def __le__(s, o):
        return s._cmp(o, '<=')

    def __gt__(s, o):
        return s._cmp(o, '>')

    def __ge__(s, o):
        return s._cmp(o, '>=')

    def __eq__(s, o):
        if s is o:
            return True
        try:
            return s._cmp(o, '==')
        except TypeError:
            return False

    def __ne__(s, o):
        if s is o:
            return False
        try:
            return s._cmp(o, '!=')
        except TypeError:
            return True

    def __bool__(s):
        return s != 0

    def __abs__(s):
        return s if s >= 0 else -s

    # ---- conversions
    def __float__(s):
        if s.k is None:
            raise Undecided('float() of a symbolic number')
        return float(s.k)

    def __int__(s):
        if s.k is None:
            raise Undecided('int() of a symbolic number')
        return int(s.k)

    def __index__(s):
        if s.k is None or s.k.denominator != 1:
            raise TypeError('Q used as index')
        return int(s.k)

    def __floor__(s):
        if s.k is None:
            raise Undecided('floor() of a symbolic number')
        return math.floor(s.k)

    def __ceil__(s):
        if s.k is None:
            raise Undecided('ceil() of a symbolic number')
        return math.ceil(s.k)

    def __round__(s, nd=None):
        return vq_round(s, nd)

    def __format__(s, spec):
        return token(s)

    def __str__(s):
        return token(s)


_OPS = {'<': lambda a, b: a < b, '<=': lambda a, b: a <= b, '>': lambda a, b: a > b, '>=': lambda a, b: a >= b,
        '==': lambda a, b: a == b, '!=': lambda a, b: a != b}

ZERO = Q(Fraction(0))
ONE = Q(Fraction(1))


def lift(x):
    if isinstance(x, Q):
        return x
    if isinstance(x, bool):
        return Q(Fraction(int(x)))
    if isinstance(x, (int, Fraction)):
        return Q(Fraction(x))
    if isinstance(x, Inf):
        raise TypeError('inf in arithmetic')
    if isinstance(x, float):
        raise TypeError('raw float leaked into exact arithmetic: %r' % (x,))
    raise TypeError('cannot lift %r' % type(x))


def sym(name):
    i = REG.var(name)
    return Q(None, zp.var(i), 1, (), REG.point[i])


def _norm(n, dc, d, vn):
    if not n:
        return ZERO
    # cancel atoms (screened by the integer evaluation)
    if d:
        nd = None
        for pos, (a, e) in enumerate(d):
            ap, av, _ = REG.atoms[a]
            e0 = e
            while e > 0 and vn % av == 0:
                q = zp.divexact(n, ap)
                if q is None:
                    break
                n = q
                vn //= av
                e -= 1
            if e != e0:
                if nd is None:
                    nd = list(d)
                nd[pos] = (a, e)
        if nd is not None:
            d = tuple(x for x in nd if x[1] > 0)
    if dc != 1:
        g = gcd(zp.content(n), dc)
        if g != 1:
            n = zp.divexact_int(n, g)
            vn //= g
            dc //= g
    if not d and len(n) == 1 and 0 in n:
        return Q(Fraction(n[0], dc))
    return Q(None, n, dc, d, vn)


def _add(a, b):
    an, adc, ad, avn = a.parts()
    bn, bdc, bd, bvn = b.parts()
    if not an:
        return b
    if not bn:
        return a
    L, ra, rb = _dmerge_max(ad, bd)
    l = adc * bdc // gcd(adc, bdc)
    fa, fb = l // adc, l // bdc
    if ra:
        p, v = _dprod(ra)
        an = zp.mul(an, p)
        avn *= v
    if rb:
        p, v = _dprod(rb)
        bn = zp.mul(bn, p)
        bvn *= v
    if fa != 1:
        an = zp.scale(an, fa)
        avn *= fa
    if fb != 1:
        bn = zp.scale(bn, fb)
        bvn *= fb
    return _norm(zp.add(an, bn), l, L, avn + bvn)


def _cross_cancel(n, vn, d):
    """cancel atoms of d against n; returns n, vn, d"""
    if not d or not n:
        return n, vn, d
    out = []
    for a, e in d:
        ap, av, _ = REG.atoms[a]
        while e > 0 and vn % av == 0:
            q = zp.divexact(n, ap)
            if q is None:
                break
            n = q
            vn //= av
            e -= 1
        if e:
            out.append((a, e))
    return n, vn, tuple(out)


def _mul(a, b):
    an, adc, ad, avn = a.parts()
    bn, bdc, bd, bvn = b.parts()
    if not an or not bn:
        return ZERO
    an, avn, bd = _cross_cancel(an, avn, bd)
    bn, bvn, ad = _cross_cancel(bn, bvn, ad)
    n = zp.mul(an, bn)
    dc = adc * bdc
    vn = avn * bvn
    d = _dsum(ad, bd)
    if dc != 1:
        g = gcd(zp.content(n), dc)
        if g != 1:
            n = zp.divexact_int(n, g)
            vn //= g
            dc //= g
    if not d and len(n) == 1 and 0 in n:
        return Q(Fraction(n[0], dc))
    return Q(None, n, dc, d, vn)


def _factor_into_atoms(p, pv):
    """p primitive with positive leading coeff, non-constant -> d tuple (splits over known atoms first)"""
    d = {}
    for i, (ap, av, _) in enumerate(REG.atoms):
        if zp.is_const(p):
            break
        while pv % av == 0 and len(ap) <= len(p):
            q = zp.divexact(p, ap)
            if q is None:
                break
            p = q
            pv //= av
            d[i] = d.get(i, 0) + 1
    sign = 1
    if not zp.is_const(p):
        if zp.lead(p)[1] < 0:
            p = zp.neg(p)
            sign = -1
        i = REG.atom(p)
        d[i] = d.get(i, 0) + 1
    else:
        c = zp.const_value(p)
        assert c in (1, -1), c
        sign = c
    return tuple(sorted(d.items())), sign


def _inverse(b):
    """1/b for non-constant b known to be non-zero on this path"""
    n, dc, d, vn = b.parts()
    c = zp.content(n)
    if zp.lead(n)[1] < 0:
        c = -c
    prim = zp.divexact_int(n, c) if c != 1 else n
    nd, sign = _factor_into_atoms(prim, vn // c)
    c *= sign
    p, v = _dprod(d)
    num = zp.scale(p, dc)
    numv = v * dc
    if c < 0:
        num = zp.neg(num)
        numv = -numv
        c = -c
    g = gcd(zp.content(num), c)
    if g != 1:
        num = zp.divexact_int(num, g)
        numv //= g
        c //= g
    if not nd and len(num) == 1 and 0 in num:
        return Q(Fraction(num[0], c))
    return Q(None, num, c, nd, numv)


def vq_div(a, b):
    if not isinstance(a, Q) and not isinstance(b, Q):
        if isinstance(a, (int, Fraction)) and isinstance(b, (int, Fraction)) and not isinstance(a, bool):
            if b == 0:
                raise ZeroDivisionError('division by zero')
            return Q(Fraction(a) / Fraction(b))
        if isinstance(a, float) or isinstance(b, float):
            raise TypeError('raw float leaked into exact division')
        return a / b
    a = lift(a)
    b = lift(b)
    if b.k is not None:
        if b.k == 0:
            raise ZeroDivisionError('float division by zero')
        if a.k is not None:
            return Q(a.k / b.k)
        return _mul(a, Q(1 / b.k))
    # symbolic divisor: fork on zero exactly as CPython would raise
    if b == 0:
        raise ZeroDivisionError('float division by zero')
    return _mul(a, _inverse(b))


def vq_lit(s):
    return Q(Fraction(s))


def vq_pow(a, b):
    if isinstance(a, Q):
        if isinstance(b, Q):
            if b.k is None or b.k.denominator != 1:
                if b.k is not None and b.k == Fraction(1, 2):
                    return vq_sqrt(a)
                raise Undecided('symbolic exponent')
            b = int(b.k)
        if not isinstance(b, int):
            raise Undecided('non-integer exponent')
        if b < 0:
            return vq_div(1, vq_pow(a, -b))
        r = ONE
        for _ in range(b):
            r = r * a
        return r
    if isinstance(b, Q):
        if b.k is None or b.k.denominator != 1:
            raise Undecided('symbolic exponent')
        b = int(b.k)
        if b < 0:
            return Q(Fraction(a) ** b)
    if isinstance(a, float):
        raise TypeError('raw float in pow')
    r = a ** b
    if isinstance(r, float):
        return Q(Fraction(a) ** b)
    return r


class Inf(object):
    """float('inf') / float('-inf'): only comparisons are supported (bounding box seeds)"""
    __slots__ = ('s',)

    def __init__(self, s):
        self.s = s

    def __neg__(self):
        return Inf(-self.s)

    def __lt__(self, o):
        return self.s < 0 and not (isinstance(o, Inf) and o.s < 0)

    def __gt__(self, o):
        return self.s > 0 and not (isinstance(o, Inf) and o.s > 0)

    def __le__(self, o):
        return self.s < 0 or (isinstance(o, Inf) and o.s > 0)

    def __ge__(self, o):
        return self.s > 0 or (isinstance(o, Inf) and o.s < 0)

    def __eq__(self, o):
        return isinstance(o, Inf) and o.s == self.s

    def __hash__(self):
        return hash(self.s)

    def __repr__(self):
        return 'Inf(%d)' % self.s


def _q_vs_inf(op):
    def f(s, o):
        if isinstance(o, Inf):
            return {'<': o.s > 0, '<=': o.s > 0, '>': o.s < 0, '>=': o.s < 0, '==': False, '!=': True}[op]
        return None
    return f


_orig_cmp = Q._cmp


def _cmp_inf(s, o, op):
    if isinstance(o, Inf):
        return {'<': o.s > 0, '<=': o.s > 0, '>': o.s < 0, '>=': o.s < 0, '==': False, '!=': True}[op]
    return _orig_cmp(s, o, op)


Q._cmp = _cmp_inf


def vq_float(x=0):
    if isinstance(x, Q):
        return x
    if isinstance(x, bool):
        return Q(Fraction(int(x)))
    if isinstance(x, (int, Fraction)):
        return Q(Fraction(x))
    if isinstance(x, str):
        t = x.strip()
        if t in REG.tokens:
            return REG.tokens[t]
        low = t.lower()
        if low in ('inf', '+inf', 'infinity'):
            return Inf(1)
        if low in ('-inf', '-infinity'):
            return Inf(-1)
        try:
            return Q(Fraction(t))
        except (ValueError, ZeroDivisionError):
            raise ValueError('could not convert string to float: %r' % (x,))
    if isinstance(x, Inf):
        return x
    if isinstance(x, float):
        raise TypeError('raw float leaked: %r' % (x,))
    raise TypeError("float() argument must be a string or a real number, not '%s'" % type(x).__name__)


def vq_int(x=0, *a):
    if isinstance(x, Q):
        if x.k is None:
            raise Undecided('int() of a symbolic number')
        return int(x.k)
    if isinstance(x, str) and x.strip() in REG.tokens:
        raise ValueError('invalid literal for int()')
    return int(x, *a)


def vq_round(x, nd=None):
    if isinstance(x, Q):
        if nd is not None:
            if x.k is None:
                return x          # A2: rounding to decimals is the identity on symbolic values
            return Q(round(x.k, nd))
        if x.k is None:
            raise Undecided('round() of a symbolic number')
        return round(x.k)
    return round(x) if nd is None else round(x, nd)


def vq_abs(x):
    return abs(x)


def vq_isinstance(x, t):
    if isinstance(x, (Q, Inf)):
        ts = t if isinstance(t, tuple) else (t,)
        return float in ts or Q in ts or object in ts
    return isinstance(x, t)


def token(q):
    k = '<q%d>' % len(REG.tokens)
    REG.tokens[k] = q
    return k


# ---- algebraic atoms -------------------------------------------------------------------------
def vq_sqrt(x):
    x = lift(x) if not isinstance(x, Q) else x
    if x.k is not None:
        if x.k < 0:
            raise ValueError('math domain error')
        a, b = x.k.numerator, x.k.denominator
        ra, rb = math.isqrt(a), math.isqrt(b)
        if ra * ra == a and rb * rb == b:
            return Q(Fraction(ra, rb))
    else:
        if any(i in REG.alg for i in zp.variables(x.n)):
            # radicand built from other algebraic atoms: normal form modulo their defining relations first
            # (|p + (q/s**2) d - ...|**2 with s**2 = q collapses to a constant without a solver query)
            x = reduce_alg(x)
            if x.k is not None:
                return vq_sqrt(x)
        if x < 0:
            raise ValueError('math domain error')
    key = repr(x)
    s = REG.sqrt_cache.get(key)
    if s is None:
        name = '_sqrt%d' % len(REG.sqrt_cache)
        s = sym(name)
        i = REG.index[name]
        REG.alg[i] = ('sqrt', x)
        REG.sqrt_cache[key] = s
    World.get().use_alg(zp.variables(s.n)[0])
    return s


class Angle(object):
    """opaque angle in radians (math.radians of an exact number)"""
    __slots__ = ('q',)

    def __init__(self, q):
        self.q = q


def vq_radians(x):
    return Angle(lift(x))


def _trig(x):
    if isinstance(x, Angle):
        key = 'A' + repr(x.q)
    else:
        x = lift(x)
        if x.k is not None and x.k == 0:
            return ONE, ZERO
        key = 'R' + repr(x)
    t = REG.trig.get(key)
    if t is None:
        k = len(REG.trig)
        c, s = sym('_cos%d' % k), sym('_sin%d' % k)
        ci, si = REG.index['_cos%d' % k], REG.index['_sin%d' % k]
        REG.alg[si] = ('sin', ci)
        REG.alg[ci] = ('cos', si)
        t = REG.trig[key] = (c, s)
    World.get().use_alg(zp.variables(t[1].n)[0])
    return t


def vq_cos(x):
    return _trig(x)[0]


def vq_sin(x):
    return _trig(x)[1]


def reduce_alg(q):
    """normal form modulo s**2 = radicand (sqrt atoms) and sin**2 = 1 - cos**2"""
    if q.k is not None:
        return q
    changed = True
    while changed and q.k is None:
        changed = False
        for i in zp.variables(q.n):
            rel = REG.alg.get(i)
            if rel is None or rel[0] == 'cos':
                continue
            if zp.degree_in(q.n, i) < 2:
                continue
            by_e = zp.coeffs_in(q.n, i)
            if rel[0] == 'sqrt':
                sq = rel[1]
            else:
                c = Q(None, zp.var(rel[1]), 1, (), REG.point[rel[1]])
                sq = ONE - c * c
            s = Q(None, zp.var(i), 1, (), REG.point[i])
            tot = ZERO
            for e, cp in by_e.items():
                cq = _norm(cp, 1, (), zp.evaluate(cp, REG.point))
                t = cq
                for _ in range(e // 2):
                    t = t * sq
                if e % 2:
                    t = t * s
                tot = tot + t
            den = Q(None, {0: 1}, q.dc, q.d, 1) if (q.d or q.dc != 1) else ONE
            q = tot if den is ONE else _mul(tot, den)      # den is the Q 1/(dc * prod atoms): multiply, keeps the value
            changed = True
            break
    return q


def vq_div_nocheck(a, b):
    """a / b where b is known non-zero (b was a denominator already)"""
    if b.k is not None:
        return a * Q(1 / b.k)
    return _mul(lift(a), _inverse(b))


# ----------------------------------------------------------------------------------------------
# World: one explored path
# ----------------------------------------------------------------------------------------------
class World(object):
    cur = None
    TIMEOUT_MS = 20000
    QUICK_MS = 1500
    NL_PROBE_MS = 200

    @staticmethod
    def get():
        if World.cur is None:
            raise RuntimeError('symbolic comparison outside an explored path')
        return World.cur

    def __init__(self, prefix=(), pending=None):
        self.prefix = list(prefix)
        self.pos = 0
        self.pending = pending if pending is not None else []
        self.solver = z3.Solver()
        self.solver.set('timeout', self.TIMEOUT_MS)
        self.pc = []            # decided conditions (z3)
        self.assumed = []       # preconditions (z3)
        self.model = None
        self.nq = 0
        self.solver_s = 0.0
        self.eqs = []           # (var index, replacement poly, replacement dc) recorded equalities
        self.sign_cache = {}
        self.alg_used = set()
        self.decisions = 0
        self.positives = []
        self.nl_hint = False
        self.zero_polys = []    # nonlinear numerators decided == 0 on this path (see is_zero)

    # ---- declaring inputs
    def sym(self, name):
        return sym(name)

    def z(self, x):
        """z3 term of a name or Q"""
        if isinstance(x, str):
            return REG.zvars[REG.var(x)]
        x = lift(x)
        n, dc, d, _ = x.parts()
        t = poly_z3(n)
        if d or dc != 1:
            den = z3.RealVal(dc)
            for a, e in d:
                for _ in range(e):
                    den = den * REG.atom_z3(a)
            return t / den
        return t

    def assume(self, *conds):
        for c in conds:
            self.assumed.append(c)
            self.solver.add(c)
        self.model = None

    def use_alg(self, i):
        if i in self.alg_used:
            return
        self.alg_used.add(i)
        rel = REG.alg[i]
        v = REG.zvars[i]
        if rel[0] == 'sqrt':
            n, dc, d, _ = rel[1].parts()
            den = z3.RealVal(dc)
            for a, e in d:
                for _ in range(e):
                    den = den * REG.atom_z3(a)
            self.solver.add(v >= 0, v * v * den == poly_z3(n))
        else:
            o = REG.zvars[rel[1]]
            self.solver.add(v * v + o * o == 1)
            self.alg_used.add(rel[1])
        self.model = None

    # ---- solver plumbing
    def _check(self, *extra):
        import time
        t = time.time()
        self.nq += 1
        r = self.solver.check(*extra)
        self.solver_s += time.time() - t
        return r

    def _fresh(self, *extra):
        """non-incremental re-check (z3 then picks nlsat for nonlinear real arithmetic; the incremental core
        often answers unknown where this is instant) -> (result, model)"""
        import time
        t = time.time()
        self.nq += 1
        s = z3.Solver()
        s.set('timeout', self.TIMEOUT_MS)
        s.add(self.solver.assertions())
        for e in extra:
            s.add(e)
        r = s.check()
        self.solver_s += time.time() - t
        return r, (s.model() if r == z3.sat else None), s

    def _feasible(self, cond):
        if self.nl_hint:
            # nonlinear condition: the incremental core mostly answers unknown, so it only gets a short probe; the probe
            # is what refutes a condition contradicting an asserted fact about the same polynomial (a conflict that is
            # linear over the monomials, e.g. sqrt's `x < 0` after `x >= 0` was assumed) where nlsat may time out
            self.solver.set('timeout', self.NL_PROBE_MS)
            try:
                r = self._check(cond)
            finally:
                self.solver.set('timeout', self.TIMEOUT_MS)
        else:
            self.solver.set('timeout', self.QUICK_MS)
            try:
                r = self._check(cond)
            finally:
                self.solver.set('timeout', self.TIMEOUT_MS)
        if r == z3.sat:
            self.model = self.solver.model()
            return True
        if r == z3.unsat:
            return False
        r, m, s = self._fresh(cond)
        if r == z3.sat:
            self.model = m
            return True
        if r == z3.unsat:
            return False
        raise Undecided('solver unknown on branch condition (%s)' % s.reason_unknown())

    def _model_says(self, cond):
        if self.model is None:
            return None
        try:
            v = self.model.eval(cond, model_completion=True)
        except z3.Z3Exception:
            return None
        if z3.is_true(v):
            return True
        if z3.is_false(v):
            return False
        return None

    def decide(self, cond):
        """cond: z3 Bool; returns the Python bool for this path, forking when both are feasible"""
        cond = z3.simplify(cond)
        if z3.is_true(cond):
            return True
        if z3.is_false(cond):
            return False
        if self.pos < len(self.prefix):
            b = self.prefix[self.pos]
            self.pos += 1
        else:
            if self.model is None:
                if not self._feasible(z3.BoolVal(True)):
                    raise Infeasible('path condition unsatisfiable')
            ms = self._model_says(cond)
            if ms is True:
                t_ok, f_ok = True, self._feasible(z3.Not(cond))
            elif ms is False:
                f_ok, t_ok = True, self._feasible(cond)
            else:
                t_ok = self._feasible(cond)
                f_ok = self._feasible(z3.Not(cond))
            if t_ok and f_ok:
                self.pending.append(self.prefix[:self.pos] + [False])
                b = True
            elif t_ok:
                b = True
            elif f_ok:
                b = False
            else:
                raise Infeasible('no feasible outcome')
            self.prefix.append(b)
            self.pos += 1
            self.decisions += 1
        c = cond if b else z3.Not(cond)
        self.pc.append(c)
        self.solver.add(c)
        if self.model is not None and self._model_says(c) is not True:
            self.model = None
        return b

    def atom_positive(self, a):
        s = self.sign_cache.get(a)
        if s is None:
            s = self.sign_cache[a] = self.decide(REG.atom_z3(a) > 0)
        return s

    def decide_sign(self, dq, op):
        """dq non-constant Q; decide  dq <op> 0"""
        n, dc, d, vn = dq.parts()
        self.nl_hint = zp.total_degree(n) > 1
        try:
            return self._decide_sign(n, d, op)
        finally:
            self.nl_hint = False

    def _decide_sign(self, n, d, op):
        if op in ('==', '!='):
            if self.positives and self._nonzero_by_lemma(n):
                return op == '!='
            b = self.decide(poly_z3(n) == 0)
            if b:
                self._record_eq(n)
                if zp.total_degree(n) > 1:
                    self.zero_polys.append(n)
            return b if op == '==' else not b
        neg = False
        for a, e in d:
            if e % 2 and not self.atom_positive(a):
                neg = not neg
        t = poly_z3(n)
        if neg:
            op = {'<': '>', '<=': '>=', '>': '<', '>=': '<='}[op]
        cond = {'<': t < 0, '<=': t <= 0, '>': t > 0, '>=': t >= 0}[op]
        return self.decide(cond)

    def add_positive(self, q):
        """q > 0 is assumed (lemma proved elsewhere); used to settle zero tests of its multiples"""
        n, dc, d, _ = lift(q).parts()
        self.positives.append(n)

    def _nonzero_by_lemma(self, n):
        """n = q * P for an assumed-positive P and a cofactor q the solver can show non-zero"""
        n1 = self.subst_eqs(n) if self.eqs else n
        for P in self.positives:
            P1 = self.subst_eqs(P) if self.eqs else P
            if not P1 or len(P1) > len(n1):
                continue
            q = zp.divexact(n1, P1)
            if q is None:
                continue
            if zp.is_const(q):
                return zp.const_value(q) != 0
            try:
                if self.must(poly_z3(q) != 0):
                    return True
            except Undecided:
                pass
        return False

    def _record_eq(self, n):
        """remember x_i = (linear binomial) equalities so identity checks can substitute them"""
        if len(n) == 2:
            (k1, c1), (k2, c2) = sorted(n.items())
            e1, e2 = zp.exps(k1), zp.exps(k2)
            if len(e2) == 1 and list(e2.values()) == [1]:
                i = list(e2)[0]
                if k1 == 0:
                    self.eqs.append((i, {0: -c1}, c2))
                elif len(e1) == 1 and list(e1.values()) == [1] and c1 == -c2:
                    self.eqs.append((i, zp.var(list(e1)[0]), 1))

    # ---- obligations
    def must(self, cond, fresh=False):
        """True iff the path condition implies cond; 'unknown' raises Undecided.
        fresh=True: polynomial obligation - skip the incremental core (it answers unknown after its timeout and is
        slower on every later query once it has seen nonlinear terms) and ask a fresh solver (nlsat) directly"""
        cond = z3.simplify(cond)
        if z3.is_true(cond):
            return True
        r = z3.unknown
        if not fresh:
            self.solver.set('timeout', self.QUICK_MS)
            try:
                r = self._check(z3.Not(cond))
            finally:
                self.solver.set('timeout', self.TIMEOUT_MS)
        if r == z3.unsat:
            return True
        if r == z3.sat:
            self.last_model = self.solver.model()
            return False
        r, m, s = self._fresh(z3.Not(cond))
        if r == z3.unsat:
            return True
        if r == z3.sat:
            self.last_model = m
            return False
        raise Undecided('solver unknown on obligation (%s)' % s.reason_unknown())

    def subst_eqs(self, n):
        for i, rp, rdc in self.eqs:
            if zp.degree_in(n, i):
                if rdc == 1:
                    n = zp.compose(n, i, rp)
                else:
                    dg = zp.degree_in(n, i)
                    by_e = zp.coeffs_in(n, i)
                    tot = {}
                    for e, cp in by_e.items():
                        tot = zp.add(tot, zp.scale(zp.mul(cp, zp.power(rp, e)), rdc ** (dg - e)))
                    n = tot
        return n

    def is_zero(self, q):
        """decide q == 0 on this path: True / False(with self.last_model) ; Undecided raised on unknown"""
        q = lift(q)
        if q.k is not None:
            return q.k == 0
        if any(i in REG.alg for i in zp.variables(q.n)):
            q = reduce_alg(q)
            if q.k is not None:
                return q.k == 0
        n = q.n
        if self.eqs:
            n = self.subst_eqs(n)
            if not n:
                return True
        # a multiple of a polynomial that this path decided to be zero (zero-detection branches of the real code,
        # e.g. `if ND[j + 1] == 0.0`): exact division instead of an nlsat query
        for zq in self.zero_polys:
            z1 = self.subst_eqs(zq) if self.eqs else zq
            if z1 and zp.divexact(n, z1) is not None:
                return True
        # variable equalities implied by the path condition but not recorded (e.g. assumed clamping)
        n = self.subst_implied(n)
        if not n:
            return True
        return self.must(poly_z3(n) == 0)

    def subst_implied(self, n):
        if self.model is None:
            if self._check() != z3.sat:
                return n
            self.model = self.solver.model()
        vs = zp.variables(n)
        groups = {}
        for i in vs:
            v = self.model.eval(REG.zvars[i], model_completion=True)
            groups.setdefault(str(v), []).append(i)
        for val, g in groups.items():
            rep = g[0]
            for j in g[1:]:
                if self.must(REG.zvars[rep] == REG.zvars[j]):
                    n = zp.subst_var(n, j, rep)
                    self.eqs.append((j, zp.var(rep), 1))
            if len(g) >= 1 and z3.is_rational_value(self.model.eval(REG.zvars[rep], model_completion=True)):
                mv = self.model.eval(REG.zvars[rep], model_completion=True)
                fr = Fraction(mv.numerator_as_long(), mv.denominator_as_long())
                if fr.denominator <= 1000 and abs(fr.numerator) <= 1000 and zp.degree_in(n, rep):
                    if self.must(REG.zvars[rep] == z3.RealVal(str(fr))):
                        self.eqs.append((rep, {0: fr.numerator} if fr.numerator else {}, fr.denominator))
                        n = self.subst_eqs(n)
        return n

    def holds(self, b):
        """obligation on an order fact given as Python callable result or z3 Bool"""
        return self.must(b)

    def concretize(self, model=None):
        """name -> Fraction for every declared variable, from a z3 model"""
        m = model or getattr(self, 'last_model', None) or self.model
        out = {}
        for name, zv in zip(REG.names, REG.zvars):
            v = m.eval(zv, model_completion=True) if m is not None else None
            if v is not None and z3.is_rational_value(v):
                out[name] = Fraction(v.numerator_as_long(), v.denominator_as_long())
            elif v is not None and z3.is_algebraic_value(v):
                out[name] = Fraction(v.approx(20).numerator_as_long(), v.approx(20).denominator_as_long())
            else:
                out[name] = Fraction(0)
        return out


def evalq(q, env):
    """evaluate a Q at {name: Fraction}"""
    q = lift(q)
    if q.k is not None:
        return q.k
    pt = [env.get(nm, Fraction(0)) for nm in REG.names]
    num = zp.evaluate(q.n, pt)
    den = Fraction(q.dc)
    for a, e in q.d:
        den *= zp.evaluate(REG.atoms[a][0], pt) ** e
    return Fraction(num) / den


NS = {'_vq_lit': vq_lit, '_vq_div': vq_div, '_vq_float': vq_float, '_vq_isinstance': vq_isinstance,
      '_vq_pow': vq_pow, '_vq_abs': vq_abs, '_vq_int': vq_int, '_vq_round': vq_round}
