"""Engine B: exhaustive symbolic execution of the real geomdl code over exact rational functions."""
