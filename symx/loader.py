"""Import geomdl.* from the repository working tree with numerics reinterpreted exactly.

Every run re-reads /repo/geomdl/*.py (or $VERIF_REPO), applies ONE mechanical AST rewrite and
compiles the result under the real file name.  The complete list of what the rewrite changes:

  float literal  1e-7          ->  _vq_lit('1e-07')            exact Fraction of the decimal literal
  a / b ,  a /= b              ->  _vq_div(a, b)               exact; forks on b == 0 and raises ZeroDivisionError
  a ** b , a **= b             ->  _vq_pow(a, b)               repeated product for integer b
  float(x) int(x) round(x) abs(x) isinstance(x, T)  -> _vq_* shims (identity / exact on Q; Q counts as float)
  module global `math`         ->  proxy: sqrt/cos/sin -> algebraic atoms, floor/ceil/factorial/pow exact

Nothing is dropped: functions, classes, control flow, containers, deepcopy, properties and
lru_cache all run as written on CPython.
"""
import ast
import copy
import importlib.abc
import importlib.util
import math as _math
import os
import sys
from fractions import Fraction

from . import qnum

REPO = os.environ.get('VERIF_REPO', '/repo')
SHIMMED = ('float', 'isinstance', 'round', 'int', 'abs')


def _call(name, *args):
    return ast.Call(func=ast.Name(id=name, ctx=ast.Load()), args=list(args), keywords=[])


class Rewriter(ast.NodeTransformer):
    def visit_Constant(self, node):
        if isinstance(node.value, float):
            return ast.copy_location(_call('_vq_lit', ast.Constant(value=repr(node.value))), node)
        return node

    def visit_BinOp(self, node):
        self.generic_visit(node)
        if isinstance(node.op, ast.Div):
            return ast.copy_location(_call('_vq_div', node.left, node.right), node)
        if isinstance(node.op, ast.Pow):
            return ast.copy_location(_call('_vq_pow', node.left, node.right), node)
        return node

    def visit_AugAssign(self, node):
        self.generic_visit(node)
        if isinstance(node.op, (ast.Div, ast.Pow)):
            load = copy.deepcopy(node.target)
            for n in ast.walk(load):
                if hasattr(n, 'ctx'):
                    n.ctx = ast.Load()
            fn = '_vq_div' if isinstance(node.op, ast.Div) else '_vq_pow'
            return ast.copy_location(ast.Assign(targets=[node.target], value=_call(fn, load, node.value)), node)
        return node

    def visit_Call(self, node):
        self.generic_visit(node)
        if isinstance(node.func, ast.Name) and node.func.id in SHIMMED:
            node.func = ast.copy_location(ast.Name(id='_vq_' + node.func.id, ctx=ast.Load()), node.func)
        return node


class MathProxy(object):
    pi = None   # set below
    e = None

    def __getattr__(self, name):
        if name.startswith('__') or name == 'cache_clear':
            raise AttributeError(name)
        raise qnum.Undecided('math.%s is outside the exact model' % name)

    @staticmethod
    def sqrt(x):
        return qnum.vq_sqrt(x)

    @staticmethod
    def cos(x):
        return qnum.vq_cos(x)

    @staticmethod
    def sin(x):
        return qnum.vq_sin(x)

    @staticmethod
    def radians(x):
        return qnum.vq_radians(x)

    @staticmethod
    def floor(x):
        if isinstance(x, qnum.Q):
            return x.__floor__()
        return _math.floor(x)

    @staticmethod
    def ceil(x):
        if isinstance(x, qnum.Q):
            return x.__ceil__()
        return _math.ceil(x)

    @staticmethod
    def factorial(x):
        if isinstance(x, qnum.Q):
            x = x.__index__()
        return _math.factorial(x)

    @staticmethod
    def pow(x, y):
        r = qnum.vq_pow(x, y)
        return r if isinstance(r, qnum.Q) else qnum.lift(r)

    @staticmethod
    def fabs(x):
        return abs(qnum.lift(x))

    @staticmethod
    def isclose(a, b, rel_tol=None, abs_tol=None):
        # the documented definition: abs(a - b) <= max(rel_tol * max(abs(a), abs(b)), abs_tol); defaults 1e-09 and 0.0
        from fractions import Fraction
        a, b = qnum.lift(a), qnum.lift(b)
        rel = qnum.lift(Fraction(1, 10 ** 9)) if rel_tol is None else qnum.lift(rel_tol)
        ab = qnum.lift(0) if abs_tol is None else qnum.lift(abs_tol)
        if a == b:
            return True
        aa, bb = abs(a), abs(b)
        big = aa if aa >= bb else bb
        bound = rel * big
        if bound < ab:
            bound = ab
        return abs(a - b) <= bound


MATH = MathProxy()


class Finder(importlib.abc.MetaPathFinder, importlib.abc.Loader):
    def __init__(self, repo):
        self.repo = repo
        self.loaded = []

    def find_spec(self, name, path, target=None):
        if name != 'geomdl' and not name.startswith('geomdl.'):
            return None
        base = os.path.join(self.repo, *name.split('.'))
        if os.path.isdir(base):
            return importlib.util.spec_from_file_location(name, os.path.join(base, '__init__.py'), loader=self,
                                                          submodule_search_locations=[base])
        if os.path.isfile(base + '.py'):
            return importlib.util.spec_from_file_location(name, base + '.py', loader=self)
        return None

    def create_module(self, spec):
        return None

    def exec_module(self, module):
        path = module.__spec__.origin
        with open(path) as f:
            src = f.read()
        tree = Rewriter().visit(ast.parse(src, path))
        ast.fix_missing_locations(tree)
        code = compile(tree, path, 'exec')
        module.__dict__.update(qnum.NS)
        exec(code, module.__dict__)
        if module.__dict__.get('math') is _math:
            module.__dict__['math'] = MATH
        self.loaded.append(module)


_finder = None


def install(repo=None):
    """(re)install the import hook; drops any geomdl module already imported"""
    global _finder
    for k in [k for k in sys.modules if k == 'geomdl' or k.startswith('geomdl.')]:
        del sys.modules[k]
    if _finder is not None and _finder in sys.meta_path:
        sys.meta_path.remove(_finder)
    _finder = Finder(repo or REPO)
    sys.meta_path.insert(0, _finder)
    return _finder


def clear_caches():
    """lru_cache state must not leak between explored paths (re-execution has to be deterministic)"""
    if _finder is None:
        return
    for m in _finder.loaded:
        for v in list(m.__dict__.values()):
            cc = getattr(v, 'cache_clear', None)
            if cc is not None and callable(cc):
                try:
                    cc()
                except Exception:
                    pass


def source_files():
    return [m.__spec__.origin for m in (_finder.loaded if _finder else [])]
