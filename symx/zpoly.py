"""Sparse multivariate polynomials over ZZ with packed monomials.

A polynomial is a dict {key: coeff}; key packs the exponent vector, BITS bits per variable
(variable i in bits [BITS*i, BITS*(i+1))), the top bit of every field is a guard bit that is
always 0 in a valid key.  Keys compare as integers = lexicographic order with the
highest-numbered variable most significant, which is a monomial order (compatible with
multiplication because multiplication of monomials is addition of keys).

Only what the symbolic executor needs: ring operations, exact division, substitution,
evaluation, derivative, content.  No zero coefficients are ever stored.
"""
import heapq
from math import gcd
from fractions import Fraction

BITS = 16
FIELD = (1 << BITS) - 1
GUARD1 = 1 << (BITS - 1)

_guard_cache = {}


def guard(nvars):
    g = _guard_cache.get(nvars)
    if g is None:
        g = 0
        for i in range(nvars):
            g |= GUARD1 << (BITS * i)
        _guard_cache[nvars] = g
    return g


def var(i):
    return {1 << (BITS * i): 1}


def const(c):
    return {0: c} if c else {}


def is_const(a):
    return not a or (len(a) == 1 and 0 in a)


def const_value(a):
    return a.get(0, 0)


def exps(key):
    """key -> {var index: exponent}"""
    out = {}
    i = 0
    while key:
        e = key & FIELD
        if e:
            out[i] = e
        key >>= BITS
        i += 1
    return out


def nvars_of(a):
    m = 0
    for k in a:
        if k > m:
            m = k
    return (m.bit_length() + BITS - 1) // BITS


def variables(a):
    seen = 0
    for k in a:
        seen |= k
    out = []
    i = 0
    while seen:
        if seen & FIELD:
            out.append(i)
        seen >>= BITS
        i += 1
    return out


def add(a, b):
    if len(a) < len(b):
        a, b = b, a
    r = dict(a)
    for k, c in b.items():
        v = r.get(k, 0) + c
        if v:
            r[k] = v
        else:
            del r[k]
    return r


def sub(a, b):
    r = dict(a)
    for k, c in b.items():
        v = r.get(k, 0) - c
        if v:
            r[k] = v
        else:
            del r[k]
    return r


def neg(a):
    return {k: -c for k, c in a.items()}


def scale(a, c):
    if c == 0:
        return {}
    if c == 1:
        return a
    return {k: v * c for k, v in a.items()}


def mul(a, b):
    if not a or not b:
        return {}
    if len(a) < len(b):
        a, b = b, a
    if len(b) == 1:
        (kb, cb), = b.items()
        if kb == 0:
            return scale(a, cb)
        return {k + kb: c * cb for k, c in a.items()}
    r = {}
    get = r.get
    for kb, cb in b.items():
        for ka, ca in a.items():
            k = ka + kb
            r[k] = get(k, 0) + ca * cb
    return {k: c for k, c in r.items() if c}


def power(a, n):
    r = {0: 1}
    while n:
        if n & 1:
            r = mul(r, a)
        n >>= 1
        if n:
            a = mul(a, a)
    return r


def content(a):
    g = 0
    for c in a.values():
        g = gcd(g, c)
        if g == 1:
            return 1
    return g


def divexact_int(a, c):
    return {k: v // c for k, v in a.items()}


def lead(a):
    k = max(a)
    return k, a[k]


def divexact(a, b):
    """Exact quotient a / b in ZZ[x], or None when b does not divide a (b != 0)."""
    if not a:
        return {}
    if len(b) == 1:
        (kb, cb), = b.items()
        G = guard(max(nvars_of(a), nvars_of(b)))
        q = {}
        for k, c in a.items():
            if c % cb:
                return None
            if ((k | G) - kb) & G != G:
                return None
            q[k - kb] = c // cb
        return q
    lb, cb = lead(b)
    G = guard(max(nvars_of(a), nvars_of(b)))
    brest = [(k, c) for k, c in b.items() if k != lb]
    r = dict(a)
    heap = [-k for k in r]
    heapq.heapify(heap)
    q = {}
    pop, push = heapq.heappop, heapq.heappush
    while heap:
        k = -pop(heap)
        c = r.get(k)
        if not c:
            if c == 0:
                del r[k]
            continue
        if c % cb or ((k | G) - lb) & G != G:
            return None
        qk, qc = k - lb, c // cb
        q[qk] = qc
        del r[k]
        for kb, cbb in brest:
            kk = qk + kb
            old = r.get(kk)
            if old is None:
                r[kk] = -qc * cbb
                push(heap, -kk)
            else:
                r[kk] = old - qc * cbb
    return q


def evaluate(a, point):
    """Value at an integer/Fraction point (list indexed by variable)."""
    total = 0
    cache = {}
    for k, c in a.items():
        t = c
        kk = k
        i = 0
        while kk:
            e = kk & FIELD
            if e:
                pw = cache.get((i, e))
                if pw is None:
                    pw = cache[(i, e)] = point[i] ** e
                t *= pw
            kk >>= BITS
            i += 1
        total += t
    return total


def subst_var(a, i, j):
    """x_i := x_j"""
    sh_i = BITS * i
    sh_j = BITS * j
    mask = FIELD << sh_i
    r = {}
    for k, c in a.items():
        e = (k >> sh_i) & FIELD
        if e:
            k = (k & ~mask) + (e << sh_j)
        v = r.get(k, 0) + c
        if v:
            r[k] = v
        else:
            r.pop(k, None)
    return r


def compose(a, i, p):
    """x_i := p (p a ZZ polynomial not containing x_i)"""
    sh = BITS * i
    mask = FIELD << sh
    by_e = {}
    for k, c in a.items():
        e = (k >> sh) & FIELD
        by_e.setdefault(e, {})[k & ~mask] = c
    r = {}
    pw = {0: 1}
    cur = 0
    for e in sorted(by_e):
        while cur < e:
            pw = mul(pw, p)
            cur += 1
        r = add(r, mul(by_e[e], pw))
    return r


def coeffs_in(a, i):
    """{e: poly} with a = sum poly_e * x_i**e"""
    sh = BITS * i
    mask = FIELD << sh
    by_e = {}
    for k, c in a.items():
        e = (k >> sh) & FIELD
        by_e.setdefault(e, {})[k & ~mask] = c
    return by_e


def degree_in(a, i):
    sh = BITS * i
    d = 0
    for k in a:
        e = (k >> sh) & FIELD
        if e > d:
            d = e
    return d


def diff(a, i):
    sh = BITS * i
    one = 1 << sh
    r = {}
    for k, c in a.items():
        e = (k >> sh) & FIELD
        if e:
            r[k - one] = c * e
    return r


def total_degree(a):
    d = 0
    for k in a:
        s = 0
        while k:
            s += k & FIELD
            k >>= BITS
        if s > d:
            d = s
    return d


def to_str(a, names):
    if not a:
        return '0'
    parts = []
    for k in sorted(a, reverse=True):
        c = a[k]
        mon = '*'.join(('%s**%d' % (names[i], e)) if e > 1 else names[i] for i, e in sorted(exps(k).items()))
        if mon:
            parts.append(('%d*%s' % (c, mon)) if c not in (1, -1) else (mon if c == 1 else '-' + mon))
        else:
            parts.append(str(c))
    return ' + '.join(parts).replace('+ -', '- ')
