"""Entry point of the /verif checks: ./check <property id> [--tier quick|thorough] [--only regex] [-v]"""
import argparse
import os
import sys

ROOT = os.path.dirname(os.path.abspath(__file__))
sys.path.insert(0, ROOT)
sys.setrecursionlimit(10000)


def main():
    ap = argparse.ArgumentParser()
    ap.add_argument('prop')
    ap.add_argument('--tier', default=os.environ.get('VERIF_TIER', 'quick'), choices=['quick', 'thorough'])
    ap.add_argument('--only', default=None, help='regex on scenario name / A:function')
    ap.add_argument('--nproc', type=int, default=None)
    ap.add_argument('-v', '--verbose', action='store_true')
    ap.add_argument('--replay', default=None, help='re-run a replay file natively')
    a = ap.parse_args()
    if a.replay:
        from harness import runner
        rep, out = runner.native_replay(a.replay)
        print(out)
        sys.exit(1 if rep else 0)
    seed = int(os.environ.get('VERIF_SEED', '0') or 0)
    from harness import runner
    try:
        rc = runner.run_property(a.prop, a.tier, seed, nproc=a.nproc, only=a.only, verbose=a.verbose)
    except SystemExit:
        raise
    except BaseException:
        import traceback
        traceback.print_exc()
        print('CHECKER-ERROR crash in runner')
        rc = 3
    sys.exit(rc)


if __name__ == '__main__':
    main()
