"""C16 Linear-algebra routines satisfy their defining equations on every call (bounded tier).

Contracts on geomdl.linalg / geomdl._linalg; every postcondition is a clause of the property statement.

  solvers    A fully symbolic n x n (every entry its own symbol), b fully symbolic, requires det(A) != 0 (Leibniz
             determinant computed here).  "Returns a result" is the path on which the call does not raise: a zero pivot
             that the factorisation meets is swallowed inside _linalg.doolittle (its `except ZeroDivisionError`) and
             resurfaces as the ZeroDivisionError of backward_substitution, so lu_solve / lu_factor / matrix_inverse
             either raise or return, and what they return has to satisfy  A x = b,  A A^-1 = I.
             matrix_determinant always returns: the returned number has to be the Leibniz determinant.
             lu_decomposition (the mechanism): on the paths without a vanishing pivot L is unit lower triangular,
             U upper triangular, L U = A.
  pivoting   matrix_pivot returns a genuine permutation matrix P (entries 0/1, one per row and column), the matrix
             P m, and det P = (-1)^(number of swaps).
  always     strictly diagonally dominant matrices and spline collocation matrices (bounded instances, built by the
             real fitting helpers over symbolic parameters): lu_solve returns (no ZeroDivisionError) and A x = b.
  history    the answers do not depend on which routine was called before: (a) state invariant - after any routine on
             any input the memoised matrix_identity(k) is still the identity, the binomial memo is intact and the
             arguments are unchanged; (b) two-call histories g(args'); f(args): f still satisfies its own contract.
  helpers    dot, cross, norm, normalize, sum, scaling, mean, generate, translate, distance, midpoint, transpose,
             product, scalar product, binomial coefficient (Pascal's rule), linspace, frange equal their definitions.

The loader clears every lru_cache at the start of each explored path, so inside one path the memoisation behaves
exactly as in CPython."""
import itertools
from fractions import Fraction

from .api import scenario
from . import spec, assumptions

assumptions.PROPS['C16'] = {'level': 'other', 'assume': ['A1', 'A2', 'A4', 'A5', 'A6']}

LINSPACE_TOL = Fraction(1, 10 ** 7)          # linalg.linspace: abs(start - stop) <= 10e-8


# ------------------------------------------------------------------------------------------------
# spec functions (definitions; independent of geomdl)
# ------------------------------------------------------------------------------------------------
def _perm_sign(perm):
    sign, seen = 1, [False] * len(perm)
    for i in range(len(perm)):
        if seen[i]:
            continue
        j, ln = i, 0
        while not seen[j]:
            seen[j] = True
            j = perm[j]
            ln += 1
        if ln % 2 == 0:
            sign = -sign
    return sign


def det_leibniz(M):
    """sum over permutations of sign * prod M[i][perm(i)]"""
    n = len(M)
    total = 0
    for perm in itertools.permutations(range(n)):
        term = _perm_sign(perm)
        for i in range(n):
            term = term * M[i][perm[i]]
        total = total + term
    return total


def matmul(A, B):
    return [[_sum(A[i][k] * B[k][j] for k in range(len(B))) for j in range(len(B[0]))] for i in range(len(A))]


def matvec(A, x):
    return [_sum(A[i][k] * x[k] for k in range(len(x))) for i in range(len(A))]


def _sum(it):
    t = 0
    for x in it:
        t = t + x
    return t


def ident(n):
    return [[1 if i == j else 0 for j in range(n)] for i in range(n)]


def sym_matrix(ctx, n, m, prefix):
    return [[ctx.num('%s%d%d' % (prefix, i, j)) for j in range(m)] for i in range(n)]


def clone(M):
    return [list(r) for r in M]


def same_objects(M, snap):
    """the numbers are immutable: a matrix is unchanged iff it still holds the very same number objects"""
    return len(M) == len(snap) and all(len(r) == len(s) and all(x is y for x, y in zip(r, s)) for r, s in zip(M, snap))


# ------------------------------------------------------------------------------------------------
# contracts of the single routines: each takes its (symbolic) arguments, calls the real function and checks the
# defining equation.  `tag` prefixes the labels.  Returns False when the call did not return a result.
# ------------------------------------------------------------------------------------------------
def c_lu_decomposition(ctx, la, A, tag=''):
    n = len(A)
    L, U = la.lu_decomposition(A)
    for i in range(n - 1):
        if U[i][i] == 0:
            ctx.skip('vanishing pivot: no LU factorisation without row exchange on this path')
    ctx.check_true(tag + 'lu.shape', len(L) == n and len(U) == n and all(len(r) == n for r in L + U))
    for i in range(n):
        ctx.check_eq(tag + 'lu.L_unit_diagonal[%d]' % i, L[i][i], 1)
        for j in range(i + 1, n):
            ctx.check_eq(tag + 'lu.L_lower[%d][%d]' % (i, j), L[i][j], 0)
        for j in range(i):
            ctx.check_eq(tag + 'lu.U_upper[%d][%d]' % (i, j), U[i][j], 0)
    ctx.check_eq_grid(tag + 'lu.L*U=A', matmul(L, U), A)
    return True


def _solver(ctx, la, fn, name, A, b, tag):
    try:
        x = fn(A, b)
    except ZeroDivisionError:
        ctx.ok(tag + name + '.no_result(ZeroDivisionError)')
        return False
    ctx.check_true(tag + name + '.shape', len(x) == len(b) and all(len(r) == len(b[0]) for r in x))
    ctx.check_eq_grid(tag + name + '.A*x=b', matmul(A, x), b)
    return True


def c_lu_solve(ctx, la, A, b, tag=''):
    return _solver(ctx, la, la.lu_solve, 'lu_solve', A, b, tag)


def c_lu_factor(ctx, la, A, b, tag=''):
    return _solver(ctx, la, la.lu_factor, 'lu_factor', A, b, tag)


def c_matrix_inverse(ctx, la, A, tag=''):
    n = len(A)
    try:
        inv = la.matrix_inverse(A)
    except ZeroDivisionError:
        ctx.ok(tag + 'matrix_inverse.no_result(ZeroDivisionError)')
        return False
    ctx.check_true(tag + 'matrix_inverse.shape', len(inv) == n and all(len(r) == n for r in inv))
    ctx.check_eq_grid(tag + 'matrix_inverse.A*inv=I', matmul(A, inv), ident(n))
    ctx.check_eq_grid(tag + 'matrix_inverse.inv*A=I', matmul(inv, A), ident(n))
    return True


def c_matrix_determinant(ctx, la, A, tag=''):
    ctx.check_eq(tag + 'matrix_determinant=leibniz', la.matrix_determinant(A), det_leibniz(A))
    return True


def c_matrix_pivot(ctx, la, A, tag=''):
    n = len(A)
    mp, P, sign = la.matrix_pivot(A, sign=True)
    ctx.check_true(tag + 'matrix_pivot.shape', len(P) == n and len(mp) == n and all(len(r) == n for r in P + mp))
    entries = [x for r in P for x in r]
    ctx.check_true(tag + 'matrix_pivot.P_entries_0_1', all(ctx.is_const(x) and (x == 0 or x == 1) for x in entries))
    ctx.check_true(tag + 'matrix_pivot.P_one_per_row', all(sum(1 for x in r if x == 1) == 1 for r in P))
    ctx.check_true(tag + 'matrix_pivot.P_one_per_column',
                   all(sum(1 for i in range(n) if P[i][j] == 1) == 1 for j in range(n)))
    ctx.check_eq_grid(tag + 'matrix_pivot.mp=P*m', mp, matmul(P, A))
    ctx.check_eq(tag + 'matrix_pivot.sign=det(P)', sign, det_leibniz(P))
    return True


def c_matrix_identity(ctx, la, n, tag=''):
    for k in range(1, n + 2):
        I = la.matrix_identity(k)
        ctx.check_true(tag + 'matrix_identity(%d).shape' % k, len(I) == k and all(len(r) == k for r in I))
        ctx.check_eq_grid(tag + 'matrix_identity(%d)=I' % k, I, ident(k))
    return True


ROUTINES = ('lu_decomposition', 'lu_solve', 'lu_factor', 'matrix_inverse', 'matrix_determinant', 'matrix_pivot')


def call_with_fresh_args(ctx, la, name, n, pfx, tag, nonsingular=True, checked=True):
    """creates fully symbolic arguments for routine `name` and runs its contract (checked) or just the call.
    Returns (args, snapshots) for the argument-not-mutated obligations."""
    A = sym_matrix(ctx, n, n, pfx + 'a')
    if nonsingular and name != 'matrix_pivot' and name != 'lu_decomposition':
        ctx.assume(ctx.ne(det_leibniz(A), 0))
    args = [A]
    if name in ('lu_solve', 'lu_factor'):
        args.append(sym_matrix(ctx, n, 1, pfx + 'b'))
    snaps = [clone(a) for a in args]
    if checked:
        {'lu_decomposition': c_lu_decomposition, 'lu_solve': c_lu_solve, 'lu_factor': c_lu_factor,
         'matrix_inverse': c_matrix_inverse, 'matrix_determinant': c_matrix_determinant,
         'matrix_pivot': c_matrix_pivot}[name](ctx, la, *args, tag=tag)
    else:
        try:
            getattr(la, name)(*args)
        except ZeroDivisionError:
            pass
    return args, snaps


# ------------------------------------------------------------------------------------------------
# solvers, inverse, determinant, pivoting: defining equations
# ------------------------------------------------------------------------------------------------
def _sizes(lo, hi, **kw):
    return [dict(n=n, **kw) for n in range(lo, hi + 1)]


@scenario('C16', fns=['linalg.lu_decomposition', '_linalg.doolittle'], quick=_sizes(1, 3), thorough=_sizes(1, 5))
def lu_decomposition(ctx, n):
    """requires: A fully symbolic n x n; no pivot vanishes (decided by the path)
       ensures : L unit lower triangular, U upper triangular, L U = A"""
    la = ctx.geomdl('linalg')
    c_lu_decomposition(ctx, la, sym_matrix(ctx, n, n, 'a'))


@scenario('C16', fns=['linalg.lu_solve', 'linalg.forward_substitution', 'linalg.backward_substitution',
                      'linalg.lu_decomposition', '_linalg.doolittle'],
          quick=[dict(n=1, m=1), dict(n=2, m=1), dict(n=2, m=2), dict(n=3, m=1), dict(n=3, m=2)],
          thorough=[dict(n=1, m=1), dict(n=2, m=2), dict(n=3, m=2), dict(n=4, m=1), dict(n=4, m=2)])
def lu_solve(ctx, n, m):
    """requires: det(A) != 0, b any n x m
       ensures : the call raises ZeroDivisionError (zero pivot, no result) or returns x with A x = b"""
    la = ctx.geomdl('linalg')
    A = sym_matrix(ctx, n, n, 'a')
    b = sym_matrix(ctx, n, m, 'b')
    ctx.assume(ctx.ne(det_leibniz(A), 0))
    c_lu_solve(ctx, la, A, b)


@scenario('C16', fns=['linalg.lu_factor', 'linalg.matrix_pivot', 'linalg.lu_decomposition', 'linalg.forward_substitution',
                      'linalg.backward_substitution'],
          quick=[dict(n=1, m=1), dict(n=2, m=1), dict(n=2, m=2), dict(n=3, m=1)],
          thorough=[dict(n=1, m=1), dict(n=2, m=2), dict(n=3, m=2), dict(n=4, m=1)])
def lu_factor(ctx, n, m):
    """requires: det(A) != 0, b any n x m
       ensures : the call raises ZeroDivisionError (no result) or returns x with A x = b  (partial pivoting included)"""
    la = ctx.geomdl('linalg')
    A = sym_matrix(ctx, n, n, 'a')
    b = sym_matrix(ctx, n, m, 'b')
    ctx.assume(ctx.ne(det_leibniz(A), 0))
    c_lu_factor(ctx, la, A, b)


@scenario('C16', fns=['linalg.matrix_inverse', 'linalg.matrix_pivot', 'linalg.lu_solve'], quick=_sizes(1, 3), thorough=_sizes(1, 4))
def matrix_inverse(ctx, n):
    """requires: det(A) != 0
       ensures : the call raises ZeroDivisionError (no result) or returns A^-1: A A^-1 = I = A^-1 A"""
    la = ctx.geomdl('linalg')
    A = sym_matrix(ctx, n, n, 'a')
    ctx.assume(ctx.ne(det_leibniz(A), 0))
    c_matrix_inverse(ctx, la, A)


@scenario('C16', fns=['linalg.matrix_determinant', 'linalg.matrix_pivot', 'linalg.lu_decomposition', '_linalg.doolittle'],
          quick=_sizes(1, 3), thorough=_sizes(1, 4))
def matrix_determinant(ctx, n):
    """requires: det(A) != 0 (non-singular)
       ensures : matrix_determinant(A) == Leibniz determinant"""
    la = ctx.geomdl('linalg')
    A = sym_matrix(ctx, n, n, 'a')
    ctx.assume(ctx.ne(det_leibniz(A), 0))
    c_matrix_determinant(ctx, la, A)


@scenario('C16', fns=['linalg.matrix_pivot'], quick=_sizes(1, 3), thorough=_sizes(1, 4))
def matrix_pivot(ctx, n):
    """requires: any n x n matrix
       ensures : P is a permutation matrix, the returned matrix is P m, sign = det P; sign=False returns the pair"""
    la = ctx.geomdl('linalg')
    A = sym_matrix(ctx, n, n, 'a')
    c_matrix_pivot(ctx, la, A)
    r = la.matrix_pivot(A)
    ctx.check_true('matrix_pivot.sign_false_returns_pair', len(r) == 2)
