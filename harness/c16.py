"""C16 Linear-algebra routines satisfy their defining equations on every call (bounded tier).

Contracts on geomdl.linalg / geomdl._linalg; every postcondition is a clause of the property statement.

  solvers    A fully symbolic n x n (every entry its own symbol), b fully symbolic, requires det(A) != 0 (Leibniz
             determinant computed here).  "Returns a result" is the path on which the call does not raise: a zero pivot
             that the factorisation meets is swallowed inside _linalg.doolittle (its `except ZeroDivisionError`) and
             resurfaces as the ZeroDivisionError of backward_substitution, so lu_solve / lu_factor / matrix_inverse
             either raise or return, and what they return has to satisfy  A x = b,  A A^-1 = I.
             matrix_determinant always returns: the returned number has to be the Leibniz determinant.
             lu_decomposition (the mechanism): on the paths without a vanishing pivot L is unit lower triangular,
             U upper triangular, L U = A.
  pivoting   matrix_pivot returns a genuine permutation matrix P (entries 0/1, one per row and column), the matrix
             P m, and det P = (-1)^(number of swaps).
  always     strictly diagonally dominant matrices and spline collocation matrices (bounded instances, built by the
             real fitting helpers over symbolic parameters): lu_solve returns (no ZeroDivisionError) and A x = b.
  history    the answers do not depend on which routine was called before: (a) state invariant - after any routine on
             any input the memoised matrix_identity(k) is still the identity, the binomial memo is intact and the
             arguments are unchanged; (b) two-call histories g(args'); f(args): f still satisfies its own contract.
  helpers    dot, cross, norm, normalize, sum, scaling, mean, generate, translate, distance, midpoint, transpose,
             product, scalar product, binomial coefficient (Pascal's rule), linspace, frange equal their definitions.

The loader clears every lru_cache at the start of each explored path, so inside one path the memoisation behaves
exactly as in CPython."""
import itertools
from fractions import Fraction

from .api import scenario
from . import spec, assumptions

assumptions.PROPS['C16'] = {'level': 'other', 'assume': ['A1', 'A2', 'A4', 'A5', 'A6']}

LINSPACE_TOL = Fraction(1, 10 ** 7)          # linalg.linspace: abs(start - stop) <= 10e-8


# ------------------------------------------------------------------------------------------------
# spec functions (definitions; independent of geomdl)
# ------------------------------------------------------------------------------------------------
def _perm_sign(perm):
    sign, seen = 1, [False] * len(perm)
    for i in range(len(perm)):
        if seen[i]:
            continue
        j, ln = i, 0
        while not seen[j]:
            seen[j] = True
            j = perm[j]
            ln += 1
        if ln % 2 == 0:
            sign = -sign
    return sign


def det_leibniz(M):
    """sum over permutations of sign * prod M[i][perm(i)]"""
    n = len(M)
    total = 0
    for perm in itertools.permutations(range(n)):
        term = _perm_sign(perm)
        for i in range(n):
            term = term * M[i][perm[i]]
        total = total + term
    return total


def matmul(A, B):
    return [[_sum(A[i][k] * B[k][j] for k in range(len(B))) for j in range(len(B[0]))] for i in range(len(A))]


def matvec(A, x):
    return [_sum(A[i][k] * x[k] for k in range(len(x))) for i in range(len(A))]


def _sum(it):
    t = 0
    for x in it:
        t = t + x
    return t


def ident(n):
    return [[1 if i == j else 0 for j in range(n)] for i in range(n)]


def sym_matrix(ctx, n, m, prefix):
    return [[ctx.num('%s%d%d' % (prefix, i, j)) for j in range(m)] for i in range(n)]


def clone(M):
    return [list(r) for r in M]


def same_objects(M, snap):
    """the numbers are immutable: a matrix is unchanged iff it still holds the very same number objects"""
    return len(M) == len(snap) and all(len(r) == len(s) and all(x is y for x, y in zip(r, s)) for r, s in zip(M, snap))


# ------------------------------------------------------------------------------------------------
# contracts of the single routines: each takes its (symbolic) arguments, calls the real function and checks the
# defining equation.  `tag` prefixes the labels.  Returns False when the call did not return a result.
# ------------------------------------------------------------------------------------------------
def c_lu_decomposition(ctx, la, A, tag=''):
    n = len(A)
    L, U = la.lu_decomposition(A)
    for i in range(n - 1):
        if U[i][i] == 0:
            ctx.skip('vanishing pivot: no LU factorisation without row exchange on this path')
    ctx.check_true(tag + 'lu.shape', len(L) == n and len(U) == n and all(len(r) == n for r in L + U))
    for i in range(n):
        ctx.check_eq(tag + 'lu.L_unit_diagonal[%d]' % i, L[i][i], 1)
        for j in range(i + 1, n):
            ctx.check_eq(tag + 'lu.L_lower[%d][%d]' % (i, j), L[i][j], 0)
        for j in range(i):
            ctx.check_eq(tag + 'lu.U_upper[%d][%d]' % (i, j), U[i][j], 0)
    ctx.check_eq_grid(tag + 'lu.L*U=A', matmul(L, U), A)
    return True


def _solver(ctx, la, fn, name, A, b, tag):
    try:
        x = fn(A, b)
    except ZeroDivisionError:
        ctx.ok(tag + name + '.no_result(ZeroDivisionError)')
        return False
    ctx.check_true(tag + name + '.shape', len(x) == len(b) and all(len(r) == len(b[0]) for r in x))
    ctx.check_eq_grid(tag + name + '.A*x=b', matmul(A, x), b)
    return True


def c_lu_solve(ctx, la, A, b, tag=''):
    return _solver(ctx, la, la.lu_solve, 'lu_solve', A, b, tag)


def c_lu_factor(ctx, la, A, b, tag=''):
    return _solver(ctx, la, la.lu_factor, 'lu_factor', A, b, tag)


def c_matrix_inverse(ctx, la, A, tag=''):
    n = len(A)
    try:
        inv = la.matrix_inverse(A)
    except ZeroDivisionError:
        ctx.ok(tag + 'matrix_inverse.no_result(ZeroDivisionError)')
        return False
    ctx.check_true(tag + 'matrix_inverse.shape', len(inv) == n and all(len(r) == n for r in inv))
    ctx.check_eq_grid(tag + 'matrix_inverse.A*inv=I', matmul(A, inv), ident(n))
    ctx.check_eq_grid(tag + 'matrix_inverse.inv*A=I', matmul(inv, A), ident(n))
    return True


def c_matrix_determinant(ctx, la, A, tag=''):
    ctx.check_eq(tag + 'matrix_determinant=leibniz', la.matrix_determinant(A), det_leibniz(A))
    return True


def c_matrix_pivot(ctx, la, A, tag=''):
    n = len(A)
    mp, P, sign = la.matrix_pivot(A, sign=True)
    ctx.check_true(tag + 'matrix_pivot.shape', len(P) == n and len(mp) == n and all(len(r) == n for r in P + mp))
    entries = [x for r in P for x in r]
    ctx.check_true(tag + 'matrix_pivot.P_entries_0_1', all(ctx.is_const(x) and (x == 0 or x == 1) for x in entries))
    ctx.check_true(tag + 'matrix_pivot.P_one_per_row', all(sum(1 for x in r if x == 1) == 1 for r in P))
    ctx.check_true(tag + 'matrix_pivot.P_one_per_column',
                   all(sum(1 for i in range(n) if P[i][j] == 1) == 1 for j in range(n)))
    ctx.check_eq_grid(tag + 'matrix_pivot.mp=P*m', mp, matmul(P, A))
    ctx.check_eq(tag + 'matrix_pivot.sign=det(P)', sign, det_leibniz(P))
    return True


def c_matrix_identity(ctx, la, n, tag=''):
    for k in range(1, n + 2):
        I = la.matrix_identity(k)
        ctx.check_true(tag + 'matrix_identity(%d).shape' % k, len(I) == k and all(len(r) == k for r in I))
        ctx.check_eq_grid(tag + 'matrix_identity(%d)=I' % k, I, ident(k))
    return True


ROUTINES = ('lu_decomposition', 'lu_solve', 'lu_factor', 'matrix_inverse', 'matrix_determinant', 'matrix_pivot')
CONTRACT = {'lu_decomposition': c_lu_decomposition, 'lu_solve': c_lu_solve, 'lu_factor': c_lu_factor,
            'matrix_inverse': c_matrix_inverse, 'matrix_determinant': c_matrix_determinant, 'matrix_pivot': c_matrix_pivot}
NEEDS_NONSINGULAR = ('lu_solve', 'lu_factor', 'matrix_inverse', 'matrix_determinant')

# sign patterns (row major) that pin the outcome of every abs() of the pivot search: used where the unconstrained
# n x n case has too many sign/order paths for the tier; the unconstrained sizes below them cover zero entries
SIGNS = {2: ['++++', '+--+', '-++-'],
         3: ['+++++++++', '+-+-+-+-+', '--+-+++-+'],
         4: ['++++++++++++++++', '+-+--+-++-+--+-+']}


def pin_signs(ctx, A, signs):
    if signs is None:
        return
    flat = [x for r in A for x in r]
    for x, s in zip(flat, signs):
        ctx.assume(ctx.gt(x, 0) if s == '+' else ctx.lt(x, 0))


def fresh_args(ctx, name, n, pfx, signs=None, m=1):
    """fully symbolic arguments of routine `name` (+ the non-singularity precondition where the statement has it)"""
    A = sym_matrix(ctx, n, n, pfx + 'a')
    pin_signs(ctx, A, signs)
    if name in NEEDS_NONSINGULAR:
        ctx.assume(ctx.ne(det_leibniz(A), 0))
    args = [A]
    if name in ('lu_solve', 'lu_factor'):
        args.append(sym_matrix(ctx, n, m, pfx + 'b'))
    return args


def plain_call(la, name, args):
    try:
        return getattr(la, name)(*args)
    except ZeroDivisionError:
        return None


# ------------------------------------------------------------------------------------------------
# solvers, inverse, determinant, pivoting: defining equations
# ------------------------------------------------------------------------------------------------
def _shapes(free, pinned, m=None):
    """free: sizes with unconstrained signs; pinned: sizes run once per sign pattern of SIGNS"""
    out = []
    for n in free:
        out.append(dict(n=n, signs=None))
    for n in pinned:
        for sg in SIGNS[n]:
            out.append(dict(n=n, signs=sg))
    if m is not None:
        out = [dict(o, m=(m if o['n'] > 1 else 1)) for o in out]
    return out


@scenario('C16', fns=['linalg.lu_decomposition', '_linalg.doolittle'],
          quick=[dict(n=n) for n in (1, 2, 3)], thorough=[dict(n=n) for n in (1, 2, 3, 4, 5)])
def lu_decomposition(ctx, n):
    """requires: A fully symbolic n x n; no pivot vanishes (decided by the path)
       ensures : L unit lower triangular, U upper triangular, L U = A"""
    la = ctx.geomdl('linalg')
    c_lu_decomposition(ctx, la, sym_matrix(ctx, n, n, 'a'))


@scenario('C16', fns=['linalg.lu_solve', 'linalg.forward_substitution', 'linalg.backward_substitution',
                      'linalg.lu_decomposition', '_linalg.doolittle'],
          quick=[dict(n=1, m=1), dict(n=2, m=1), dict(n=2, m=2), dict(n=3, m=1), dict(n=3, m=2)],
          thorough=[dict(n=1, m=1), dict(n=2, m=2), dict(n=3, m=2), dict(n=4, m=1), dict(n=4, m=2)])
def lu_solve(ctx, n, m):
    """requires: det(A) != 0, b any n x m
       ensures : the call raises ZeroDivisionError (zero pivot, no result) or returns x with A x = b"""
    la = ctx.geomdl('linalg')
    A, b = fresh_args(ctx, 'lu_solve', n, '', m=m)
    c_lu_solve(ctx, la, A, b)


@scenario('C16', fns=['linalg.lu_factor', 'linalg.matrix_pivot', 'linalg.lu_decomposition', 'linalg.forward_substitution',
                      'linalg.backward_substitution'],
          quick=_shapes((1, 2), (3,), m=2), thorough=_shapes((1, 2, 3), (), m=2))   # n >= 4: see `pencil` below
def lu_factor(ctx, n, signs, m):
    """requires: det(A) != 0, b any n x m
       ensures : the call raises ZeroDivisionError (no result) or returns x with A x = b  (partial pivoting included)"""
    la = ctx.geomdl('linalg')
    A, b = fresh_args(ctx, 'lu_factor', n, '', signs, m=m)
    c_lu_factor(ctx, la, A, b)


@scenario('C16', fns=['linalg.matrix_inverse', 'linalg.matrix_pivot', 'linalg.lu_solve'],
          quick=_shapes((1, 2), (3,)), thorough=_shapes((1, 2, 3), ()))       # n >= 4: see `pencil` below
def matrix_inverse(ctx, n, signs):
    """requires: det(A) != 0
       ensures : the call raises ZeroDivisionError (no result) or returns A^-1: A A^-1 = I = A^-1 A"""
    la = ctx.geomdl('linalg')
    A, = fresh_args(ctx, 'matrix_inverse', n, '', signs)
    c_matrix_inverse(ctx, la, A)


@scenario('C16', fns=['linalg.matrix_determinant', 'linalg.matrix_pivot', 'linalg.lu_decomposition', '_linalg.doolittle'],
          quick=_shapes((1, 2), (3,)), thorough=_shapes((1, 2, 3), ()))       # n = 4: beyond the budget (sign forks of rational pivots)
def matrix_determinant(ctx, n, signs):
    """requires: det(A) != 0 (non-singular)
       ensures : matrix_determinant(A) == Leibniz determinant"""
    la = ctx.geomdl('linalg')
    A, = fresh_args(ctx, 'matrix_determinant', n, '', signs)
    c_matrix_determinant(ctx, la, A)


@scenario('C16', fns=['linalg.matrix_pivot'], quick=_shapes((1, 2, 3), ()), thorough=_shapes((1, 2, 3), ()))
def matrix_pivot(ctx, n, signs):
    """requires: any n x n matrix
       ensures : P is a permutation matrix, the returned matrix is P m, sign = det P"""
    la = ctx.geomdl('linalg')
    A, = fresh_args(ctx, 'matrix_pivot', n, '', signs)
    c_matrix_pivot(ctx, la, A)


# ------------------------------------------------------------------------------------------------
# concrete matrices of the larger sizes of the quantifier (1..8), with and without needed row swaps
# ------------------------------------------------------------------------------------------------
def _family(kind, n):
    if kind == 'vandermonde':            # rows (i+1)^j: non-singular, pivoting reorders the rows
        return [[(i + 1) ** j for j in range(n)] for i in range(n)]
    if kind == 'tridiagonal':            # 2 on the diagonal, -1 beside it: no swap needed
        return [[2 if i == j else (-1 if abs(i - j) == 1 else 0) for j in range(n)] for i in range(n)]
    if kind == 'rational':               # Hilbert-like 1/(i+j+1) + identity
        return [[Fraction(1, i + j + 1) + (1 if i == j else 0) for j in range(n)] for i in range(n)]
    if kind == 'cyclic':                 # cyclic shift of diag(1..n): every row has to move, zero leading pivot
        return [[(i + 1) if j == (i + 1) % n else 0 for j in range(n)] for i in range(n)]
    if kind == 'prepivot':
        # non-singular, well conditioned, but choosing every pivot row from the ORIGINAL columns leaves a pivot that is
        # exactly zero during the elimination (in floats: a rounding error away from zero)
        return {3: [[1, 1, 0], [1, 1, 1], [0, 1, 1]],
                5: [[2, -4, 5, -6, 0], [3, -6, -2, 1, -6], [-9, 3, 7, -1, -6], [-4, -9, 0, -2, 8], [-1, 3, -2, 3, -9]]}[n]
    raise ValueError(kind)


@scenario('C16', fns=['linalg.lu_solve', 'linalg.lu_factor', 'linalg.matrix_inverse', 'linalg.matrix_determinant',
                      'linalg.matrix_pivot', 'linalg.lu_decomposition'],
          quick=[dict(kind=k, n=n) for k in ('vandermonde', 'tridiagonal', 'rational', 'cyclic') for n in (4, 6)]
                + [dict(kind='prepivot', n=3), dict(kind='prepivot', n=5)],
          thorough=[dict(kind=k, n=n) for k in ('vandermonde', 'tridiagonal', 'rational', 'cyclic') for n in (4, 5, 6, 7, 8)]
                   + [dict(kind='prepivot', n=3), dict(kind='prepivot', n=5)],
          # the same contracts at run time on native floats (A1 does not hold there: a pivot that is zero in exact
          # arithmetic is a rounding error, and a solver that divides by it returns garbage instead of raising)
          native=lambda tier: [dict(kind='prepivot', n=5), dict(kind='prepivot', n=3), dict(kind='vandermonde', n=5)])
def concrete_matrix(ctx, kind, n):
    """requires: the stated non-singular integer / rational matrix, right-hand side with one symbolic column and one
                 concrete column
       ensures : each of the contracts above (each routine on its own copy of the arguments)"""
    la = ctx.geomdl('linalg')
    A = [[ctx.lit(x) for x in r] for r in _family(kind, n)]
    b = [[ctx.num('b%d' % i), ctx.lit(i * i - 3)] for i in range(n)]
    for name in ROUTINES:
        la.matrix_identity.cache_clear()         # every routine from the clean state (histories: see below)
        args = [clone(A)] + ([clone(b)] if name in ('lu_solve', 'lu_factor') else [])
        if name == 'lu_solve' and kind == 'prepivot' and ctx.mode != 'sym':
            continue                              # no row exchange at all: natively outside the contract as well
        if name == 'lu_decomposition':
            if kind in ('cyclic', 'prepivot'):
                continue                          # a pivot is zero without row exchanges: outside that contract
            c_lu_decomposition(ctx, la, *args)
        else:
            CONTRACT[name](ctx, la, *args)


# ------------------------------------------------------------------------------------------------
# sizes 4 and 5 with symbolic entries: the pivot search runs on the partially eliminated columns, so pinning the signs
# of the entries of a fully symbolic 4 x 4 matrix no longer pins the order of the pivot candidates (more than 10^4
# order paths, over the instance deadline).  Instead: matrix pencils A0 + t B1 (+ s B2) with concrete integer A0, B1,
# B2 and free symbols t, s - every pivot candidate is a rational function of one or two symbols, every order fork is
# explored, and the row order changes with t (zero, equal and sign-changing candidates included).
# ------------------------------------------------------------------------------------------------
PENCILS = {
    (4, 1): ([[2, -1, 0, 3], [4, 1, -2, 0], [-1, 3, 1, 2], [0, 2, -3, 1]],
             [[1, 0, 0, 0], [0, 0, 1, 0], [0, -1, 0, 0], [0, 0, 0, 2]], None),
    (4, 2): ([[0, 1, 2, -1], [1, 0, -1, 2], [3, -2, 0, 1], [-1, 2, 1, 0]],
             [[1, 0, 0, 0], [1, 0, 0, 0], [0, 0, 0, 0], [0, 0, 1, 0]],
             [[0, 0, 0, 0], [0, 1, 0, 0], [0, 1, 0, 0], [0, 0, 0, 1]]),
    (5, 1): ([[2, -4, 5, -6, 0], [3, -6, -2, 1, -6], [-9, 3, 7, -1, -6], [-4, -9, 0, -2, 8], [-1, 3, -2, 3, -9]],
             [[0, 0, 0, 0, 1], [0, 1, 0, 0, 0], [1, 0, 0, 0, 0], [0, 0, 0, 0, 0], [0, 0, 1, 0, 0]], None),
}


@scenario('C16', fns=['linalg.lu_factor', 'linalg.matrix_inverse', 'linalg.matrix_determinant', 'linalg.matrix_pivot',
                      'linalg.lu_decomposition', 'linalg.forward_substitution', 'linalg.backward_substitution'],
          quick=[dict(n=4, k=1, f=f) for f in ('matrix_pivot', 'lu_factor')],
          thorough=[dict(n=n, k=k, f=f) for (n, k) in sorted(PENCILS)
                    for f in ('matrix_pivot', 'lu_factor', 'matrix_inverse', 'matrix_determinant')])
def pencil(ctx, n, k, f):
    """requires: A = A0 + t B1 (+ s B2), A0, B1, B2 the stated integer matrices, t (and s) any reals with det(A) != 0
       ensures : the contract of routine f above"""
    la = ctx.geomdl('linalg')
    A0, B1, B2 = PENCILS[(n, k)]
    t = ctx.num('t')
    s = ctx.num('s') if B2 is not None else None
    A = [[ctx.lit(A0[i][j]) + t * B1[i][j] + (s * B2[i][j] if B2 is not None else 0) for j in range(n)] for i in range(n)]
    if f in NEEDS_NONSINGULAR:
        ctx.assume(ctx.ne(det_leibniz(A), 0))
    args = [A] + ([[[ctx.num('b%d' % i), ctx.lit(i - 2)] for i in range(n)]] if f == 'lu_factor' else [])
    CONTRACT[f](ctx, la, *args)


# ------------------------------------------------------------------------------------------------
# "always returns": strictly diagonally dominant matrices, spline collocation matrices
# ------------------------------------------------------------------------------------------------
def assume_diag_dominant(ctx, A, by):
    """|a_ii| > sum_{j != i} |a_ij| (rows) or the same down the columns, written without abs():
       for every sign vector s:  a_ii > sum s_j a_ij,   or for every s:  -a_ii > sum s_j a_ij"""
    n = len(A)
    for i in range(n):
        off = [A[i][j] if by == 'rows' else A[j][i] for j in range(n) if j != i]
        pos, neg = [], []
        for s in itertools.product((1, -1), repeat=len(off)):
            tot = _sum(sj * x for sj, x in zip(s, off))
            pos.append(ctx.gt(A[i][i], tot))
            neg.append(ctx.gt(-A[i][i], tot))
        ctx.assume(ctx.any(ctx.all(*pos), ctx.all(*neg)))


@scenario('C16', fns=['linalg.lu_solve', 'linalg.lu_decomposition', '_linalg.doolittle', 'linalg.forward_substitution',
                      'linalg.backward_substitution'],
          quick=[dict(n=n, by=by) for n in (1, 2, 3) for by in ('rows', 'columns')],
          thorough=[dict(n=n, by=by) for n in (1, 2, 3) for by in ('rows', 'columns')])
def diagonally_dominant(ctx, n, by):
    """requires: A strictly diagonally dominant (by rows / by columns), b any
       ensures : lu_solve returns a result (no zero pivot) and A x = b
       (n = 4 is not in the family: the solver answers unknown on the third pivot)"""
    la = ctx.geomdl('linalg')
    A = sym_matrix(ctx, n, n, 'a')
    b = sym_matrix(ctx, n, 1, 'b')
    assume_diag_dominant(ctx, A, by)
    returned = c_lu_solve(ctx, la, A, b)
    ctx.check_true('lu_solve.returns_a_result', returned, 'ZeroDivisionError (zero pivot) on a strictly diagonally dominant matrix')


def _colloc_shapes(tier):
    out = [dict(p=1, pts=2, fixed=[]), dict(p=1, pts=3, fixed=[]), dict(p=1, pts=4, fixed=[]), dict(p=2, pts=3, fixed=[]),
           dict(p=2, pts=4, fixed=[]), dict(p=2, pts=5, fixed=[]), dict(p=3, pts=4, fixed=[]),
           dict(p=3, pts=5, fixed=[[2, '1/2']]), dict(p=3, pts=5, fixed=[[1, '1/5']]), dict(p=3, pts=5, fixed=[[3, '3/4']])]
    if tier == 'thorough':
        out += [dict(p=1, pts=5, fixed=[]), dict(p=2, pts=6, fixed=[[2, '2/5']]),
                dict(p=3, pts=6, fixed=[[2, '2/5'], [3, '3/5'], [4, '7/10']]), dict(p=4, pts=5, fixed=[]),
                dict(p=4, pts=6, fixed=[[1, '1/10'], [3, '3/5'], [4, '7/10']])]
    # fully concrete parameter sets (chord-length-like, non-uniform) up to the largest size of the quantifier
    for p, pts in ((2, 6), (3, 8)) if tier == 'quick' else ((2, 6), (2, 8), (3, 7), (3, 8), (4, 8), (5, 8)):
        out.append(dict(p=p, pts=pts, fixed=[[i, '%d/%d' % (i * i + i, pts * pts - pts)] for i in range(1, pts - 1)]))
    return out


@scenario('C16', fns=['linalg.lu_solve', 'linalg.lu_decomposition', '_linalg.doolittle', 'fitting._build_coeff_matrix',
                      'fitting.compute_knot_vector'],
          quick=lambda: _colloc_shapes('quick'), thorough=lambda: _colloc_shapes('thorough'))
def collocation(ctx, p, pts, fixed):
    """requires: interpolation parameters 0 = u_0 < u_1 < ... < u_m = 1 (symbolic; `fixed` pins some of them to the
                 stated constants where the pivots would otherwise be polynomials beyond the solver's reach), knot vector
                 by averaging (the real fitting.compute_knot_vector), collocation matrix N_j(u_i) by the real
                 fitting._build_coeff_matrix
       ensures : lu_solve returns a result (no zero pivot) and A x = b for a symbolic right-hand side"""
    la = ctx.geomdl('linalg')
    fit = ctx.geomdl('fitting')
    fx = dict((i, Fraction(v)) for i, v in fixed)
    inner = [ctx.lit(fx[i]) if i in fx else ctx.num('u%d' % i) for i in range(1, pts - 1)]
    uk = [ctx.lit(0)] + inner + [ctx.lit(1)]
    ctx.assume_sorted(uk, strict=True)
    kv = fit.compute_knot_vector(p, pts, uk)
    A = fit._build_coeff_matrix(p, kv, uk, [[0]] * pts)
    ctx.check_true('collocation.shape', len(A) == pts and all(len(r) == pts for r in A))
    b = sym_matrix(ctx, pts, 1, 'b')
    snap = clone(A)
    returned = c_lu_solve(ctx, la, A, b)
    ctx.check_true('lu_solve.returns_a_result', returned, 'ZeroDivisionError (zero pivot) on a spline collocation matrix')
    ctx.check_true('lu_solve.matrix_not_mutated', same_objects(A, snap))


# ------------------------------------------------------------------------------------------------
# history independence
# ------------------------------------------------------------------------------------------------
def _state_shapes(tier):
    out = [dict(f=f, n=n, signs=None) for f in ROUTINES for n in (1, 2)]
    for f in ROUTINES:
        pats = SIGNS[3][:1] if tier == 'quick' else SIGNS[3]
        if f in ('lu_decomposition', 'lu_solve'):
            out.append(dict(f=f, n=3, signs=None))
        else:
            out += [dict(f=f, n=3, signs=sg) for sg in pats]
    return out


@scenario('C16', fns=['linalg.matrix_identity', 'linalg.matrix_pivot', 'linalg.matrix_inverse', 'linalg.matrix_determinant',
                      'linalg.lu_factor', 'linalg.lu_solve', 'linalg.lu_decomposition'],
          quick=lambda: _state_shapes('quick'), thorough=lambda: _state_shapes('thorough'))
def state_preserved(ctx, f, n, signs):
    """requires: clean module state, routine f called on any admissible argument (whether it returns or raises)
       ensures : the module-level memo still equals a fresh computation - matrix_identity(k) is the k x k identity for
                 k = 1..n+1 - and the arguments of f are unchanged.  (With this invariant the single-call contracts
                 above hold after every history.)"""
    la = ctx.geomdl('linalg')
    args = fresh_args(ctx, f, n, '', signs)
    snaps = [clone(a) for a in args]
    plain_call(la, f, args)
    for a, s, nm in zip(args, snaps, ('matrix', 'rhs')):
        ctx.check_true('after[%s].argument_%s_unchanged' % (f, nm), same_objects(a, s))
    c_matrix_identity(ctx, la, n, tag='after[%s].' % f)


def _history_shapes(tier):
    first = ROUTINES if tier == 'thorough' else ('matrix_pivot', 'matrix_inverse', 'lu_factor', 'matrix_determinant', 'lu_solve')
    out = []
    for g in first:
        for f in ROUTINES:
            out.append(dict(g=g, f=f, n=2, gsigns='+--+', fsigns=None))     # g swaps rows iff |ga10| > |ga00|
            if tier == 'thorough':
                out.append(dict(g=g, f=f, n=2, gsigns=None, fsigns=None))
                out.append(dict(g=g, f=f, n=3, gsigns=SIGNS[3][1], fsigns=SIGNS[3][2]))
    return out


@scenario('C16', fns=['linalg.matrix_pivot', 'linalg.matrix_inverse', 'linalg.matrix_determinant', 'linalg.lu_factor',
                      'linalg.lu_solve', 'linalg.lu_decomposition', 'linalg.matrix_identity'],
          quick=lambda: _history_shapes('quick'), thorough=lambda: _history_shapes('thorough'))
def history(ctx, g, f, n, gsigns, fsigns):
    """requires: clean module state; g called on any admissible argument args' (returns or raises), then f on args
       ensures : f satisfies its own contract (the answer does not depend on the earlier call), args' is not changed
                 by the call of f"""
    la = ctx.geomdl('linalg')
    gargs = fresh_args(ctx, g, n, 'g', gsigns)
    fargs = fresh_args(ctx, f, n, 'f', fsigns)
    gsnap = [clone(a) for a in gargs]
    plain_call(la, g, gargs)
    CONTRACT[f](ctx, la, *fargs, tag='after[%s].' % g)
    ctx.check_true('after[%s;%s].first_arguments_unchanged' % (g, f), all(same_objects(a, s) for a, s in zip(gargs, gsnap)))


# ------------------------------------------------------------------------------------------------
# vector / matrix helpers equal their definitions
# ------------------------------------------------------------------------------------------------
def _vec(ctx, name, dim):
    return [ctx.num('%s%d' % (name, i)) for i in range(dim)]


@scenario('C16', fns=['linalg.vector_dot', 'linalg.vector_multiply', 'linalg.vector_sum', 'linalg.vector_mean',
                      'linalg.vector_generate', 'linalg.point_translate', 'linalg.point_mid'],
          quick=[dict(dim=d) for d in (1, 2, 3, 4)], thorough=[dict(dim=d) for d in (1, 2, 3, 4, 6)])
def vector_algebra(ctx, dim):
    """ensures: dot = sum v_i w_i; multiply = c v; sum = v + c w (c defaults to 1); mean = (u + v + w)/3;
                generate = end - start; translate = p + v; mid = (p + q)/2; arguments unchanged; empty input raises"""
    la = ctx.geomdl('linalg')
    u, v, w = _vec(ctx, 'u', dim), _vec(ctx, 'v', dim), _vec(ctx, 'w', dim)
    c = ctx.num('c')
    snap = [list(u), list(v), list(w)]
    ctx.check_eq('vector_dot', la.vector_dot(u, v), _sum(a * b for a, b in zip(u, v)))
    ctx.check_eq_vec('vector_multiply', la.vector_multiply(u, c), [a * c for a in u])
    ctx.check_eq_vec('vector_sum.coeff', la.vector_sum(u, v, c), [a + c * b for a, b in zip(u, v)])
    ctx.check_eq_vec('vector_sum.default', la.vector_sum(u, v), [a + b for a, b in zip(u, v)])
    ctx.check_eq_vec('vector_mean.3', la.vector_mean(u, v, w), [(a + b + d) / 3 for a, b, d in zip(u, v, w)])
    ctx.check_eq_vec('vector_mean.1', la.vector_mean(u), u)
    ctx.check_eq_vec('vector_mean.list', la.vector_mean(*[u, v]), [(a + b) / 2 for a, b in zip(u, v)])
    ctx.check_eq_vec('vector_generate', la.vector_generate(u, v), [b - a for a, b in zip(u, v)])
    ctx.check_eq_vec('point_translate', la.point_translate(u, v), [a + b for a, b in zip(u, v)])
    ctx.check_eq_vec('point_mid', la.point_mid(u, v), [(a + b) / 2 for a, b in zip(u, v)])
    ctx.check_true('arguments_unchanged', all(x is y for s, t in zip(snap, (u, v, w)) for x, y in zip(s, t)))
    ctx.check_raises('vector_dot.empty_raises', ValueError, la.vector_dot, [], v)
    ctx.check_raises('vector_generate.empty_raises', ValueError, la.vector_generate, u, [])
    ctx.check_raises('point_translate.empty_raises', ValueError, la.point_translate, [], [])
    ctx.check_raises('point_mid.dimension_mismatch_raises', ValueError, la.point_mid, u, v + [c])


@scenario('C16', fns=['linalg.vector_cross'], quick=[dict(d1=2, d2=2), dict(d1=3, d2=3), dict(d1=2, d2=3), dict(d1=3, d2=2)])
def vector_cross(ctx, d1, d2):
    """ensures: the 3-D cross product (2-D vectors embedded with z = 0): component formula, antisymmetry,
                orthogonality to both factors; sizes outside 2..3 raise ValueError"""
    la = ctx.geomdl('linalg')
    v, w = _vec(ctx, 'v', d1), _vec(ctx, 'w', d2)
    a = list(v) + [0] * (3 - d1)
    b = list(w) + [0] * (3 - d2)
    want = [a[1] * b[2] - a[2] * b[1], a[2] * b[0] - a[0] * b[2], a[0] * b[1] - a[1] * b[0]]
    got = la.vector_cross(v, w)
    ctx.check_eq_vec('vector_cross', got, want)
    ctx.check_eq_vec('vector_cross.antisymmetric', la.vector_cross(w, v), [-x for x in want])
    ctx.check_eq('vector_cross.orthogonal_to_first', _sum(x * y for x, y in zip(got, a)), 0)
    ctx.check_eq('vector_cross.orthogonal_to_second', _sum(x * y for x, y in zip(got, b)), 0)
    ctx.check_raises('vector_cross.size1_raises', ValueError, la.vector_cross, v[:1], w)
    ctx.check_raises('vector_cross.size4_raises', ValueError, la.vector_cross, v, list(w) + [w[0]] * (4 - d2))
    ctx.check_raises('vector_cross.empty_raises', ValueError, la.vector_cross, [], w)


@scenario('C16', fns=['linalg.vector_magnitude', 'linalg.vector_normalize', 'linalg.point_distance', 'linalg.vector_generate'],
          quick=[dict(dim=d) for d in (1, 2, 3)], thorough=[dict(dim=d) for d in (1, 2, 3, 4)])
def vector_norms(ctx, dim):
    """ensures: magnitude >= 0 and magnitude^2 = sum v_i^2; distance likewise on q - p; for v != 0 normalize(v) * |v| = v
                and has unit length (also through vector_generate(normalize=True)); the zero vector raises ValueError"""
    la = ctx.geomdl('linalg')
    v, p, q = _vec(ctx, 'v', dim), _vec(ctx, 'p', dim), _vec(ctx, 'q', dim)
    m = la.vector_magnitude(v)
    ctx.check_eq('vector_magnitude.squared', m * m, _sum(x * x for x in v))
    ctx.check('vector_magnitude.nonnegative', ctx.ge(m, 0))
    d = la.point_distance(p, q)
    ctx.check_eq('point_distance.squared', d * d, _sum((b - a) * (b - a) for a, b in zip(p, q)))
    ctx.check('point_distance.nonnegative', ctx.ge(d, 0))
    ctx.check_eq('point_distance.symmetric', la.point_distance(q, p), d)
    ctx.check_raises('point_distance.dimension_mismatch_raises', ValueError, la.point_distance, p, q + [q[0]])
    ctx.check_raises('vector_normalize.zero_raises', ValueError, la.vector_normalize, [0] * dim)
    ctx.check_raises('vector_normalize.empty_raises', ValueError, la.vector_normalize, [])
    ctx.assume(ctx.any(*[ctx.ne(x, 0) for x in v]))
    n = la.vector_normalize(v)
    ctx.check_true('vector_normalize.len', len(n) == dim)
    ctx.check_eq_vec('vector_normalize.times_magnitude', [x * m for x in n], v)
    ctx.check_eq('vector_normalize.unit_length', _sum(x * x for x in n), 1)
    ctx.assume(ctx.any(*[ctx.ne(a, b) for a, b in zip(p, q)]))
    g = la.vector_generate(p, q, normalize=True)
    ctx.check_eq_vec('vector_generate.normalized', [x * d for x in g], [b - a for a, b in zip(p, q)])


@scenario('C16', fns=['linalg.matrix_transpose', 'linalg.matrix_multiply', 'linalg.matrix_scalar'],
          quick=[dict(r=1, k=1, c=1), dict(r=2, k=3, c=2), dict(r=3, k=2, c=4), dict(r=3, k=3, c=3)],
          thorough=[dict(r=1, k=1, c=1), dict(r=2, k=3, c=2), dict(r=3, k=2, c=4), dict(r=3, k=3, c=3), dict(r=4, k=5, c=3)])
def matrix_helpers(ctx, r, k, c):
    """ensures: transpose[j][i] = m[i][j]; product[i][j] = sum_k a[i][k] b[k][j] (also matrix x vector);
                scalar[i][j] = s m[i][j]; (A B)^T = B^T A^T; size mismatch raises; arguments unchanged"""
    la = ctx.geomdl('linalg')
    exc = ctx.geomdl('exceptions').GeomdlException
    A, B = sym_matrix(ctx, r, k, 'a'), sym_matrix(ctx, k, c, 'b')
    x = _vec(ctx, 'x', k)
    s = ctx.num('s')
    sa, sb = clone(A), clone(B)
    At = la.matrix_transpose(A)
    ctx.check_true('matrix_transpose.shape', len(At) == k and all(len(row) == r for row in At))
    ctx.check_eq_grid('matrix_transpose', At, [[A[i][j] for i in range(r)] for j in range(k)])
    AB = la.matrix_multiply(A, B)
    ctx.check_true('matrix_multiply.shape', len(AB) == r and all(len(row) == c for row in AB))
    ctx.check_eq_grid('matrix_multiply', AB, matmul(A, B))
    ctx.check_eq_vec('matrix_multiply.vector', la.matrix_multiply(A, x), matvec(A, x))
    ctx.check_eq_grid('matrix_multiply.transpose_rule', la.matrix_transpose(AB),
                      la.matrix_multiply(la.matrix_transpose(B), At))
    ctx.check_eq_grid('matrix_scalar', la.matrix_scalar(A, s), [[s * v for v in row] for row in A])
    ctx.check_eq_grid('matrix_multiply.identity', la.matrix_multiply(A, la.matrix_identity(k)), A)
    ctx.check_raises('matrix_multiply.mismatch_raises', exc, la.matrix_multiply, A, B + [B[0]])
    ctx.check_true('arguments_unchanged', same_objects(A, sa) and same_objects(B, sb))
    c_matrix_identity(ctx, la, k, tag='after[matrix_multiply].')


@scenario('C16', fns=['linalg.binomial_coefficient'], quick=[dict(kmax=12)], thorough=[dict(kmax=30)])
def binomial(ctx, kmax):
    """ensures (concrete sweep 0 <= k <= kmax, 0 <= i <= k + 2): C(k, 0) = C(k, k) = 1, Pascal's rule
                C(k, i) = C(k-1, i-1) + C(k-1, i), C(k, i) = 0 for i > k, symmetric; a repeated (memoised) call returns
                the same value"""
    la = ctx.geomdl('linalg')
    for k in range(kmax + 1):
        ctx.check_eq('binomial(%d,0)=1' % k, la.binomial_coefficient(k, 0), 1)
        ctx.check_eq('binomial(%d,%d)=1' % (k, k), la.binomial_coefficient(k, k), 1)
        for i in range(1, k):
            ctx.check_eq('binomial(%d,%d).pascal' % (k, i), la.binomial_coefficient(k, i),
                         la.binomial_coefficient(k - 1, i - 1) + la.binomial_coefficient(k - 1, i))
            ctx.check_eq('binomial(%d,%d).symmetric' % (k, i), la.binomial_coefficient(k, i), la.binomial_coefficient(k, k - i))
            ctx.check_eq('binomial(%d,%d).closed_form' % (k, i), la.binomial_coefficient(k, i), spec.binom(k, i))
        for i in (k + 1, k + 2):
            ctx.check_eq('binomial(%d,%d)=0' % (k, i), la.binomial_coefficient(k, i), 0)
    for k in range(kmax + 1):
        ctx.check_eq('binomial(%d,%d).memoised_again' % (k, k // 2), la.binomial_coefficient(k, k // 2), spec.binom(k, k // 2))


@scenario('C16', fns=['linalg.linspace'],
          quick=[dict(num=n, case=c) for n in (1, 2, 3, 5) for c in ('up', 'down')] + [dict(num=n, case='close') for n in (1, 4)],
          thorough=[dict(num=n, case=c) for n in (1, 2, 3, 5, 8, 17) for c in ('up', 'down')] + [dict(num=n, case='close') for n in (1, 4)])
def linspace(ctx, num, case):
    """requires: up: stop - start > 1e-7; down: start - stop > 1e-7; close: |start - stop| <= 1e-7 (the code's tolerance)
       ensures : up/down: len = num, first = start, last = stop (num > 1), out[i] = start + i (stop - start)/(num - 1),
                 equal gaps; num = 1: [start]; close: a non-empty list whose every entry is start"""
    la = ctx.geomdl('linalg')
    a, b = ctx.num('start'), ctx.num('stop')
    if case == 'up':
        ctx.assume(ctx.gt(b - a, LINSPACE_TOL))
    elif case == 'down':
        ctx.assume(ctx.gt(a - b, LINSPACE_TOL))
    else:
        ctx.assume(ctx.le(b - a, LINSPACE_TOL), ctx.le(a - b, LINSPACE_TOL))
    out = la.linspace(a, b, num)
    if case == 'close':
        ctx.check_true('linspace.close.nonempty', 1 <= len(out) <= num)
        for i, x in enumerate(out):
            ctx.check_eq('linspace.close[%d]=start' % i, x, a)
        return
    ctx.check_true('linspace.len', len(out) == num, 'len = %d, num = %d' % (len(out), num))
    ctx.check_eq('linspace.first=start', out[0], a)
    if num > 1:
        ctx.check_eq('linspace.last=stop', out[-1], b)
        for i in range(num):
            ctx.check_eq('linspace[%d]' % i, out[i], a + (b - a) * Fraction(i, num - 1))
        for i in range(num - 2):
            ctx.check_eq('linspace.even_gap[%d]' % i, out[i + 1] - out[i], out[i + 2] - out[i + 1])
        mono = ctx.lt if case == 'up' else ctx.gt
        for i in range(num - 1):
            ctx.check('linspace.monotone[%d]' % i, mono(out[i], out[i + 1]))


@scenario('C16', fns=['linalg.frange'], quick=[dict(k=k) for k in (1, 2, 5)], thorough=[dict(k=k) for k in (1, 2, 5, 9)])
def frange(ctx, k):
    """requires: step > 0, stop = start + k step (the way _voxelize.generate_voxel_grid and the knot vector generator
                 call it)
       ensures : yields exactly start + i step for i = 0..k; the last value is stop"""
    la = ctx.geomdl('linalg')
    a, h = ctx.num('start'), ctx.num('step')
    ctx.assume(ctx.gt(h, 0))
    out = list(la.frange(a, a + k * h, h))
    ctx.check_true('frange.len', len(out) == k + 1, 'len = %d, expected %d' % (len(out), k + 1))
    ctx.check_eq_vec('frange.values', out, [a + i * h for i in range(k + 1)])
    ctx.check_eq('frange.last=stop', out[-1], a + k * h)
