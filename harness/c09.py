"""C09 Weights, weighted and unweighted control points stay mutually consistent (bounded tier).

Postconditions, taken from the property statement:
  (a) compatibility.*: element-wise closed forms  Pw[i] = (P[i]*w[i], w[i]),  P[i] = Pw[i][:-1]/Pw[i][-1]  and the
      inverse-pair identities, for symbolic points and positive symbolic weights (1-D lists and 2-D [u][v] lists);
  (b) NURBS.Curve/Surface/Volume: after every history of setting ctrlpts / weights / ctrlptsw the three views satisfy
      ctrlptsw[i] = (ctrlpts[i]*weights[i], weights[i]); the view that was set reads back, the complementary view is
      unchanged (views are read in between, so the lazily filled caches are exercised);
  (c) convert.bspline_to_nurbs / nurbs_to_bspline: unit weights and an identically evaluating shape (spec C(u));
  (d) multiplying all weights by one positive constant c moves no evaluated point;
  (e) CPGen.GridWeighted.grid[i][j] = (x*w_k, y*w_k, z*w_k, w_k), k = the point's own index j + i*size_v in the weights
      list (the list has len(grid) = rows*cols entries, grid is documented "[u][v] format": row-major, v fastest, the
      same layout as every flat control-point list of the library).
"""
from fractions import Fraction

from .api import scenario
from . import shapes, spec, assumptions

assumptions.PROPS['C09'] = {'level': 'other', 'assume': ['A1', 'A2', 'A5', 'A6']}


# ------------------------------------------------------------------------------------------------
# (a) list helpers
# ------------------------------------------------------------------------------------------------
def _sym_points(ctx, prefix, n, dim):
    return [[ctx.num('%s%d_%d' % (prefix, i, d)) for d in range(dim)] for i in range(n)]


def _rows(flat, su, sv):
    return [[flat[j + sv * i] for j in range(sv)] for i in range(su)]


def _copy2(pts):
    return [list(p) for p in pts]


def _copy3(rows):
    return [[list(p) for p in r] for r in rows]


@scenario('C09', fns=['compatibility.combine_ctrlpts_weights', 'compatibility.separate_ctrlpts_weights',
                      'compatibility.generate_ctrlptsw', 'compatibility.generate_ctrlpts_weights'],
          quick=lambda: [dict(n=n, dim=dim) for n in range(1, 6) for dim in range(2, 5)])
def compat_1d(ctx, n, dim):
    """requires: n points of dimension dim (any reals), weights > 0
       ensures : closed forms element-wise; separate(combine(P, w)) = (P, w); combine(separate(Pw)) = Pw;
                 generate_ctrlpts_weights(generate_ctrlptsw(X)) = X and converse; combine(P, None) appends weight 1"""
    cp = ctx.geomdl('compatibility')
    P = _sym_points(ctx, 'P', n, dim)
    W = shapes.weights(ctx, 'w', n)
    # combine: (x, y, ..), w -> (x*w, y*w, .., w)
    Pw = cp.combine_ctrlpts_weights(_copy2(P), list(W))
    ctx.check_true('combine.len', len(Pw) == n)
    ctx.check_eq_grid('combine.closed_form', Pw, [[c * w for c in p] + [w] for p, w in zip(P, W)])
    P1 = cp.combine_ctrlpts_weights(_copy2(P))
    ctx.check_eq_grid('combine.default_unit_weights', P1, [list(p) + [1] for p in P])
    # separate: arbitrary homogeneous points H (last entry > 0)
    H = [list(p) + [w] for p, w in zip(_sym_points(ctx, 'H', n, dim), W)]
    sep = cp.separate_ctrlpts_weights(_copy2(H))
    ctx.check_true('separate.shape', len(sep) == 2 and len(sep[0]) == n and len(sep[1]) == n)
    ctx.check_eq_grid('separate.closed_form.ctrlpts', sep[0], [[c / h[-1] for c in h[:-1]] for h in H])
    ctx.check_eq_vec('separate.closed_form.weights', sep[1], [h[-1] for h in H])
    # inverse pair 1
    back = cp.separate_ctrlpts_weights(Pw)
    ctx.check_eq_grid('separate(combine).ctrlpts', back[0], P)
    ctx.check_eq_vec('separate(combine).weights', back[1], W)
    ctx.check_eq_grid('combine(separate)', cp.combine_ctrlpts_weights(sep[0], sep[1]), H)
    # (x, y, z, w) <-> (x*w, y*w, z*w, w)
    X = [list(p) + [w] for p, w in zip(P, W)]
    Xw = cp.generate_ctrlptsw(_copy2(X))
    ctx.check_eq_grid('generate_ctrlptsw.closed_form', Xw, [[c * w for c in p] + [w] for p, w in zip(P, W)])
    Hx = cp.generate_ctrlpts_weights(_copy2(H))
    ctx.check_eq_grid('generate_ctrlpts_weights.closed_form', Hx, [[c / h[-1] for c in h[:-1]] + [h[-1]] for h in H])
    ctx.check_eq_grid('generate_ctrlpts_weights(generate_ctrlptsw)', cp.generate_ctrlpts_weights(Xw), X)
    ctx.check_eq_grid('generate_ctrlptsw(generate_ctrlpts_weights)', cp.generate_ctrlptsw(Hx), H)
    # the two families agree
    ctx.check_eq_grid('generate_ctrlptsw=combine', Xw, Pw)


def _grid_sizes(tier):
    out = [dict(su=1, sv=1, dim=2), dict(su=2, sv=3, dim=3), dict(su=3, sv=2, dim=4), dict(su=5, sv=4, dim=3),
           dict(su=1, sv=5, dim=3), dict(su=4, sv=1, dim=2)]
    if tier == 'thorough':
        out = [dict(su=a, sv=b, dim=d) for a in range(1, 6) for b in range(1, 6) for d in range(2, 5)]
    return out


@scenario('C09', fns=['compatibility.generate_ctrlptsw2d', 'compatibility.generate_ctrlpts2d_weights'],
          quick=lambda: _grid_sizes('quick'), thorough=lambda: _grid_sizes('thorough'))
def compat_2d(ctx, su, sv, dim):
    """ensures: 2-D [u][v] variants: closed forms per grid point, mutually inverse, and equal to the 1-D functions row by row"""
    cp = ctx.geomdl('compatibility')
    n = su * sv
    P = _sym_points(ctx, 'P', n, dim)
    W = shapes.weights(ctx, 'w', n)
    X = [list(p) + [w] for p, w in zip(P, W)]                                   # (x, y, z, w)
    Xw_want = [[c * w for c in p] + [w] for p, w in zip(P, W)]                  # (x*w, y*w, z*w, w)
    got = cp.generate_ctrlptsw2d(_copy3(_rows(X, su, sv)))
    ctx.check_true('generate_ctrlptsw2d.shape', len(got) == su and all(len(r) == sv for r in got))
    for i in range(su):
        ctx.check_eq_grid('generate_ctrlptsw2d.closed_form[%d]' % i, got[i], _rows(Xw_want, su, sv)[i])
    H = [list(p) + [w] for p, w in zip(_sym_points(ctx, 'H', n, dim), W)]       # arbitrary homogeneous points
    Hx_want = [[c / h[-1] for c in h[:-1]] + [h[-1]] for h in H]
    got2 = cp.generate_ctrlpts2d_weights(_copy3(_rows(H, su, sv)))
    ctx.check_true('generate_ctrlpts2d_weights.shape', len(got2) == su and all(len(r) == sv for r in got2))
    for i in range(su):
        ctx.check_eq_grid('generate_ctrlpts2d_weights.closed_form[%d]' % i, got2[i], _rows(Hx_want, su, sv)[i])
    inv1 = cp.generate_ctrlpts2d_weights(got)
    inv2 = cp.generate_ctrlptsw2d(got2)
    for i in range(su):
        ctx.check_eq_grid('generate_ctrlpts2d_weights(generate_ctrlptsw2d)[%d]' % i, inv1[i], _rows(X, su, sv)[i])
        ctx.check_eq_grid('generate_ctrlptsw2d(generate_ctrlpts2d_weights)[%d]' % i, inv2[i], _rows(H, su, sv)[i])
        ctx.check_eq_grid('2d=1d.rowwise[%d]' % i, got[i], cp.generate_ctrlptsw(_copy2(_rows(X, su, sv)[i])))


def _parse_2d(ctx, path):
    """own reader of the documented 2-D control point text format: one u-row per line, points separated by ';',
    coordinates by ','"""
    rows = []
    with open(path) as f:
        for line in f.read().split('\n'):
            if not line.strip():
                continue
            rows.append([[ctx.q.vq_float(c.strip()) if ctx.mode == 'sym' else float(c) for c in pt.split(',')]
                         for pt in line.strip().split(';')])
    return rows


@scenario('C09', fns=['compatibility.generate_ctrlptsw2d_file', 'compatibility.generate_ctrlpts2d_weights_file',
                      'compatibility._read_ctrltps2d_file', 'compatibility._save_ctrlpts2d_file'],
          quick=[dict(su=2, sv=3), dict(su=3, sv=2), dict(su=2, sv=2), dict(su=1, sv=3)])
def compat_2d_files(ctx, su, sv):
    """requires: a text file of su lines with sv points (x, y, z, w) each, positive weights (A3: numbers print to tokens
                 that read back as themselves)
       ensures : generate_ctrlptsw2d_file writes su lines of sv points (x*w, y*w, z*w, w); generate_ctrlpts2d_weights_file
                 applied to that file gives the original file content back (the two file helpers are mutually inverse)"""
    import os
    import shutil
    import tempfile
    cp = ctx.geomdl('compatibility')
    n = su * sv
    P = _sym_points(ctx, 'P', n, 3)
    W = shapes.weights(ctx, 'w', n)
    X = _rows([list(p) + [w] for p, w in zip(P, W)], su, sv)
    Xw = _rows([[c * w for c in p] + [w] for p, w in zip(P, W)], su, sv)
    d = tempfile.mkdtemp(prefix='verif_c09_', dir=os.environ.get('TMPDIR') or '/tmp')
    try:
        fin, fmid, fout = (os.path.join(d, nm) for nm in ('in.txt', 'mid.txt', 'out.txt'))
        with open(fin, 'w') as f:
            f.write('\n'.join(';'.join(','.join(str(c) for c in pt) for pt in row) for row in X) + '\n')
        cp.generate_ctrlptsw2d_file(fin, fmid)
        mid = _parse_2d(ctx, fmid)
        ctx.check_true('weighted_file.shape', len(mid) == su and all(len(r) == sv for r in mid),
                       'lines have %r points, expected %d lines of %d' % ([len(r) for r in mid], su, sv))
        for i in range(min(su, len(mid))):
            if len(mid[i]) == sv:
                ctx.check_eq_grid('weighted_file.closed_form[%d]' % i, mid[i], Xw[i])
        cp.generate_ctrlpts2d_weights_file(fmid, fout)
        out = _parse_2d(ctx, fout)
        ctx.check_true('roundtrip_file.shape', len(out) == su and all(len(r) == sv for r in out),
                       'lines have %r points, expected %d lines of %d' % ([len(r) for r in out], su, sv))
        for i in range(min(su, len(out))):
            if len(out[i]) == sv:
                ctx.check_eq_grid('roundtrip_file=original[%d]' % i, out[i], X[i])
    finally:
        shutil.rmtree(d, ignore_errors=True)


# ------------------------------------------------------------------------------------------------
# (b) the three views of NURBS objects under every history of setters
# ------------------------------------------------------------------------------------------------
KINDS = {'curve': dict(cls='Curve', deg=[2], sizes=[3], dim=2),
         'surface': dict(cls='Surface', deg=[1, 2], sizes=[2, 3], dim=3),
         'volume': dict(cls='Volume', deg=[1, 1, 1], sizes=[2, 3, 4], dim=3)}       # pairwise different sizes: a swapped size shows
VIEWS = ('P', 'W', 'Pw')


def _new_rational(ctx, kind):
    k = KINDS[kind]
    obj = getattr(ctx.geomdl('NURBS'), k['cls'])()
    if kind == 'curve':
        obj.degree = k['deg'][0]
    elif kind == 'surface':
        obj.degree_u, obj.degree_v = k['deg']
    else:
        obj.degree_u, obj.degree_v, obj.degree_w = k['deg']
    return obj


def _count(kind):
    n = 1
    for s in KINDS[kind]['sizes']:
        n *= s
    return n


def _read_views(ctx, tag, obj, kind, P, W):
    """all views against the tracked state (P, W) + the multiplicative relation between the views as read"""
    n = len(P)
    got_p = _copy2(obj.ctrlpts)
    got_w = list(obj.weights)
    got_pw = _copy2(obj.ctrlptsw)
    ctx.check_true(tag + '.sizes', len(got_p) == n and len(got_w) == n and len(got_pw) == n,
                   'len(ctrlpts)=%d len(weights)=%d len(ctrlptsw)=%d, expected %d' % (len(got_p), len(got_w), len(got_pw), n))
    ctx.check_eq_grid(tag + '.relation:ctrlptsw=(ctrlpts*w,w)', got_pw,
                      [[c * w for c in p] + [w] for p, w in zip(got_p, got_w)])
    ctx.check_eq_grid(tag + '.ctrlpts', got_p, P)
    ctx.check_eq_vec(tag + '.weights', got_w, W)
    ctx.check_eq_grid(tag + '.ctrlptsw', got_pw, spec.weighted(P, W))
    # the net keeps its shape through every setter
    names = ('ctrlpts_size_u', 'ctrlpts_size_v', 'ctrlpts_size_w')
    got_sizes = [obj.ctrlpts_size] if kind == 'curve' else [getattr(obj, nm) for nm in names[:len(KINDS[kind]['sizes'])]]
    ctx.check_true(tag + '.net_sizes', list(got_sizes) == list(KINDS[kind]['sizes']),
                   'control net sizes read %r, expected %r' % (list(got_sizes), KINDS[kind]['sizes']))
    if kind == 'surface':
        su, sv = KINDS[kind]['sizes']
        c2d = obj.ctrlpts2d
        ctx.check_true(tag + '.ctrlpts2d.shape', len(c2d) == su and all(len(r) == sv for r in c2d))
        for i in range(su):
            ctx.check_eq_grid(tag + '.ctrlpts2d[%d]=ctrlptsw' % i, c2d[i], got_pw[sv * i: sv * i + sv])


def _histories(tier):
    out = []
    two = [[a, b] for a in VIEWS for b in VIEWS]
    perms = [[a, b, c] for a in VIEWS for b in VIEWS for c in VIEWS if len({a, b, c}) == 3]
    three_all = [[a, b, c] for a in VIEWS for b in VIEWS for c in VIEWS]
    for kind in ('curve', 'surface', 'volume'):
        for h in two:
            out.append(dict(kind=kind, start='set', hist=h, warm=True))
        for h in (perms if tier == 'quick' else three_all):
            out.append(dict(kind=kind, start='set', hist=h, warm=True))
        for h in [x for x in two if x[0] != x[1]] + (perms if tier == 'thorough' else perms[::2]):
            out.append(dict(kind=kind, start='set', hist=h, warm=False))
        # a fresh object: the first step must provide points (weights alone are rejected by the setter)
        for h in (['P', 'W'], ['P', 'Pw'], ['Pw', 'W'], ['Pw', 'P'], ['P', 'W', 'Pw'], ['P', 'W', 'P'], ['Pw', 'P', 'W']):
            out.append(dict(kind=kind, start='fresh', hist=h, warm=True))
        out.append(dict(kind=kind, start='fresh', hist=['P', 'W', 'P'], warm=False))
    return out


@scenario('C09', fns=['NURBS.Curve.ctrlpts', 'NURBS.Curve.weights', 'NURBS.Curve.ctrlptsw', 'NURBS.Surface.ctrlpts',
                      'NURBS.Surface.weights', 'NURBS.Surface.ctrlptsw', 'NURBS.Volume.ctrlpts', 'NURBS.Volume.weights',
                      'NURBS.Volume.ctrlptsw', 'NURBS.Curve.reset', 'abstract.SplineGeometry.set_ctrlpts',
                      'BSpline.Surface.ctrlpts2d', 'compatibility.combine_ctrlpts_weights',
                      'compatibility.separate_ctrlpts_weights'],
          quick=lambda: _histories('quick'), thorough=lambda: _histories('thorough'))
def views_history(ctx, kind, start, hist, warm):
    """requires: every weight ever set > 0; start = 'set': arbitrary state installed by set_ctrlpts(Pw0, sizes),
                 start = 'fresh': new object with degrees (and sizes) only - unit weights are the documented default
       history : hist[k] in P (obj.ctrlpts = ..), W (obj.weights = ..), Pw (obj.ctrlptsw = ..) with fresh symbolic
                 values each step; warm: all views are read after every step (caches filled), else only at the end
       ensures : ctrlptsw[i] = (ctrlpts[i]*weights[i], weights[i]); the set view reads back; the complementary view
                 (weights after P, ctrlpts after W) is unchanged"""
    k = KINDS[kind]
    n, dim, sizes = _count(kind), k['dim'], k['sizes']
    obj = _new_rational(ctx, kind)
    if start == 'set':
        P = shapes.net(ctx, 'A', n, dim)
        W = shapes.weights(ctx, 'a', n)
        obj.set_ctrlpts(_copy2(spec.weighted(P, W)), *sizes)
        if warm:
            _read_views(ctx, 'start', obj, kind, P, W)
    else:
        P, W = None, [ctx.lit(1)] * n
        if kind == 'surface':
            obj.ctrlpts_size_u, obj.ctrlpts_size_v = sizes
        elif kind == 'volume':
            obj.ctrlpts_size_u, obj.ctrlpts_size_v, obj.ctrlpts_size_w = sizes
    for step, view in enumerate(hist):
        tag = 's%d:%s' % (step + 1, view)
        held = None
        if warm and (start == 'set' or step > 0):
            # what the caller read before the edit is the caller's data: the edit must not change it under the caller
            held = (obj.weights, obj.ctrlpts)
            snap = (list(held[0]), _copy2(held[1]))
        if view == 'P':
            P = shapes.net(ctx, 'BCD'[step], n, dim)
            passed = _copy2(P)
            obj.ctrlpts = passed
        elif view == 'W':
            W = shapes.weights(ctx, 'bcd'[step], n)
            passed = list(W)
            obj.weights = passed
        else:
            P = shapes.net(ctx, 'BCD'[step], n, dim)
            W = shapes.weights(ctx, 'bcd'[step], n)
            passed = _copy2(spec.weighted(P, W))
            obj.ctrlptsw = passed
        # what was passed in stays the caller's: editing it afterwards must not change the object
        if view == 'W':
            passed[0] = passed[0] + 7
            passed.append(passed[-1])
        else:
            passed[0][0] = passed[0][0] + 7
            passed[-1] = [c + 1 for c in passed[-1]]
        if held is not None:
            ctx.check_true(tag + '.earlier_weights_result_untouched', len(held[0]) == len(snap[0]),
                           'a weights list read before the edit now has %d entries (had %d)' % (len(held[0]), len(snap[0])))
            if len(held[0]) == len(snap[0]):
                ctx.check_eq_vec(tag + '.earlier_weights_result_untouched.values', held[0], snap[0])
            ctx.check_true(tag + '.earlier_ctrlpts_result_untouched', len(held[1]) == len(snap[1]),
                           'a ctrlpts list read before the edit now has %d entries (had %d)' % (len(held[1]), len(snap[1])))
        if warm or step == len(hist) - 1:
            _read_views(ctx, tag, obj, kind, P, W)
    # a control point list whose length differs from the weights vector cannot be paired with the weights: the assignment is
    # rejected (it used to drop the surplus points silently) and every view stays what it was
    if P is not None:
        longer = _copy2(P) + [[c + 1 for c in P[-1]]]
        try:
            obj.ctrlpts = longer
            rejected = False
        except Exception as e:
            if type(e).__name__ == 'CheckFailed':
                raise
            rejected = True
        if rejected:
            _read_views(ctx, 'after_rejected_ctrlpts', obj, kind, P, W)
        else:
            ctx.check_true('ctrlpts.other_count.set_then_read_back', len(obj.ctrlpts) == len(longer),
                           'assigned %d control points, %d read back' % (len(longer), len(obj.ctrlpts)))
    # idempotent re-assignment of what was read (round trip through the object itself)
    rp, rw = _copy2(obj.ctrlpts), list(obj.weights)
    obj.ctrlpts = rp
    obj.weights = rw
    _read_views(ctx, 'reassign', obj, kind, P, W)


@scenario('C09', fns=['abstract.GeomdlBase.__deepcopy__', 'NURBS.Curve.__deepcopy__', 'NURBS.Surface.__deepcopy__',
                      'NURBS.Volume.__deepcopy__', 'NURBS.Curve.ctrlpts', 'NURBS.Curve.weights', 'NURBS.Curve.reset'],
          quick=[dict(kind=k, warm=w, edit=e, first=f) for k in ('curve', 'surface', 'volume') for w in (True, False)
                 for e in ('Pw', 'W') for f in ('copy', 'orig')])
def views_after_deepcopy(ctx, kind, warm, edit, first):
    """requires: a rational shape (views read once if warm), a deep copy of it, then one view of the COPY set to fresh values
       ensures : read in either order, the copy reports the new state and the original still its own: the relation
                 ctrlptsw = (ctrlpts*w, w) and the tracked values hold for both objects (the lazily filled views of
                 one object are not the other's)"""
    import copy
    k = KINDS[kind]
    n, dim, sizes = _count(kind), k['dim'], k['sizes']
    obj = _new_rational(ctx, kind)
    P, W = shapes.net(ctx, 'A', n, dim), shapes.weights(ctx, 'a', n)
    obj.set_ctrlpts(_copy2(spec.weighted(P, W)), *sizes)
    if warm:
        _read_views(ctx, 'start', obj, kind, P, W)
    cp = copy.deepcopy(obj)
    P2, W2 = (shapes.net(ctx, 'B', n, dim), shapes.weights(ctx, 'b', n)) if edit == 'Pw' else (P, shapes.weights(ctx, 'b', n))
    if edit == 'Pw':
        cp.ctrlptsw = _copy2(spec.weighted(P2, W2))
    else:
        cp.weights = list(W2)
    for who in ((cp, obj) if first == 'copy' else (obj, cp)):
        if who is cp:
            _read_views(ctx, 'copy', cp, kind, P2, W2)
        else:
            _read_views(ctx, 'original', obj, kind, P, W)
    # and once more in the other order (both caches are filled now)
    _read_views(ctx, 'original.again', obj, kind, P, W)
    _read_views(ctx, 'copy.again', cp, kind, P2, W2)


# ------------------------------------------------------------------------------------------------
# (c), (d) conversion and weight scaling on evaluating shapes
# ------------------------------------------------------------------------------------------------
def _eval_shapes(tier):
    out = [dict(kind='curve', deg=[2], mult=[[1]]), dict(kind='curve', deg=[3], mult=[[]]),
           dict(kind='curve', deg=[1], mult=[[1, 1]]),
           dict(kind='surface', deg=[1, 2], mult=[[1], []]), dict(kind='surface', deg=[2, 1], mult=[[], []]),
           dict(kind='volume', deg=[1, 1, 1], mult=[[], [], []]),
           # shapes that keep their knot vectors as given (normalize_kv=False, symbolic ranges)
           dict(kind='curve', deg=[2], mult=[[1]], normalized=False), dict(kind='surface', deg=[1, 2], mult=[[1], []], normalized=False),
           dict(kind='volume', deg=[1, 1, 1], mult=[[], [1], []], normalized=False)]
    if tier == 'thorough':
        out += [dict(kind='curve', deg=[3], mult=[[1, 2]]), dict(kind='surface', deg=[2, 2], mult=[[1], [1]]),
                dict(kind='volume', deg=[2, 1, 1], mult=[[1], [], []]), dict(kind='volume', deg=[1, 1, 2], mult=[[], [1], []])]
    return out


def _build(ctx, kind, deg, mult, rational, normalized=True):
    """(obj, knot vectors, sizes, P, W, params)"""
    kvs, sizes = [], []
    for a in range(len(deg)):
        U, _inner, n = shapes.make_kv(ctx, deg[a], mult[a], prefix='abc'[a], normalized=normalized)
        kvs.append(U)
        sizes.append(n)
    total = 1
    for s in sizes:
        total *= s
    prm = [shapes.param_in(ctx, nm, U[0], U[-1]) for nm, U in zip(('u', 'v', 'w'), kvs)]
    P = shapes.net(ctx, 'P', total, 2 if kind == 'curve' else 3)
    W = shapes.weights(ctx, 'w', total) if rational else None
    if kind == 'curve':
        obj = shapes.build_curve(ctx, deg[0], kvs[0], P, W, normalize_kv=normalized)
    elif kind == 'surface':
        obj = shapes.build_surface(ctx, deg[0], deg[1], kvs[0], kvs[1], P, sizes[0], sizes[1], W, normalize_kv=normalized)
    else:
        obj = shapes.build_volume(ctx, deg[0], deg[1], deg[2], kvs[0], kvs[1], kvs[2], P, sizes[0], sizes[1], sizes[2], W,
                                  normalize_kv=normalized)
    return obj, kvs, sizes, P, W, prm


def _spec_point(kind, deg, kvs, sizes, pts, prm):
    if kind == 'curve':
        return spec.curve_point(deg[0], kvs[0], pts, prm[0])
    if kind == 'surface':
        return spec.surface_point(deg[0], deg[1], kvs[0], kvs[1], pts, sizes[0], sizes[1], prm[0], prm[1])
    return spec.volume_point(deg[0], deg[1], deg[2], kvs[0], kvs[1], kvs[2], pts, sizes[0], sizes[1], sizes[2],
                             prm[0], prm[1], prm[2])


def _at(kind, obj, prm):
    return obj.evaluate_single(prm[0] if kind == 'curve' else list(prm))


def _knots(kind, obj):
    if kind == 'curve':
        return [obj.knotvector]
    if kind == 'surface':
        return [obj.knotvector_u, obj.knotvector_v]
    return [obj.knotvector_u, obj.knotvector_v, obj.knotvector_w]


@scenario('C09', fns=['convert.bspline_to_nurbs', 'convert.nurbs_to_bspline', '_convert.convert_curve',
                      '_convert.convert_surface', '_convert.convert_volume', 'NURBS.Curve.ctrlpts', 'NURBS.Surface.ctrlpts',
                      'NURBS.Volume.ctrlpts'],
          quick=lambda: _eval_shapes('quick'), thorough=lambda: _eval_shapes('thorough'))
def convert_roundtrip(ctx, kind, deg, mult, normalized=True):
    """requires: valid clamped knot vectors, parameters in the domain
       ensures : bspline_to_nurbs(b) is rational with unit weights, same degrees / knots / points, and evaluates to the
                 spec point of b; nurbs_to_bspline of it is non-rational again and evaluates identically"""
    cv = ctx.geomdl('convert')
    b, kvs, sizes, P, _W, prm = _build(ctx, kind, deg, mult, rational=False, normalized=normalized)
    want = _spec_point(kind, deg, kvs, sizes, P, prm)
    nb = ctx.geomdl('NURBS')
    bs = ctx.geomdl('BSpline')
    cls = KINDS[kind]['cls']
    r = cv.bspline_to_nurbs(b)
    ctx.check_true('to_nurbs.type', isinstance(r, getattr(nb, cls)) and r.rational is True and r is not b)
    ctx.check_eq_vec('to_nurbs.unit_weights', r.weights, [1] * len(P))
    ctx.check_eq_grid('to_nurbs.ctrlpts', r.ctrlpts, P)
    ctx.check_eq_grid('to_nurbs.ctrlptsw', r.ctrlptsw, [list(p) + [1] for p in P])
    ctx.check_true('to_nurbs.degree', list(r.degree) == list(deg) if kind != 'curve' else r.degree == deg[0])
    for a, (gk, U) in enumerate(zip(_knots(kind, r), kvs)):
        ctx.check_eq_vec('to_nurbs.knotvector[%d]' % a, gk, U)
    ctx.check_eq_vec('to_nurbs.evaluates_identically', _at(kind, r, prm), want)
    ctx.check_eq_vec('source.evaluates_to_spec', _at(kind, b, prm), want)
    b2 = cv.nurbs_to_bspline(r)
    ctx.check_true('to_bspline.type', isinstance(b2, getattr(bs, cls)) and b2.rational is False and b2 is not r)
    ctx.check_eq_grid('to_bspline.ctrlpts', b2.ctrlpts, P)
    for a, (gk, U) in enumerate(zip(_knots(kind, b2), kvs)):
        ctx.check_eq_vec('to_bspline.knotvector[%d]' % a, gk, U)
    ctx.check_eq_vec('to_bspline.evaluates_identically', _at(kind, b2, prm), want)


def _ops_instances(tier):
    out = []
    for warm in (True, False):
        out += [dict(kind='curve', deg=[2], mult=[[1]], op='reverse', warm=warm),
                dict(kind='curve', deg=[2], mult=[[1]], op='insert_knot', warm=warm),
                dict(kind='surface', deg=[1, 2], mult=[[], [1]], op='transpose', warm=warm),
                dict(kind='surface', deg=[1, 2], mult=[[], [1]], op='flip', warm=warm),
                dict(kind='surface', deg=[2, 1], mult=[[], []], op='insert_knot', warm=warm)]
    out += [dict(o, first='W') for o in out if o['warm']]
    out += [dict(kind='curve', deg=[2], mult=[[1]], op='remove_knot', warm=True),
            dict(kind='curve', deg=[1], mult=[[1]], op='translate', warm=True),
            dict(kind='volume', deg=[1, 1, 1], mult=[[], [], []], op='insert_knot', warm=True),
            dict(kind='volume', deg=[1, 1, 1], mult=[[], [], []], op='scale', warm=True)]
    return out


@scenario('C09', fns=['NURBS.Curve.ctrlpts', 'NURBS.Curve.weights', 'NURBS.Curve.ctrlptsw', 'NURBS.Curve.reset',
                      'abstract.Curve.reverse', 'operations.transpose', 'operations.flip', 'operations.insert_knot',
                      'operations.remove_knot', 'operations.translate', 'operations.scale'],
          quick=lambda: _ops_instances('quick'))
def views_after_operation(ctx, kind, deg, mult, op, warm, first='P'):
    """requires: a rational shape with positive symbolic weights; warm = all three views were read before the operation
       ensures : after any shape-editing operation (not only the setters) the three views as read satisfy
                 ctrlptsw[i] == (ctrlpts[i] * weights[i], weights[i]), and a following ctrlpts / weights round trip
                 (obj.weights = obj.weights; obj.ctrlpts = obj.ctrlpts) changes neither the views nor the evaluated point"""
    obj, kvs, sizes, P, W, prm = _build(ctx, kind, deg, mult, rational=True)
    ops = ctx.geomdl('operations')
    if warm:
        _ = (_copy2(obj.ctrlpts), list(obj.weights), _copy2(obj.ctrlptsw))
    half = ctx.lit(Fraction(1, 2))
    third = ctx.lit(Fraction(1, 3))
    if op == 'reverse':
        obj.reverse()
    elif op == 'transpose':
        ops.transpose(obj, inplace=True)
    elif op == 'flip':
        ops.flip(obj, inplace=True)
    elif op == 'insert_knot':
        if kind == 'curve':
            obj.insert_knot(third)
        elif kind == 'surface':
            obj.insert_knot(u=third)
        else:
            obj.insert_knot(w=third)
    elif op == 'remove_knot':
        obj.insert_knot(third)
        if warm:
            _ = (_copy2(obj.ctrlpts), list(obj.weights))
        obj.remove_knot(third)
    elif op == 'translate':
        ops.translate(obj, [ctx.num('t0'), ctx.num('t1')], inplace=True)
    elif op == 'scale':
        ops.scale(obj, ctx.lit(Fraction(3, 2)), inplace=True)
    if first == 'W':          # the order in which the lazily filled views are read after the operation matters
        got_w = list(obj.weights)
        got_p, got_pw = _copy2(obj.ctrlpts), _copy2(obj.ctrlptsw)
    else:
        got_p, got_w, got_pw = _copy2(obj.ctrlpts), list(obj.weights), _copy2(obj.ctrlptsw)
    ctx.check_true('after.sizes', len(got_p) == len(got_w) == len(got_pw))
    ctx.check_eq_grid('after.relation:ctrlptsw=(ctrlpts*w,w)', got_pw, [[c * w for c in p] + [w] for p, w in zip(got_p, got_w)])
    ctx.assume_pos(_spec_point(kind, deg, kvs, sizes, [[w] for w in W], prm)[0], 'L.weight_function_positive')
    if op in ('reverse', 'transpose', 'flip', 'translate', 'scale'):
        pt_before = None
    at = [half] * len(deg)
    e0 = list(_at(kind, obj, at)) if op not in ('insert_knot', 'remove_knot') else None
    # setting a view to what was just read must be the identity
    obj.weights = list(obj.weights)
    obj.ctrlpts = _copy2(obj.ctrlpts)
    ctx.check_eq_grid('roundtrip.ctrlptsw_unchanged', obj.ctrlptsw, got_pw)
    ctx.check_eq_vec('roundtrip.weights_unchanged', obj.weights, got_w)
    if e0 is not None:
        ctx.check_eq_vec('roundtrip.point_unchanged', _at(kind, obj, at), e0)


def _general_weights(tier):
    out = []
    for kind, deg, mult in (('curve', [2], [[]]), ('curve', [1], [[1]]), ('surface', [1, 1], [[], []])):
        for pattern in ('unit', 'mixed', 'first', 'last', 'none'):
            out.append(dict(kind=kind, deg=deg, mult=mult, pattern=pattern))
    return out


@scenario('C09', fns=['convert.nurbs_to_bspline', '_convert.convert_curve', '_convert.convert_surface'],
          quick=lambda: _general_weights('quick'))
def to_bspline_general(ctx, kind, deg, mult, pattern):
    """requires: a rational shape whose weights are 1 except at the positions given by `pattern`
                 (unit: all 1; mixed: every second one is 3/4; first / last: only that one is 2; none: all are 5/4)
       ensures : whatever nurbs_to_bspline returns evaluates identically to the input ("converting ... back gives an
                 identically evaluating shape"); a non-rational result is only possible when every weight is 1"""
    obj, kvs, sizes, P, _W, prm = _build(ctx, kind, deg, mult, rational=False)
    n = len(P)
    W = []
    for i in range(n):
        w = Fraction(1)
        if pattern == 'mixed' and i % 2 == 1:
            w = Fraction(3, 4)
        elif pattern == 'first' and i == 0:
            w = Fraction(2)
        elif pattern == 'last' and i == n - 1:
            w = Fraction(2)
        elif pattern == 'none':
            w = Fraction(5, 4)
        W.append(ctx.lit(w))
    if kind == 'curve':
        r = shapes.build_curve(ctx, deg[0], kvs[0], P, W)
    else:
        r = shapes.build_surface(ctx, deg[0], deg[1], kvs[0], kvs[1], P, sizes[0], sizes[1], W)
    want = spec.project(_spec_point(kind, deg, kvs, sizes, shapes.homog(P, W), prm))
    ctx.check_eq_vec('input.evaluates_to_spec', _at(kind, r, prm), want)
    out = ctx.geomdl('convert').nurbs_to_bspline(r)
    ctx.check_eq_vec('result.evaluates_identically', _at(kind, out, prm), want)
    ctx.check_true('nonrational_result_only_for_unit_weights', out.rational or pattern == 'unit')
    ctx.check_true('unit_weights_are_converted', (not out.rational) or pattern != 'unit')


def _scale_shapes(tier):
    out = [dict(kind='curve', deg=[2], mult=[[1]]), dict(kind='curve', deg=[1], mult=[[1]]),
           dict(kind='surface', deg=[1, 2], mult=[[], []]), dict(kind='volume', deg=[1, 1, 1], mult=[[], [], []])]
    if tier == 'thorough':
        out += [dict(kind='curve', deg=[3], mult=[[1, 1]]), dict(kind='surface', deg=[2, 2], mult=[[1], []])]
    return out


@scenario('C09', fns=['NURBS.Curve.weights', 'NURBS.Surface.weights', 'NURBS.Volume.weights',
                      'evaluators.CurveEvaluatorRational.evaluate', 'evaluators.SurfaceEvaluatorRational.evaluate',
                      'evaluators.VolumeEvaluatorRational.evaluate'],
          quick=lambda: _scale_shapes('quick'), thorough=lambda: _scale_shapes('thorough'))
def weight_scaling(ctx, kind, deg, mult):
    """requires: positive weights, c > 0, parameters in the domain
       ensures : after obj.weights = [c*w_i] the evaluated point is unchanged, ctrlpts unchanged, weights = c*w"""
    obj, kvs, sizes, P, W, prm = _build(ctx, kind, deg, mult, rational=True)
    c = ctx.num('c')
    ctx.assume(ctx.gt(c, 0))
    wf = _spec_point(kind, deg, kvs, sizes, [[w] for w in W], prm)[0]
    ctx.assume_pos(wf, 'L.weight_function_positive')
    ctx.assume_pos(c * wf, 'L.weight_function_positive')
    before = list(_at(kind, obj, prm))
    obj.weights = [c * w for w in obj.weights]
    after = _at(kind, obj, prm)
    ctx.check_eq_vec('scaled.point_unchanged', after, before)
    ctx.check_eq_vec('scaled.weights', obj.weights, [c * w for w in W])
    ctx.check_eq_grid('scaled.ctrlpts_unchanged', obj.ctrlpts, P)
    ctx.check_eq_grid('scaled.ctrlptsw', obj.ctrlptsw, spec.weighted(P, [c * w for w in W]))
    want = spec.project(_spec_point(kind, deg, kvs, sizes, spec.weighted(P, W), prm))
    ctx.check_eq_vec('scaled.point=spec', after, want)


# ------------------------------------------------------------------------------------------------
# (e) weighted grid generator
# ------------------------------------------------------------------------------------------------
def _grids(tier):
    out = [dict(nu=a, nv=b, weights='list') for a in range(2, 5) for b in range(2, 5)]
    out += [dict(nu=2, nv=3, weights='default'), dict(nu=3, nv=2, weights='scalar')]
    # the weights are (re)assigned after the grid was read: the weighted view must follow
    out += [dict(nu=2, nv=3, weights='list', reweight=True), dict(nu=3, nv=3, weights='default', reweight=True),
            dict(nu=3, nv=2, weights='scalar', reweight=True)]
    # bumps() edits the grid points after the weighted grid was read (5 x 5 points, base extent 2: the only admissible
    # bump position is the centre, so the call is deterministic)
    out += [dict(nu=5, nv=5, weights='list', bump=True)]
    return out


@scenario('C09', fns=['CPGen.GridWeighted.grid', 'CPGen.GridWeighted.weight', 'CPGen.Grid.generate'],
          quick=lambda: _grids('quick'))
def grid_weighted(ctx, nu, nv, weights, reweight=False, bump=False):
    """requires: grid of nu x nv points (generate(nu-1, nv-1)) on a symbolic sx x sy rectangle at height z,
                 weights > 0 (list of nu*nv symbols | not set | one number for all)
       ensures : grid[i][j] = (x_i*w_k, y_j*w_k, z*w_k, w_k) with x_i = i*sx/(nu-1), y_j = j*sy/(nv-1) and
                 k = j + i*nv the point's own index"""
    cpgen = ctx.geomdl('CPGen')
    sx, sy, z = ctx.num('sx'), ctx.num('sy'), ctx.num('z')
    ctx.assume(ctx.gt(sx, 0), ctx.gt(sy, 0))
    g = cpgen.GridWeighted(sx, sy, z_value=z)
    g.generate(nu - 1, nv - 1)
    n = nu * nv
    if weights == 'list':
        W = shapes.weights(ctx, 'w', n)
        g.weight = list(W)
    elif weights == 'scalar':
        g.weight = 3
        W = [ctx.lit(3)] * n
    else:
        W = [ctx.lit(1)] * n
    grid = g.grid
    ctx.check_true('grid.shape', len(grid) == nu and all(len(r) == nv for r in grid))
    ctx.check_eq_vec('grid.weights_vector', g.weight, W)
    for i in range(nu):
        for j in range(nv):
            w = W[j + i * nv]
            x = sx * ctx.lit(Fraction(i, nu - 1))
            y = sy * ctx.lit(Fraction(j, nv - 1))
            ctx.check_eq_vec('grid[%d][%d]=own_weight' % (i, j), grid[i][j], [x * w, y * w, z * w, w])
    if reweight:
        seen = [[list(p) for p in r] for r in grid]
        V = shapes.weights(ctx, 'v', n)
        g.weight = list(V)
        grid2 = g.grid
        ctx.check_eq_vec('reweighted.weights_vector', g.weight, V)
        for i in range(nu):
            for j in range(nv):
                w = V[j + i * nv]
                x = sx * ctx.lit(Fraction(i, nu - 1))
                y = sy * ctx.lit(Fraction(j, nv - 1))
                ctx.check_eq_vec('reweighted.grid[%d][%d]=own_weight' % (i, j), grid2[i][j], [x * w, y * w, z * w, w])
        # what the caller read before the edit is its own data
        ctx.check_eq_grid('reweighted.earlier_result_untouched', [p for r in grid for p in r], [p for r in seen for p in r])
    if bump:
        h = ctx.num('h')
        g.bumps(1, bump_height=h, base_extent=2)
        ref = cpgen.Grid(sx, sy, z_value=z)
        ref.generate(nu - 1, nv - 1)
        ref.bumps(1, bump_height=h, base_extent=2)
        plain = ref.grid
        ctx.check_true('bumped.reference_has_a_bump', any(p[2] is not plain[0][0][2] for r in plain for p in r))
        grid3 = g.grid
        for i in range(nu):
            for j in range(nv):
                w = W[j + i * nv]
                ctx.check_eq_vec('bumped.grid[%d][%d]=point*own_weight' % (i, j), grid3[i][j], [c * w for c in plain[i][j]] + [w])
