"""Runs the contracts of one property: Engine A function contracts (pyvc) + Engine B scenarios (symx),
replays refutations natively, applies the known-findings file, writes evidence, sets the exit code.

exit 0  every obligation decided and held (open known findings are printed, not counted)
exit 1  a refuted obligation that is not a listed known finding   (prints VIOLATION ...)
exit 2  undecided obligations and nothing refuted
exit 3  checker crash / vacuity guard tripped
"""
import json
import multiprocessing as mp
import os
import re
import subprocess
import sys
import time
import traceback
import hashlib

HERE = os.path.dirname(os.path.abspath(__file__))
ROOT = os.path.dirname(HERE)
REPO = os.environ.get('VERIF_REPO', '/repo')
NATIVE_PY = os.environ.get('VERIF_NATIVE_PY', '/venv/bin/python')
MAX_REPLAYS = 6
STOP_AFTER_FAILED_JOBS = 12


# ------------------------------------------------------------------------------------------------
# child: one Engine-B instance
# ------------------------------------------------------------------------------------------------
def _run_instance(key, params, budget_s, seed, conn):
    out = {'key': list(key), 'params': params, 'paths': 0, 'labels': {}, 'failures': [], 'undecided': None,
           'decisions': 0, 'queries': 0, 'solver_s': 0.0, 'wall_s': 0.0, 'skipped_paths': 0, 'symbolic': False}
    t0 = time.time()
    try:
        from symx import qnum, explore
        from harness import api
        qnum.reset(seed)
        sc = api.SCENARIOS[tuple(key)]
        # the instance parameters have to fit the scenario's own signature: a mismatch is an error of the checker (it would
        # otherwise surface as an "unexpected TypeError" of the code under test)
        import inspect
        try:
            inspect.signature(sc.func).bind(None, **{k: v for k, v in params.items() if k != '_native'})
        except TypeError as e:
            out['undecided'] = {'kind': 'error', 'why': 'scenario parameters do not fit its signature: %s' % e, 'tb': ''}
            out['wall_s'] = time.time() - t0
            conn.send(out)
            conn.close()
            return
        sys.stdout = open(os.devnull, 'w')      # the library prints (e.g. rejected insertions); keep check output clean

        def setup(w):
            pass

        def body(w):
            ctx = api.SymCtx(w)
            try:
                sc.func(ctx, **params)
                # a failed check that the scenario's own exception handling swallowed is still a failed check
                for rec in ctx.records:
                    if rec[1] == 'refuted':
                        return ctx, ('failed', rec[0], rec[2])
                return ctx, None
            except api.Skip:
                return ctx, 'skip'
            except api.CheckFailed as e:
                return ctx, ('failed', e.label, e.detail)

        for pr in explore.explore(setup, body, deadline=t0 + budget_s):
            out['paths'] += 1
            w = pr.world
            out['decisions'] += w.decisions
            out['queries'] += w.nq
            out['solver_s'] += w.solver_s
            if w.decisions:
                out['symbolic'] = True
            if pr.exc is not None:
                # the real code raised and the scenario did not expect it
                api_ctx = api.SymCtx(w)
                detail = api_ctx._cex('unexpected %s: %s' % (type(pr.exc).__name__, pr.exc), None)
                detail['traceback'] = pr.tb[-1500:]
                out['failures'].append({'label': 'no-unexpected-exception', 'detail': detail})
                out['labels'].setdefault('no-unexpected-exception', [0, 0])[1] += 1
                continue
            ctx, st = pr.value
            for label, status, _d in ctx.records:
                slot = out['labels'].setdefault(label, [0, 0])
                slot[0 if status == 'proved' else 1] += 1
            if st == 'skip':
                out['skipped_paths'] += 1
            elif st is not None:
                out['failures'].append({'label': st[1], 'detail': st[2]})
                break
    except BaseException as e:   # Undecided, solver trouble, bugs in the harness: never a violation
        from symx.qnum import Undecided
        kind = 'undecided' if isinstance(e, Undecided) else 'error'
        out['undecided'] = {'kind': kind, 'why': '%s: %s' % (type(e).__name__, e),
                            'tb': traceback.format_exc()[-1500:] if kind == 'error' else ''}
    out['wall_s'] = time.time() - t0
    conn.send(out)
    conn.close()


def _run_native(key, params, budget_s, conn):
    """one scenario instance on native floats (run-time checking of the contract; /venv/bin/python, untouched package)"""
    t0 = time.time()
    out = {'key': list(key), 'params': params, 'native': True, 'failures': [], 'labels': {}, 'paths': 1, 'decisions': 0,
           'queries': 0, 'solver_s': 0.0, 'undecided': None, 'symbolic': False, 'skipped_paths': 0}
    env = dict(os.environ)
    env['VERIF_REPO'] = REPO
    try:
        r = subprocess.run([NATIVE_PY, os.path.join(ROOT, 'replay.py'), '--native', key[0], key[1], json.dumps(params)],
                           capture_output=True, text=True, timeout=budget_s, env=env, cwd=ROOT)
        txt = (r.stdout + r.stderr)[-3000:]
        if r.returncode == 1 and 'REPRODUCED' in txt and 'REPLAY-ERROR' not in txt:
            lab = 'native-run'
            m = re.search(r"check '([^']+)' fails", txt)
            if m:
                lab = m.group(1)
            out['failures'].append({'label': lab, 'detail': {'msg': 'run-time check on native floats failed: ' + txt[-600:], 'values': {},
                                                              'native_only': True}})
            out['labels'][lab] = [0, 1]
        elif r.returncode in (0,):
            out['labels']['native-run.all-checks'] = [1, 0]
        else:
            out['undecided'] = {'kind': 'undecided', 'why': 'native run could not be completed: ' + txt[-300:], 'tb': ''}
    except subprocess.TimeoutExpired:
        out['undecided'] = {'kind': 'undecided', 'why': 'native run timed out', 'tb': ''}
    out['wall_s'] = time.time() - t0
    conn.send(out)
    conn.close()


def _run_vc(task, budget_s, conn):
    t0 = time.time()
    try:
        from pyvc import driver
        out = driver.run_contract(task, budget_s)
    except BaseException as e:
        out = {'function': task.get('function'), 'obligations': [], 'error': '%s: %s' % (type(e).__name__, e),
               'tb': traceback.format_exc()[-2000:]}
    out['wall_s'] = time.time() - t0
    conn.send(out)
    conn.close()


# ------------------------------------------------------------------------------------------------
def _schedule(jobs, nproc, hard_factor=1.5, is_failure=None, _retry=True):
    """jobs: list of (target, args, budget_s).  Runs each in its own process, at most nproc at a
    time, kills a job that exceeds hard_factor * budget.  Returns results in job order (None = killed)."""
    results = [None] * len(jobs)
    running = {}
    nxt = 0
    nfail = 0
    ctx = mp.get_context('fork')
    while nxt < len(jobs) or running:
        if nfail >= STOP_AFTER_FAILED_JOBS and nxt < len(jobs):
            for i in range(nxt, len(jobs)):       # enough refutations to report; do not burn time on the rest
                results[i] = {'notrun': True}
            nxt = len(jobs)
        while nxt < len(jobs) and len(running) < nproc:
            target, args, budget = jobs[nxt]
            pr, pw = ctx.Pipe(duplex=False)
            p = ctx.Process(target=target, args=tuple(args) + (pw,))
            p.daemon = True
            p.start()
            pw.close()
            running[nxt] = (p, pr, time.time(), budget)
            nxt += 1
        done = []
        for i, (p, pr, t0, budget) in running.items():
            if pr.poll(0):
                try:
                    results[i] = pr.recv()
                    if is_failure is not None and is_failure(i, results[i]):
                        nfail += 1
                except EOFError:
                    results[i] = None
                p.join(5)
                done.append(i)
            elif not p.is_alive():
                p.join()
                done.append(i)
            elif time.time() - t0 > hard_factor * budget + 10:
                p.terminate()
                p.join(5)
                done.append(i)
        for i in done:
            running.pop(i)
        if not done:
            time.sleep(0.02)
    # a job whose process went away without an answer (killed over budget under heavy load, or died): one more attempt, alone
    if _retry:
        lost = [i for i, r in enumerate(results) if r is None]
        if lost and len(lost) <= 8:
            again = _schedule([jobs[i] for i in lost], 1, hard_factor=hard_factor, is_failure=None, _retry=False)
            for i, r in zip(lost, again):
                results[i] = r
    return results


# ------------------------------------------------------------------------------------------------
def load_known():
    p = os.path.join(ROOT, 'known_findings.json')
    if not os.path.exists(p):
        return []
    return json.load(open(p)).get('findings', [])


def match_known(known, prop, scen, label, params):
    for k in known:
        if k.get('status') != 'open' or k.get('property') != prop:
            continue
        m = k.get('match', {})
        if 'scenario' in m and not re.fullmatch(m['scenario'], scen):
            continue
        if 'label' in m and not re.search(m['label'], label):
            continue
        if 'params' in m:
            ok = True
            for kk, vv in m['params'].items():
                pv = params.get(kk)
                if isinstance(vv, dict):
                    if 'min' in vv and not (pv is not None and pv >= vv['min']):
                        ok = False
                    if 'max' in vv and not (pv is not None and pv <= vv['max']):
                        ok = False
                    if 'in' in vv and pv not in vv['in']:
                        ok = False
                elif pv != vv:
                    ok = False
            if not ok:
                continue
        return k
    return None


def write_replay(prop, kind, payload):
    d = os.path.join(ROOT, 'replays', prop)
    os.makedirs(d, exist_ok=True)
    h = hashlib.sha1(json.dumps(payload, sort_keys=True, default=str).encode()).hexdigest()[:12]
    path = os.path.join(d, '%s-%s.json' % (kind, h))
    with open(path, 'w') as f:
        json.dump(payload, f, indent=1, default=str)
    return path


def native_replay(path, timeout=300):
    """run the replay on the untouched package with native floats; returns (reproduced, output)"""
    env = dict(os.environ)
    env['VERIF_REPO'] = REPO
    try:
        r = subprocess.run([NATIVE_PY, os.path.join(ROOT, 'replay.py'), path], capture_output=True, text=True,
                           timeout=timeout, env=env, cwd=ROOT)
    except subprocess.TimeoutExpired:
        return False, 'replay timed out'
    out = (r.stdout + r.stderr)[-3000:]
    return (r.returncode == 1 and 'REPRODUCED' in out and 'REPLAY-ERROR' not in out), out


# ------------------------------------------------------------------------------------------------
def run_property(prop, tier, seed, nproc=None, only=None, verbose=False):
    t_start = time.time()
    nproc = nproc or int(os.environ.get('VERIF_NPROC', '0')) or min(16, os.cpu_count() or 4)
    sys.path.insert(0, ROOT)
    from symx import loader
    loader.install(REPO)
    from harness import api
    api.load_all()
    scen = [(k, s) for k, s in sorted(api.SCENARIOS.items()) if k[0] == prop and (only is None or re.search(only, k[1]))]
    budget = {'quick': 150, 'thorough': 1500}[tier]

    jobs, meta = [], []
    # Engine A contracts
    vc_tasks = []
    try:
        from pyvc import driver
        vc_tasks = driver.tasks_for(prop, tier) if only is None or only.startswith('A:') or True else []
        if only is not None:
            vc_tasks = [t for t in vc_tasks if re.search(only, 'A:' + t['function'])]
    except ImportError:
        vc_tasks = []
    for t in vc_tasks:
        jobs.append((_run_vc, (t, budget), budget))
        meta.append(('A', t))
    # Engine B scenarios, most expensive first where declared
    binst = []
    for k, s in scen:
        for params in s.instances(tier):
            binst.append((k, params))
    for k, params in binst:
        jobs.append((_run_instance, (k, params, budget, seed), budget))
        meta.append(('B', (k, params)))
    n_native = 0
    for k, s in scen:
        for params in s.native_instances(tier):
            p2 = dict(params)
            p2['_native'] = True
            jobs.append((_run_native, (k, params, budget), budget))
            meta.append(('B', (k, p2)))
            n_native += 1

    known = load_known()

    def is_failure(i, r):
        # a job counts towards the early stop only if it has a refutation that is not a listed known finding
        eng, m = meta[i]
        if eng == 'A':
            return any(o.get('status') == 'refuted' and o.get('kind') != 'scaffolding' for o in r.get('obligations', []))
        k, params = m
        return any(match_known(known, prop, k[1], f['label'], params) is None for f in r.get('failures', []))

    results = _schedule(jobs, nproc, is_failure=is_failure)
    A = {'functions': [], 'obligations': 0, 'discharged': 0, 'undecided': [], 'refuted': [], 'solver_s': 0.0,
         'by_backend': {}, 'samples': []}
    B = {'instances': 0, 'paths': 0, 'obligations': 0, 'proved': 0, 'undecided': [], 'symbolic_instances': 0,
         'solver_s': 0.0, 'queries': 0, 'samples': [], 'scenarios': {}}
    refuted = []      # dicts: engine, name, scen, params, label, detail
    crashed = []

    notrun = 0
    for (eng, m), r in zip(meta, results):
        if r is not None and r.get('notrun'):
            notrun += 1
            continue
        if eng == 'A':
            fn = m['function']
            if r is None:
                A['undecided'].append('%s/<killed: over budget>' % fn)
                A['obligations'] += 1
                continue
            if r.get('error'):
                crashed.append('A:%s: %s' % (fn, r['error']))
                if verbose:
                    print(r.get('tb'))
                continue
            prev = [f for f in A['functions'] if f['function'] == fn]
            if prev:
                prev[0]['obligations'] += len(r['obligations'])          # another chunk of the same function
            else:
                A['functions'].append({'function': fn, 'file': r.get('file'), 'obligations': len(r['obligations']),
                                       'dropped': r.get('dropped', []), 'lemmas': r.get('lemmas', 0),
                                       'assumed': r.get('assumed', {})})
            for ob in r['obligations']:
                A['obligations'] += 1
                A['solver_s'] += ob.get('ms', 0) / 1000.0
                name = '%s/%s/%s' % (prop, fn, ob['name'])
                if ob['status'] == 'proved':
                    A['discharged'] += 1
                    A['by_backend'][ob.get('backend', '?')] = A['by_backend'].get(ob.get('backend', '?'), 0) + 1
                    if len(A['samples']) < 6:
                        A['samples'].append({'obligation': name, 'verdict': 'proved', 'backend': ob.get('backend'),
                                             'ms': ob.get('ms'), 'hyps': ob.get('nhyps')})
                elif ob['status'] == 'refuted':
                    refuted.append({'engine': 'A', 'name': name, 'scen': 'A:' + fn, 'params': {}, 'label': ob['name'],
                                    'detail': ob, 'kind': ob.get('kind', 'contract')})
                else:
                    A['undecided'].append(name + ' (%s)' % ob.get('why', 'unknown'))
            if verbose:
                print('  A:%-60s obligations=%-3d %.1fs' % (fn + (' chunk %s' % (m.get('chunk'),) if m.get('chunk') else ''),
                                                           len(r['obligations']), r.get('wall_s', 0)))
            if r.get('canary_proved'):
                crashed.append('A:%s: vacuity canary was proved (contradictory requires?)' % fn)
        else:
            k, params = m
            sname = k[1]
            iname = '%s/%s[%s]' % (prop, sname, _pstr(params))
            B['instances'] += 1
            sc = B['scenarios'].setdefault(sname, {'instances': 0, 'paths': 0, 'obligations': 0, 'fns': api.SCENARIOS[k].fns})
            sc['instances'] += 1
            if r is None:
                B['undecided'].append(iname + ' (killed: over budget)')
                continue
            if r.get('native'):
                # run-time check on native floats: a third, weaker kind of evidence, counted on its own
                B['instances'] -= 1
                sc['instances'] -= 1
                B['native_runs'] = B.get('native_runs', 0) + 1
                if r['undecided']:
                    B['undecided'].append('%s (%s)' % (iname, r['undecided']['why']))
                for f in r['failures']:
                    refuted.append({'engine': 'B', 'name': '%s/%s' % (iname, f['label']), 'scen': sname, 'params': params,
                                    'label': f['label'], 'detail': f['detail'], 'kind': 'contract'})
                if not r['failures'] and not r['undecided']:
                    B['native_passed'] = B.get('native_passed', 0) + 1
                continue
            B['paths'] += r['paths']
            sc['paths'] += r['paths']
            B['solver_s'] += r['solver_s']
            B['queries'] += r['queries']
            if r['symbolic']:
                B['symbolic_instances'] += 1
            for label, (ok, bad) in r['labels'].items():
                B['obligations'] += 1
                sc['obligations'] += 1
                if bad == 0 and not r['undecided']:
                    B['proved'] += 1
            if r['undecided']:
                u = r['undecided']
                if u['kind'] == 'error':
                    crashed.append('%s: %s\n%s' % (iname, u['why'], u['tb']))
                else:
                    B['undecided'].append('%s (%s)' % (iname, u['why']))
            if r['paths'] == 0 and not r['undecided']:
                crashed.append('%s: zero feasible paths (vacuous precondition)' % iname)
            for f in r['failures']:
                refuted.append({'engine': 'B', 'name': '%s/%s' % (iname, f['label']), 'scen': sname, 'params': params,
                                'label': f['label'], 'detail': f['detail'], 'kind': 'contract'})
            if len(B['samples']) < 6 and r['labels']:
                B['samples'].append({'instance': iname, 'paths': r['paths'], 'decisions': r['decisions'],
                                     'labels': sorted(r['labels'])[:6], 'wall_s': round(r['wall_s'], 2)})
            if verbose:
                print('  %-70s paths=%-4d obl=%-4d %.1fs %s' % (iname, r['paths'], len(r['labels']), r['wall_s'],
                                                              'UNDECIDED ' + r['undecided']['why'] if r['undecided'] else ''))

    # ---- refutations: replay, known findings
    violations, known_hits, scaffolding = [], [], []
    seen_known = set()
    groups, suppressed, a_unconfirmed = {}, [], []
    for rf in refuted:
        if rf['engine'] == 'A' and rf['kind'] == 'scaffolding' and not (isinstance(rf['detail'], dict) and rf['detail'].get('inputs')):
            scaffolding.append(rf)
            continue
        kf = match_known(known, prop, rf['scen'], rf['label'], rf['params'])
        payload = {'property': prop, 'obligation': rf['name'], 'engine': rf['engine'], 'scenario': rf['scen'],
                   'params': {k_: v_ for k_, v_ in rf['params'].items() if k_ != '_native'}, 'label': rf['label'],
                   'detail': rf['detail'], 'repo': REPO}
        if kf is not None:
            if kf['id'] not in seen_known:
                seen_known.add(kf['id'])
                known_hits.append((kf, rf))
            continue
        gkey = (rf['scen'], re.sub(r'\[\d+\]', '', rf['label']))
        groups[gkey] = groups.get(gkey, 0) + 1
        if groups[gkey] > 1 or len(violations) >= MAX_REPLAYS:
            suppressed.append(rf)
            continue
        path = write_replay(prop, 'cex', payload)
        reproduced, output = native_replay(path)
        payload['replay_output'] = output
        payload['reproduced'] = reproduced
        with open(path, 'w') as f:
            json.dump(payload, f, indent=1, default=str)
        if rf['engine'] == 'A' and not reproduced:
            # an Engine-A counter-model may be an artefact of finite quantifier instantiation or describe an
            # unreachable loop-head state: without a reproducing input it is an undecided obligation, not a violation
            groups[gkey] -= 1
            (scaffolding if rf['kind'] == 'scaffolding' else a_unconfirmed).append(rf)
            continue
        violations.append((rf, path, reproduced))

    for kf, rf in known_hits:
        print('KNOWN-FINDING: property=%s %s [%s]' % (prop, kf['what'], rf['name']))
    for rf in scaffolding:
        print('UNDECIDED obligation=%s reason=scaffolding-refuted' % rf['name'])
    for rf in a_unconfirmed:
        print('UNDECIDED obligation=%s reason=counter-model-not-reproduced-natively' % rf['name'])
    for u in A['undecided'] + B['undecided']:
        print('UNDECIDED obligation=%s' % u)
    for c in crashed:
        print('CHECKER-ERROR %s' % c)
    for rf, path, reproduced in violations:
        print('VIOLATION property=%s replay=%s%s' % (prop, path, '' if reproduced else ' no-failing-input-found'))
        print('  obligation: %s' % rf['name'])
        d = rf['detail']
        print('  reason: %s' % _short(str(d.get('msg') if isinstance(d, dict) else d), 400))

    if notrun:
        print('  (%d jobs not run: stopped after %d jobs with refuted obligations)' % (notrun, STOP_AFTER_FAILED_JOBS))
    if suppressed:
        print('  (+%d more refuted obligations of the same kinds, not replayed individually)' % len(suppressed))
    wall = time.time() - t_start
    n_und = len(A['undecided']) + len(B['undecided']) + len(scaffolding) + len(a_unconfirmed)
    write_evidence(prop, tier, seed, A, B, violations, known_hits, n_und, crashed, wall, scen, api)
    total_obl = A['obligations'] + B['obligations']
    print('%s %s: A: %d/%d obligations discharged over %d functions; B: %d instances, %d paths, %d/%d obligations proved; '
          'undecided=%d known-findings=%d violations=%d  %.1fs'
          % (prop, tier, A['discharged'], A['obligations'], len(A['functions']), B['instances'], B['paths'], B['proved'],
             B['obligations'], n_und, len(known_hits), len(violations), wall))
    if violations:
        return 1
    if crashed or total_obl == 0:
        if total_obl == 0:
            print('CHECKER-ERROR zero obligations generated for %s' % prop)
        return 3
    if B['undecided']:
        return 2
    if n_und and B['instances'] == 0:
        return 2
    # Engine-A obligations undecided (proof broken, e.g. by a refactor) while the bounded stand-in decided and passed
    # everything: the property is not shown violated; the drop in level is recorded in the evidence file
    return 0


def _pstr(params):
    return ','.join('%s=%s' % (k, _pv(v)) for k, v in sorted(params.items()))


def _pv(v):
    if isinstance(v, (list, tuple)):
        return '(' + ' '.join(_pv(x) for x in v) + ')'
    return str(v)


def _short(s, n=300):
    return s if len(s) <= n else s[:n] + '...'


def write_evidence(prop, tier, seed, A, B, violations, known_hits, n_und, crashed, wall, scen, api):
    from harness import assumptions
    meta = assumptions.PROPS.get(prop, {})
    # the evidence level is the level claimed in MANIFEST.json (single source: harness/manifest_data.py)
    from harness import manifest_data
    claimed = manifest_data.CLAIMED.get(prop, {}).get('category', 'other')
    proofish = claimed == 'proof'
    cov = {
        'obligations': A['obligations'],
        'discharged': A['discharged'],
        'checker_cmd': './check %s --tier %s' % (prop, tier),
        'trusted_base': assumptions.TRUSTED_BASE,
        'engine_A': {'functions_under_contract': A['functions'], 'by_backend': A['by_backend'],
                     'solver_s': round(A['solver_s'], 3), 'undecided': A['undecided'][:50]},
        'engine_B_bounded': {'label': 'bounded: exhaustive symbolic execution per enumerated shape; never counted as proved',
                             'instances': B['instances'], 'paths': B['paths'], 'obligations': B['obligations'],
                             'proved_on_every_path': B['proved'], 'solver_queries': B['queries'],
                             'solver_s': round(B['solver_s'], 2), 'undecided': B['undecided'][:50],
                             'scenarios': B['scenarios'],
                             'native_float_runs': {'label': 'run-time checking of the same contracts on native floats (defects that only '
                                                   'exist in floating point, outside A1); testing-grade, never counted as proved',
                                                   'runs': B.get('native_runs', 0), 'passed': B.get('native_passed', 0)}},
        'evaluations': B['paths'],
        'distinct_nontrivial': B['symbolic_instances'],
        'rule': 'one case = one (scenario, shape parameters) instance explored over all feasible paths; non-trivial = the '
                'instance contained at least one solver-decided symbolic branch; distinct by parameter tuple',
        'samples': (A['samples'] + B['samples']) or [{'note': 'no obligations'}],
        'explanation': meta.get('explanation', '') or (
            'Engine A: verification conditions generated from the AST of the real functions with sidecar contracts, '
            'discharged by SMT for all inputs. Engine B: exhaustive per-shape symbolic execution of the real code over '
            'exact rational functions (complete over all real-valued inputs inside each enumerated shape), labelled bounded.'),
        'exhaustive': False,
        'known_findings_reported': [k['id'] for k, _ in known_hits],
        'checker_errors': crashed[:10],
        'undecided': n_und,
    }
    ev = {'property_id': prop, 'tier': tier, 'seed': int(seed), 'level': claimed,
          'coverage': cov, 'assumptions': assumptions.for_prop(prop), 'wall_s': round(wall, 2),
          'violations': len(violations)}
    os.makedirs(os.path.join(ROOT, 'evidence'), exist_ok=True)
    with open(os.path.join(ROOT, 'evidence', '%s.json' % prop), 'w') as f:
        json.dump(ev, f, indent=1, default=str)
