"""C15 Tessellation is a valid triangulation lying on the surface; mesh exports describe exactly this mesh (bounded tier).

Postconditions, taken from the property statement:

  (a) topology, EXHAUSTIVE over its stated range (mesh topology does not depend on coordinates, so the real
      tessellate.TriangularTessellate / _tessellate.make_triangle_mesh (+ its inner fix_numbering, polygon_triangulate,
      surface_tessellate) and tessellate.QuadTessellate / make_quad_mesh are run on concrete grids for EVERY
      (size_u, size_v) in the range and EVERY vertex_spacing that divides both size-1 values):
        - vertex ids are 0..V-1 in list order; every face references, by object, vertices of that list;
        - every vertex sits on a node of the sampling lattice, no two on the same node, and carries the input point of
          that node (triangles: node = stored uv; quads: see `quad_vertex_params`);
        - every face is positively oriented in (u,v) and the areas sum to the area of the parametric rectangle;
        - no two faces run through an edge in the same direction; an edge on the border of the rectangle belongs to one
          face, every other edge to exactly two (hence with opposite orientation); V - E + F = 1;
  (b) the same through the object API on SYMBOLIC surfaces (symbolic control points / weights / interior knots):
      Surface.tessellate / .vertices / .faces, and vertex.data = S(vertex.uv) by the spec (harness/spec.py);
      multi.SurfaceContainer.tessellate / .vertices / .faces for 1..3 surfaces (ids consecutive over the union);
  (c) exchange.export_obj_str / export_off_str / export_stl_str (ascii, binary) of a surface or a container of 1..3
      surfaces, parsed back by the small readers below: vertex / face counts = those of the meshes, every index inside
      the vertex block of its own surface (per-surface offset), vertex records = the mesh vertices (= spec points),
      every STL facet = the three vertices of the mesh triangle in order, and its normal is a positive multiple of
      (v1-v0) x (v2-v0) of the facet's own vertices (right-hand rule; the statement prescribes no length);
  (d) EXPLORATION-GRADE (a handful of concrete trim placements, not a proof and not exhaustive): with a closed
      polygonal (freeform) or spline trim curve the omitted region matches the trimmed region to within one sampling
      cell - the precise statement is in `trim_region`.

How numbers travel: str(x) of an exact number is an opaque token that float(token) maps back (A3).  Binary STL (A4):
in sym mode the global `struct` of geomdl.exchange is replaced by a recording stand-in - pack('<3f', a, b, c) stores the
three exact numbers in a table and emits their table indices as 12 real bytes, every other format goes to the real
struct - so that all byte layout / counting code of the exporter runs for real and the reader below recovers the exact
numbers; the native replay uses the untouched struct and compares float32 values with the replay tolerance.
geomdl.ray reads sys.float_info.epsilon (a raw float): in sym mode the global `sys` of geomdl.ray is replaced by a
stand-in whose float_info.epsilon is the exact rational 2**-52 (A1).

Ranges: topology quick = every (size_u, size_v) in [2,12]^2, thorough = [2,40]^2 (the property's own range), every
spacing dividing both size-1 values (spacings >= 3 in instances of their own, see known finding
C15-triangle-mesh-vertex-spacing); object API / containers / exports: sample sizes 2..7 (thorough ..9), spacing 1..4.
Not claimed: face ids (the statement numbers vertices only), the direction of OBJ 'vn' vertex normals (only their count),
histories (exporting after SurfaceContainer.tessellate etc. belongs to C12).

Shape family: normalised clamped knot vectors (normalize_kv left at its default; the other setting belongs to C17),
sample sizes and spacings as listed per scenario, one symbolic coordinate per control point (the other two are concrete
and chosen so that the (y,z) projection of every mesh triangle is non-degenerate: the sign test of the facet normals is
then a comparison of constants).
"""
import os
import shutil
import struct as _real_struct
import tempfile
from fractions import Fraction

from .api import scenario
from . import shapes, spec, assumptions

assumptions.PROPS['C15'] = {
    'level': 'other', 'assume': ['A1', 'A2', 'A3', 'A4', 'A5', 'A6'],
    'explanation': 'Engine B. Mesh topology (tri_topology, quad_topology) is run on concrete grids for every (size_u, size_v) of '
                   'the stated range and every admissible vertex_spacing: exhaustive over that range, independent of '
                   'coordinates. Surface / container / export scenarios run the real code on symbolic surfaces (exact rational '
                   'functions) for the listed sample sizes; printed numbers travel as opaque tokens (A3), struct.pack as a '
                   'recording stand-in (A4). trim_region is exploration-grade: concrete trim placements only.'}


# ------------------------------------------------------------------------------------------------
# small helpers
# ------------------------------------------------------------------------------------------------
def _call(ctx, label, fn, *args, **kw):
    """a call of the code under contract; an exception is the failed obligation `label` (the label carries the sizes,
    so that a known defect can be matched by its own class only)"""
    try:
        r = fn(*args, **kw)
    except Exception as e:      # the explorer's control exceptions derive from BaseException and pass through
        ctx.check_true('%s.raised.%s' % (label, type(e).__name__), False, 'the real code raised %s: %s' % (type(e).__name__, e))
    ctx.check_true(label, True)
    return r


def _fr(ctx, x):
    """the concrete value of a number as a Fraction (exact in sym mode, the float's exact value natively)"""
    f = ctx.as_fraction(x)
    if f is None:
        raise AssertionError('harness: a symbolic number where a concrete one is expected')
    return f


def _node(ctx, x, n):
    """k with x = k/n, else None (natively: nearest k within 1e-6 of x*n)"""
    f = _fr(ctx, x) * n
    k = int(round(f))
    if ctx.mode == 'sym':
        return k if f == k else None
    return k if abs(f - k) < Fraction(1, 10 ** 6) else None


def _cross2(o, a, b):
    return (a[0] - o[0]) * (b[1] - o[1]) - (a[1] - o[1]) * (b[0] - o[0])


def _grid_points(ctx, su, sv):
    """concrete, pairwise different points of a size_u x size_v grid, v fastest (the layout of Surface.evalpts)"""
    return [[ctx.lit(i), ctx.lit(j), ctx.lit(Fraction(i * sv + j + 1, 3))] for i in range(su) for j in range(sv)]


def _same_point(a, b):
    return len(a) == len(b) and all(x == y for x, y in zip(a, b))


# ------------------------------------------------------------------------------------------------
# the mesh contract
# ------------------------------------------------------------------------------------------------
def _check_mesh(ctx, tag, verts, faces, pos, dims, nside, base=0):
    """verts: Vertex objects; faces: Triangle / Quad objects; pos[k] = integer lattice node (a, b) of verts[k],
    0 <= a <= dims[0], 0 <= b <= dims[1]; base = id of the first vertex (container blocks)"""
    V, F = len(verts), len(faces)
    A, B = dims
    ids = [v.id for v in verts]
    ctx.check_true(tag + '.vertex_ids_consecutive', ids == list(range(base, base + V)),
                   'vertex ids %r..., expected %d..%d' % (ids[:12], base, base + V - 1))
    bad = None
    for f in faces:
        d = list(f.data)
        fv = list(f.vertices)
        if len(d) != nside or len(fv) != nside:
            bad = 'face %d has %d vertices' % (f.id, len(d))
            break
        for i, v in zip(d, fv):
            if not (base <= i < base + V) or verts[i - base] is not v:
                bad = 'face %d references vertex id %r which is not a vertex of the mesh (V = %d)' % (f.id, i, V)
                break
        if bad:
            break
    ctx.check_true(tag + '.faces_reference_existing_vertices', bad is None, bad)
    ctx.check_true(tag + '.vertices_on_distinct_nodes', all(p is not None and 0 <= p[0] <= A and 0 <= p[1] <= B for p in pos)
                   and len(set(pos)) == V, 'vertices off the sampling lattice or two vertices on one node')
    # orientation and area, in lattice units (cell = 1 x 1; the rectangle has area A*B)
    total2, bad = 0, None
    for f in faces:
        q = [pos[i - base] for i in f.data]
        a2 = sum(q[k][0] * q[(k + 1) % nside][1] - q[(k + 1) % nside][0] * q[k][1] for k in range(nside))
        convex = all(_cross2(q[k], q[(k + 1) % nside], q[(k + 2) % nside]) > 0 for k in range(nside))
        if a2 <= 0 or not convex:
            bad = 'face %d %r: nodes %r, twice the signed area %s' % (f.id, list(f.data), q, a2)
            break
        total2 += a2
    ctx.check_true(tag + '.faces_positively_oriented', bad is None, bad)
    ctx.check_true(tag + '.areas_sum_to_rectangle', total2 == 2 * A * B,
                   'sum of face areas %s lattice cells, rectangle %d' % (Fraction(total2, 2), A * B))
    # edges
    directed = {}
    for f in faces:
        d = list(f.data)
        for k in range(nside):
            e = (d[k], d[(k + 1) % nside])
            directed[e] = directed.get(e, 0) + 1
    twice = [e for e, c in directed.items() if c > 1]
    ctx.check_true(tag + '.no_edge_twice_in_one_direction', not twice, 'directed edges used more than once: %r' % (twice[:4],))
    und = {}
    for (a, b), c in directed.items():
        k = (a, b) if a < b else (b, a)
        und[k] = und.get(k, 0) + c
    bad = None
    for (a, b), c in und.items():
        pa, pb = pos[a - base], pos[b - base]
        border = (pa[0] == pb[0] and pa[0] in (0, A)) or (pa[1] == pb[1] and pa[1] in (0, B))
        if c != (1 if border else 2):
            bad = 'edge %r (nodes %r-%r, %s) belongs to %d faces' % ((a, b), pa, pb, 'border' if border else 'interior', c)
            break
    ctx.check_true(tag + '.interior_edges_shared_by_two_border_by_one', bad is None, bad)
    ctx.check_true(tag + '.euler_characteristic_of_a_disc', V - len(und) + F == 1,
                   'V - E + F = %d - %d + %d = %d' % (V, len(und), F, V - len(und) + F))


def _uv_nodes(ctx, verts, su, sv, sp):
    """lattice node of every vertex from its stored (u, v): u = a*sp/(su-1), v = b*sp/(sv-1)"""
    out = []
    for v in verts:
        a, b = _node(ctx, v.uv[0], su - 1), _node(ctx, v.uv[1], sv - 1)
        if a is None or b is None or a % sp or b % sp:
            out.append(None)
        else:
            out.append((a // sp, b // sp))
    return out


def _check_tri_grid(ctx, tag, verts, faces, pts, su, sv, sp):
    """the complete contract of an untrimmed triangle mesh of a size_u x size_v grid of input points"""
    pos = _uv_nodes(ctx, verts, su, sv, sp)
    _check_mesh(ctx, tag, verts, faces, pos, ((su - 1) // sp, (sv - 1) // sp), 3)
    bad = None
    for v, p in zip(verts, pos):
        if not _same_point(v.data, pts[p[1] * sp + sv * p[0] * sp]):
            bad = 'vertex %d at uv %r does not carry the input point of that node' % (v.id, tuple(v.uv))
            break
    ctx.check_true(tag + '.vertex_carries_point_of_its_uv', bad is None, bad)


# ------------------------------------------------------------------------------------------------
# (a) topology, exhaustive over sizes and spacings
# ------------------------------------------------------------------------------------------------
def _combos(su_rng, sv_rng, sp_rng):
    return [(su, sv, sp) for su in range(su_rng[0], su_rng[1] + 1) for sv in range(sv_rng[0], sv_rng[1] + 1)
            for sp in range(sp_rng[0], sp_rng[1] + 1) if (su - 1) % sp == 0 and (sv - 1) % sp == 0]


def _topology_instances(tier):
    """sp = the smallest spacing of the instance, sp_hi the largest"""
    out = []
    if tier == 'quick':
        hi = 12
        out.append(dict(su_lo=2, su_hi=hi, sv_lo=2, sv_hi=hi, sp=1, sp_hi=2))
        for lo, up in ((3, 3), (4, 4), (5, hi - 1)):
            out.append(dict(su_lo=2, su_hi=hi, sv_lo=2, sv_hi=hi, sp=lo, sp_hi=up))
    else:
        hi = 40
        for su in range(2, hi + 1):
            out.append(dict(su_lo=su, su_hi=su, sv_lo=2, sv_hi=hi, sp=1, sp_hi=2))
        for lo, up in ((3, 3), (4, 4), (5, 6), (7, 10), (11, hi - 1)):
            out.append(dict(su_lo=2, su_hi=hi, sv_lo=2, sv_hi=hi, sp=lo, sp_hi=up))
    return [p for p in out if _combos((p['su_lo'], p['su_hi']), (p['sv_lo'], p['sv_hi']), (p['sp'], p['sp_hi']))]


@scenario('C15', fns=['_tessellate.make_triangle_mesh', '_tessellate.make_triangle_mesh.fix_numbering',
                      '_tessellate.polygon_triangulate', '_tessellate.surface_tessellate',
                      'tessellate.TriangularTessellate.tessellate', 'tessellate.AbstractTessellate.vertices',
                      'tessellate.AbstractTessellate.faces', 'elements.Vertex', 'elements.Triangle'],
          quick=lambda: _topology_instances('quick'), thorough=lambda: _topology_instances('thorough'))
def tri_topology(ctx, su_lo, su_hi, sv_lo, sv_hi, sp, sp_hi):
    """requires: size_u in [su_lo, su_hi], size_v in [sv_lo, sv_hi], vertex_spacing in [sp, sp_hi] dividing both
                 size-1 values - EVERY such triple is run (exhaustive over the stated range); concrete distinct points
       ensures : contract (a) of the module docstring for TriangularTessellate.tessellate (and, for grids of at most
                 64 points, for a direct call of make_triangle_mesh; spacing 1 also through the default argument)"""
    tsl = ctx.geomdl('tessellate')
    low = ctx.geomdl('_tessellate')
    for su, sv, sp in _combos((su_lo, su_hi), (sv_lo, sv_hi), (sp, sp_hi)):
        pts = _grid_points(ctx, su, sv)
        tag = 'tri[%dx%d,sp=%d]' % (su, sv, sp)
        t = tsl.TriangularTessellate()
        _call(ctx, tag + '.tessellate', t.tessellate, pts, size_u=su, size_v=sv, vertex_spacing=sp)
        ctx.check_true(tag + '.is_tessellated', bool(t.is_tessellated()))
        _check_tri_grid(ctx, tag, t.vertices, t.faces, pts, su, sv, sp)
        nu, nv = (su - 1) // sp + 1, (sv - 1) // sp + 1
        ctx.check_true(tag + '.counts', len(t.vertices) == nu * nv and len(t.faces) == 2 * (nu - 1) * (nv - 1),
                       '%d vertices, %d triangles for %d x %d nodes' % (len(t.vertices), len(t.faces), nu, nv))
        if su * sv <= 64:
            kw = {} if sp == 1 else {'vertex_spacing': sp}
            V, F = _call(ctx, tag + '.make_triangle_mesh', low.make_triangle_mesh, pts, su, sv, **kw)
            _check_tri_grid(ctx, tag + '.fn', V, F, pts, su, sv, sp)


def _quad_instances(tier):
    if tier == 'quick':
        return [dict(su_lo=2, su_hi=12, sv_lo=2, sv_hi=12)]
    return [dict(su_lo=su, su_hi=min(su + 2, 40), sv_lo=2, sv_hi=40) for su in range(2, 41, 3)]


def _quad_nodes(ctx, verts, pts, su, sv):
    """lattice node of every quad-mesh vertex, found by its coordinates among the (pairwise different) input points"""
    where = {}
    for i in range(su):
        for j in range(sv):
            where[tuple(_fr(ctx, c) for c in pts[j + sv * i])] = (i, j)
    return [where.get(tuple(_fr(ctx, c) for c in v.data)) for v in verts]


@scenario('C15', fns=['_tessellate.make_quad_mesh', 'tessellate.QuadTessellate.tessellate', 'elements.Quad'],
          quick=lambda: _quad_instances('quick'), thorough=lambda: _quad_instances('thorough'))
def quad_topology(ctx, su_lo, su_hi, sv_lo, sv_hi):
    """requires: every (size_u, size_v) of the range (exhaustive); concrete pairwise different points
       ensures : contract (a) for QuadTessellate.tessellate, faces = quads; the node of a vertex is identified by its
                 coordinates (the position of a vertex in parameter space is the subject of `quad_vertex_params`)"""
    tsl = ctx.geomdl('tessellate')
    for su, sv, _sp in _combos((su_lo, su_hi), (sv_lo, sv_hi), (1, 1)):
        pts = _grid_points(ctx, su, sv)
        tag = 'quad[%dx%d]' % (su, sv)
        t = tsl.QuadTessellate()
        _call(ctx, tag + '.tessellate', t.tessellate, pts, size_u=su, size_v=sv)
        pos = _quad_nodes(ctx, t.vertices, pts, su, sv)
        _check_mesh(ctx, tag, t.vertices, t.faces, pos, (su - 1, sv - 1), 4)
        ctx.check_true(tag + '.counts', len(t.vertices) == su * sv and len(t.faces) == (su - 1) * (sv - 1))


@scenario('C15', fns=['_tessellate.make_quad_mesh', 'tessellate.QuadTessellate.tessellate', 'elements.Vertex.uv'],
          quick=[dict(su=2, sv=2), dict(su=3, sv=4), dict(su=7, sv=5)],
          thorough=[dict(su=2, sv=2), dict(su=3, sv=4), dict(su=7, sv=5), dict(su=40, sv=23)])
def quad_vertex_params(ctx, su, sv):
    """ensures: every vertex of the quadrilateral tessellation stores the parameters of its own sample,
                uv = (i/(size_u-1), j/(size_v-1)) for the input point j + size_v*i (the statement: 'each vertex position
                is the surface evaluated at its stored parameters', for the triangular AND the quadrilateral mesh)"""
    tsl = ctx.geomdl('tessellate')
    pts = _grid_points(ctx, su, sv)
    t = tsl.QuadTessellate()
    _call(ctx, 'quad.tessellate', t.tessellate, pts, size_u=su, size_v=sv)
    pos = _quad_nodes(ctx, t.vertices, pts, su, sv)
    for v, p in zip(t.vertices, pos):
        ctx.check_true('quad.vertex_is_an_input_point', p is not None)
        ctx.check_eq_vec('quad.vertex[%d,%d].uv' % p, list(v.uv), [ctx.lit(Fraction(p[0], su - 1)), ctx.lit(Fraction(p[1], sv - 1))])


# ------------------------------------------------------------------------------------------------
# shape family for the object-level scenarios
# ------------------------------------------------------------------------------------------------
S_BILIN = dict(deg=[1, 1], mult=[[], []], rational=False)           # 2 x 2
S_21 = dict(deg=[2, 1], mult=[[1], []], rational=False)             # 4 x 2
S_12R = dict(deg=[1, 2], mult=[[], []], rational=True)              # 2 x 3, rational
S_22 = dict(deg=[2, 2], mult=[[], [1]], rational=False)             # 3 x 4
S_11K = dict(deg=[1, 1], mult=[[1], [1, 1]], rational=False)        # 3 x 4, interior knots
S_32R = dict(deg=[3, 2], mult=[[1], []], rational=True)             # 5 x 3, rational


def _kv(ctx, p, mult, prefix, symbolic, off):
    """clamped normalised knot vector: interior knots symbolic (ordered, distinct) or distinct constants"""
    if symbolic:
        U, _inner, n = shapes.make_kv(ctx, p, mult, prefix=prefix)
        return U, n
    m = len(mult)
    U = [ctx.lit(0)] * (p + 1)
    for j, r in enumerate(mult):
        U += [ctx.lit(Fraction(2 * j + 2 + off, 2 * m + 2 + off + 1))] * r
    U += [ctx.lit(1)] * (p + 1)
    return U, p + 1 + sum(mult)


def _surface_data(ctx, sh, tag, symbolic_kv=False, symbolic_w=False, off=0):
    """control net: x symbolic per point; y = 3i + j^2/7 + off, z = 2j + i/5 (the (y,z) image of the parameter
    rectangle is an orientation preserving, non-degenerate map for every B-spline / positive-weight NURBS of the family)"""
    pu, pv = sh['deg']
    U, su = _kv(ctx, pu, sh['mult'][0], tag + 'a', symbolic_kv, off)
    V, sv = _kv(ctx, pv, sh['mult'][1], tag + 'b', symbolic_kv, off + 1)
    P = []
    for i in range(su):
        for j in range(sv):
            P.append([ctx.num('%sP%d' % (tag, j + sv * i)), ctx.lit(Fraction(21 * i + j * j, 7) + off),
                      ctx.lit(Fraction(10 * j + i, 5))])
    W = None
    if sh['rational']:
        if symbolic_w:
            W = shapes.weights(ctx, tag + 'w', su * sv)
        else:
            W = [ctx.lit(Fraction(k + 3, k + 2)) for k in range(su * sv)]
    return dict(deg=[pu, pv], kvs=[U, V], sizes=[su, sv], P=P, W=W, rational=sh['rational'])


def _build(ctx, d):
    return shapes.build_surface(ctx, d['deg'][0], d['deg'][1], d['kvs'][0], d['kvs'][1], d['P'], d['sizes'][0],
                                d['sizes'][1], d['W'])


def _S(ctx, d, u, v):
    """the point of the definition (spec.py), projected for rational shapes"""
    pu, pv = d['deg']
    U, V = d['kvs']
    su, sv = d['sizes']
    if d['W'] is None:
        return spec.surface_point(pu, pv, U, V, d['P'], su, sv, u, v)
    ctx.assume_pos(spec.surface_point(pu, pv, U, V, [[w] for w in d['W']], su, sv, u, v)[0], 'L.weight_function_positive')
    return spec.project(spec.surface_point(pu, pv, U, V, shapes.homog(d['P'], d['W']), su, sv, u, v))


def _check_surface_mesh(ctx, tag, srf, d, nu, nv, sp, verts=None, faces=None, base=0):
    """contract (a)+(b) of the triangle mesh held by a surface that was sampled nu x nv with spacing sp"""
    verts = srf.tessellator.vertices if verts is None else verts
    faces = srf.tessellator.faces if faces is None else faces
    pos = _uv_nodes(ctx, verts, nu, nv, sp)
    _check_mesh(ctx, tag, verts, faces, pos, ((nu - 1) // sp, (nv - 1) // sp), 3, base=base)
    for v, p in zip(verts, pos):
        ctx.check_eq_vec('%s.vertex[%d,%d]=S(uv)' % (tag, p[0], p[1]), v.data, _S(ctx, d, v.uv[0], v.uv[1]))


# ------------------------------------------------------------------------------------------------
# (b) object API on symbolic surfaces
# ------------------------------------------------------------------------------------------------
def _surface_instances(tier):
    out = [dict(shape=S_BILIN, samples=[2, 2], sp=1, symbolic_kv=False),
           dict(shape=S_BILIN, samples=[3, 4], sp=1, symbolic_kv=False),
           dict(shape=S_21, samples=[3, 2], sp=1, symbolic_kv=True),
           dict(shape=S_21, samples=[5, 3], sp=2, symbolic_kv=False),
           dict(shape=S_12R, samples=[2, 3], sp=1, symbolic_kv=False),
           dict(shape=S_22, samples=[4, 4], sp=1, symbolic_kv=False),
           dict(shape=S_11K, samples=[3, 3], sp=2, symbolic_kv=True),
           dict(shape=S_22, samples=[4, 7], sp=3, symbolic_kv=False),
           # the surface was sampled on a sub-rectangle of its domain before (evaluate(start_u=..., stop_v=...))
           dict(shape=S_21, samples=[3, 4], sp=1, symbolic_kv=False, pre='partial'),
           dict(shape=S_12R, samples=[3, 3], sp=2, symbolic_kv=False, pre='partial')]
    if tier == 'thorough':
        out += [dict(shape=S_22, samples=[4, 3], sp=1, symbolic_kv=True),
                dict(shape=S_32R, samples=[3, 4], sp=1, symbolic_kv=False),
                dict(shape=S_12R, samples=[5, 5], sp=2, symbolic_kv=False),
                dict(shape=S_21, samples=[5, 9], sp=4, symbolic_kv=False),
                dict(shape=S_11K, samples=[6, 5], sp=1, symbolic_kv=False)]
    return out


@scenario('C15', fns=['abstract.Surface.tessellate', 'abstract.Surface.vertices', 'abstract.Surface.faces',
                      'abstract.Surface.tessellator', 'tessellate.TriangularTessellate.tessellate',
                      '_tessellate.make_triangle_mesh', 'BSpline.Surface.evaluate_single', 'BSpline.Surface.evaluate',
                      'utilities.check_params'],
          quick=lambda: _surface_instances('quick'), thorough=lambda: _surface_instances('thorough'))
def surface_mesh(ctx, shape, samples, sp, symbolic_kv, pre=None):
    """requires: a valid B-spline / NURBS surface (symbolic control points, positive symbolic weights, optionally symbolic
                 interior knots), sample sizes `samples`, vertex_spacing sp dividing both sample sizes minus one
       ensures : Surface.tessellate(vertex_spacing=sp) [sp = 1: the default] then .vertices / .faces give a mesh with
                 contract (a) on the sp-spaced sampling lattice and vertex.data = S(vertex.uv) for every vertex;
                 .vertices / .faces are the lists of the tessellator; a second tessellate() call keeps them"""
    d = _surface_data(ctx, shape, 's', symbolic_kv=symbolic_kv, symbolic_w=True)
    srf = _build(ctx, d)
    srf.sample_size_u, srf.sample_size_v = samples
    ctx.check_true('setup.sample_size', [srf.sample_size_u, srf.sample_size_v] == list(samples))
    if pre == 'partial':
        srf.evaluate(start_u=ctx.lit(Fraction(1, 4)), stop_u=ctx.lit(Fraction(3, 4)), start_v=ctx.lit(Fraction(1, 8)),
                     stop_v=ctx.lit(Fraction(1, 2)))
    if sp == 1:
        verts = _call(ctx, 'mesh.vertices_property_tessellates', lambda: srf.vertices)
    else:
        _call(ctx, 'mesh.tessellate', srf.tessellate, vertex_spacing=sp)
        verts = srf.vertices
    faces = srf.faces
    ctx.check_true('mesh.properties_are_the_tessellator_lists', verts is srf.tessellator.vertices and faces is srf.tessellator.faces)
    _check_surface_mesh(ctx, 'mesh', srf, d, samples[0], samples[1], sp)
    nu, nv = (samples[0] - 1) // sp + 1, (samples[1] - 1) // sp + 1
    ctx.check_true('mesh.counts', len(verts) == nu * nv and len(faces) == 2 * (nu - 1) * (nv - 1),
                   '%d vertices, %d triangles for %d x %d nodes' % (len(verts), len(faces), nu, nv))
    srf.tessellate()
    ctx.check_true('mesh.second_call_keeps_the_mesh', srf.vertices is verts and srf.faces is faces)


@scenario('C15', fns=['abstract.Surface.tessellate', 'abstract.Surface.tessellator', 'abstract.Surface.vertices',
                      'tessellate.QuadTessellate.tessellate', '_tessellate.make_quad_mesh'],
          quick=[dict(shape=S_BILIN, samples=[2, 2]), dict(shape=S_21, samples=[3, 4])])
def surface_quad(ctx, shape, samples):
    """requires: a valid surface whose tessellator is set to tessellate.QuadTessellate()
       ensures : Surface.tessellate() / .vertices / .faces give the quadrilateral mesh: contract (a) on the sampling
                 lattice (node of a vertex = its stored uv) and vertex.data = S(vertex.uv)"""
    d = _surface_data(ctx, shape, 's')
    srf = _build(ctx, d)
    srf.sample_size_u, srf.sample_size_v = samples
    srf.tessellator = ctx.geomdl('tessellate').QuadTessellate()
    ctx.check_true('setup.tessellator', isinstance(srf.tessellator, ctx.geomdl('tessellate').QuadTessellate))
    _call(ctx, 'quad.surface_tessellate', srf.tessellate)
    verts, faces = srf.vertices, srf.faces
    pos = _uv_nodes(ctx, verts, samples[0], samples[1], 1)
    _check_mesh(ctx, 'quad', verts, faces, pos, (samples[0] - 1, samples[1] - 1), 4)
    for v, p in zip(verts, pos):
        ctx.check_eq_vec('quad.vertex[%d,%d]=S(uv)' % p, v.data, _S(ctx, d, v.uv[0], v.uv[1]))


def _members(ctx, shapes_, symbolic_kv_first=False, symbolic_w=False):
    datas, objs = [], []
    for i, sh in enumerate(shapes_):
        d = _surface_data(ctx, sh, 'xyz'[i], symbolic_kv=(symbolic_kv_first and i == 0), symbolic_w=symbolic_w, off=2 * i)
        datas.append(d)
        objs.append(_build(ctx, d))
    return datas, objs


def _container(ctx, objs):
    c = ctx.geomdl('multi').SurfaceContainer()
    for o in objs:
        c.add(o)
    return c


def _container_instances(tier):
    out = [dict(members=[S_BILIN], own=[[3, 2]], delta=False),
           dict(members=[S_21, S_BILIN], own=[[3, 2], [2, 4]], delta=False),
           dict(members=[S_BILIN, S_12R, S_21], own=[[2, 2], [3, 3], [4, 2]], delta=False),
           dict(members=[S_21, S_12R], own=[[2, 2], [2, 2]], delta=True),
           # the tessellator is chosen through the container: every member must still be meshed on its own surface
           dict(members=[S_21, S_BILIN], own=[[3, 2], [2, 4]], delta=False, via_container='tri'),
           dict(members=[S_BILIN, S_12R, S_21], own=[[2, 3], [3, 3], [4, 2]], delta=False, via_container='tri')]
    if tier == 'thorough':
        out += [dict(members=[S_22, S_11K, S_32R], own=[[3, 4], [4, 3], [2, 5]], delta=False),
                dict(members=[S_BILIN, S_22, S_21], own=[[2, 2], [2, 2], [2, 2]], delta=True)]
    return out


@scenario('C15', fns=['multi.SurfaceContainer.tessellate', 'multi.SurfaceContainer.vertices', 'multi.SurfaceContainer.faces',
                      'multi.process_tessellate', 'multi.AbstractContainer.add', 'abstract.Surface.tessellate'],
          quick=lambda: _container_instances('quick'), thorough=lambda: _container_instances('thorough'))
def container_mesh(ctx, members, own, delta, via_container=None):
    """requires: a fresh container of 1..3 valid surfaces; delta=False: every surface keeps its own sample sizes `own`
                 (tessellate(delta=False)); delta=True: the container's evaluation delta (1/3 x 1/2) is pushed to the surfaces
       ensures : .vertices / .faces of the container: ids 0..V-1 over the union in list order, every face references
                 vertices of that list, the block of every surface is a mesh with contract (a) on that surface's sampling
                 lattice (sizes read back from the surface) and vertex.data = S_k(vertex.uv) of ITS surface"""
    datas, objs = _members(ctx, members, symbolic_w=False)
    for o, ss in zip(objs, own):
        o.sample_size_u, o.sample_size_v = ss
    cont = _container(ctx, objs)
    if via_container:
        cont.tessellator = ctx.geomdl('tessellate').TriangularTessellate()
    if delta:
        cont.delta = [ctx.lit(Fraction(1, 3)), ctx.lit(Fraction(1, 2))]
        _call(ctx, 'container.tessellate', cont.tessellate)
    else:
        _call(ctx, 'container.tessellate', cont.tessellate, delta=False)
    verts, faces = cont.vertices, cont.faces
    sizes = [[e.sample_size_u, e.sample_size_v] for e in cont]
    if delta:
        ctx.check_true('container.delta_pushed', all(s == [3, 2] for s in sizes), 'sample sizes %r' % (sizes,))
    else:
        ctx.check_true('container.own_sizes_kept', sizes == [list(s) for s in own], 'sample sizes %r' % (sizes,))
    ctx.check_true('container.vertex_ids_consecutive', [v.id for v in verts] == list(range(len(verts))),
                   'ids %r' % ([v.id for v in verts][:20],))
    nv = [s[0] * s[1] for s in sizes]
    nf = [2 * (s[0] - 1) * (s[1] - 1) for s in sizes]
    ctx.check_true('container.counts', len(verts) == sum(nv) and len(faces) == sum(nf),
                   '%d vertices, %d faces; per surface %r / %r' % (len(verts), len(faces), nv, nf))
    v0 = f0 = 0
    for k, d in enumerate(datas):
        _check_surface_mesh(ctx, 'surface%d' % k, None, d, sizes[k][0], sizes[k][1], 1, verts=verts[v0:v0 + nv[k]],
                            faces=faces[f0:f0 + nf[k]], base=v0)
        v0 += nv[k]
        f0 += nf[k]


# ------------------------------------------------------------------------------------------------
# (c) exports
# ------------------------------------------------------------------------------------------------
def _num(ctx, s):
    """float(s) of a printed number (A3)"""
    if ctx.mode == 'sym':
        return ctx.q.vq_float(s)
    return float(s)


class _StructRecorder(object):
    """sym-mode stand-in for the global `struct` of geomdl.exchange (A4: struct.pack records its arguments):
    pack('<3f', a, b, c) stores the three exact numbers and emits their table indices as 12 real bytes; every other call
    goes to the real module"""

    def __init__(self):
        self.table = []

    def pack(self, fmt, *args):
        if fmt == '<3f':
            idx = []
            for a in args:
                idx.append(len(self.table))
                self.table.append(a)
            return _real_struct.pack('<3i', *idx)
        return _real_struct.pack(fmt, *args)

    def read3(self, raw):
        return [self.table[i] for i in _real_struct.unpack('<3i', raw)]

    def __getattr__(self, name):
        return getattr(_real_struct, name)


def _exchange(ctx):
    """geomdl.exchange and the reader of a 12-byte '<3f' record"""
    ex = ctx.geomdl('exchange')
    if ctx.mode == 'sym':
        rec = _StructRecorder()
        ex.struct = rec             # a fresh table on every explored path
        return ex, rec.read3
    return ex, lambda raw: list(_real_struct.unpack('<3f', raw))


class _TmpDir(object):
    """real temporary directory under $TMPDIR (or /tmp), removed on exit (also when a path is abandoned)"""

    def __enter__(self):
        self.path = tempfile.mkdtemp(prefix='verif_c15_', dir=os.environ.get('TMPDIR') or '/tmp')
        return self.path

    def __exit__(self, *exc):
        shutil.rmtree(self.path, ignore_errors=True)
        return False


def _read_obj(ctx, text):
    """-> vertices [[x,y,z]], parametric vertices [[u,v]], vertex normals, faces [[a,b,c]] (1-based, as written)"""
    v, vp, vn, f, other = [], [], [], [], []
    lines = text.split('\n')
    for ln in lines[:-1]:
        t = ln.split(' ')
        if t[0] == 'v':
            v.append([_num(ctx, x) for x in t[1:]])
        elif t[0] == 'vp':
            vp.append([_num(ctx, x) for x in t[1:]])
        elif t[0] == 'vn':
            vn.append([_num(ctx, x) for x in t[1:]])
        elif t[0] == 'f':
            f.append([int(x) for x in t[1:]])
        elif not ln.startswith('#'):
            other.append(ln)
    return v, vp, vn, f, other, lines[-1] == ''


def _read_off(ctx, text):
    lines = text.split('\n')
    head = lines[1].split(' ')
    nv, nf = int(head[0]), int(head[1])
    v = [[_num(ctx, x) for x in ln.split(' ')] for ln in lines[2:2 + nv]]
    f = [[int(x) for x in ln.split(' ')] for ln in lines[2 + nv:2 + nv + nf]]
    return lines[0], head, v, f, lines[2 + nv + nf:]


def _read_stl_ascii(ctx, text):
    """-> [(normal, [v0, v1, v2])], well_formed"""
    lines = [ln.strip() for ln in text.split('\n')]
    ok = lines[0].startswith('solid') and lines[-2].startswith('endsolid') and lines[-1] == ''
    body = lines[1:-2]
    facets = []
    ok = ok and len(body) % 7 == 0
    for k in range(0, len(body) - 6, 7):
        blk = body[k:k + 7]
        ok = ok and blk[0].startswith('facet normal ') and blk[1] == 'outer loop' and blk[5] == 'endloop' \
            and blk[6] == 'endfacet' and all(b.startswith('vertex ') for b in blk[2:5])
        if not ok:
            break
        n = [_num(ctx, x) for x in blk[0].split(' ')[2:]]
        vs = [[_num(ctx, x) for x in b.split(' ')[1:]] for b in blk[2:5]]
        facets.append((n, vs))
    return facets, ok


def _read_stl_binary(raw, read3):
    """-> [(normal, [v0, v1, v2])], count field, well_formed (80 byte header, int32 count, 50 bytes per facet)"""
    if len(raw) < 84:
        return [], None, False
    n = _real_struct.unpack('<i', raw[80:84])[0]
    ok = len(raw) == 84 + 50 * n
    facets = []
    for k in range((len(raw) - 84) // 50):
        b = raw[84 + 50 * k:84 + 50 * (k + 1)]
        facets.append((read3(b[0:12]), [read3(b[12:24]), read3(b[24:36]), read3(b[36:48])]))
        ok = ok and b[48:50] == b'\0\0'
    return facets, n, ok


def _cross3(a, b):
    return [a[1] * b[2] - a[2] * b[1], a[2] * b[0] - a[0] * b[2], a[0] * b[1] - a[1] * b[0]]


def _check_facet(ctx, tag, normal, vs, tri):
    """one STL facet against the mesh triangle `tri` it must describe"""
    for k in range(3):
        ctx.check_eq_vec('%s.vertex%d' % (tag, k), vs[k], tri.vertices[k].data)
    e1 = [b - a for a, b in zip(vs[0], vs[1])]
    e2 = [b - a for a, b in zip(vs[0], vs[2])]
    c = _cross3(e1, e2)
    ctx.check_true(tag + '.normal.len', len(normal) == 3)
    if ctx.mode == 'sym':
        ctx.check_eq_vec(tag + '.normal_parallel_to_edge_cross_product', _cross3(normal, c), [0, 0, 0])
    else:       # native replay: binary STL stores float32, so the test is relative to |normal| * |cross product|
        scale = (sum(x * x for x in normal) * sum(x * x for x in c)) ** Fraction(1, 2)
        ctx.check_true(tag + '.normal_parallel_to_edge_cross_product',
                       all(abs(x) <= Fraction(1, 10 ** 5) * scale for x in _cross3(normal, c)),
                       'normal %r, (v1-v0)x(v2-v0) = %r' % (normal, c))
    # the x component of the cross product depends only on the concrete (y,z) coordinates: a sign test of constants
    if ctx.is_const(c[0]) and _fr(ctx, c[0]) != 0:
        ctx.check(tag + '.normal_by_right_hand_rule', ctx.gt(normal[0] * c[0], 0),
                  'facet normal x = %r, (v1-v0)x(v2-v0) x = %r' % (normal[0], c[0]))
    else:
        ctx.check(tag + '.normal_by_right_hand_rule', ctx.gt(sum(a * b for a, b in zip(normal, c)), 0), nonlinear=True)


class _Tri(object):
    def __init__(self, *vs):
        self.vertices = list(vs)


@scenario('C15', fns=['exchange.export_obj_str', 'exchange.export_off_str', 'exchange.export_stl_str',
                      'tessellate.QuadTessellate.tessellate', '_tessellate.make_quad_mesh', 'linalg.triangle_normal'],
          quick=[dict(fmt=f, samples=s) for f in ('obj', 'off', 'stl', 'stlb') for s in ([3, 2], [2, 4])])
def export_quad_mesh(ctx, fmt, samples):
    """requires: a valid surface whose tessellator is tessellate.QuadTessellate(), exported alone
       ensures : OBJ / OFF describe exactly the quadrilateral mesh held by the surface: one vertex record per mesh vertex, one
                 face record per quadrilateral listing its FOUR vertex ids in order (OFF: preceded by the count 4);
                 STL (triangles only): a well-formed file with two facets per quadrilateral, (q0 q1 q2) and (q0 q2 q3), each
                 with its normal by the right-hand rule; the binary file has 50 bytes per facet"""
    ex, read3 = _exchange(ctx)
    d = _surface_data(ctx, S_21, 's')
    srf = _build(ctx, d)
    srf.sample_size_u, srf.sample_size_v = samples
    srf.tessellator = ctx.geomdl('tessellate').QuadTessellate()
    if fmt == 'obj':
        out = _call(ctx, 'export.call', ex.export_obj_str, srf, update_delta=False)
    elif fmt == 'off':
        out = _call(ctx, 'export.call', ex.export_off_str, srf, update_delta=False)
    else:
        out = _call(ctx, 'export.call', ex.export_stl_str, srf, binary=(fmt == 'stlb'), update_delta=False)
    verts, quads = srf.tessellator.vertices, srf.tessellator.faces
    nq = (samples[0] - 1) * (samples[1] - 1)
    ctx.check_true('mesh.counts', len(verts) == samples[0] * samples[1] and len(quads) == nq and all(len(q.data) == 4 for q in quads))
    if fmt in ('obj', 'off'):
        one = 1 if fmt == 'obj' else 0
        if fmt == 'off':
            magic, head, fv, ff, rest = _read_off(ctx, out)
            ctx.check_true('off.header_counts', magic == 'OFF' and head == [str(len(verts)), str(nq), '0'], 'header %r' % (head,))
            ctx.check_true('off.face_records_start_with_their_vertex_count', all(len(f) == 5 and f[0] == 4 for f in ff),
                           'face records %r' % (ff[:2],))
            ff = [f[1:] for f in ff]
        else:
            fv, vp, vn, ff, other, closed = _read_obj(ctx, out)
            ctx.check_true('obj.only_known_records', other == [] and closed)
        ctx.check_true(fmt + '.vertex_count', len(fv) == len(verts))
        ctx.check_true(fmt + '.face_count', len(ff) == nq, '%d face records for %d quadrilaterals' % (len(ff), nq))
        for i, v in enumerate(verts):
            ctx.check_eq_vec('%s.vertex%d' % (fmt, i), fv[i], v.data)
        for i, q in enumerate(quads):
            if i < len(ff):
                ctx.check_true('%s.face%d.is_mesh_quadrilateral' % (fmt, i), [r - one for r in ff[i]] == list(q.data),
                               'face record %r, mesh quadrilateral %r' % (ff[i], list(q.data)))
    else:
        if fmt == 'stl':
            facets, ok = _read_stl_ascii(ctx, out)
            ctx.check_true('stl.well_formed', ok)
        else:
            facets, count, ok = _read_stl_binary(out, read3)
            ctx.check_true('stlb.well_formed', ok, 'length %d, count field %r' % (len(out), count))
            ctx.check_true('stlb.count_field', count == 2 * nq, 'count field %r for %d quadrilaterals' % (count, nq))
        ctx.check_true(fmt + '.facet_count', len(facets) == 2 * nq, '%d facets for %d quadrilaterals' % (len(facets), nq))
        for i, q in enumerate(quads):
            qv = q.vertices
            for h, tri in enumerate((_Tri(qv[0], qv[1], qv[2]), _Tri(qv[0], qv[2], qv[3]))):
                if 2 * i + h < len(facets):
                    n, vs = facets[2 * i + h]
                    _check_facet(ctx, '%s.quad%d.half%d' % (fmt, i, h), n, vs, tri)


def _export_instances(tier):
    out = []
    for fmt in ('obj', 'off', 'stl', 'stlb'):
        out += [dict(fmt=fmt, members=[S_21], wrap=False, sizes=[[3, 2]], sp=1, update_delta=True),
                dict(fmt=fmt, members=[S_BILIN, S_12R], wrap=True, sizes=[[3, 3]], sp=2, update_delta=True),
                dict(fmt=fmt, members=[S_12R, S_BILIN, S_21], wrap=True, sizes=[[2, 3], [2, 2], [3, 2]], sp=1, update_delta=False)]
    out += [dict(fmt='objp', members=[S_BILIN, S_21], wrap=True, sizes=[[2, 3], [3, 2]], sp=1, update_delta=False),
            dict(fmt='objn', members=[S_BILIN, S_21], wrap=True, sizes=[[2, 2], [3, 2]], sp=1, update_delta=False),
            dict(fmt='off', members=[S_22], wrap=True, sizes=[[2, 2]], sp=1, update_delta=True)]
    for fmt in ('obj', 'off', 'stl', 'stlb'):       # the file writers export_obj / export_off / export_stl
        out.append(dict(fmt=fmt, members=[S_21, S_BILIN], wrap=True, sizes=[[2, 3], [3, 2]], sp=1, update_delta=False, to_file=True))
    if tier == 'thorough':
        for fmt in ('obj', 'off', 'stl', 'stlb'):
            out += [dict(fmt=fmt, members=[S_22, S_11K, S_32R], wrap=True, sizes=[[3, 4], [4, 3], [2, 5]], sp=1, update_delta=False),
                    dict(fmt=fmt, members=[S_32R], wrap=False, sizes=[[5, 5]], sp=2, update_delta=True),
                    dict(fmt=fmt, members=[S_21, S_22], wrap=True, sizes=[[4, 7]], sp=3, update_delta=True)]
    return out


@scenario('C15', fns=['exchange.export_obj_str', 'exchange.export_off_str', 'exchange.export_stl_str',
                      'linalg.triangle_normal', 'linalg.vector_generate', 'linalg.vector_cross',
                      'abstract.Surface.tessellate', 'abstract.Surface.sample_size_u', 'abstract.Surface.sample_size_v',
                      'multi.AbstractContainer.__iter__', 'multi.SurfaceContainer.sample_size_u',
                      'abstract.SplineGeometry.__iter__', 'elements.Vertex.x', 'elements.Triangle.vertices'],
          quick=lambda: _export_instances('quick'), thorough=lambda: _export_instances('thorough'))
def export_mesh(ctx, fmt, members, wrap, sizes, sp, update_delta, to_file=False):
    """requires: 1..3 valid surfaces (symbolic x coordinates, concrete knots / weights), exported alone or as a
                 multi.SurfaceContainer; update_delta=True: sizes[0] is set on the exported object and pushed to every
                 surface by the exporter; False: surface k keeps sizes[k]; vertex_spacing sp divides every size-1
       fmt     : obj / objp (parametric_vertices=True) / objn (vertex_normals=True) / off / stl (ascii) / stlb (binary);
                 to_file: through export_obj / export_off / export_stl and a real temporary file instead of the *_str
                 functions (export_stl: binary is its default)
       ensures : after the export every surface holds a valid mesh on its sampling lattice (contract (a), (b)); the text /
                 bytes parsed back by the readers of this module: as many vertex records as mesh vertices and as many
                 face records as mesh triangles, in surface order; record i of surface k = vertex i of its mesh; face
                 indices = vertex ids + the number of vertices of the previous surfaces (+1 in OBJ) and inside the block
                 of their own surface; STL: facet = the triangle's three vertices in order, normal by the right-hand rule"""
    ex, read3 = _exchange(ctx)
    datas, objs = _members(ctx, members)
    top = _container(ctx, objs) if wrap else objs[0]
    if update_delta:
        top.sample_size_u, top.sample_size_v = sizes[0]
        want = [list(sizes[0])] * len(objs)
    else:
        for o, ss in zip(objs, sizes):
            o.sample_size_u, o.sample_size_v = ss
        want = [list(s) for s in sizes]
    kw = dict(vertex_spacing=sp, update_delta=update_delta)
    if sp == 1 and update_delta:
        kw = {}                                  # the documented defaults
    if fmt == 'objp':
        kw['parametric_vertices'] = True
    if fmt == 'objn':
        kw['vertex_normals'] = True
    if to_file:
        if fmt == 'stl':
            kw['binary'] = False
        fn = {'obj': ex.export_obj, 'objp': ex.export_obj, 'objn': ex.export_obj, 'off': ex.export_off,
              'stl': ex.export_stl, 'stlb': ex.export_stl}[fmt]
        with _TmpDir() as tmp:
            path = os.path.join(tmp, 'mesh.' + fmt[:3])
            _call(ctx, 'export.call', fn, top, path, **kw)
            ctx.check_true('export.file_written', os.path.isfile(path))
            with open(path, 'rb' if fmt == 'stlb' else 'r') as fh:
                out = fh.read()
    elif fmt in ('obj', 'objp', 'objn'):
        out = _call(ctx, 'export.call', ex.export_obj_str, top, **kw)
    elif fmt == 'off':
        out = _call(ctx, 'export.call', ex.export_off_str, top, **kw)
    else:
        out = _call(ctx, 'export.call', ex.export_stl_str, top, binary=(fmt == 'stlb'), **kw)
    # the meshes that have to be described
    have = [[o.sample_size_u, o.sample_size_v] for o in objs]
    ctx.check_true('export.sample_sizes', have == want, 'sample sizes after the export %r, expected %r' % (have, want))
    meshes = []
    for k, (o, d) in enumerate(zip(objs, datas)):
        ctx.check_true('surface%d.tessellated' % k, bool(o.tessellator.is_tessellated()))
        _check_surface_mesh(ctx, 'surface%d' % k, o, d, want[k][0], want[k][1], sp)
        meshes.append((o.tessellator.vertices, o.tessellator.faces))
    nvert = sum(len(m[0]) for m in meshes)
    nface = sum(len(m[1]) for m in meshes)

    if fmt in ('obj', 'objp', 'objn', 'off'):
        one = 1 if fmt != 'off' else 0
        if fmt == 'off':
            ctx.check_true('off.is_text', isinstance(out, str))
            magic, head, fv, ff, rest = _read_off(ctx, out)
            ctx.check_true('off.magic', magic == 'OFF')
            ctx.check_true('off.header_counts', head == [str(nvert), str(nface), '0'],
                           'header %r, meshes have %d vertices and %d faces' % (head, nvert, nface))
            ctx.check_true('off.nothing_after_the_faces', rest == [''], 'trailing lines %r' % (rest[:3],))
            ctx.check_true('off.face_records', all(len(f) == 4 and f[0] == 3 for f in ff))
            ff = [f[1:] for f in ff]
        else:
            ctx.check_true('obj.is_text', isinstance(out, str))
            fv, vp, vn, ff, other, closed = _read_obj(ctx, out)
            ctx.check_true('obj.only_known_records', other == [] and closed, 'unexpected lines %r' % (other[:3],))
            if fmt == 'objn':
                ctx.check_true('obj.vn.count', len(vn) == nvert and all(len(x) == 3 for x in vn),
                               '%d vn records, %d vertices' % (len(vn), nvert))
            else:
                ctx.check_true('obj.no_vertex_normals_unless_asked', vn == [])
            if fmt == 'objp':
                ctx.check_true('obj.vp.count', len(vp) == nvert, '%d vp records, %d vertices' % (len(vp), nvert))
            else:
                ctx.check_true('obj.vp.none_unless_asked', vp == [])
        ctx.check_true(fmt + '.vertex_count', len(fv) == nvert, '%d vertex records, the meshes have %d' % (len(fv), nvert))
        ctx.check_true(fmt + '.face_count', len(ff) == nface, '%d face records, the meshes have %d' % (len(ff), nface))
        v0 = f0 = 0
        for k, (mv, mf) in enumerate(meshes):
            for i, v in enumerate(mv):
                ctx.check_true('%s.surface%d.vertex%d.len' % (fmt, k, i), len(fv[v0 + i]) == 3)
                ctx.check_eq_vec('%s.surface%d.vertex%d' % (fmt, k, i), fv[v0 + i], v.data)
                if fmt == 'objp':
                    ctx.check_eq_vec('obj.surface%d.vp%d' % (k, i), vp[v0 + i], list(v.uv))
            for i, t in enumerate(mf):
                rec = ff[f0 + i]
                ctx.check_true('%s.surface%d.face%d.in_own_vertex_block' % (fmt, k, i),
                               len(rec) == 3 and all(v0 <= r - one < v0 + len(mv) for r in rec),
                               'face record %r, vertex block of the surface is %d..%d' % (rec, v0 + one, v0 + len(mv) - 1 + one))
                ctx.check_true('%s.surface%d.face%d.is_mesh_triangle' % (fmt, k, i),
                               [r - one - v0 for r in rec] == list(t.data),
                               'face record %r (offset %d), mesh triangle %r' % (rec, v0 + one, list(t.data)))
            v0 += len(mv)
            f0 += len(mf)
    else:
        if fmt == 'stl':
            ctx.check_true('stl.is_text', isinstance(out, str))
            facets, ok = _read_stl_ascii(ctx, out)
            ctx.check_true('stl.well_formed', ok)
        else:
            ctx.check_true('stlb.is_bytes', isinstance(out, bytes))
            facets, count, ok = _read_stl_binary(out, read3)
            ctx.check_true('stlb.well_formed', ok, 'length %d, count field %r' % (len(out), count))
            ctx.check_true('stlb.count_field', count == nface, 'count field %r, the meshes have %d triangles' % (count, nface))
        ctx.check_true(fmt + '.facet_count', len(facets) == nface, '%d facets, the meshes have %d triangles' % (len(facets), nface))
        f0 = 0
        for k, (mv, mf) in enumerate(meshes):
            for i, t in enumerate(mf):
                n, vs = facets[f0 + i]
                _check_facet(ctx, '%s.surface%d.facet%d' % (fmt, k, i), n, vs, t)
            f0 += len(mf)


# ------------------------------------------------------------------------------------------------
# (d) trims - exploration grade
# ------------------------------------------------------------------------------------------------
class _SysStandIn(object):
    """sym-mode stand-in for the global `sys` of geomdl.ray: float_info.epsilon as the exact rational 2**-52"""

    class _FI(object):
        pass

    def __init__(self, real, eps):
        self._real = real
        self.float_info = _SysStandIn._FI()
        self.float_info.epsilon = eps

    def __getattr__(self, name):
        return getattr(self._real, name)


def _F(s):
    return Fraction(s)


TRIMS = {
    # closed polygons in the parameter rectangle (first point repeated at the end by _trim_object)
    'square': [('3/10', '3/10'), ('7/10', '3/10'), ('7/10', '7/10'), ('3/10', '7/10')],
    'square_cw': [('3/10', '3/10'), ('3/10', '7/10'), ('7/10', '7/10'), ('7/10', '3/10')],      # clockwise
    'triangle': [('1/5', '1/4'), ('4/5', '7/20'), ('9/20', '17/20')],
    'triangle_cw': [('1/5', '1/4'), ('9/20', '17/20'), ('4/5', '7/20')],
    'ell': [('8/37', '9/41'), ('30/37', '9/41'), ('30/37', '20/41'), ('19/37', '20/41'), ('19/37', '33/41'), ('8/37', '33/41')],
    'sliver': [('1/7', '10/23'), ('6/7', '11/23'), ('6/7', '13/23'), ('1/7', '12/23')],
    # crosses the u = 1 and the v = 1 border of the parameter rectangle
    'border': [('3/5', '3/5'), ('6/5', '3/5'), ('6/5', '6/5'), ('3/5', '6/5')],
    # control polygon of a closed quadratic B-spline (first = last control point)
    'spline': [('1/2', '1/6'), ('5/6', '1/5'), ('4/5', '4/5'), ('1/2', '6/7'), ('1/6', '3/4'), ('1/5', '1/4'), ('1/2', '1/6')],
}


# placements: translations of the base curve (every placement stays inside the open parameter rectangle)
SHIFTS = [('0', '0'), ('1/13', '-1/17'), ('-2/19', '1/11'), ('1/10', '1/10'), ('-1/12', '-1/9'), ('3/41', '2/43'),
          ('-1/10', '0'), ('0', '1/8')]


def _trim_object(ctx, name, shift):
    dx, dy = _F(shift[0]), _F(shift[1])
    if name == 'spline':
        P = [[ctx.lit(_F(a) + dx), ctx.lit(_F(b) + dy)] for a, b in TRIMS[name]]
        n = len(P)
        U = [ctx.lit(0)] * 3 + [ctx.lit(Fraction(k, n - 2)) for k in range(1, n - 2)] + [ctx.lit(1)] * 3
        crv = shapes.build_curve(ctx, 2, U, P)
        crv.sample_size = 25
        return crv
    pts = [[ctx.lit(_F(a) + dx), ctx.lit(_F(b) + dy)] for a, b in TRIMS[name]]
    pts.append(list(pts[0]))
    ff = ctx.geomdl('freeform').Freeform()
    ff.evaluate(points=pts)
    return ff


def _inside_polygon(pt, poly):
    """independent point-in-polygon spec: parity of the crossings of the ray pt + t*(1,0), t > 0, with the closed polygon
    (half-open rule on the y range of every edge); poly = Fractions, first point repeated at the end"""
    x, y = pt
    inside = False
    for (x0, y0), (x1, y1) in zip(poly, poly[1:]):
        if (y0 <= y) != (y1 <= y):
            xc = x0 + (y - y0) * (x1 - x0) / (y1 - y0)
            if xc > x:
                inside = not inside
    return inside


def _dist2_to_polygon(pt, poly):
    best = None
    for a, b in zip(poly, poly[1:]):
        dx, dy = b[0] - a[0], b[1] - a[1]
        L = dx * dx + dy * dy
        t = 0 if L == 0 else max(0, min(1, ((pt[0] - a[0]) * dx + (pt[1] - a[1]) * dy) / L))
        qx, qy = a[0] + t * dx, a[1] + t * dy
        d = (pt[0] - qx) ** 2 + (pt[1] - qy) ** 2
        if best is None or d < best:
            best = d
    return best


def _in_triangle(pt, tri):
    s = [_cross2(tri[k], tri[(k + 1) % 3], pt) for k in range(3)]
    return all(x >= 0 for x in s) or all(x <= 0 for x in s)


def _trim_instances(tier):
    """places = number of placements (the first entries of SHIFTS) run by the instance"""
    out = [dict(trim='square', n=[7, 7], sp=1, sense=0, places=4), dict(trim='square', n=[8, 6], sp=1, sense=0, places=4),
           dict(trim='square', n=[11, 11], sp=1, sense=0, places=4),        # placement 0 / 3: trim edges on grid lines
           dict(trim='triangle', n=[6, 8], sp=1, sense=0, places=4), dict(trim='triangle_cw', n=[16, 16], sp=1, sense=0, places=2),
           dict(trim='square_cw', n=[11, 11], sp=1, sense=0, places=3),       # clockwise trims: the enclosed region is trimmed too
           dict(trim='ell', n=[9, 9], sp=1, sense=0, places=4), dict(trim='ell', n=[13, 9], sp=2, sense=0, places=4),
           dict(trim='sliver', n=[8, 8], sp=1, sense=0, places=4),
           dict(trim='spline', n=[7, 7], sp=1, sense=0, places=2), dict(trim='spline', n=[10, 8], sp=1, sense=None, places=2),
           dict(trim='square', n=[14, 12], sp=1, sense=1, places=3), dict(trim='spline', n=[9, 9], sp=1, sense=1, places=2)]
    if tier == 'thorough':
        for name in ('square', 'triangle', 'triangle_cw', 'ell', 'sliver', 'spline'):
            for n in ([12, 9], [16, 16], [21, 17]):
                for sense in (0, 1):
                    if sense == 1 and (name == 'sliver' or n == [12, 9]):
                        continue                # the kept side (inside the curve) has no point farther than a cell from it
                    out.append(dict(trim=name, n=n, sp=1, sense=sense, places=len(SHIFTS)))
        out += [dict(trim='ell', n=[21, 21], sp=2, sense=0, places=len(SHIFTS)),
                dict(trim='spline', n=[37, 31], sp=3, sense=0, places=len(SHIFTS))]
    return out


@scenario('C15', fns=['tessellate.TrimTessellate.tessellate', '_tessellate.surface_trim_tessellate',
                      '_tessellate.make_triangle_mesh', '_tessellate.polygon_triangulate', 'linalg.wn_poly',
                      'linalg.triangle_center', 'ray.intersect', 'ray.Ray', 'abstract.Surface.tessellate',
                      'abstract.Surface.trims', 'abstract.Surface.add_trim', 'freeform.Freeform.evaluate'],
          quick=lambda: _trim_instances('quick'), thorough=lambda: _trim_instances('thorough'),
          # the same contract run natively: sample sizes whose accumulated grid coordinate ends a rounding error above 1.0
          # (u += u_jump in make_triangle_mesh), with trims crossing the u = 1 / v = 1 border - a floating-point-only matter
          native=lambda tier: [dict(trim='border', n=[n1, n2], sp=1, sense=0, places=2)
                               for n1, n2 in ((10, 10), (12, 10), (19, 12), (21, 19))])
def trim_region(ctx, trim, n, sp, sense, places):
    """EXPLORATION-GRADE sub-claim: a handful of concrete trim placements and sample sizes, not a proof over trims.

       requires: a (2,1)-degree surface with symbolic x coordinates, sample sizes n, vertex_spacing sp, tessellator
                 TrimTessellate, ONE closed trim curve with concrete rational vertices: a polygonal freeform or a closed
                 quadratic B-spline (25 samples), translated by each of the first `places` entries of SHIFTS (a fresh
                 surface per placement); sense 0 / None (default) = the enclosed region is trimmed, 1 = the outside is
                 trimmed.  P = the closed polygon trim.evalpts, T = the trimmed region decided by an
                 independent even-odd point-in-polygon spec; cell = (sp/(n_u-1)) x (sp/(n_v-1)); a point is FAR if its
                 distance to P exceeds the diagonal of a cell
       ensures : vertex ids 0..V-1, faces reference vertices of the list, every vertex lies in the closed parameter
                 rectangle and vertex.data = S(vertex.uv);
                 (kept side)   no triangle of the mesh has a FAR centroid inside T;
                 (omitted side) for the centroid x of each of the two triangles of every lattice cell that is FAR: x outside
                               T => exactly one mesh triangle contains x;  x inside T => none does"""
    if ctx.mode == 'sym':
        raymod = ctx.geomdl('ray')
        if not isinstance(raymod.sys, _SysStandIn):
            import sys as real_sys
            raymod.sys = _SysStandIn(real_sys, ctx.lit(Fraction(1, 2 ** 52)))
    for k in range(places):
        _trim_placement(ctx, 'trim%d' % k, trim, SHIFTS[k], n, sp, sense)


def _trim_placement(ctx, tag, trim, shift, n, sp, sense):
    d = _surface_data(ctx, S_21, 's')
    srf = _build(ctx, d)
    srf.sample_size_u, srf.sample_size_v = n
    tr = _trim_object(ctx, trim, shift)
    if sense is not None:
        tr.opt = ['reversed', sense]
    srf.trims = [tr]
    srf.tessellator = ctx.geomdl('tessellate').TrimTessellate()
    kw = {} if sp == 1 else {'vertex_spacing': sp}
    _call(ctx, tag + '.tessellate', srf.tessellate, **kw)
    verts, faces = srf.vertices, srf.faces
    V = len(verts)
    ctx.check_true(tag + '.vertex_ids_consecutive', [v.id for v in verts] == list(range(V)))
    bad = None
    for f in faces:
        for i, v in zip(f.data, f.vertices):
            if len(f.data) != 3 or not (0 <= i < V) or verts[i] is not v:
                bad = 'face %d references vertex id %r which is not a vertex of the mesh' % (f.id, i)
    ctx.check_true(tag + '.faces_reference_existing_vertices', bad is None, bad)
    uv = [(_fr(ctx, v.uv[0]), _fr(ctx, v.uv[1])) for v in verts]
    slack = 0 if ctx.mode == 'sym' else Fraction(1, 10 ** 9)      # natively u += u_jump accumulates rounding (A1)
    ctx.check_true(tag + '.vertices_in_parameter_rectangle',
                   all(-slack <= a <= 1 + slack and -slack <= b <= 1 + slack for a, b in uv))
    for k, v in enumerate(verts):
        ctx.check_eq_vec(tag + '.vertex%d=S(uv)' % k, v.data, _S(ctx, d, v.uv[0], v.uv[1]))

    poly = [(_fr(ctx, p[0]), _fr(ctx, p[1])) for p in tr.evalpts]
    ctx.check_true(tag + '.setup.trim_is_closed', len(poly) >= 4 and poly[0] == poly[-1])
    du, dv = Fraction(sp, n[0] - 1), Fraction(sp, n[1] - 1)
    diag2 = du * du + dv * dv
    outside_trimmed = (sense == 1)

    def trimmed(x):
        return _inside_polygon(x, poly) != outside_trimmed

    def far(x):
        return _dist2_to_polygon(x, poly) > diag2

    tris = [[uv[i] for i in f.data] for f in faces]
    bad = None
    for f, t in zip(faces, tris):
        c = (sum(p[0] for p in t) / 3, sum(p[1] for p in t) / 3)
        if far(c) and trimmed(c):
            bad = 'triangle %d %r with centroid (%s, %s) lies in the trimmed region, farther than a cell from the trim' % (
                f.id, list(f.data), c[0], c[1])
            break
    ctx.check_true(tag + '.no_triangle_deep_inside_the_trimmed_region', bad is None, bad)
    boxes = [(min(p[0] for p in t), max(p[0] for p in t), min(p[1] for p in t), max(p[1] for p in t)) for t in tris]
    bad, nfar_kept, nfar_trimmed = None, 0, 0
    for a in range((n[0] - 1) // sp):
        for b in range((n[1] - 1) // sp):
            for x in (((3 * a + 2) * du / 3, (3 * b + 1) * dv / 3), ((3 * a + 1) * du / 3, (3 * b + 2) * dv / 3)):
                if not far(x):
                    continue
                cover = sum(1 for t, bx in zip(tris, boxes) if bx[0] <= x[0] <= bx[1] and bx[2] <= x[1] <= bx[3]
                            and _in_triangle(x, t))
                if trimmed(x):
                    nfar_trimmed += 1
                else:
                    nfar_kept += 1
                if cover != (0 if trimmed(x) else 1) and bad is None:
                    bad = 'point (%s, %s) of cell (%d, %d), %s the trimmed region and farther than a cell from the trim, is ' \
                          'covered by %d triangles' % (x[0], x[1], a, b, 'inside' if trimmed(x) else 'outside', cover)
    ctx.check_true(tag + '.omitted_region_matches_within_one_cell', bad is None, bad)
    ctx.check_true(tag + '.non_vacuous', nfar_kept > 0, 'no sample point far from the trim on the kept side')
