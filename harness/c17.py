"""C17 Results do not depend on configuration choices (bounded tier).

The contract compares THE SAME geometry and THE SAME query under two configurations of the real code; the reference
configuration is always the library default (find_span_linear, default evaluator, normalize_kv=True, one process, cache
size variable unset).  That the reference answer is the right one is C01/C02/C04; here only independence is claimed.

(1) span function / evaluator variant  (abstract.py:328, 591-596; BSpline.py:73-77)
      objects created with find_span_func = helpers.find_span_linear | find_span_binsearch and evaluator = the default one |
      evaluators.CurveEvaluator2 / SurfaceEvaluator2 (set through the public `evaluator` property; the alternative evaluators
      exist for non-rational shapes only, rational shapes vary the span function): evaluate_single, evaluate_list, the sampled
      grid and derivatives(order)[k] (surfaces: [k][l] with k + l <= order) are identical at a symbolic parameter, and the
      configured call does not raise.  The span function that was selected is observed to be the one that is called.
      requires (binsearch, tolerance 1e-5 executed as written): distinct knots more than 1e-5 apart.
(2) normalize_kv  (abstract.py:329, 816, 1381, 1412; knotvector.py:69-96)
      the same input knot vector U' = a*U + b (a > 0) given to an object created with normalize_kv=True (the real
      knotvector.normalize maps it to U) and to one created with normalize_kv=False (keeps U'); parameters mapped affinely,
      t = a*u + b:   F.evaluate_single(t) = N.evaluate_single(u),
                     F.derivatives(t, K)[k] = N.derivatives(u, K)[k] / a**k          (chain rule, C_F(t) = C_N((t - b)/a);
                     surfaces: [k][l] scaled by 1 / (a_u**k * a_v**l)),
                     insert_knot(t) on F and insert_knot(u) on N: same control points, knots of F = a * knots of N + b,
                     the same sample_size (or the same delta) gives the same number of evaluated points and the same points
                     (CONCRETE a, b here: the sample count is floor(1/delta + 1/2)),
                     tessellate(): same vertex / face numbering, same vertex coordinates,
      and no call that is valid on the normalised object raises on the other one.
      requires (find_multiplicity, tolerance 1e-7 executed as written in both parametrisations): the inserted knot equals a
      knot or is farther than 1e-7 from it in u AND in t.
(3) GEOMDL_CACHE_SIZE  (helpers.py:565, 742, 764; linalg.py:341, 532)
      a fresh interpreter (sys.executable: the tool interpreter in the symbolic run, /venv/bin/python in the native replay)
      with GEOMDL_CACHE_SIZE in {1, 16, 1024} imports geomdl.helpers and geomdl.linalg of the repository under test and prints
      the same results for a fixed concrete history (knot insertion, knot removal, identity matrices, binomial coefficients,
      LU solve; last a history in which memoised identity matrices are handed out, used by matrix_pivot and requested again)
      as with the variable unset.  Concrete data; the functools.lru_cache contract (A4) is what makes the size irrelevant,
      the check observes it on the real interpreter.
(4) num_procs  (multi.py:676-687; _voxelize.py:35-46; _utilities.py:45-54)
      multi.SurfaceContainer.tessellate(num_procs=N) and voxelize.voxelize(obj, num_procs=N), N in {1, 2, 4} (8 thorough) on
      CONCRETE shapes: same vertices (id, uv, coordinates), same faces (id, vertex ids), same evaluated points of every
      element, same voxel grid and filled flags.  SCHEDULES ARE NOT EXPLORED: in the symbolic run the process pool is
      replaced by its contract (assumption A4: Pool.map(f, xs) = [f(x') for x' in pickled copies of xs], order preserving) by
      patching geomdl._utilities.pool_context / the names imported from it in the loaded modules (worker processes cannot carry
      the exact number world and the checker's own worker processes are daemonic, which multiprocessing forbids to fork
      children); everything around the pool (argument binding with functools.partial, replacing the elements by the returned
      copies, renumbering, result assembly) runs for real.  The real pools are additionally run in a native interpreter
      (/venv/bin/python subprocess, scenario real_pools) once per N as a sanity run: it shows that the objects pickle and
      that the real Pool.map kept the order on that run, nothing about other interleavings.

Re-found on the pinned tree (DESIGN.md section 11; each replayed natively): GEOMDL_CACHE_SIZE set -> import fails (3);
normalize_kv=False + sample_size setter -> wrong number of points / ValueError (2); normalize_kv=False + tessellate -> vertices
evaluated at unit-square parameters (2); SurfaceEvaluator2.derivatives with order > degree_u raises (1, root cause in C02).
"""
import os
import subprocess
import sys
from fractions import Fraction

from .api import scenario, CheckFailed, Skip, REPO
from . import shapes, spec, assumptions

assumptions.PROPS['C17'] = {'level': 'other', 'assume': ['A1', 'A2', 'A4', 'A5', 'A6'],
                            'explanation': 'Engine A: the two span searches satisfy the same (unique) postcondition, so they agree.  Engine B: the same query is run under two configurations of the real code and '
                                           'the answers are proved identical (symbolic parameter / knots / control points for the '
                                           'span function, evaluator and normalize_kv parts; concrete data for the cache size and '
                                           'process count parts).  Process schedules are not explored: the multi-process claim '
                                           'rests on the order-preserving contract of multiprocessing.Pool.map (A4); real pools '
                                           'are run once per process count as a sanity run.'}

SPAN_TOL = Fraction(1, 10 ** 5)     # helpers.find_span_binsearch: tol = 10e-6
MULT_TOL = Fraction(1, 10 ** 7)     # helpers.find_multiplicity: tol = 10e-8


# ------------------------------------------------------------------------------------------------
# helpers
# ------------------------------------------------------------------------------------------------
def _call(ctx, label, fn, *args, **kw):
    """`fn` is valid in the reference configuration: under the configuration on trial it must not raise"""
    try:
        return fn(*args, **kw)
    except (CheckFailed, Skip):
        raise
    except Exception as e:      # the explorer's control exceptions derive from BaseException and pass through
        ctx.fail(label + '.does_not_raise', 'valid in the reference configuration, raises %s: %s under the configuration '
                                            'on trial' % (type(e).__name__, e))


class _Counted(object):
    """a span function that counts its calls (observes that the selected function is the one in use)"""

    def __init__(self, fn):
        self.fn, self.calls = fn, 0

    def __call__(self, *args, **kw):
        self.calls += 1
        return self.fn(*args, **kw)


def _span(ctx, name):
    hp = ctx.geomdl('helpers')
    return _Counted({'linear': hp.find_span_linear, 'binsearch': hp.find_span_binsearch}[name])


def _curve(ctx, p, U, P, W, span_fn=None, alt=False, normalize_kv=True):
    kw = {'normalize_kv': normalize_kv}
    if span_fn is not None:
        kw['find_span_func'] = span_fn
    c = ctx.geomdl('NURBS' if W is not None else 'BSpline').Curve(**kw)
    c.degree = p
    c.set_ctrlpts(shapes.homog(P, W))
    c.knotvector = list(U)
    if alt:
        ekw = {'find_span_func': span_fn} if span_fn is not None else {}
        c.evaluator = ctx.geomdl('evaluators').CurveEvaluator2(**ekw)
    return c


def _surface(ctx, pu, pv, U, V, P, su, sv, W, span_fn=None, alt=False, normalize_kv=True):
    kw = {'normalize_kv': normalize_kv}
    if span_fn is not None:
        kw['find_span_func'] = span_fn
    s = ctx.geomdl('NURBS' if W is not None else 'BSpline').Surface(**kw)
    s.degree_u, s.degree_v = pu, pv
    s.set_ctrlpts(shapes.homog(P, W), su, sv)
    s.knotvector_u = list(U)
    s.knotvector_v = list(V)
    if alt:
        ekw = {'find_span_func': span_fn} if span_fn is not None else {}
        s.evaluator = ctx.geomdl('evaluators').SurfaceEvaluator2(**ekw)
    return s


# ------------------------------------------------------------------------------------------------
# (1) span function / evaluator variant
# ------------------------------------------------------------------------------------------------
def _curve_cfg_shapes(tier):
    out = []
    base = [(1, [1]), (2, []), (2, [1]), (2, [2]), (3, [1]), (3, [1, 1])]
    if tier == 'thorough':
        base += [(1, [1, 1]), (3, [2]), (3, [1, 2]), (4, [1]), (4, [2, 1]), (5, [1])]
    for p, mult in base:
        for span, alt in (('binsearch', False), ('linear', True), ('binsearch', True)):
            out.append(dict(p=p, mult=mult, rational=False, span=span, alt=alt, clamped=True, samples=3))
    # three distinct interior knots: the binary search reaches a knot from the left (low = mid) as well as from the right
    for p, mult in [(1, [1, 1, 1]), (2, [1, 1, 1])] + ([(2, [1, 2, 1]), (3, [1, 1, 1, 1])] if tier == 'thorough' else []):
        out.append(dict(p=p, mult=mult, rational=False, span='binsearch', alt=False, clamped=True, samples=3))
    rat = [(1, [1]), (2, [1])] + ([(2, [2]), (3, [1])] if tier == 'thorough' else [])
    for p, mult in rat:
        out.append(dict(p=p, mult=mult, rational=True, span='binsearch', alt=False, clamped=True, samples=3))
    # unclamped knot vectors keep their own range (normalize_kv=False), every end knot is a symbol
    out.append(dict(p=2, mult=[1], rational=False, span='binsearch', alt=False, clamped=False, samples=0))
    out.append(dict(p=2, mult=[], rational=False, span='binsearch', alt=True, clamped=False, samples=0))
    return out


@scenario('C17', fns=['helpers.find_span_linear', 'helpers.find_span_binsearch', 'helpers.find_spans',
                      'evaluators.CurveEvaluator.evaluate', 'evaluators.CurveEvaluator.derivatives',
                      'evaluators.CurveEvaluator2.derivatives', 'evaluators.CurveEvaluatorRational.evaluate',
                      'evaluators.CurveEvaluatorRational.derivatives', 'abstract.SplineGeometry.evaluator',
                      'BSpline.Curve.evaluate_single', 'BSpline.Curve.evaluate_list', 'BSpline.Curve.derivatives',
                      'BSpline.Curve.evaluate', 'helpers.basis_function_all', 'helpers.curve_deriv_cpts'],
          quick=lambda: _curve_cfg_shapes('quick'), thorough=lambda: _curve_cfg_shapes('thorough'))
def curve_span_evaluator(ctx, p, mult, rational, span, alt, clamped, samples):
    """requires: valid knot vector (interior knots symbolic), u in the domain, positive weights; distinct knots more than the
                 binsearch tolerance apart
       config  : find_span_func = `span`, evaluator = CurveEvaluator2 if alt   vs   find_span_linear + default evaluator
       ensures : evaluate_single(u), evaluate_list([u, start, end]), evalpts (sample_size = samples), derivatives(u, order)
                 for order 0..p+1 are identical; no call raises; the selected span function is the one that is called"""
    U, inner, n = shapes.make_kv(ctx, p, mult, clamped=clamped, normalized=clamped)
    lo, hi = U[p], U[n]
    u = shapes.param_in(ctx, 'u', lo, hi)
    shapes.separated_knots(ctx, U, SPAN_TOL)
    P = shapes.net(ctx, 'P', n, 2)
    W = shapes.weights(ctx, 'w', n) if rational else None
    if rational:
        ctx.assume_pos(spec.curve_point(p, U, [[w] for w in W], u)[0], 'L.weight_function_positive')
    ref = _curve(ctx, p, U, P, W, normalize_kv=clamped)
    f = _span(ctx, span)
    cfg = _call(ctx, 'config.build', _curve, ctx, p, U, P, W, f, alt, clamped)

    ctx.check_eq_vec('evaluate_single', _call(ctx, 'evaluate_single', cfg.evaluate_single, u), ref.evaluate_single(u))
    want = ref.evaluate_list([u, lo, hi])
    got = _call(ctx, 'evaluate_list', cfg.evaluate_list, [u, lo, hi])
    ctx.check_true('evaluate_list.len', len(got) == len(want) == 3)
    ctx.check_eq_grid('evaluate_list', got, want)
    for order in range(0, p + 2):
        want = ref.derivatives(u, order)
        got = _call(ctx, 'derivatives(order=%d)' % order, cfg.derivatives, u, order)
        ctx.check_true('derivatives(order=%d).len' % order, len(got) == len(want) == order + 1)
        ctx.check_eq_grid('derivatives(order=%d)' % order, got, want)
    if samples:
        ref.sample_size = samples
        _call(ctx, 'sample_size', setattr, cfg, 'sample_size', samples)
        want = ref.evalpts
        got = _call(ctx, 'evalpts', getattr, cfg, 'evalpts')
        ctx.check_true('evalpts.len', len(got) == len(want) == samples, 'len(evalpts) = %d, reference %d' % (len(got), len(want)))
        ctx.check_eq_grid('evalpts', got, want)
    ctx.check_true('config.selected_span_function_is_called', f.calls > 0)


def _surface_cfg_shapes(tier):
    base = [dict(pu=1, pv=1, mu=[], mv=[1]), dict(pu=2, pv=1, mu=[1], mv=[]), dict(pu=1, pv=2, mu=[], mv=[1]),
            dict(pu=2, pv=2, mu=[1], mv=[1])]
    if tier == 'thorough':
        base += [dict(pu=3, pv=2, mu=[1], mv=[1]), dict(pu=2, pv=3, mu=[], mv=[1, 1]), dict(pu=3, pv=3, mu=[1], mv=[])]
    out = []
    for b in base:
        out.append(dict(b, rational=False, span='binsearch', alt=False, orders='upto_pu'))
        out.append(dict(b, rational=False, span='linear', alt=True, orders='upto_pu'))
        out.append(dict(b, rational=False, span='binsearch', alt=True, orders='upto_pu'))
    # orders above the u-degree: valid with the default evaluator (zero derivatives), see DESIGN.md section 11 (C02)
    out.append(dict(pu=1, pv=1, mu=[], mv=[], rational=False, span='binsearch', alt=False, orders='above_pu'))
    out.append(dict(pu=1, pv=1, mu=[], mv=[], rational=False, span='linear', alt=True, orders='above_pu'))
    out.append(dict(pu=2, pv=1, mu=[1], mv=[], rational=False, span='linear', alt=True, orders='above_pu'))
    out.append(dict(pu=1, pv=2, mu=[], mv=[1], rational=False, span='linear', alt=True, orders='above_pu'))       # degree_u < degree_v
    out.append(dict(pu=1, pv=1, mu=[], mv=[1], rational=True, span='binsearch', alt=False, orders='upto_pu'))
    out.append(dict(pu=2, pv=1, mu=[], mv=[], rational=True, span='binsearch', alt=False, orders='upto_pu'))
    return out


def _orders(pu, pv, orders):
    if orders == 'upto_pu':
        return list(range(0, pu + 1))
    return list(range(pu + 1, max(pu, pv) + 2))


@scenario('C17', fns=['helpers.find_span_linear', 'helpers.find_span_binsearch', 'helpers.find_spans',
                      'evaluators.SurfaceEvaluator.evaluate', 'evaluators.SurfaceEvaluator.derivatives',
                      'evaluators.SurfaceEvaluator2.derivatives', 'evaluators.SurfaceEvaluatorRational.evaluate',
                      'evaluators.SurfaceEvaluatorRational.derivatives', 'abstract.SplineGeometry.evaluator',
                      'BSpline.Surface.evaluate_single', 'BSpline.Surface.evaluate_list', 'BSpline.Surface.derivatives',
                      'BSpline.Surface.evaluate', 'helpers.basis_function_all', 'helpers.surface_deriv_cpts'],
          quick=lambda: _surface_cfg_shapes('quick'), thorough=lambda: _surface_cfg_shapes('thorough'))
def surface_span_evaluator(ctx, pu, pv, mu, mv, rational, span, alt, orders):
    """config  : find_span_func = `span`, evaluator = SurfaceEvaluator2 if alt   vs   find_span_linear + default evaluator
       ensures : evaluate_single([u, v]), evaluate_list, evalpts (2 x 3 grid), derivatives(u, v, order)[k][l] for
                 k + l <= order (orders 0..pu, or pu+1..max(pu,pv)+1) are identical; no call raises"""
    U, iu, su = shapes.make_kv(ctx, pu, mu, prefix='a')
    V, iv, sv = shapes.make_kv(ctx, pv, mv, prefix='b')
    u = shapes.param_in(ctx, 'u', U[0], U[-1])
    v = shapes.param_in(ctx, 'v', V[0], V[-1])
    shapes.separated_knots(ctx, U, SPAN_TOL)
    shapes.separated_knots(ctx, V, SPAN_TOL)
    P = shapes.net(ctx, 'P', su * sv, 3)
    W = shapes.weights(ctx, 'w', su * sv) if rational else None
    if rational:
        ctx.assume_pos(spec.surface_point(pu, pv, U, V, [[w] for w in W], su, sv, u, v)[0], 'L.weight_function_positive')
    ref = _surface(ctx, pu, pv, U, V, P, su, sv, W)
    f = _span(ctx, span)
    cfg = _call(ctx, 'config.build', _surface, ctx, pu, pv, U, V, P, su, sv, W, f, alt)

    ctx.check_eq_vec('evaluate_single', _call(ctx, 'evaluate_single', cfg.evaluate_single, [u, v]), ref.evaluate_single([u, v]))
    prm = [[u, v], [U[0], V[-1]], [U[-1], v]]
    want = ref.evaluate_list(prm)
    got = _call(ctx, 'evaluate_list', cfg.evaluate_list, prm)
    ctx.check_true('evaluate_list.len', len(got) == len(want) == 3)
    ctx.check_eq_grid('evaluate_list', got, want)
    for order in _orders(pu, pv, orders):
        want = ref.derivatives(u, v, order)
        got = _call(ctx, 'derivatives(order=%d)' % order, cfg.derivatives, u, v, order)
        ctx.check_true('derivatives(order=%d).shape' % order, len(got) == order + 1 and all(len(r) == order + 1 for r in got))
        for k in range(order + 1):
            for l in range(order + 1 - k):
                ctx.check_eq_vec('derivatives(order=%d)[%d][%d]' % (order, k, l), got[k][l], want[k][l])
    if orders == 'upto_pu' and not rational:
        ref.sample_size_u, ref.sample_size_v = 2, 3
        _call(ctx, 'sample_size_u', setattr, cfg, 'sample_size_u', 2)
        _call(ctx, 'sample_size_v', setattr, cfg, 'sample_size_v', 3)
        want = ref.evalpts
        got = _call(ctx, 'evalpts', getattr, cfg, 'evalpts')
        ctx.check_true('evalpts.len', len(got) == len(want) == 6, 'len(evalpts) = %d, reference %d' % (len(got), len(want)))
        ctx.check_eq_grid('evalpts', got, want)
    ctx.check_true('config.selected_span_function_is_called', f.calls > 0)


# ------------------------------------------------------------------------------------------------
# (3) GEOMDL_CACHE_SIZE
# ------------------------------------------------------------------------------------------------
_CACHE_SCRIPT = r'''
import sys
sys.path.insert(0, sys.argv[1])
from geomdl import helpers, linalg
assert helpers.__file__.startswith(sys.argv[1]), helpers.__file__
n_out = [0]


def rec(*o):          # printed at once: a result that is a memoised object must not be read after later calls
    n_out[0] += 1
    print(repr(o))


# cubic curve, 6 control points
U = [0.0, 0.0, 0.0, 0.0, 0.25, 0.5, 1.0, 1.0, 1.0, 1.0]
P = [[0.0, 0.0], [1.0, 2.0], [2.0, -1.0], [4.0, 3.0], [5.0, 0.5], [6.0, 2.0]]
for rnd in range(3):                      # repeated and interleaved calls: hits, misses and evictions of small caches
    for x, r in ((0.375, 1), (0.75, 2), (0.375, 1), (0.125, 3), (0.5, 1)):
        s = helpers.find_multiplicity(x, U)
        span = helpers.find_span_linear(3, U, len(P), x)
        Q = helpers.knot_insertion(3, U, P, x, num=r, s=s, span=span)
        UQ = helpers.knot_insertion_kv(U, x, span, r)
        rec('insert', x, r, Q, UQ)
        s2 = helpers.find_multiplicity(x, UQ)
        span2 = helpers.find_span_linear(3, UQ, len(Q), x)
        back = helpers.knot_removal(3, UQ, Q, x, num=r, s=s2, span=span2)
        rec('remove', x, r, back, helpers.knot_removal_kv(UQ, span2, r))
        rec('alpha', helpers.knot_insertion_alpha(x, tuple(U), span, 0, span - 2),
            helpers.knot_removal_alpha_i(x, 3, tuple(UQ), 0, span - 2),
            helpers.knot_removal_alpha_j(x, 3, tuple(UQ), 0, span))
    for n in (2, 3, 1, 4, 2, 3):
        rec('identity', n, linalg.matrix_identity(n))
    rec('binomial', [[linalg.binomial_coefficient(k, i) for i in range(k + 1)] for k in range(7)])
    A = [[4.0, 1.0, 0.0], [1.0, 4.0, 1.0], [0.0, 1.0, 4.0]]
    rec('lu_solve', linalg.lu_solve(A, [[1.0, 2.0], [0.0, 1.0], [3.0, -1.0]]))
    rec('identity-again', [linalg.matrix_identity(n) for n in (3, 2, 3)])
# a history in which memoised objects are handed out, used by a pivoting routine and requested again (last on purpose)
M = [[0.0, 2.0, 1.0], [3.0, 1.0, 0.0], [1.0, 0.0, 4.0]]
rec('pivot-history', linalg.matrix_pivot(M), linalg.matrix_identity(2), linalg.matrix_pivot([[0.0, 1.0], [2.0, 0.0]]),
    linalg.matrix_identity(4), linalg.matrix_identity(3), linalg.matrix_identity(2), linalg.lu_decomposition(M))
'''


def _run_cache_script(size):
    env = dict(os.environ)
    env.pop('GEOMDL_CACHE_SIZE', None)
    env.pop('PYTHONPATH', None)
    if size is not None:
        env['GEOMDL_CACHE_SIZE'] = str(size)
    r = subprocess.run([sys.executable, '-c', _CACHE_SCRIPT, REPO], capture_output=True, text=True, timeout=120, env=env,
                       cwd='/')
    return r.returncode, r.stdout, r.stderr


@scenario('C17', fns=['helpers.knot_insertion_alpha', 'helpers.knot_removal_alpha_i', 'helpers.knot_removal_alpha_j',
                      'linalg.matrix_identity', 'linalg.binomial_coefficient', 'helpers.knot_insertion',
                      'helpers.knot_removal', 'linalg.lu_solve'],
          quick=[dict(size='1'), dict(size='16'), dict(size='1024')])
def cache_size_env(ctx, size):
    """requires: GEOMDL_CACHE_SIZE = size (a decimal integer, as every environment value a string) in the environment of a
                 fresh interpreter (sys.executable)
       ensures : `import geomdl.helpers, geomdl.linalg` from the repository under test succeeds and a fixed concrete history
                 of knot insertions / removals / alpha coefficients / identity matrices / binomial coefficients / an LU solve
                 prints exactly what it prints with the variable unset"""
    rc0, out0, err0 = _run_cache_script(None)
    ctx.check_true('unset.runs', rc0 == 0 and len(out0.splitlines()) > 20, 'reference run (variable unset) failed: %s' % err0[-400:])
    rc, out, err = _run_cache_script(size)
    ctx.check_true('import_and_run.does_not_raise', rc == 0,
                   'GEOMDL_CACHE_SIZE=%s: %s exits with %d: %s' % (size, sys.executable, rc, err.strip().splitlines()[-1:] or ''))
    a, b = out0.splitlines(), out.splitlines()
    ctx.check_true('results.count', len(a) == len(b), '%d result lines, %d with the variable unset' % (len(b), len(a)))
    for i, (x, y) in enumerate(zip(a, b)):
        at = next((j for j, (c, d) in enumerate(zip(x, y)) if c != d), min(len(x), len(y)))
        lo = max(0, at - 60)
        ctx.check_true('results.identical[%s]' % x.split(',')[0].strip("('"), x == y,
                       'result %d (%s) differs at column %d:  unset: ...%s...   GEOMDL_CACHE_SIZE=%s: ...%s...'
                       % (i, x[:40], at, x[lo:at + 60], size, y[lo:at + 60]))


# ------------------------------------------------------------------------------------------------
# (2) normalize_kv
# ------------------------------------------------------------------------------------------------
def _ab(ctx, ab, tag):
    """the affine map k -> a*k + b of one parametric direction: 'sym' = symbols a > 0 and b, else [a, b] as strings"""
    if ab == 'sym':
        a, b = ctx.num('a' + tag), ctx.num('b' + tag)
        ctx.assume(ctx.gt(a, 0))
        return a, b
    a, b = ctx.lit(Fraction(ab[0])), ctx.lit(Fraction(ab[1]))
    return a, b


def _pow(x, k):
    r = 1
    for _ in range(k):
        r = r * x
    return r


def _affine_curve_shapes(tier):
    out = []
    for p, mult in ((1, [1]), (2, []), (2, [1]), (3, [1]), (2, [2]), (3, [1, 1])):
        out.append(dict(p=p, mult=mult, rational=False, ab='sym'))
    out.append(dict(p=2, mult=[1], rational=True, ab='sym'))
    out.append(dict(p=2, mult=[1], rational=True, ab=['10', '0']))
    out.append(dict(p=3, mult=[1, 1], rational=False, ab=['3/7', '-2']))
    if tier == 'thorough':
        out += [dict(p=3, mult=[2], rational=False, ab='sym'), dict(p=4, mult=[1], rational=False, ab='sym'),
                dict(p=3, mult=[1], rational=True, ab='sym'), dict(p=4, mult=[1, 2], rational=False, ab=['10', '5']),
                dict(p=5, mult=[1], rational=False, ab=['1/1000', '0'])]
    return out


def _affine_curve_setup(ctx, p, mult, rational, ab):
    U, inner, n = shapes.make_kv(ctx, p, mult)
    a, b = _ab(ctx, ab, '')
    Up = [a * k + b for k in U]
    P = shapes.net(ctx, 'P', n, 2)
    W = shapes.weights(ctx, 'w', n) if rational else None
    N = _curve(ctx, p, Up, P, W, normalize_kv=True)
    F = _call(ctx, 'unnormalised.build', _curve, ctx, p, Up, P, W, None, False, False)
    ctx.check_eq_vec('normalised.knotvector=unit_range', N.knotvector, U)
    ctx.check_eq_vec('unnormalised.knotvector=as_given', F.knotvector, Up)
    return U, inner, n, a, b, P, W, N, F


@scenario('C17', fns=['abstract.Curve.knotvector', 'knotvector.normalize', 'BSpline.Curve.evaluate_single',
                      'BSpline.Curve.evaluate_list', 'BSpline.Curve.derivatives', 'NURBS.Curve.derivatives',
                      'abstract.SplineGeometry.domain', 'utilities.check_params', 'helpers.find_span_linear',
                      'helpers.basis_function', 'helpers.basis_function_ders'],
          quick=lambda: _affine_curve_shapes('quick'), thorough=lambda: _affine_curve_shapes('thorough'))
def curve_affine_eval(ctx, p, mult, rational, ab):
    """requires: valid clamped knot vector U on [0, 1] (interior knots symbolic), a > 0, u in [0, 1], positive weights
       config  : N = Curve(normalize_kv=True), F = Curve(normalize_kv=False), both given the knot vector a*U + b
       ensures : N.knotvector = U, F.knotvector = a*U + b, F.domain = (b, a + b);  with t = a*u + b:
                 F.evaluate_single(t) = N.evaluate_single(u);  F.evaluate_list([t, b, a + b]) = N.evaluate_list([u, 0, 1]);
                 F.derivatives(t, K)[k] * a**k = N.derivatives(u, K)[k] for K = 0..p+1 (chain rule); nothing raises"""
    U, inner, n, a, b, P, W, N, F = _affine_curve_setup(ctx, p, mult, rational, ab)
    u = shapes.param_in(ctx, 'u', U[0], U[-1])
    t = a * u + b
    if rational:
        ctx.assume_pos(spec.curve_point(p, U, [[w] for w in W], u)[0], 'L.weight_function_positive')
    dom = _call(ctx, 'domain', getattr, F, 'domain')
    ctx.check_eq_vec('domain', list(dom), [b, a + b])
    ctx.check_eq_vec('normalised.domain', list(N.domain), [0, 1])
    ctx.check_eq_vec('evaluate_single', _call(ctx, 'evaluate_single', F.evaluate_single, t), N.evaluate_single(u))
    want = N.evaluate_list([u, U[0], U[-1]])
    got = _call(ctx, 'evaluate_list', F.evaluate_list, [t, b, a + b])
    ctx.check_true('evaluate_list.len', len(got) == len(want) == 3)
    ctx.check_eq_grid('evaluate_list', got, want)
    for order in range(0, p + 2):
        want = N.derivatives(u, order)
        got = _call(ctx, 'derivatives(order=%d)' % order, F.derivatives, t, order)
        ctx.check_true('derivatives(order=%d).len' % order, len(got) == len(want) == order + 1)
        for k in range(order + 1):
            ctx.check_eq_vec('derivatives(order=%d)[%d]*a^%d' % (order, k, k), [c * _pow(a, k) for c in got[k]], want[k])
    # the same edit on both: reversal keeps the knot range (a*[0,1] + b), and the twins still agree under the same affine map
    N.reverse()
    _call(ctx, 'reverse', F.reverse)
    ctx.check_eq_vec('reversed.domain', list(F.domain), [b, a + b])
    ctx.check_eq_vec('reversed.knotvector=a*U+b', F.knotvector, [a * k + b for k in N.knotvector])
    ctx.check_eq_vec('reversed.evaluate_single', _call(ctx, 'reversed.evaluate_single', F.evaluate_single, t), N.evaluate_single(u))


def _affine_insert_shapes(tier):
    out = []
    for p, mult, r in ((1, [1], 1), (2, [1], 1), (2, [1], 2), (2, [2], 1), (3, [1], 2), (3, [1, 1], 1)):
        out.append(dict(p=p, mult=mult, r=r, rational=False, ab='sym'))
    out.append(dict(p=2, mult=[1], r=1, rational=True, ab='sym'))
    out.append(dict(p=3, mult=[1], r=3, rational=False, ab=['10', '0']))
    out.append(dict(p=2, mult=[1], r=2, rational=False, ab=['1/1000', '1']))
    out.append(dict(p=2, mult=[], r=1, rational=True, ab=['3', '-1']))
    if tier == 'thorough':
        out += [dict(p=3, mult=[2], r=2, rational=False, ab='sym'), dict(p=3, mult=[1, 1], r=3, rational=False, ab='sym'),
                dict(p=4, mult=[1], r=2, rational=False, ab=['10', '0']), dict(p=3, mult=[1], r=1, rational=True, ab='sym')]
    return out


@scenario('C17', fns=['BSpline.Curve.insert_knot', 'operations.insert_knot', 'helpers.knot_insertion',
                      'helpers.knot_insertion_kv', 'helpers.find_multiplicity', 'helpers.find_span_linear',
                      'abstract.Curve.knotvector', 'knotvector.normalize', 'utilities.check_params'],
          quick=lambda: _affine_insert_shapes('quick'), thorough=lambda: _affine_insert_shapes('thorough'))
def curve_affine_insert(ctx, p, mult, r, rational, ab):
    """requires: as curve_affine_eval; x in the open unit interval; x and a*x + b equal a knot or are farther than 1e-7 from it
                 (find_multiplicity compares with that tolerance in whichever parametrisation the object keeps)
       ensures : after N.insert_knot(x, num=r) and F.insert_knot(a*x + b, num=r) (accepted or rejected alike):
                 same number of control points, same control points / weights, F.knotvector = a * N.knotvector + b,
                 F.evaluate_single(a*u + b) = N.evaluate_single(u); nothing raises"""
    U, inner, n, a, b, P, W, N, F = _affine_curve_setup(ctx, p, mult, rational, ab)
    x = shapes.param_in(ctx, 'x', U[0], U[-1], open_lo=True, open_hi=True)
    for k in [U[0]] + inner + [U[-1]]:
        ctx.assume(ctx.sep(x, k, MULT_TOL), ctx.sep(a * x + b, a * k + b, MULT_TOL))
    u = shapes.param_in(ctx, 'u', U[0], U[-1])
    N.insert_knot(x, num=r)
    _call(ctx, 'insert_knot', F.insert_knot, a * x + b, num=r)
    ctx.check_true('insert.size', F.ctrlpts_size == N.ctrlpts_size and len(F.ctrlpts) == len(N.ctrlpts),
                   '%d control points, normalised object %d' % (F.ctrlpts_size, N.ctrlpts_size))
    ctx.check_eq_vec('insert.knotvector=a*U+b', F.knotvector, [a * k + b for k in N.knotvector])
    ctx.check_eq_grid('insert.ctrlpts', F.ctrlpts, N.ctrlpts)
    if rational:
        ctx.check_eq_vec('insert.weights', F.weights, N.weights)
        ctx.assume_pos(spec.curve_point(p, U, [[w] for w in W], u)[0], 'L.weight_function_positive')
    ctx.check_eq_vec('insert.evaluate_single', _call(ctx, 'insert.evaluate_single', F.evaluate_single, a * u + b),
                     N.evaluate_single(u))


def _sampling_shapes(tier):
    out = [dict(p=3, mult=[1, 1], rational=False, ab=['10', '0'], n=11, via='sample_size'),     # DESIGN.md section 11
           dict(p=3, mult=[1, 1], rational=False, ab=['10', '0'], n=5, via='sample_size'),
           dict(p=2, mult=[1], rational=False, ab=['1/2', '1/4'], n=4, via='sample_size'),
           dict(p=2, mult=[1], rational=True, ab=['3', '-1'], n=4, via='sample_size'),
           dict(p=2, mult=[1], rational=False, ab=['1', '5'], n=5, via='sample_size'),
           dict(p=1, mult=[1], rational=False, ab=['1', '0'], n=3, via='sample_size'),
           dict(p=3, mult=[1, 1], rational=False, ab=['10', '0'], n=4, via='delta'),
           dict(p=2, mult=[1], rational=True, ab=['1/2', '1/4'], n=5, via='delta'),
           dict(p=2, mult=[], rational=False, ab=['3', '-1'], n=3, via='delta')]
    if tier == 'thorough':
        out += [dict(p=3, mult=[1, 1], rational=False, ab=['10', '0'], n=n, via='sample_size') for n in (2, 3, 7, 10, 12, 21)]
        out += [dict(p=2, mult=[1], rational=False, ab=[a, '0'], n=6, via='sample_size') for a in ('2', '5/4', '6', '7', '1/3')]
    return out


@scenario('C17', fns=['abstract.Curve.sample_size', 'abstract.Curve.delta', 'BSpline.Curve.evaluate', 'abstract.Curve.evalpts',
                      'linalg.linspace', 'evaluators.CurveEvaluator.evaluate', 'helpers.find_spans'],
          quick=lambda: _sampling_shapes('quick'), thorough=lambda: _sampling_shapes('thorough'))
def curve_affine_sampling(ctx, p, mult, rational, ab, n, via):
    """requires: as curve_affine_eval with CONCRETE a > 0, b (the sample count is floor(1/delta + 1/2): a symbolic range
                 would make it symbolic); via = 'sample_size': obj.sample_size = n,  via = 'delta': obj.delta = 1/n
       ensures : setting the density does not raise on the un-normalised object; both objects report sample_size n and have
                 n evaluated points; point i of F = point i of N (the grid is the affine image: t_i = a*u_i + b)"""
    U, inner, cnt, a, b, P, W, N, F = _affine_curve_setup(ctx, p, mult, rational, ab)
    if via == 'sample_size':
        N.sample_size = n
        _call(ctx, 'sample_size.set', setattr, F, 'sample_size', n)
    else:
        N.delta = ctx.lit(Fraction(1, n))
        _call(ctx, 'delta.set', setattr, F, 'delta', ctx.lit(Fraction(1, n)))
    ctx.check_true('normalised.sample_size', N.sample_size == n, 'normalised object reports sample_size %r' % (N.sample_size,))
    got_n = _call(ctx, 'sample_size.get', getattr, F, 'sample_size')
    ctx.check_true('sample_size.getter', got_n == n, 'sample size %d requested on the knot range [%s, %s]: the object reports %r'
                   % (n, ctx.as_fraction(b), ctx.as_fraction(a + b), got_n))
    if rational:
        for i in range(n):
            ctx.assume_pos(spec.curve_point(p, U, [[w] for w in W], ctx.lit(Fraction(i, n - 1)))[0], 'L.weight_function_positive')
    want = N.evalpts
    got = _call(ctx, 'evalpts', getattr, F, 'evalpts')
    ctx.check_true('normalised.evalpts.count', len(want) == n)
    ctx.check_true('evalpts.count', len(got) == len(want), '%d evaluated points, normalised object %d' % (len(got), len(want)))
    ctx.check_eq_grid('evalpts', got, want)


def _affine_surface_shapes(tier):
    out = [dict(pu=1, pv=1, mu=[], mv=[1], rational=False, ab='sym', query='derivatives'),
           dict(pu=2, pv=1, mu=[1], mv=[], rational=False, ab='sym', query='derivatives'),
           dict(pu=2, pv=2, mu=[1], mv=[1], rational=False, ab='sym', query='derivatives'),
           dict(pu=1, pv=1, mu=[], mv=[], rational=True, ab='sym', query='derivatives'),
           dict(pu=2, pv=1, mu=[1], mv=[], rational=False, ab=[['10', '0'], ['1/4', '3']], query='derivatives'),
           dict(pu=2, pv=1, mu=[1], mv=[], rational=False, ab='sym', query='insert_u'),
           dict(pu=1, pv=2, mu=[], mv=[1], rational=False, ab='sym', query='insert_v'),
           dict(pu=2, pv=2, mu=[1], mv=[], rational=False, ab=[['10', '0'], ['1/4', '3']], query='insert_uv'),
           dict(pu=1, pv=1, mu=[], mv=[], rational=True, ab='sym', query='insert_u')]
    if tier == 'thorough':
        out += [dict(pu=3, pv=2, mu=[1], mv=[1], rational=False, ab='sym', query='derivatives'),
                dict(pu=2, pv=1, mu=[], mv=[], rational=True, ab='sym', query='derivatives'),
                dict(pu=2, pv=3, mu=[1], mv=[1], rational=False, ab='sym', query='insert_uv'),
                dict(pu=2, pv=1, mu=[1], mv=[], rational=True, ab='sym', query='insert_v')]
    return out


def _affine_surface_setup(ctx, pu, pv, mu, mv, rational, ab):
    U, iu, su = shapes.make_kv(ctx, pu, mu, prefix='c')
    V, iv, sv = shapes.make_kv(ctx, pv, mv, prefix='d')
    au, bu = _ab(ctx, ab if ab == 'sym' else ab[0], 'u')
    av, bv = _ab(ctx, ab if ab == 'sym' else ab[1], 'v')
    Up = [au * k + bu for k in U]
    Vp = [av * k + bv for k in V]
    P = shapes.net(ctx, 'P', su * sv, 3)
    W = shapes.weights(ctx, 'w', su * sv) if rational else None
    N = _surface(ctx, pu, pv, Up, Vp, P, su, sv, W, normalize_kv=True)
    F = _call(ctx, 'unnormalised.build', _surface, ctx, pu, pv, Up, Vp, P, su, sv, W, None, False, False)
    ctx.check_eq_vec('normalised.knotvector_u=unit_range', N.knotvector_u, U)
    ctx.check_eq_vec('normalised.knotvector_v=unit_range', N.knotvector_v, V)
    ctx.check_eq_vec('unnormalised.knotvector_u=as_given', F.knotvector_u, Up)
    ctx.check_eq_vec('unnormalised.knotvector_v=as_given', F.knotvector_v, Vp)
    return U, V, iu, iv, su, sv, (au, bu), (av, bv), P, W, N, F


@scenario('C17', fns=['abstract.Surface.knotvector_u', 'abstract.Surface.knotvector_v', 'knotvector.normalize',
                      'BSpline.Surface.evaluate_single', 'BSpline.Surface.evaluate_list', 'BSpline.Surface.derivatives',
                      'NURBS.Surface.derivatives', 'BSpline.Surface.insert_knot', 'operations.insert_knot',
                      'helpers.find_multiplicity', 'utilities.check_params', 'abstract.SplineGeometry.domain'],
          quick=lambda: _affine_surface_shapes('quick'), thorough=lambda: _affine_surface_shapes('thorough'))
def surface_affine(ctx, pu, pv, mu, mv, rational, ab, query):
    """config  : N = Surface(normalize_kv=True), F = Surface(normalize_kv=False), both given a_u*U + b_u and a_v*V + b_v
       ensures : with (s, t) = (a_u*u + b_u, a_v*v + b_v):  F.evaluate_single([s, t]) = N.evaluate_single([u, v]);
                 query 'derivatives': F.derivatives(s, t, K)[k][l] * a_u**k * a_v**l = N.derivatives(u, v, K)[k][l], k + l <= K,
                                      K = 0..min(pu, pv) + 1 <= pu + 1 (chain rule);
                 query 'insert_*'   : insert_knot (one knot, once, in the named directions) on both: same sizes, same control
                                      points, knots of F = affine image of the knots of N, same evaluated point
       requires: as curve_affine_eval / curve_affine_insert per direction"""
    U, V, iu, iv, su, sv, (au, bu), (av, bv), P, W, N, F = _affine_surface_setup(ctx, pu, pv, mu, mv, rational, ab)
    u = shapes.param_in(ctx, 'u', U[0], U[-1])
    v = shapes.param_in(ctx, 'v', V[0], V[-1])
    s, t = au * u + bu, av * v + bv
    if rational:
        ctx.assume_pos(spec.surface_point(pu, pv, U, V, [[w] for w in W], su, sv, u, v)[0], 'L.weight_function_positive')
    dom = _call(ctx, 'domain', getattr, F, 'domain')
    ctx.check_eq_grid('domain', [list(d) for d in dom], [[bu, au + bu], [bv, av + bv]])
    ctx.check_eq_vec('evaluate_single', _call(ctx, 'evaluate_single', F.evaluate_single, [s, t]), N.evaluate_single([u, v]))
    want = N.evaluate_list([[u, v], [U[0], V[-1]]])
    got = _call(ctx, 'evaluate_list', F.evaluate_list, [[s, t], [bu, av + bv]])
    ctx.check_true('evaluate_list.len', len(got) == len(want) == 2)
    ctx.check_eq_grid('evaluate_list', got, want)
    if query == 'derivatives':
        for order in range(0, min(pu, pv) + 2):
            want = N.derivatives(u, v, order)
            got = _call(ctx, 'derivatives(order=%d)' % order, F.derivatives, s, t, order)
            ctx.check_true('derivatives(order=%d).shape' % order, len(got) == order + 1 and all(len(r) == order + 1 for r in got))
            for k in range(order + 1):
                for l in range(order + 1 - k):
                    sc = _pow(au, k) * _pow(av, l)
                    ctx.check_eq_vec('derivatives(order=%d)[%d][%d]*a_u^%d*a_v^%d' % (order, k, l, k, l),
                                     [c * sc for c in got[k][l]], want[k][l])
        return
    x = shapes.param_in(ctx, 'x', ctx.lit(0), ctx.lit(1), open_lo=True, open_hi=True)
    kwn, kwf = {}, {}
    if 'u' in query[7:]:
        for k in [U[0]] + iu + [U[-1]]:
            ctx.assume(ctx.sep(x, k, MULT_TOL), ctx.sep(au * x + bu, au * k + bu, MULT_TOL))
        kwn['u'], kwf['u'] = x, au * x + bu
    if 'v' in query[7:]:
        for k in [V[0]] + iv + [V[-1]]:
            ctx.assume(ctx.sep(x, k, MULT_TOL), ctx.sep(av * x + bv, av * k + bv, MULT_TOL))
        kwn['v'], kwf['v'] = x, av * x + bv
    N.insert_knot(**kwn)
    _call(ctx, 'insert_knot', F.insert_knot, **kwf)
    ctx.check_true('insert.size', (F.ctrlpts_size_u, F.ctrlpts_size_v) == (N.ctrlpts_size_u, N.ctrlpts_size_v)
                   and len(F.ctrlpts) == len(N.ctrlpts), 'sizes %r, normalised object %r'
                   % ((F.ctrlpts_size_u, F.ctrlpts_size_v), (N.ctrlpts_size_u, N.ctrlpts_size_v)))
    ctx.check_eq_vec('insert.knotvector_u=a*U+b', F.knotvector_u, [au * k + bu for k in N.knotvector_u])
    ctx.check_eq_vec('insert.knotvector_v=a*V+b', F.knotvector_v, [av * k + bv for k in N.knotvector_v])
    ctx.check_eq_grid('insert.ctrlpts', F.ctrlpts, N.ctrlpts)
    if rational:
        ctx.check_eq_vec('insert.weights', F.weights, N.weights)
    ctx.check_eq_vec('insert.evaluate_single', _call(ctx, 'insert.evaluate_single', F.evaluate_single, [s, t]),
                     N.evaluate_single([u, v]))


def _grid_sampling_shapes(tier):
    out = [dict(kind='surface', deg=[2, 1], mult=[[1], []], rational=False, ab=[['10', '0'], ['1', '0']], n=[11, 2], via='sample_size'),
           dict(kind='surface', deg=[1, 2], mult=[[], [1]], rational=False, ab=[['1', '0'], ['1/2', '1']], n=[2, 3], via='sample_size'),
           dict(kind='surface', deg=[1, 1], mult=[[1], []], rational=True, ab=[['1', '2'], ['1', '-3']], n=[3, 2], via='sample_size'),
           dict(kind='surface', deg=[2, 1], mult=[[1], []], rational=False, ab=[['10', '0'], ['1/2', '1']], n=[3, 2], via='delta'),
           dict(kind='surface', deg=[1, 2], mult=[[1], []], rational=False, ab=[['2', '0'], ['1', '1']], n=[3, 3], via='sample_size_all'),
           dict(kind='volume', deg=[1, 1, 1], mult=[[], [], []], rational=False, ab=[['1', '0'], ['1', '0'], ['3', '0']],
                n=[2, 2, 4], via='sample_size'),
           dict(kind='volume', deg=[1, 1, 1], mult=[[], [], []], rational=False, ab=[['1', '1'], ['1/2', '0'], ['1', '0']],
                n=[2, 2, 2], via='sample_size_all'),
           dict(kind='volume', deg=[1, 1, 1], mult=[[1], [], []], rational=False, ab=[['2', '1'], ['1/2', '0'], ['3', '-1']],
                n=[3, 2, 2], via='delta')]
    if tier == 'thorough':
        out += [dict(kind='surface', deg=[2, 2], mult=[[1], [1]], rational=False, ab=[['3', '0'], ['1', '0']], n=[n, 3],
                     via='sample_size') for n in (2, 3, 4, 7)]
        out += [dict(kind='volume', deg=[1, 2, 1], mult=[[], [1], []], rational=True, ab=[['1', '0'], ['7/2', '1']
                     , ['1', '0']], n=[2, 4, 2], via='sample_size')]
    return out


@scenario('C17', fns=['abstract.Surface.sample_size_u', 'abstract.Surface.sample_size_v', 'abstract.Surface.delta_u',
                      'abstract.Surface.delta_v', 'abstract.Volume.sample_size_u', 'abstract.Volume.sample_size_v',
                      'abstract.Volume.sample_size_w', 'abstract.Volume.delta_u', 'abstract.Volume.delta_v', 'abstract.Volume.delta_w',
                      'BSpline.Surface.evaluate', 'BSpline.Volume.evaluate', 'evaluators.SurfaceEvaluator.evaluate',
                      'evaluators.VolumeEvaluator.evaluate', 'linalg.linspace', 'BSpline.Volume.evaluate_single'],
          quick=lambda: _grid_sampling_shapes('quick'), thorough=lambda: _grid_sampling_shapes('thorough'))
def grid_affine_sampling(ctx, kind, deg, mult, rational, ab, n, via):
    """surfaces and volumes, CONCRETE affine maps per direction, symbolic interior knots / control points (/ weights)
       ensures : setting sample_size_<d> = n_d (or delta_<d> = 1/n_d, or sample_size = n for all directions) does not raise on the un-normalised object, it reports
                 the same sample sizes, has prod(n_d) evaluated points, point i equals point i of the normalised object"""
    nd = len(deg)
    kvs, sizes, maps = [], [], []
    for d in range(nd):
        U, _inner, cnt = shapes.make_kv(ctx, deg[d], mult[d], prefix='cde'[d])
        kvs.append(U)
        sizes.append(cnt)
        maps.append(_ab(ctx, ab[d], 'uvw'[d]))
    total = 1
    for c in sizes:
        total *= c
    P = shapes.net(ctx, 'P', total, 3)
    W = shapes.weights(ctx, 'w', total) if rational else None
    kvp = [[a * k + b for k in U] for U, (a, b) in zip(kvs, maps)]
    if kind == 'surface':
        N = _surface(ctx, deg[0], deg[1], kvp[0], kvp[1], P, sizes[0], sizes[1], W, normalize_kv=True)
        F = _call(ctx, 'unnormalised.build', _surface, ctx, deg[0], deg[1], kvp[0], kvp[1], P, sizes[0], sizes[1], W, None,
                  False, False)
    else:
        N = shapes.build_volume(ctx, deg[0], deg[1], deg[2], kvp[0], kvp[1], kvp[2], P, sizes[0], sizes[1], sizes[2], W, True)
        F = _call(ctx, 'unnormalised.build', shapes.build_volume, ctx, deg[0], deg[1], deg[2], kvp[0], kvp[1], kvp[2], P,
                  sizes[0], sizes[1], sizes[2], W, False)
    names = 'uvw'[:nd]
    if via == 'sample_size_all':          # one value for every direction through obj.sample_size
        setattr(N, 'sample_size', n[0])
        _call(ctx, 'sample_size.set', setattr, F, 'sample_size', n[0])
    for d, nm in enumerate(names):
        if via == 'sample_size_all':
            continue
        if via == 'sample_size':
            setattr(N, 'sample_size_' + nm, n[d])
            _call(ctx, 'sample_size_%s.set' % nm, setattr, F, 'sample_size_' + nm, n[d])
        else:
            setattr(N, 'delta_' + nm, ctx.lit(Fraction(1, n[d])))
            _call(ctx, 'delta_%s.set' % nm, setattr, F, 'delta_' + nm, ctx.lit(Fraction(1, n[d])))
    for d, nm in enumerate(names):
        ctx.check_true('normalised.sample_size_' + nm, getattr(N, 'sample_size_' + nm) == n[d])
        got_n = _call(ctx, 'sample_size_%s.get' % nm, getattr, F, 'sample_size_' + nm)
        a, b = maps[d]
        ctx.check_true('sample_size_%s.getter' % nm, got_n == n[d], 'sample size %d requested on the knot range [%s, %s]: the '
                       'object reports %r' % (n[d], ctx.as_fraction(b), ctx.as_fraction(a + b), got_n))
    if rational:
        wnet = [[w] for w in W]
        grid = [[ctx.lit(Fraction(i, n[d] - 1)) for i in range(n[d])] for d in range(nd)]
        if kind == 'surface':
            for g0 in grid[0]:
                for g1 in grid[1]:
                    ctx.assume_pos(spec.surface_point(deg[0], deg[1], kvs[0], kvs[1], wnet, sizes[0], sizes[1], g0, g1)[0],
                                   'L.weight_function_positive')
        else:
            for g0 in grid[0]:
                for g1 in grid[1]:
                    for g2 in grid[2]:
                        ctx.assume_pos(spec.volume_point(deg[0], deg[1], deg[2], kvs[0], kvs[1], kvs[2], wnet, sizes[0],
                                                         sizes[1], sizes[2], g0, g1, g2)[0], 'L.weight_function_positive')
    want = N.evalpts
    got = _call(ctx, 'evalpts', getattr, F, 'evalpts')
    cnt = 1
    for c in n:
        cnt *= c
    ctx.check_true('normalised.evalpts.count', len(want) == cnt)
    ctx.check_true('evalpts.count', len(got) == len(want), '%d evaluated points, normalised object %d' % (len(got), len(want)))
    ctx.check_eq_grid('evalpts', got, want)
    if kind == 'volume':
        prm = [shapes.param_in(ctx, nm, ctx.lit(0), ctx.lit(1)) for nm in names]
        if rational:
            ctx.assume_pos(spec.volume_point(deg[0], deg[1], deg[2], kvs[0], kvs[1], kvs[2], wnet, sizes[0], sizes[1], sizes[2],
                                             prm[0], prm[1], prm[2])[0], 'L.weight_function_positive')
        ctx.check_eq_vec('evaluate_single', _call(ctx, 'evaluate_single', F.evaluate_single,
                                                  [a * q + b for q, (a, b) in zip(prm, maps)]), N.evaluate_single(prm))
    if not rational:
        # the list entry point, two parameter tuples (the second one is the upper corner of the domain)
        plist = [[shapes.param_in(ctx, nm + 'l', ctx.lit(0), ctx.lit(1)) for nm in names], [ctx.lit(1)] * nd]
        wl = N.evaluate_list([list(q) for q in plist])
        gl = _call(ctx, 'evaluate_list', F.evaluate_list, [[a * q + b for q, (a, b) in zip(pr, maps)] for pr in plist])
        ctx.check_true('evaluate_list.count', len(wl) == 2 and len(gl) == 2, '%d points for 2 parameter tuples of the domain' % len(gl))
        ctx.check_eq_grid('evaluate_list', gl, wl)


# ------------------------------------------------------------------------------------------------
# (4) num_procs
# ------------------------------------------------------------------------------------------------
class _ContractPool(object):
    """assumption A4: multiprocessing.Pool(processes=N).map(f, xs) = [f(x') for x' in xs] on pickled copies of f and of
    every x, results pickled back, ORDER PRESERVED, for every N and every schedule.  Schedules are not explored."""

    def __init__(self, *args, **kwargs):
        self.processes = kwargs.get('processes', args[0] if args else None)
        if self.processes is not None and self.processes < 1:
            raise ValueError('Number of processes must be at least 1')

    def map(self, fn, iterable, chunksize=None):
        import pickle
        fn = pickle.loads(pickle.dumps(fn))
        return [pickle.loads(pickle.dumps(fn(pickle.loads(pickle.dumps(x))))) for x in list(iterable)]

    def terminate(self):
        pass


def _pools(ctx):
    """float mode: the real process pools (wrapped only to count their use).  sym mode: the pool replaced by its contract in
    the loaded modules (see the module docstring).  Returns the use counter {'pools': n, 'processes': [..]}"""
    import contextlib
    utl = ctx.geomdl('_utilities')
    real = getattr(utl, '_c17_real_pool_context', None)
    if real is None:
        real = utl._c17_real_pool_context = utl.pool_context
    stats = {'pools': 0, 'processes': []}

    @contextlib.contextmanager
    def pool_context(*args, **kwargs):
        stats['pools'] += 1
        stats['processes'].append(kwargs.get('processes', args[0] if args else None))
        if ctx.mode == 'sym':
            yield _ContractPool(*args, **kwargs)
        else:
            with real(*args, **kwargs) as pool:
                yield pool

    utl.pool_context = pool_context
    vx = ctx.geomdl('_voxelize')
    if hasattr(vx, 'pool_context'):
        vx.pool_context = pool_context
    return stats


# concrete shapes: (degree_u, degree_v, size_u, size_v, rational, interior knots u, interior knots v)
_SURFS = [(2, 1, 4, 2, False, ['2/5'], []), (1, 2, 2, 4, True, [], ['1/3']), (3, 2, 5, 3, False, ['1/2'], []),
          (1, 1, 3, 3, False, ['1/4'], ['3/4']), (2, 2, 3, 3, True, [], [])]


def _concrete_surface(ctx, k, spec_):
    pu, pv, su, sv, rational, iu, iv = spec_
    U = [ctx.lit(0)] * (pu + 1) + [ctx.lit(Fraction(x)) for x in iu] + [ctx.lit(1)] * (pu + 1)
    V = [ctx.lit(0)] * (pv + 1) + [ctx.lit(Fraction(x)) for x in iv] + [ctx.lit(1)] * (pv + 1)
    P = [[ctx.lit(Fraction(3 * k + 2 * i, 1)), ctx.lit(Fraction(3 * j - k, 2)), ctx.lit(Fraction((i - 1) * (j + k) + i * i, 3))]
         for i in range(su) for j in range(sv)]
    W = [ctx.lit(Fraction(2 + (i * 7 + k) % 3, 2)) for i in range(su * sv)] if rational else None
    return _surface(ctx, pu, pv, U, V, P, su, sv, W)


def _container(ctx, count):
    c = ctx.geomdl('multi').SurfaceContainer()
    for k in range(count):
        c.add(_concrete_surface(ctx, k, _SURFS[k % len(_SURFS)]))
    return c


def _mesh(vertices, faces):
    return ([(v.id, list(v.uv), list(v.data)) for v in vertices],
            [(f.id, list(f.vertex_ids), [v.id for v in f.vertices]) for f in faces])


def _check_mesh(ctx, tag, got, want):
    gv, gf = got
    wv, wf = want
    ctx.check_true(tag + '.vertices.count', len(gv) == len(wv), '%d vertices, %d with one process' % (len(gv), len(wv)))
    ctx.check_true(tag + '.faces.count', len(gf) == len(wf), '%d faces, %d with one process' % (len(gf), len(wf)))
    ctx.check_true(tag + '.vertices.ids', [v[0] for v in gv] == [v[0] for v in wv],
                   'vertex ids %r, with one process %r' % ([v[0] for v in gv][:12], [v[0] for v in wv][:12]))
    ctx.check_eq_grid(tag + '.vertices.uv', [v[1] for v in gv], [v[1] for v in wv])
    ctx.check_eq_grid(tag + '.vertices.data', [v[2] for v in gv], [v[2] for v in wv])
    ctx.check_true(tag + '.faces.ids', [f[0] for f in gf] == [f[0] for f in wf])
    ctx.check_true(tag + '.faces.vertex_ids', [f[1:] for f in gf] == [f[1:] for f in wf],
                   'faces %r, with one process %r' % ([f[1] for f in gf][:6], [f[1] for f in wf][:6]))


def _tess_instances(tier):
    out = []
    for count in (1, 3):
        for np_ in (2, 4):
            out.append(dict(count=count, num_procs=np_, delta=['1/3', '1/2'], update_delta=True))
    out.append(dict(count=5, num_procs=2, delta=['1/4', '1/3'], update_delta=True))
    out.append(dict(count=2, num_procs=4, delta=['1/3', '1/2'], update_delta=False))
    if tier == 'thorough':
        out += [dict(count=c, num_procs=8, delta=['1/3', '1/2'], update_delta=True) for c in (2, 5, 9)]
        out += [dict(count=4, num_procs=3, delta=['1/5', '1/4'], update_delta=True)]
    return out


@scenario('C17', fns=['multi.SurfaceContainer.tessellate', 'multi.process_tessellate', 'multi.SurfaceContainer.vertices',
                      'multi.SurfaceContainer.faces', '_utilities.pool_context', 'abstract.Surface.tessellate',
                      'tessellate.TrimTessellate.tessellate', 'multi.AbstractContainer.delta', 'multi.AbstractContainer.evalpts'],
          quick=lambda: _tess_instances('quick'), thorough=lambda: _tess_instances('thorough'))
def tessellate_num_procs(ctx, count, num_procs, delta, update_delta):
    """requires: a container of `count` CONCRETE surfaces (different degrees / sizes / rationality), container delta set
                 (update_delta=False: every element keeps its own delta, set per element before)
       config  : tessellate(num_procs=N) vs tessellate(num_procs=1) on an identically built container
       ensures : same vertices (id, uv, coordinates) and faces (id, vertex ids) of the container, the same per element, same
                 evaluated points per element, the container still holds `count` elements in the same order; nothing raises
       pool    : native replay = the real multiprocessing.Pool; symbolic run = the order-preserving map contract (A4).
                 Schedules are not explored."""
    stats = _pools(ctx)
    d = [ctx.lit(Fraction(x)) for x in delta]

    def run(n, keep=None):
        c = _container(ctx, count)
        if keep is not None:
            keep.extend(list(c))
        if update_delta:
            c.delta = d
        else:
            for k, e in enumerate(c):
                e.delta = [ctx.lit(Fraction(1, 2 + k % 2)), ctx.lit(Fraction(1, 3 - k % 2))]
        kw = {} if n is None else {'num_procs': n}
        c.tessellate(delta=update_delta, **kw)
        return c

    ref_members, cfg_members = [], []
    ref = run(None, ref_members)
    one = run(1)
    ctx.check_true('num_procs=1.no_pool', stats['pools'] == 0)
    cfg = _call(ctx, 'tessellate(num_procs=%d)' % num_procs, run, num_procs, cfg_members)
    ctx.check_true('pool.used_with_num_procs', stats['pools'] == 1 and stats['processes'] == [num_procs],
                   'pools opened: %r' % (stats,))
    want = _mesh(ref.vertices, ref.faces)
    ctx.check_true('reference.nonempty', len(want[0]) >= 4 * count and len(want[1]) >= 2 * count)
    _check_mesh(ctx, 'num_procs=1', _mesh(one.vertices, one.faces), want)
    _check_mesh(ctx, 'container', _mesh(_call(ctx, 'vertices', getattr, cfg, 'vertices'), cfg.faces), want)
    ctx.check_true('elements.count', len(cfg) == len(ref) == count, '%d elements after tessellate, %d before' % (len(cfg), count))
    for k in range(count):
        a, b = cfg[k], ref[k]
        ctx.check_true('element%d.same_shape' % k, (a.degree_u, a.degree_v, a.ctrlpts_size_u, a.ctrlpts_size_v, a.rational) ==
                       (b.degree_u, b.degree_v, b.ctrlpts_size_u, b.ctrlpts_size_v, b.rational),
                       'element %d of the container is a different surface' % k)
        ctx.check_eq_grid('element%d.ctrlpts' % k, a.ctrlpts, b.ctrlpts)
        ctx.check_true('element%d.sample_size' % k, (a.sample_size_u, a.sample_size_v) == (b.sample_size_u, b.sample_size_v))
        ctx.check_true('element%d.evalpts.count' % k, len(a.evalpts) == len(b.evalpts))
        ctx.check_eq_grid('element%d.evalpts' % k, a.evalpts, b.evalpts)
        _check_mesh(ctx, 'element%d' % k, _mesh(a.vertices, a.faces), _mesh(b.vertices, b.faces))
    # the same follow-up on both containers: the caller moves the surface it added first (in place) and reads the container again
    ops = ctx.geomdl('operations')
    vec = [ctx.lit(0), ctx.lit(0), ctx.lit(100)]
    ops.translate(ref_members[0], list(vec), inplace=True)
    ops.translate(cfg_members[0], list(vec), inplace=True)
    ctx.check_eq_grid('followup.bbox', [list(cfg.bbox[0]), list(cfg.bbox[1])], [list(ref.bbox[0]), list(ref.bbox[1])])
    _check_mesh(ctx, 'followup.container', _mesh(cfg.vertices, cfg.faces), _mesh(ref.vertices, ref.faces))


def _vox_instances(tier):
    out = [dict(kind='surface', count=1, num_procs=2, grid=[3, 3, 2], use_cubes=False),
           dict(kind='surface', count=2, num_procs=4, grid=[2, 3, 3], use_cubes=False),
           dict(kind='surface', count=1, num_procs=4, grid=[3, 2, 3], use_cubes=True),
           dict(kind='volume', count=1, num_procs=2, grid=[3, 3, 3], use_cubes=False),
           # a non-default in/out padding has to reach the worker processes
           # (values for which the padding changes the filled flags of these shapes: 22 -> 26 and 36 -> 39 voxels)
           dict(kind='volume', count=1, num_procs=2, grid=[3, 3, 3], use_cubes=False, tol='1/2'),
           dict(kind='volume', count=1, num_procs=2, grid=[4, 4, 4], use_cubes=False, tol='1/5')]
    if tier == 'thorough':
        out += [dict(kind='surface', count=3, num_procs=8, grid=[4, 4, 4], use_cubes=False),
                dict(kind='volume', count=2, num_procs=4, grid=[4, 3, 5], use_cubes=True)]
    return out


def _concrete_volume(ctx, k):
    U = [ctx.lit(0)] * 2 + [ctx.lit(1)] * 2
    Wk = [ctx.lit(0)] * 3 + [ctx.lit(1)] * 3
    P = [[ctx.lit(Fraction(2 * i + k, 1)), ctx.lit(Fraction(3 * j, 2)), ctx.lit(Fraction(l * (i + 1) + j, 2))]
         for l in range(3) for i in range(2) for j in range(2)]
    v = shapes.build_volume(ctx, 1, 1, 2, U, U, Wk, P, 2, 2, 3)
    v.delta = [ctx.lit(Fraction(1, 3)), ctx.lit(Fraction(1, 2)), ctx.lit(Fraction(1, 3))]
    return v


@scenario('C17', fns=['voxelize.voxelize', '_voxelize.find_inouts_mp', '_voxelize.find_inouts_st',
                      '_voxelize.is_point_inside_voxel', '_voxelize.generate_voxel_grid', '_utilities.pool_context',
                      'linalg.frange', 'linalg.vector_dot'],
          quick=lambda: _vox_instances('quick'), thorough=lambda: _vox_instances('thorough'))
def voxelize_num_procs(ctx, kind, count, num_procs, grid, use_cubes, tol=None):
    """requires: a container of CONCRETE surfaces / volumes with a coarse evaluation grid, grid_size >= 2 per axis
       config  : voxelize(obj, grid_size=..., num_procs=N) vs the default (num_procs=1, single-process loop)
       ensures : the same voxel grid (every corner) and the same filled flags, one flag per voxel; nothing raises
       pool    : as tessellate_num_procs.  Schedules are not explored."""
    stats = _pools(ctx)
    vz = ctx.geomdl('voxelize')
    multi = ctx.geomdl('multi')

    def build():
        if kind == 'surface':
            c = _container(ctx, count)
            c.delta = [ctx.lit(Fraction(1, 3)), ctx.lit(Fraction(1, 4))]
            for e in c:
                e.delta = c.delta
            return c
        c = multi.VolumeContainer()
        for k in range(count):
            c.add(_concrete_volume(ctx, k))
        return c

    # every other option of the query (here the in/out padding `tol`) must reach the workers unchanged
    extra = {} if tol is None else {'tol': ctx.lit(Fraction(tol))}
    g0, f0 = vz.voxelize(build(), grid_size=tuple(grid), use_cubes=use_cubes, **extra)
    g1, f1 = vz.voxelize(build(), grid_size=tuple(grid), use_cubes=use_cubes, num_procs=1, **extra)
    gn, fn = _call(ctx, 'voxelize(num_procs=%d)' % num_procs, vz.voxelize, build(), grid_size=tuple(grid), use_cubes=use_cubes,
                   num_procs=num_procs, **extra)
    ctx.check_true('pool.used_with_num_procs', stats['pools'] == count and stats['processes'] == [num_procs] * count,
                   'pools opened: %r' % (stats,))
    if tol is not None:
        _gd, fd = vz.voxelize(build(), grid_size=tuple(grid), use_cubes=use_cubes)
        ctx.check_true('setup.option_changes_the_answer', list(fd) != list(f0), 'tol=%s gives the default flags: vacuous instance' % tol)
    ctx.check_true('reference.nonempty', len(g0) >= 8 and len(f0) == len(g0) and 0 < sum(f0) <= len(f0),
                   '%d voxels, %d flags, %d filled' % (len(g0), len(f0), sum(f0)))
    for tag, g, f in (('num_procs=1', g1, f1), ('num_procs=%d' % num_procs, gn, fn)):
        ctx.check_true(tag + '.grid.count', len(g) == len(g0), '%d voxels, default %d' % (len(g), len(g0)))
        for i in range(len(g0)):
            ctx.check_eq_grid('%s.grid[%d]' % (tag, i), g[i], g0[i])
        ctx.check_true(tag + '.filled.count', len(f) == len(g), '%d flags for %d voxels' % (len(f), len(g)))
        ctx.check_true(tag + '.filled', list(f) == list(f0), 'filled flags %r, default %r' % (list(f), list(f0)))


_POOL_SCRIPT = r'''
import json, sys
sys.path.insert(0, sys.argv[1])
sys.path.insert(0, sys.argv[2])
from harness import api, c17
ctx = api.FloatCtx({})
try:
    getattr(c17, sys.argv[3])(ctx, **json.loads(sys.argv[4]))
except api.CheckFailed as e:
    print('FAILED %s: %s' % (e.label, e.detail))
    sys.exit(1)
print('OK %d checks' % len(ctx.records))
'''


def _real_pool_instances(tier):
    out = []
    for np_ in (2, 4) + ((8,) if tier == 'thorough' else ()):
        out.append(dict(target='tessellate_num_procs', num_procs=np_,
                        params=dict(count=5, num_procs=np_, delta=['1/4', '1/3'], update_delta=True)))
        out.append(dict(target='voxelize_num_procs', num_procs=np_,
                        params=dict(kind='surface', count=2, num_procs=np_, grid=[3, 3, 3], use_cubes=False)))
    out.append(dict(target='voxelize_num_procs', num_procs=2,
                    params=dict(kind='volume', count=2, num_procs=2, grid=[3, 4, 3], use_cubes=True)))
    return out


@scenario('C17', fns=['multi.SurfaceContainer.tessellate', 'voxelize.voxelize', '_voxelize.find_inouts_mp',
                      '_utilities.pool_context'],
          quick=lambda: _real_pool_instances('quick'), thorough=lambda: _real_pool_instances('thorough'))
def real_pools(ctx, target, num_procs, params):
    """SANITY RUN, not a proof: the scenario `target` is executed once with native floats and the REAL multiprocessing.Pool
    in a native interpreter ($VERIF_NATIVE_PY or /venv/bin/python; the running interpreter in the native replay) against the
    repository under test.  Shows that the objects and the partial functions pickle and that Pool.map kept the order on this
    run; other schedules are covered only by the Pool.map contract (A4)."""
    import json
    py = sys.executable if ctx.mode != 'sym' else os.environ.get('VERIF_NATIVE_PY', '/venv/bin/python')
    root = os.path.dirname(os.path.dirname(os.path.abspath(__file__)))
    env = dict(os.environ)
    env['VERIF_REPO'] = REPO
    env.pop('PYTHONPATH', None)
    r = subprocess.run([py, '-c', _POOL_SCRIPT, REPO, root, target, json.dumps(params)], capture_output=True, text=True,
                       timeout=300, env=env, cwd=root)
    tail = (r.stdout + r.stderr).strip().splitlines()[-3:]
    ctx.check_true('native_run.num_procs=%d' % num_procs, r.returncode == 0 and r.stdout.strip().startswith('OK'),
                   '%s with real pools: exit %d: %s' % (target, r.returncode, ' | '.join(tail)))


def _affine_tess_shapes(tier):
    out = [dict(pu=2, pv=1, mu=[1], mv=[], ab=[['1', '0'], ['1', '0']], n=[3, 2]),
           dict(pu=2, pv=1, mu=[1], mv=[], ab=[['2', '3'], ['1', '0']], n=[3, 2]),
           dict(pu=1, pv=2, mu=[], mv=[], ab=[['1', '0'], ['1/2', '1/4']], n=[2, 3]),
           # unclamped knot vectors (concrete, uniform): the parametric domain is smaller than the knot range
           dict(pu=2, pv=1, mu=[1], mv=[], ab=[['3', '2'], ['1', '0']], n=[3, 2], clamped=False),
           dict(pu=1, pv=2, mu=[], mv=[1], ab=[['1', '0'], ['1/2', '-1']], n=[2, 3], clamped=False)]
    if tier == 'thorough':
        out += [dict(pu=2, pv=2, mu=[1], mv=[1], ab=[['10', '-5'], ['1/2', '1']], n=[4, 3])]
    return out


@scenario('C17', fns=['abstract.Surface.tessellate', 'tessellate.TrimTessellate.tessellate', 'abstract.Surface.vertices',
                      'abstract.Surface.faces', 'BSpline.Surface.evaluate_single', 'utilities.check_params'],
          quick=lambda: _affine_tess_shapes('quick'), thorough=lambda: _affine_tess_shapes('thorough'))
def surface_affine_tessellate(ctx, pu, pv, mu, mv, ab, n, clamped=True):
    """config  : N = Surface(normalize_kv=True), F = Surface(normalize_kv=False), both given a_u*U + b_u, a_v*V + b_v (CONCRETE
                 maps, symbolic interior knots and control points), both with delta = (1/n_u, 1/n_v)
       ensures : tessellate() does not raise on F; same number of vertices and faces, same vertex ids and face vertex ids,
                 every vertex has the same coordinates (the surface point of the affinely mapped parameter)"""
    if clamped:
        U, V, iu, iv, su, sv, (au, bu), (av, bv), P, W, N, F = _affine_surface_setup(ctx, pu, pv, mu, mv, False, ab)
    else:
        su, sv = pu + 1 + sum(mu), pv + 1 + sum(mv)
        U = [ctx.lit(Fraction(i, su + pu)) for i in range(su + pu + 1)]
        V = [ctx.lit(Fraction(i, sv + pv)) for i in range(sv + pv + 1)]
        (au, bu), (av, bv) = _ab(ctx, ab[0], 'u'), _ab(ctx, ab[1], 'v')
        P = shapes.net(ctx, 'P', su * sv, 3)
        N = _surface(ctx, pu, pv, [au * k + bu for k in U], [av * k + bv for k in V], P, su, sv, None, normalize_kv=True)
        F = _surface(ctx, pu, pv, [au * k + bu for k in U], [av * k + bv for k in V], P, su, sv, None, normalize_kv=False)
    for obj in (N, F):
        obj.delta = [ctx.lit(Fraction(1, n[0])), ctx.lit(Fraction(1, n[1]))]
    if not clamped:
        # the vertices of the default triangulation are the sampled points of the surface, in the documented grid order
        grid = [list(q) for q in N.evalpts]
        N.tessellate()
        ctx.check_true('normalised.vertices=sampled_grid.count', len(N.vertices) == len(grid))
        ctx.check_eq_grid('normalised.vertices=sampled_grid', [list(v.data) for v in N.vertices], grid)
    N.tessellate()
    _call(ctx, 'tessellate', F.tessellate)
    want = _mesh(N.vertices, N.faces)
    got = _mesh(_call(ctx, 'vertices', getattr, F, 'vertices'), F.faces)
    ctx.check_true('normalised.vertices.count', len(want[0]) == n[0] * n[1])
    ctx.check_true('vertices.count', len(got[0]) == len(want[0]), '%d vertices, normalised object %d' % (len(got[0]), len(want[0])))
    ctx.check_true('faces.count', len(got[1]) == len(want[1]), '%d faces, normalised object %d' % (len(got[1]), len(want[1])))
    ctx.check_true('vertices.ids', [v[0] for v in got[0]] == [v[0] for v in want[0]])
    ctx.check_true('faces.vertex_ids', [f[1:] for f in got[1]] == [f[1:] for f in want[1]])
    ctx.check_eq_grid('vertices.data', [v[2] for v in got[0]], [v[2] for v in want[0]])
