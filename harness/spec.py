"""Spec functions (DESIGN.md section 4).  Pure, number-generic (exact Q in sym mode, float in replay), written
from the mathematical definitions and independent of geomdl.  No float literals here: this file is not
loaded through the rewriter."""


def span_spec(p, U, n, u):
    """the unique r in [p, n-1] with U[r] <= u < U[r+1]; the last non-empty interval at the domain end.
    n = number of control points, len(U) = n + p + 1"""
    if u >= U[n]:
        r = n - 1
        while r > p and not (U[r] < U[r + 1]):
            r -= 1
        return r
    for r in range(p, n):
        if U[r] <= u and u < U[r + 1]:
            return r
    return p


def basis_row(p, U, span, u):
    """span-anchored Cox-de Boor: {i: B(i, p)(u)} for i in [span-p, span]; 0/0 := 0"""
    row = {span: 1}
    for d in range(1, p + 1):
        new = {}
        for i in range(span - d, span + 1):
            v = 0
            if i in row:
                den = U[i + d] - U[i]
                if den != 0:
                    v = v + (u - U[i]) / den * row[i]
            if (i + 1) in row:
                den = U[i + d + 1] - U[i + 1]
                if den != 0:
                    v = v + (U[i + d + 1] - u) / den * row[i + 1]
            new[i] = v
        row = new
    return row


def basis_all(p, U, span, u):
    """rows for every degree 0..p: list of dicts"""
    rows = [{span: 1}]
    for d in range(1, p + 1):
        rows.append(basis_row(d, U, span, u))
    return rows


def halfopen_basis(i, p, U, u):
    """Bh(i,p)(u): textbook half-open Cox-de Boor recursion with 0/0 := 0"""
    if p == 0:
        return 1 if (U[i] <= u and u < U[i + 1]) else 0
    v = 0
    den = U[i + p] - U[i]
    if den != 0:
        v = v + (u - U[i]) / den * halfopen_basis(i, p - 1, U, u)
    den = U[i + p + 1] - U[i + 1]
    if den != 0:
        v = v + (U[i + p + 1] - u) / den * halfopen_basis(i + 1, p - 1, U, u)
    return v


def curve_point(p, U, P, u):
    """C(u) = sum_i B(i,p)(u) P_i  (P: list of points, each a list of coordinates)"""
    n = len(P)
    s = span_spec(p, U, n, u)
    row = basis_row(p, U, s, u)
    dim = len(P[0])
    out = [0] * dim
    for i in range(s - p, s + 1):
        for d in range(dim):
            out[d] = out[d] + row[i] * P[i][d]
    return out


def surface_point(pu, pv, U, V, P, su, sv, u, v):
    """S(u,v) with the flat net P laid out v fastest: P[j + sv*i]"""
    a = span_spec(pu, U, su, u)
    b = span_spec(pv, V, sv, v)
    ru = basis_row(pu, U, a, u)
    rv = basis_row(pv, V, b, v)
    dim = len(P[0])
    out = [0] * dim
    for i in range(a - pu, a + 1):
        for j in range(b - pv, b + 1):
            c = ru[i] * rv[j]
            pt = P[j + sv * i]
            for d in range(dim):
                out[d] = out[d] + c * pt[d]
    return out


def volume_point(pu, pv, pw, U, V, W, P, su, sv, sw, u, v, w):
    """V(u,v,w) with layout index v + sv*(u + su*w)"""
    a = span_spec(pu, U, su, u)
    b = span_spec(pv, V, sv, v)
    c = span_spec(pw, W, sw, w)
    ru = basis_row(pu, U, a, u)
    rv = basis_row(pv, V, b, v)
    rw = basis_row(pw, W, c, w)
    dim = len(P[0])
    out = [0] * dim
    for i in range(a - pu, a + 1):
        for j in range(b - pv, b + 1):
            for k in range(c - pw, c + 1):
                cf = ru[i] * rv[j] * rw[k]
                pt = P[j + sv * (i + su * k)]
                for d in range(dim):
                    out[d] = out[d] + cf * pt[d]
    return out


def project(pw):
    """homogeneous (x*w, ..., w) -> (x, ...)"""
    return [c / pw[-1] for c in pw[:-1]]


def weighted(P, W):
    return [[c * w for c in pt] + [w] for pt, w in zip(P, W)]


def binom(n, k):
    if k < 0 or k > n:
        return 0
    r = 1
    for i in range(1, k + 1):
        r = r * (n - k + i) // i
    return r


def bernstein_to_monomial(P):
    """coefficients c_k (k=0..p) of sum_i Bern(i,p)(t) P_i = sum_k c_k t^k, per coordinate"""
    p = len(P) - 1
    dim = len(P[0])
    out = []
    for k in range(p + 1):
        c = [0] * dim
        for i in range(k + 1):
            f = binom(p, k) * binom(k, i) * (-1) ** (k - i)
            for d in range(dim):
                c[d] = c[d] + f * P[i][d]
        out.append(c)
    return out


def layout(u, v, w, su, sv):
    return v + sv * (u + su * w)


def insert_sorted(U, x, r, span):
    """knot vector with r copies of x inserted after index span"""
    return list(U[:span + 1]) + [x] * r + list(U[span + 1:])
