"""Assumption catalogue (DESIGN.md section 3); every evidence file echoes the ones its property touches."""

ALL = {
    'A1': 'A1 reals: Python float arithmetic is treated as exact real arithmetic (rationals); rounding error, overflow, '
          'NaN/inf are out of scope. Tolerance constants in the code are executed exactly as written.',
    'A2': 'A2 rounding-to-decimals is the identity: float("{:.18f}".format(x)) == x for the library default precision.',
    'A3': 'A3 text round trip: float(str(x)) == x and printed numbers contain no separator characters (numbers print to '
          'opaque tokens; all splitting/joining/ordering code runs for real).',
    'A4': 'A4 external functions by contract, not proved: math.sqrt (s>=0, s*s==x), math.cos/sin (c*c+s*s==1), '
          'math.factorial, copy.deepcopy on plain lists, sorted, set, functools.reduce, functools.lru_cache, json, struct, '
          'multiprocessing.Pool.map (order-preserving map on copies), the file system.',
    'A5': 'A5 CPython semantics of the supported subset as encoded by the VC generator (Engine A); Engine B runs the '
          'rewritten real code on CPython 3.11, replays run on CPython 3.12.',
    'A6': 'A6 Python ints are mathematical integers.',
    'A7': 'A7 mathematical lemmas used as axioms: triangle inequality of the Euclidean norm (C18); a solution of the normal '
          'equations minimises the least-squares functional (C11).',
    'B':  'Engine B results are bounded: complete over all real-valued inputs inside each enumerated shape (degree, sizes, '
          'multiplicity pattern, counts), nothing outside the stated shape family; never counted as proved.',
    'TCB': 'Trusted: the VC generator (pyvc), the loader/rewriter and exact arithmetic (symx), z3 4.8.12/5.1, cvc5, CPython.',
}

TRUSTED_BASE = ['pyvc VC generator (this repository, /verif/pyvc)', 'symx loader/rewriter + exact rational-function '
                'arithmetic (/verif/symx)', 'z3 5.1.0 (python API)', '/usr/bin/z3 4.8.12', 'cvc5 1.0.3', 'CPython 3.11 / 3.12']

PROPS = {}     # filled by harness modules: PROPS['C04'] = {'level': 'proof'|'other', 'assume': [...], 'explanation': str}


def for_prop(prop):
    keys = PROPS.get(prop, {}).get('assume', ['A1', 'A5', 'A6'])
    keys = list(keys) + ['B', 'TCB']
    return [ALL[k] for k in keys]
