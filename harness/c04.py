"""C04 Knot insertion never changes the shape.

Contracts (requires / ensures) on the real helpers.knot_insertion(+_kv, _alpha), operations.insert_knot and the
Curve/Surface/Volume.insert_knot methods; the postcondition text is the property statement:
  * every evaluated point unchanged (identity in QQ(knots, x, u, control points, weights)),
  * knot vector gains exactly r copies in sorted position, control net grows by r in that direction only,
  * r > degree - multiplicity in one direction is rejected and leaves the object unchanged.
"""
from fractions import Fraction
import copy

from .api import scenario
from . import shapes, spec, assumptions

assumptions.PROPS['C04'] = {'level': 'proof', 'assume': ['A1', 'A2', 'A3', 'A4', 'A5', 'A6']}

MULT_TOL = Fraction(1, 10 ** 7)     # helpers.find_multiplicity: tol = 10e-8


def _curve_shapes(pmax, extra, rational_for):
    out = []
    if pmax < 5:
        # a few high degrees in every tier: the "load remaining control points" part of A5.1 only runs for degree >= 4
        out += [dict(p=4, mult=[], r=1, rational=False, dim=2), dict(p=4, mult=[1], r=1, rational=False, dim=2),
                dict(p=5, mult=[], r=1, rational=False, dim=2), dict(p=5, mult=[], r=2, rational=False, dim=2)]
        if pmax < 4:
            out += [dict(p=4, mult=[], r=2, rational=False, dim=2), dict(p=4, mult=[2], r=1, rational=False, dim=2)]
    for p in range(1, pmax + 1):
        for k in range(0, extra + 1):            # k = number of interior knots (with multiplicity)
            for mult in shapes.compositions(k, p):
                for r in range(1, p + 1):
                    out.append(dict(p=p, mult=list(mult), r=r, rational=False, dim=2))
                    if p in rational_for and k <= 2:
                        out.append(dict(p=p, mult=list(mult), r=r, rational=True, dim=2))
    # clamped knot vectors kept as given (normalize_kv=False, symbolic range [a, b])
    out += [dict(p=2, mult=[1], r=1, rational=False, dim=2, norm=False), dict(p=3, mult=[2], r=2, rational=False, dim=2, norm=False),
            dict(p=2, mult=[1], r=2, rational=True, dim=2, norm=False)]
    return out


@scenario('C04', fns=['helpers.knot_insertion', 'helpers.knot_insertion_kv', 'helpers.knot_insertion_alpha',
                      'helpers.find_multiplicity', 'helpers.find_span_linear', 'operations.insert_knot',
                      'BSpline.Curve.insert_knot', 'NURBS.Curve.ctrlptsw'],
          quick=lambda: _curve_shapes(3, 3, (2,)) ,
          thorough=lambda: _curve_shapes(4, 4, (2, 3)))
def curve_insert(ctx, p, mult, r, rational, dim, norm=True):
    """requires: valid clamped knot vector, x in the open domain and tol-separated from every knot,
                 positive weights, u in the domain
       ensures : r <= p - s  ==>  evaluate(u) unchanged, kv == sorted insertion, size grows by r
                 r >  p - s  ==>  operations.insert_knot raises GeomdlException, method leaves object unchanged"""
    U, inner, n = shapes.make_kv(ctx, p, mult, normalized=norm)
    x = shapes.param_in(ctx, 'x', U[0], U[-1], open_lo=True, open_hi=True)
    for k in [U[0]] + inner + [U[-1]]:
        ctx.assume(ctx.sep(x, k, MULT_TOL))
    u = shapes.param_in(ctx, 'u', U[0], U[-1])
    P = shapes.net(ctx, 'P', n, dim)
    W = shapes.weights(ctx, 'w', n) if rational else None
    crv = shapes.build_curve(ctx, p, U, P, W, normalize_kv=norm)
    Pw = shapes.homog(P, W)
    if rational:
        ctx.assume_pos(spec.curve_point(p, U, [[w] for w in W], u)[0], 'L.weight_function_positive')

    s = sum(1 for k in U if x == k)            # true multiplicity (tolerance-free, by the sep precondition)
    ops = ctx.geomdl('operations')
    exc = ctx.geomdl('exceptions').GeomdlException
    if r > p - s:
        before = (list(crv.knotvector), [list(q) for q in (crv.ctrlptsw if rational else crv.ctrlpts)])
        ctx.check_raises('reject.operations', exc, ops.insert_knot, copy.deepcopy(crv), [x], [r])
        crv.insert_knot(x, num=r)
        ctx.check_eq_vec('reject.kv_unchanged', crv.knotvector, before[0])
        ctx.check_eq_grid('reject.ctrlpts_unchanged', crv.ctrlptsw if rational else crv.ctrlpts, before[1])
        return
    crv.insert_knot(x, num=r)
    span = spec.span_spec(p, U, n, x)
    ctx.check_eq_vec('kv.sorted_insert', crv.knotvector, spec.insert_sorted(U, x, r, span))
    ctx.check_true('size.grows_by_r', crv.ctrlpts_size == n + r and len(crv.ctrlpts) == n + r)
    want = spec.curve_point(p, U, Pw, u)
    want = spec.project(want) if rational else want
    ctx.check_eq_vec('shape.unchanged', crv.evaluate_single(u), want)
    if rational:
        ctx.check_true('weights.count', len(crv.weights) == n + r)
    # the helper called directly, with its optional arguments (multiplicity s=, span=) left to their defaults
    hp = ctx.geomdl('helpers')
    Q = hp.knot_insertion(p, list(U), [list(q) for q in Pw], x, num=r)
    ctx.check_true('helper.defaults.len', len(Q) == n + r)
    if len(Q) == n + r:
        ctx.check_eq_grid('helper.defaults=object_level_result', Q, crv.ctrlptsw if rational else crv.ctrlpts)


def _surf_shapes(tier):
    base = [dict(pu=2, pv=2, mu=[1], mv=[], dirs='u', r=1, rational=False),
            dict(pu=2, pv=2, mu=[], mv=[1], dirs='v', r=2, rational=False),
            dict(pu=2, pv=1, mu=[1], mv=[1], dirs='uv', r=1, rational=False),
            dict(pu=1, pv=2, mu=[], mv=[], dirs='u', r=1, rational=True),
            dict(pu=2, pv=2, mu=[], mv=[], dirs='v', r=1, rational=True),
            # different degrees per direction with insertion counts at / above the limit of the selected direction
            dict(pu=1, pv=2, mu=[], mv=[1], dirs='v', r=2, rational=False), dict(pu=2, pv=1, mu=[1], mv=[], dirs='v', r=2, rational=False),
            dict(pu=1, pv=2, mu=[1], mv=[], dirs='u', r=2, rational=False),
            # knot vectors kept as given (normalize_kv=False, symbolic ranges: the inserted value may be 0, negative, > 1)
            dict(pu=1, pv=2, mu=[], mv=[], dirs='v', r=1, rational=False, norm=False),
            dict(pu=2, pv=1, mu=[], mv=[], dirs='u', r=1, rational=False, norm=False)]
    if tier == 'thorough':
        base += [dict(pu=2, pv=2, mu=[1], mv=[], dirs='uv', r=1, rational=False, norm=False),
                 dict(pu=3, pv=2, mu=[1], mv=[1], dirs='uv', r=2, rational=False),
                 dict(pu=3, pv=3, mu=[2], mv=[1], dirs='u', r=1, rational=False),
                 dict(pu=2, pv=3, mu=[1], mv=[1, 1], dirs='v', r=3, rational=False),
                 dict(pu=2, pv=2, mu=[1], mv=[1], dirs='uv', r=1, rational=True)]
    return base


@scenario('C04', fns=['operations.insert_knot', 'helpers.knot_insertion', 'BSpline.Surface.insert_knot',
                      'BSpline.Surface.set_ctrlpts'],
          quick=lambda: _surf_shapes('quick'), thorough=lambda: _surf_shapes('thorough'))
def surface_insert(ctx, pu, pv, mu, mv, dirs, r, rational, norm=True):
    """ensures: S(u,v) unchanged; only the selected direction's size and knot vector change"""
    U, iu, su = shapes.make_kv(ctx, pu, mu, prefix='a', normalized=norm)
    V, iv, sv = shapes.make_kv(ctx, pv, mv, prefix='b', normalized=norm)
    x = shapes.param_in(ctx, 'x', U[0], U[-1], open_lo=True, open_hi=True)
    if not norm:
        ctx.assume(ctx.lt(V[0], x))
        ctx.assume(ctx.lt(x, V[-1]))
    for k in [U[0]] + iu + iv + [U[-1]] + ([] if norm else [V[0], V[-1]]):
        ctx.assume(ctx.sep(x, k, MULT_TOL))
    u = shapes.param_in(ctx, 'u', U[0], U[-1])
    v = shapes.param_in(ctx, 'v', V[0], V[-1])
    P = shapes.net(ctx, 'P', su * sv, 3)
    W = shapes.weights(ctx, 'w', su * sv) if rational else None
    srf = shapes.build_surface(ctx, pu, pv, U, V, P, su, sv, W, normalize_kv=norm)
    Pw = shapes.homog(P, W)
    if rational:
        ctx.assume_pos(spec.surface_point(pu, pv, U, V, [[w] for w in W], su, sv, u, v)[0], 'L.weight_function_positive')
    s_u = sum(1 for k in U if x == k)
    s_v = sum(1 for k in V if x == k)
    if ('u' in dirs and r > pu - s_u) or ('v' in dirs and r > pv - s_v):
        if len(dirs) == 2:
            ctx.skip('multiplicity would exceed the degree in one of two directions (single-direction rejection is checked)')
        # a single-direction insertion exceeding the allowed multiplicity (degree of THAT direction) is rejected
        ops = ctx.geomdl('operations')
        exc = ctx.geomdl('exceptions').GeomdlException
        prm = [x if 'u' in dirs else None, x if 'v' in dirs else None]
        num = [r if 'u' in dirs else 0, r if 'v' in dirs else 0]
        ctx.check_raises('reject.operations', exc, ops.insert_knot, copy.deepcopy(srf), prm, num)
        return
    kw = {}
    if 'u' in dirs:
        kw['u'] = x
        kw['num_u'] = r
    if 'v' in dirs:
        kw['v'] = x
        kw['num_v'] = r
    srf.insert_knot(**kw)
    eu = su + (r if 'u' in dirs else 0)
    ev = sv + (r if 'v' in dirs else 0)
    ctx.check_true('size.only_selected_direction', srf.ctrlpts_size_u == eu and srf.ctrlpts_size_v == ev
                   and len(srf.ctrlpts) == eu * ev)
    if 'u' in dirs:
        ctx.check_eq_vec('kv_u.sorted_insert', srf.knotvector_u, spec.insert_sorted(U, x, r, spec.span_spec(pu, U, su, x)))
    else:
        ctx.check_eq_vec('kv_u.untouched', srf.knotvector_u, U)
    if 'v' in dirs:
        ctx.check_eq_vec('kv_v.sorted_insert', srf.knotvector_v, spec.insert_sorted(V, x, r, spec.span_spec(pv, V, sv, x)))
    else:
        ctx.check_eq_vec('kv_v.untouched', srf.knotvector_v, V)
    want = spec.surface_point(pu, pv, U, V, Pw, su, sv, u, v)
    want = spec.project(want) if rational else want
    ctx.check_eq_vec('shape.unchanged', srf.evaluate_single([u, v]), want)


def _vol_shapes(tier):
    base = [dict(deg=[1, 1, 1], m=[[], [], []], d=0, r=1), dict(deg=[1, 1, 1], m=[[], [], []], d=1, r=1),
            dict(deg=[1, 1, 1], m=[[], [], []], d=2, r=1), dict(deg=[2, 1, 1], m=[[1], [], []], d=0, r=1),
            # two insertions in one call: the inserted layers must not alias each other
            dict(deg=[2, 1, 1], m=[[], [], []], d=0, r=2), dict(deg=[1, 2, 1], m=[[], [], []], d=1, r=2),
            dict(deg=[1, 1, 2], m=[[], [], []], d=2, r=2),
            # the other directions have interior knots of their own: the inserted parameter may coincide with one of THEIR knots
            dict(deg=[1, 2, 2], m=[[], [1], []], d=2, r=2), dict(deg=[2, 1, 2], m=[[1], [], [1]], d=1, r=1),
            # knot vectors kept as given (normalize_kv=False): the inserted value may be 0 or negative
            dict(deg=[1, 1, 1], m=[[], [], []], d=1, r=1, norm=False), dict(deg=[1, 1, 1], m=[[], [], []], d=2, r=1, norm=False)]
    # rational volumes, every direction; two directions in one call (every pair)
    for d in range(3):
        base.append(dict(deg=[1, 1, 1], m=[[], [], []], d=d, r=1, rational=True))
    for d, d2 in ((0, 1), (0, 2), (1, 2)):
        base.append(dict(deg=[1, 1, 1], m=[[], [], []], d=d, r=1, d2=d2))
    # insertion at a domain end, every direction
    for d in range(3):
        base.append(dict(deg=[1, 2, 1], m=[[], [], [1]], d=d, r=1, at_end='upper'))
        base.append(dict(deg=[2, 1, 1], m=[[1], [], []], d=d, r=1, at_end='lower', norm=(d != 2)))
    if tier == 'thorough':
        base += [dict(deg=[2, 2, 1], m=[[1], [], []], d=1, r=2), dict(deg=[1, 2, 2], m=[[], [1], []], d=2, r=1),
                 dict(deg=[2, 1, 2], m=[[], [], [1]], d=2, r=2)]
    return base


@scenario('C04', fns=['operations.insert_knot', 'helpers.knot_insertion', 'BSpline.Volume.insert_knot'],
          quick=lambda: _vol_shapes('quick'), thorough=lambda: _vol_shapes('thorough'))
def volume_insert(ctx, deg, m, d, r, norm=True, at_end=None, rational=False, d2=None):
    """ensures: V(u,v,w) unchanged; only direction d (and d2, inserted in the same call) grows"""
    kvs, inner, sizes = [], [], []
    for a, pfx in enumerate('abc'):
        U, iu, n = shapes.make_kv(ctx, deg[a], m[a], prefix=pfx, normalized=norm)
        kvs.append(U)
        inner.append(iu)
        sizes.append(n)
    x = shapes.param_in(ctx, 'x', kvs[d][0], kvs[d][-1], open_lo=True, open_hi=True)
    for k in [kvs[d][0], kvs[d][-1]] + inner[0] + inner[1] + inner[2]:
        ctx.assume(ctx.sep(x, k, MULT_TOL))
    prm = [shapes.param_in(ctx, nm, kvs[a][0], kvs[a][-1]) for a, nm in enumerate(('u', 'v', 'w'))]
    su, sv, sw = sizes
    P = shapes.net(ctx, 'P', su * sv * sw, 3)
    W = shapes.weights(ctx, 'w', su * sv * sw) if rational else None
    vol = shapes.build_volume(ctx, deg[0], deg[1], deg[2], kvs[0], kvs[1], kvs[2], P, su, sv, sw, W, normalize_kv=norm)
    Pw = shapes.homog(P, W)
    if rational:
        ctx.assume_pos(spec.volume_point(deg[0], deg[1], deg[2], kvs[0], kvs[1], kvs[2], [[w_] for w_ in W], su, sv, sw,
                                         prm[0], prm[1], prm[2])[0], 'L.weight_function_positive')
    if at_end is not None:
        # a domain end already has multiplicity degree + 1: every insertion there exceeds the limit, is rejected and leaves
        # the volume unchanged (method and operations entry points)
        xe = kvs[d][0] if at_end == 'lower' else kvs[d][-1]
        exc = ctx.geomdl('exceptions').GeomdlException
        kw = {('u', 'v', 'w')[d]: xe, ('num_u', 'num_v', 'num_w')[d]: r}
        try:                         # the method reports the rejection (it prints the error) or raises: either way no effect
            vol.insert_knot(**kw)
        except exc:
            pass
        prm_l = [None, None, None]
        num_l = [0, 0, 0]
        prm_l[d], num_l[d] = xe, r
        ctx.check_raises('reject.at_domain_end.operations', exc, ctx.geomdl('operations').insert_knot, vol, prm_l, num_l)
        ctx.check_true('reject.sizes_unchanged', [vol.ctrlpts_size_u, vol.ctrlpts_size_v, vol.ctrlpts_size_w] == list(sizes)
                       and len(vol.ctrlpts) == su * sv * sw)
        for a_, got_ in enumerate((vol.knotvector_u, vol.knotvector_v, vol.knotvector_w)):
            ctx.check_eq_vec('reject.kv%d_unchanged' % a_, got_, kvs[a_])
        ctx.check_eq_grid('reject.ctrlpts_unchanged', vol.ctrlpts, P)
        return
    dirs = [d] + ([d2] if d2 is not None else [])
    for dd in dirs:
        if r > deg[dd] - sum(1 for k in kvs[dd] if x == k):
            ctx.skip('rejected case covered at curve level')
    kw = {}
    for dd in dirs:
        kw[('u', 'v', 'w')[dd]] = x
        kw[('num_u', 'num_v', 'num_w')[dd]] = r
    vol.insert_knot(**kw)
    exp = list(sizes)
    for dd in dirs:
        exp[dd] += r
    ctx.check_true('size.only_selected_direction', [vol.ctrlpts_size_u, vol.ctrlpts_size_v, vol.ctrlpts_size_w] == exp
                   and len(vol.ctrlpts) == exp[0] * exp[1] * exp[2],
                   'sizes %r, expected %r' % ([vol.ctrlpts_size_u, vol.ctrlpts_size_v, vol.ctrlpts_size_w], exp))
    got_kvs = [vol.knotvector_u, vol.knotvector_v, vol.knotvector_w]
    for a in range(3):
        if a in dirs:
            ctx.check_eq_vec('kv%d.sorted_insert' % a, got_kvs[a],
                             spec.insert_sorted(kvs[a], x, r, spec.span_spec(deg[a], kvs[a], sizes[a], x)))
        else:
            ctx.check_eq_vec('kv%d.untouched' % a, got_kvs[a], kvs[a])
    want = spec.volume_point(deg[0], deg[1], deg[2], kvs[0], kvs[1], kvs[2], Pw, su, sv, sw, prm[0], prm[1], prm[2])
    want = spec.project(want) if rational else want
    ctx.check_eq_vec('shape.unchanged', vol.evaluate_single(prm), want)
