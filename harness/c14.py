"""C14 Export followed by import reproduces the geometry (bounded tier).

Contract on the real export/import pairs (postconditions taken from the property statement):

  * dict layer shared by JSON / YAML / cfg:  _exchange.export_dict_crv/surf/vol  ->  import_dict_crv/surf/vol,
    export_dict_str -> import_dict_str (callback pair replaced by its A4 contract: tuple -> list, otherwise identity) and the
    real files written by exchange.export_json and read by exchange.import_json:
    same degrees, knot vectors, sizes, control points, weights (unit weights for non-rational input), evaluation delta /
    sample size, trim curves (spline / freeform / container, with their sense flag); the imported shape evaluates to the
    spec point of the ORIGINAL definition at symbolic parameters;
  * exchange.export_smesh -> import_smesh and export_vmesh -> import_vmesh through real temporary files: the same fields
    (the format carries no delta), and the file itself uses the documented ordering: header lines (dimension, degrees, sizes,
    one knot vector per line), then one "x y z w" line per control point with u varying fastest, then v, then w layers;
  * exchange.export_txt -> import_txt (1-D list; 2-D: size_u lines of size_v points, coordinate / column separators as
    given) and export_csv -> import_csv (one header line, then one point per line; control points or evaluated points):
    the imported lists equal the exported control points (weighted ones for rational shapes) / evaluated points, the 2-D
    reader returns the sizes, and a shape rebuilt from the imported points evaluates to the spec point.

How numbers travel (assumption A3): str(x) / format(x, '.18f') of an exact number is an opaque token without separator
characters and float(token) gives the number back; every byte of joining / splitting / ordering logic of the exporters and
importers runs for real.  json (A4): in sym mode exchange.json is replaced by a proxy that calls the real json.dumps /
json.loads on the whole structure and prints an exact number as the tagged token {"__vq__": "<q17>"} (json cannot print a
non-float number type); in the native replay the untouched module and real floats are used.

Shape family: normalised clamped knot vectors, pairwise different sizes per direction, one symbolic coordinate per control
point (the others distinct constants), the first weights symbolic and positive (the others distinct constants), containers
of 1..3 shapes (the first with symbolic interior knots, the others with distinct constant knots); evaluation deltas are
concrete (every evaluation of the library reads sample_size = floor(1/delta + 1/2)), different per shape and direction.

Out of scope (packages not installed in the verification environment): export_yaml/import_yaml (ruamel.yaml),
export_cfg/import_cfg (libconf), jinja2 templates.  They share the dict layer that is checked here.  Shapes created with
normalize_kv=False are outside the family (every importer creates normalising shapes).
"""
import os
import shutil
import tempfile
from fractions import Fraction

from .api import scenario
from . import shapes, spec, assumptions

assumptions.PROPS['C14'] = {'level': 'other', 'assume': ['A1', 'A2', 'A3', 'A4', 'A5', 'A6']}

NDIR = {'curve': 1, 'surface': 2, 'volume': 3}
TAGS = 'xyz'


# ------------------------------------------------------------------------------------------------
# numbers <-> text, temporary files, json
# ------------------------------------------------------------------------------------------------
def _num(ctx, s):
    """float(s) of a printed number (A3: a token gives the exact number back)"""
    if ctx.mode == 'sym':
        return ctx.q.vq_float(s)
    return float(s)


class _JsonProxy(object):
    """sym mode stand-in for the global `json` of geomdl.exchange: the real json module run on the whole structure; an
    exact number is written as the tagged token {"__vq__": "<qN>"} and read back through float(token) (A3/A4)"""

    def __init__(self, real, qnum):
        self._real, self._q = real, qnum

    def _enc(self, o):
        if isinstance(o, self._q.Q):
            return {'__vq__': str(o)}
        raise TypeError('Object of type %s is not JSON serializable' % type(o).__name__)

    def _dec(self, d):
        if len(d) == 1 and '__vq__' in d:
            return self._q.vq_float(d['__vq__'])
        return d

    def dumps(self, obj, **kw):
        kw.setdefault('default', self._enc)
        return self._real.dumps(obj, **kw)

    def loads(self, s, **kw):
        kw.setdefault('object_hook', self._dec)
        return self._real.loads(s, **kw)

    def __getattr__(self, name):
        return getattr(self._real, name)


def _exchange(ctx):
    ex = ctx.geomdl('exchange')
    if ctx.mode == 'sym' and not isinstance(ex.json, _JsonProxy):
        import json as real_json
        ex.json = _JsonProxy(real_json, ctx.q)
    return ex


class _TmpDir(object):
    """real temporary directory under $TMPDIR (or /tmp), removed on exit (also when a path is abandoned)"""

    def __enter__(self):
        base = os.environ.get('TMPDIR') or '/tmp'
        self.path = tempfile.mkdtemp(prefix='verif_c14_', dir=base)
        return self.path

    def __exit__(self, *exc):
        shutil.rmtree(self.path, ignore_errors=True)
        return False


def _lines(path):
    with open(path) as f:
        return f.read().split('\n')


def _tuples_to_lists(x):
    """A4 contract of json.loads(json.dumps(x)): tuple -> list, otherwise identity"""
    if isinstance(x, dict):
        return dict((k, _tuples_to_lists(v)) for k, v in x.items())
    if isinstance(x, (list, tuple)):
        return [_tuples_to_lists(v) for v in x]
    return x


# ------------------------------------------------------------------------------------------------
# shape family
# ------------------------------------------------------------------------------------------------
def _kv(ctx, p, mult, prefix, symbolic, off):
    """clamped normalised knot vector; interior knots symbolic, or distinct constants (different for every `off`)"""
    if symbolic:
        U, _inner, n = shapes.make_kv(ctx, p, mult, prefix=prefix)
        return U, n
    m = len(mult)
    U = [ctx.lit(0)] * (p + 1)
    for j, r in enumerate(mult):
        U += [ctx.lit(Fraction(j + 1, m + 1 + off))] * r
    U += [ctx.lit(1)] * (p + 1)
    return U, p + 1 + sum(mult)


def _weights(ctx, prefix, n, nsym):
    """positive weights: the first nsym symbolic, the others distinct constants"""
    W = []
    for i in range(n):
        if i < nsym:
            w = ctx.num('%s%d' % (prefix, i))
            ctx.assume(ctx.gt(w, 0))
        else:
            w = ctx.lit(Fraction(i + 3, i + 2))
        W.append(w)
    return W


def _data(ctx, kind, sh, dim, tag, symbolic_kv=True, nsym_w=2, off=0):
    """sh = dict(deg=[..], mult=[[..], ..], rational=bool)"""
    kvs, sizes = [], []
    for a in range(NDIR[kind]):
        U, n = _kv(ctx, sh['deg'][a], sh['mult'][a], tag + 'abc'[a], symbolic_kv, off + a)
        kvs.append(U)
        sizes.append(n)
    total = 1
    for n in sizes:
        total *= n
    P = shapes.net(ctx, tag + 'P', total, dim)
    W = _weights(ctx, tag + 'w', total, nsym_w) if sh['rational'] else None
    if sh['rational'] and sh.get('weights') == 'equal':
        W = [ctx.lit(Fraction(5, 2))] * total          # all weights equal, not 1: the common factor cancels in every point
    return dict(kind=kind, rational=sh['rational'], deg=list(sh['deg']), kvs=kvs, sizes=sizes, P=P, W=W, dim=dim,
                delta=None)


def _build(ctx, d):
    k = d['kind']
    if k == 'curve':
        return shapes.build_curve(ctx, d['deg'][0], d['kvs'][0], d['P'], d['W'])
    if k == 'surface':
        return shapes.build_surface(ctx, d['deg'][0], d['deg'][1], d['kvs'][0], d['kvs'][1], d['P'], d['sizes'][0],
                                    d['sizes'][1], d['W'])
    return shapes.build_volume(ctx, d['deg'][0], d['deg'][1], d['deg'][2], d['kvs'][0], d['kvs'][1], d['kvs'][2], d['P'],
                               d['sizes'][0], d['sizes'][1], d['sizes'][2], d['W'])


def _set_density(ctx, obj, d, idx):
    """sampling density (evaluation needs a concrete one: every evaluation reads sample_size = floor(1/delta + 1/2)):
    direction 0 gets a delta that is not the reciprocal of an integer and differs per shape, the other directions the
    pairwise different sample sizes 5 and 7; d['delta'] / d['ssize'] = the values read back from the original"""
    k = d['kind']
    d0 = ctx.lit(Fraction(3, 37 + 4 * idx))
    if k == 'curve':
        obj.delta = d0
        d['delta'] = [obj.delta]
        d['ssize'] = [obj.sample_size]
    else:
        names = ('u', 'v', 'w')[:NDIR[k]]
        for a, nm in enumerate(names):
            if a == 0:
                setattr(obj, 'delta_' + nm, d0)
            else:
                setattr(obj, 'sample_size_' + nm, (0, 5, 7)[a])
        d['delta'] = [getattr(obj, 'delta_' + nm) for nm in names]
        d['ssize'] = [getattr(obj, 'sample_size_' + nm) for nm in names]
    ctx.check_eq('setup.delta0', d['delta'][0], d0)


def _container(ctx, kind, objs):
    multi = ctx.geomdl('multi')
    c = {'curve': multi.CurveContainer, 'surface': multi.SurfaceContainer, 'volume': multi.VolumeContainer}[kind]()
    for o in objs:
        c.add(o)
    return c


def _params(ctx, kind):
    return [shapes.param_in(ctx, nm, ctx.lit(0), ctx.lit(1)) for nm in ('u', 'v', 'w')[:NDIR[kind]]]


def _spec_point(ctx, d, prm):
    """the point of the ORIGINAL definition (spec.py), projected for rational shapes"""
    deg, kvs, sz, k = d['deg'], d['kvs'], d['sizes'], d['kind']

    def f(pts):
        if k == 'curve':
            return spec.curve_point(deg[0], kvs[0], pts, prm[0])
        if k == 'surface':
            return spec.surface_point(deg[0], deg[1], kvs[0], kvs[1], pts, sz[0], sz[1], prm[0], prm[1])
        return spec.volume_point(deg[0], deg[1], deg[2], kvs[0], kvs[1], kvs[2], pts, sz[0], sz[1], sz[2],
                                 prm[0], prm[1], prm[2])
    if d['W'] is None:
        return f(d['P'])
    ctx.assume_pos(f([[w] for w in d['W']])[0], 'L.weight_function_positive')
    return spec.project(f(shapes.homog(d['P'], d['W'])))


# ------------------------------------------------------------------------------------------------
# field-by-field comparison of an imported shape with the original definition
# ------------------------------------------------------------------------------------------------
def _fields(obj, kind):
    if kind == 'curve':
        return [obj.degree], [obj.knotvector], [obj.ctrlpts_size]
    if kind == 'surface':
        return ([obj.degree_u, obj.degree_v], [obj.knotvector_u, obj.knotvector_v],
                [obj.ctrlpts_size_u, obj.ctrlpts_size_v])
    return ([obj.degree_u, obj.degree_v, obj.degree_w], [obj.knotvector_u, obj.knotvector_v, obj.knotvector_w],
            [obj.ctrlpts_size_u, obj.ctrlpts_size_v, obj.ctrlpts_size_w])


def _same_shape(ctx, tag, got, d, prm, delta=True, evaluate=True):
    kind = d['kind']
    ctx.check_true(tag + '.kind', getattr(got, 'pdimension', None) == NDIR[kind],
                   'imported object has pdimension %r' % (getattr(got, 'pdimension', None),))
    ctx.check_true(tag + '.dimension', got.dimension == d['dim'], 'dimension %r, exported %r' % (got.dimension, d['dim']))
    deg, kvs, sizes = _fields(got, kind)
    ctx.check_true(tag + '.degrees', list(deg) == d['deg'], 'degrees %r, exported %r' % (list(deg), d['deg']))
    ctx.check_true(tag + '.sizes', list(sizes) == d['sizes'], 'sizes %r, exported %r' % (list(sizes), d['sizes']))
    for a in range(NDIR[kind]):
        ctx.check_eq_vec('%s.knotvector%d' % (tag, a), kvs[a], d['kvs'][a])
    total = len(d['P'])
    n = min(len(got.ctrlpts), total)          # compare what is there first, so that a wrong count hides nothing else
    W = d['W'] if d['W'] is not None else [ctx.lit(1)] * total
    if got.rational:
        ctx.check_eq_grid(tag + '.ctrlpts', got.ctrlpts[:n], d['P'][:n])
        ctx.check_eq_vec(tag + '.weights', got.weights[:n], W[:n])
        ctx.check_eq_grid(tag + '.ctrlptsw', got.ctrlptsw[:n], shapes.homog(d['P'], W)[:n])
    else:
        ctx.check_true(tag + '.weights.nonrational_only_if_exported_so', d['W'] is None)
        ctx.check_eq_grid(tag + '.ctrlpts', got.ctrlpts[:n], d['P'][:n])
    ctx.check_true(tag + '.ctrlpts.count', len(got.ctrlpts) == total and (not got.rational or len(got.weights) == total),
                   '%d control points after the round trip, %d exported' % (len(got.ctrlpts), total))
    if delta:
        gd = got.delta
        ctx.check_eq_vec(tag + '.delta', [gd] if kind == 'curve' else list(gd), d['delta'])
        have = [got.sample_size] if kind == 'curve' else [getattr(got, 'sample_size_' + 'uvw'[a]) for a in range(NDIR[kind])]
        ctx.check_true(tag + '.sample_size', have == d['ssize'], 'sample sizes %r, exported %r' % (have, d['ssize']))
    if evaluate:
        want = _spec_point(ctx, d, prm)
        ctx.check_eq_vec(tag + '.evaluate_single', got.evaluate_single(prm[0] if kind == 'curve' else list(prm)), want)


# ------------------------------------------------------------------------------------------------
# trim curves
# ------------------------------------------------------------------------------------------------
def _trim_curve_data(ctx, tag, p, n, rational, off):
    U, n = _kv(ctx, p, [1] * (n - p - 1), tag + 'k', False, off)
    P = shapes.net(ctx, tag, n, 2)
    W = _weights(ctx, tag + 'w', n, 1) if rational else None
    return dict(kind='curve', rational=rational, deg=[p], kvs=[U], sizes=[n], P=P, W=W, dim=2, delta=None)


def _make_trims(ctx, which):
    """returns [(trim object, description)] ; description = ('spline', data, sense) | ('freeform', points, name, sense) |
    ('container', [spline descriptions], sense)"""
    out = []
    if 'spline' in which:
        d = _trim_curve_data(ctx, 'T', 2, 4, True, 3)
        c = _build(ctx, d)
        _set_density(ctx, c, d, 5)
        c.opt = ['reversed', 1]
        out.append((c, ('spline', d, 1)))
    if 'freeform' in which:
        pts = shapes.net(ctx, 'F', 3, 2)
        ff = ctx.geomdl('freeform').Freeform()
        ff.evaluate(points=[list(p) for p in pts])
        ff.name = 'hole'
        ff.opt = ['reversed', 0]
        out.append((ff, ('freeform', pts, 'hole', 0)))
    if 'container' in which:
        ds = [_trim_curve_data(ctx, 'G', 1, 3, False, 5), _trim_curve_data(ctx, 'H', 2, 3, False, 6)]
        cs = []
        for d, tg in zip(ds, 'GH'):
            c = _build(ctx, d)
            _set_density(ctx, c, d, 6 + 'GH'.index(tg))
            cs.append(c)
        cont = _container(ctx, 'curve', cs)
        cont.opt = ['reversed', 1]
        out.append((cont, ('container', [('spline', d, None) for d in ds], 1)))
    return out


def _same_trim(ctx, tag, got, desc):
    ctx.check_true(tag + '.type', got.type == desc[0], 'trim type %r, exported %r' % (got.type, desc[0]))
    ctx.check_true(tag + '.dimension', got.dimension == 2)
    if desc[0] == 'spline':
        _same_shape(ctx, tag, got, desc[1], [ctx.lit(Fraction(1, 3))], delta=True, evaluate=True)
        sense = desc[2]
    elif desc[0] == 'freeform':
        ctx.check_true(tag + '.points.count', len(got.evalpts) == len(desc[1]))
        ctx.check_eq_grid(tag + '.points', got.evalpts, desc[1])
        ctx.check_true(tag + '.name', got.name == desc[2], 'name %r, exported %r' % (got.name, desc[2]))
        sense = desc[3]
    else:
        ctx.check_true(tag + '.count', len(got) == len(desc[1]), '%d curves in the container trim, exported %d'
                       % (len(got), len(desc[1])))
        for i, sub in enumerate(desc[1]):
            _same_trim(ctx, '%s.curve%d' % (tag, i), got[i], sub)
        sense = desc[2]
    ctx.check_true(tag + '.sense', got.opt_get('reversed') == sense,
                   "opt 'reversed' is %r, exported %r" % (got.opt_get('reversed'), sense))


# ------------------------------------------------------------------------------------------------
# JSON / dict layer
# ------------------------------------------------------------------------------------------------
C_A = dict(deg=[2], mult=[[1, 1]], rational=False)           # 4 points
C_B = dict(deg=[3], mult=[[2]], rational=True)               # 5 points
C_C = dict(deg=[1], mult=[[1]], rational=False)              # 3 points
S_A = dict(deg=[2, 1], mult=[[1], []], rational=False)       # 4 x 2
S_B = dict(deg=[1, 2], mult=[[], []], rational=True)         # 2 x 3
S_C = dict(deg=[1, 1], mult=[[1], [1, 1]], rational=False)   # 3 x 4
V_A = dict(deg=[1, 1, 1], mult=[[], [1], [1, 1]], rational=False)   # 2 x 3 x 4
V_B = dict(deg=[2, 1, 1], mult=[[], [], [1]], rational=True)        # 3 x 2 x 3   (u != v, v != w)
V_C = dict(deg=[1, 2, 1], mult=[[], [1], [1]], rational=False)      # 2 x 4 x 3


def _json_instances(tier):
    out = []
    for via in ('dict', 'str', 'json'):
        out += [dict(kind='curve', members=[C_A], via=via, wrap=False, dim=2, trims=''),
                dict(kind='curve', members=[C_B], via=via, wrap=(via != 'dict'), dim=3, trims=''),
                dict(kind='surface', members=[S_A], via=via, wrap=False, dim=3, trims=''),
                dict(kind='surface', members=[S_B], via=via, wrap=(via != 'dict'), dim=3, trims=''),
                dict(kind='volume', members=[V_A], via=via, wrap=False, dim=3, trims=''),
                dict(kind='volume', members=[V_B], via=via, wrap=(via != 'dict'), dim=3, trims='')]
    for via in ('str', 'json'):
        out += [dict(kind='curve', members=[C_B, C_A], via=via, wrap=True, dim=2, trims=''),
                dict(kind='curve', members=[C_A, C_C, C_B], via=via, wrap=True, dim=3, trims=''),
                dict(kind='surface', members=[S_A, S_B], via=via, wrap=True, dim=3, trims=''),
                dict(kind='surface', members=[S_C, S_B, S_A], via=via, wrap=True, dim=3, trims=''),
                dict(kind='volume', members=[V_B, V_A], via=via, wrap=True, dim=3, trims=''),
                dict(kind='volume', members=[V_A, V_C, V_B], via=via, wrap=True, dim=3, trims='')]
    for via in ('dict', 'json'):
        out += [dict(kind='surface', members=[S_A], via=via, wrap=False, dim=3, trims='spline+freeform'),
                dict(kind='surface', members=[S_B], via=via, wrap=False, dim=3, trims='container'),
                dict(kind='surface', members=[S_B, S_A], via='json' if via == 'json' else 'str', wrap=True, dim=3,
                     trims='freeform+container+spline')]
    # rational shapes whose weights are all equal but not 1 (the weights themselves have to come back)
    out += [dict(kind='curve', members=[dict(deg=[2], mult=[[1]], rational=True, weights='equal')], via='json', wrap=False, dim=3, trims=''),
            dict(kind='surface', members=[dict(deg=[1, 2], mult=[[], []], rational=True, weights='equal')], via='dict', wrap=False, dim=3, trims=''),
            dict(kind='surface', members=[S_A, dict(deg=[1, 2], mult=[[], []], rational=True, weights='equal')], via='json', wrap=True, dim=3, trims=''),
            dict(kind='volume', members=[dict(deg=[1, 1, 1], mult=[[], [], []], rational=True, weights='equal')], via='str', wrap=True, dim=3, trims='')]
    if tier == 'thorough':
        for via in ('dict', 'str', 'json'):
            out += [dict(kind='curve', members=[dict(deg=[4], mult=[[1, 2]], rational=True)], via=via, wrap=False, dim=3, trims=''),
                    dict(kind='surface', members=[dict(deg=[3, 2], mult=[[1], [1, 1]], rational=True)], via=via, wrap=True,
                         dim=3, trims='spline+freeform+container'),
                    dict(kind='volume', members=[dict(deg=[2, 2, 1], mult=[[1], [], [1, 1]], rational=True)], via=via,
                         wrap=True, dim=3, trims='')]
        out += [dict(kind='surface', members=[S_C, S_B, S_A, S_B], via='json', wrap=True, dim=3, trims=''),
                dict(kind='curve', members=[C_A, C_C, C_B, C_C], via='json', wrap=True, dim=2, trims='')]
    return out


@scenario('C14', fns=['_exchange.export_dict_crv', '_exchange.import_dict_crv', '_exchange.export_dict_surf',
                      '_exchange.import_dict_surf', '_exchange.export_dict_vol', '_exchange.import_dict_vol',
                      '_exchange.export_dict_ff', '_exchange.import_dict_ff', '_exchange.export_dict_multi_crv',
                      '_exchange.import_dict_multi_crv', '_exchange.export_dict_str', '_exchange.import_dict_str',
                      '_exchange.write_file', '_exchange.read_file', 'exchange.export_json', 'exchange.import_json',
                      'multi.AbstractContainer.add', 'multi.AbstractContainer.__iter__', 'abstract.Surface.trims',
                      'abstract.Surface.add_trim', 'abstract.Curve.delta', 'abstract.Surface.delta', 'abstract.Volume.delta',
                      'NURBS.Curve.ctrlpts', 'NURBS.Curve.weights', 'NURBS.Surface.ctrlpts', 'NURBS.Surface.weights',
                      'NURBS.Volume.ctrlpts', 'NURBS.Volume.weights', 'freeform.Freeform.evaluate'],
          quick=lambda: _json_instances('quick'), thorough=lambda: _json_instances('thorough'))
def json_roundtrip(ctx, kind, members, via, wrap, dim, trims):
    """requires: 1..3 valid shapes of one kind (symbolic knots / control points / positive weights, distinct deltas), optionally in
                 a container, optionally (first surface) with trim curves
       via     : 'dict' export_dict_<kind> -> import_dict_<kind>;  'str' export_dict_str -> import_dict_str with the
                 callback pair replaced by its contract;  'json' exchange.export_json -> file -> exchange.import_json
       ensures : as many shapes as exported, in the same order; every field equal; trims equal; same evaluated point"""
    exch = ctx.geomdl('_exchange')
    prm = _params(ctx, kind)
    datas, objs = [], []
    for i, sh in enumerate(members):
        d = _data(ctx, kind, sh, dim, TAGS[i] if i < 3 else 'r', symbolic_kv=(i == 0), off=2 * i)
        o = _build(ctx, d)
        _set_density(ctx, o, d, i)
        datas.append(d)
        objs.append(o)
    tdesc = []
    if trims:
        made = _make_trims(ctx, trims.split('+'))
        order = [t for t in trims.split('+')]
        made.sort(key=lambda m: order.index(m[1][0]))
        objs[0].trims = [m[0] for m in made]
        tdesc = [m[1] for m in made]
        ctx.check_true('setup.trims', len(objs[0].trims) == len(tdesc))
    top = _container(ctx, kind, objs) if wrap else objs[0]

    if via == 'dict':
        e = {'curve': exch.export_dict_crv, 'surface': exch.export_dict_surf, 'volume': exch.export_dict_vol}[kind]
        m = {'curve': exch.import_dict_crv, 'surface': exch.import_dict_surf, 'volume': exch.import_dict_vol}[kind]
        got = [m(e(o)) for o in objs]
    elif via == 'str':
        src = exch.export_dict_str(top, _tuples_to_lists)
        ctx.check_true('str.count_field', src['shape']['count'] == len(objs) and len(src['shape']['data']) == len(objs))
        ctx.check_true('str.type_field', src['shape']['type'] == kind)
        got = exch.import_dict_str(src, ctx.lit(-1), lambda s: s, False)
    else:
        ex = _exchange(ctx)
        with _TmpDir() as tmp:
            path = os.path.join(tmp, 'shape.json')
            ex.export_json(top, path)
            ctx.check_true('json.file_written', os.path.isfile(path) and os.path.getsize(path) > 0)
            got = ex.import_json(path)
    ctx.check_true('count', len(got) == len(objs), '%d shapes imported, %d exported' % (len(got), len(objs)))
    for i, (g, d) in enumerate(zip(got, datas)):
        _same_shape(ctx, 'shape%d' % i, g, d, prm)
    if trims:
        gt = got[0].trims
        ctx.check_true('trims.count', len(gt) == len(tdesc), '%d trims imported, %d exported' % (len(gt), len(tdesc)))
        for i, desc in enumerate(tdesc):
            _same_trim(ctx, 'trim%d' % i, gt[i], desc)
    if kind == 'surface':
        for i in range(1, len(got)):
            ctx.check_true('shape%d.no_trims' % i, len(got[i].trims) == 0)


# ------------------------------------------------------------------------------------------------
# smesh / vmesh
# ------------------------------------------------------------------------------------------------
def _check_mesh_file(ctx, tag, path, d):
    """documented layout of a mesh file: dimension / degrees / sizes / one knot vector per line / one 'x y z w' line per
    control point, u fastest, then v, then w / closing line"""
    nd = NDIR[d['kind']]
    L = [ln.strip().split() for ln in _lines(path)]
    ctx.check_true(tag + '.file.dimension_line', L[0] == [str(d['dim'])])
    ctx.check_true(tag + '.file.degree_line', L[1] == [str(p) for p in d['deg']], 'degree line %r' % (L[1],))
    ctx.check_true(tag + '.file.size_line', L[2] == [str(n) for n in d['sizes']], 'size line %r, sizes %r' % (L[2], d['sizes']))
    for a in range(nd):
        ctx.check_true('%s.file.knot_line%d.len' % (tag, a), len(L[3 + a]) == len(d['kvs'][a]))
        ctx.check_eq_vec('%s.file.knot_line%d' % (tag, a), [_num(ctx, s) for s in L[3 + a]], d['kvs'][a])
    su, sv = d['sizes'][0], d['sizes'][1]
    sw = d['sizes'][2] if nd == 3 else 1
    first = 3 + nd
    total = su * sv * sw
    W = d['W'] if d['W'] is not None else [ctx.lit(1)] * total
    body = [ln for ln in L[first:] if ln]
    ctx.check_true(tag + '.file.point_lines', len(body) == total + 1 and all(len(ln) == d['dim'] + 1 for ln in body[:total]),
                   '%d non-empty lines after the header, expected %d points + 1' % (len(body), total))
    n = 0
    for k in range(sw):
        for j in range(sv):
            for i in range(su):
                src = spec.layout(i, j, k, su, sv)
                ctx.check_eq_vec('%s.file.point[u=%d,v=%d,w=%d]' % (tag, i, j, k), [_num(ctx, s) for s in L[first + n]],
                                 list(d['P'][src]) + [W[src]])
                n += 1


def _mesh_roundtrip(ctx, kind, members, ids=None):
    ex = _exchange(ctx)
    prm = _params(ctx, kind)
    ext = {'surface': '.smesh', 'volume': '.vmesh'}[kind]
    datas, objs = [], []
    for i, sh in enumerate(members):
        d = _data(ctx, kind, sh, 3, TAGS[i], symbolic_kv=(i == 0), off=2 * i)
        datas.append(d)
        objs.append(_build(ctx, d))
        if ids is not None:
            objs[-1].id = ids[i]          # shapes carrying the public id attribute: the files are numbered by position
    top = objs[0] if len(objs) == 1 else _container(ctx, kind, objs)
    write = {'surface': ex.export_smesh, 'volume': ex.export_vmesh}[kind]
    read = {'surface': ex.import_smesh, 'volume': ex.import_vmesh}[kind]
    with _TmpDir() as tmp:
        write(top, os.path.join(tmp, 'part' + ext))
        names = sorted(os.listdir(tmp))
        if len(objs) == 1:
            ctx.check_true('files', names == ['part' + ext], 'files written: %r' % (names,))
        else:
            ctx.check_true('files', names == ['part.%d%s' % (i + 1, ext) for i in range(len(objs))],
                           'files written: %r' % (names,))
        for i, (nm, d) in enumerate(zip(names, datas)):
            _check_mesh_file(ctx, 'shape%d' % i, os.path.join(tmp, nm), d)
        got = read(os.path.join(tmp, names[0]) if len(objs) == 1 else tmp)
    ctx.check_true('count', len(got) == len(objs), '%d shapes imported, %d exported' % (len(got), len(objs)))
    for i, (g, d) in enumerate(zip(got, datas)):
        _same_shape(ctx, 'shape%d' % i, g, d, prm, delta=False)


@scenario('C14', fns=['exchange.export_smesh', 'exchange.import_smesh', '_exchange.import_surf_mesh',
                      'compatibility.flip_ctrlpts', 'compatibility.flip_ctrlpts_u', 'compatibility.generate_ctrlptsw',
                      'compatibility.generate_ctrlpts_weights', 'compatibility.combine_ctrlpts_weights',
                      '_exchange.write_file', '_exchange.read_file'],
          quick=[dict(members=[S_A]), dict(members=[S_B]), dict(members=[S_C]), dict(members=[S_B, S_A]),
                 dict(members=[S_A, S_C, S_B]), dict(members=[S_A, S_C, S_B], ids=[2, 2, 5]), dict(members=[S_B, S_A], ids=[0, 1])],
          thorough=[dict(members=[S_A]), dict(members=[S_B]), dict(members=[S_C]), dict(members=[S_B, S_A]),
                    dict(members=[S_A, S_C, S_B], ids=[2, 2, 5]), dict(members=[S_B, S_A], ids=[0, 1]),
                    dict(members=[S_A, S_C, S_B]), dict(members=[dict(deg=[3, 2], mult=[[1], [1, 1]], rational=True)]),
                    dict(members=[dict(deg=[2, 3], mult=[[1, 1], []], rational=True), S_C])])
def smesh_roundtrip(ctx, members, ids=None):
    """requires: 1..3 valid 3-D surfaces (rational or not), su != sv
       ensures : one file per surface (numbered when more than one) in the documented layout (u fastest);
                 import_smesh(file | directory) gives rational surfaces with the same degrees, knot vectors, sizes,
                 control points, weights (1 for non-rational input) that evaluate to the original spec point"""
    _mesh_roundtrip(ctx, 'surface', members, ids)


@scenario('C14', fns=['exchange.export_vmesh', 'exchange.import_vmesh', '_exchange.import_vol_mesh',
                      'compatibility.flip_ctrlpts', 'compatibility.flip_ctrlpts_u', 'compatibility.generate_ctrlptsw',
                      'compatibility.generate_ctrlpts_weights', 'compatibility.combine_ctrlpts_weights'],
          quick=[dict(members=[V_A]), dict(members=[V_B]), dict(members=[V_C, V_B]), dict(members=[V_C, V_B], ids=[3, 3])],
          thorough=[dict(members=[V_A]), dict(members=[V_B]), dict(members=[V_C]), dict(members=[V_C, V_B]),
                    dict(members=[V_B, V_A, V_C]), dict(members=[dict(deg=[2, 2, 1], mult=[[1], [], [1, 1]], rational=True)])])
def vmesh_roundtrip(ctx, members, ids=None):
    """requires: 1..3 valid 3-D volumes, pairwise different sizes
       ensures : documented layout (per w layer: u fastest, then v); import_vmesh gives volumes with all
                 size_u*size_v*size_w control points, the same fields and the same evaluated point"""
    _mesh_roundtrip(ctx, 'volume', members, ids)


# ------------------------------------------------------------------------------------------------
# control point text files
# ------------------------------------------------------------------------------------------------
def _rebuild(ctx, d, pts):
    """a shape of the original class and definition with the imported (weighted, if rational) control points"""
    mod = ctx.geomdl('NURBS' if d['rational'] else 'BSpline')
    k = d['kind']
    if k == 'curve':
        o = mod.Curve()
        o.degree = d['deg'][0]
        o.set_ctrlpts([list(p) for p in pts])
        o.knotvector = list(d['kvs'][0])
    elif k == 'surface':
        o = mod.Surface()
        o.degree_u, o.degree_v = d['deg']
        o.set_ctrlpts([list(p) for p in pts], *d['sizes'])
        o.knotvector_u, o.knotvector_v = list(d['kvs'][0]), list(d['kvs'][1])
    else:
        o = mod.Volume()
        o.degree_u, o.degree_v, o.degree_w = d['deg']
        o.set_ctrlpts([list(p) for p in pts], *d['sizes'])
        o.knotvector_u, o.knotvector_v, o.knotvector_w = list(d['kvs'][0]), list(d['kvs'][1]), list(d['kvs'][2])
    return o


def _txt_instances(tier):
    out = [dict(kind='curve', shape=C_A, dim=2, two_d=False, sep=None, col_sep=None),
           dict(kind='curve', shape=C_B, dim=3, two_d=True, sep=' ', col_sep=None),          # flag ignored for curves
           dict(kind='surface', shape=S_A, dim=3, two_d=False, sep=None, col_sep=None),
           dict(kind='surface', shape=S_A, dim=3, two_d=True, sep=None, col_sep=None),
           dict(kind='surface', shape=S_B, dim=3, two_d=True, sep=' ', col_sep=','),
           dict(kind='surface', shape=S_C, dim=3, two_d=True, sep=' ', col_sep='|'),
           dict(kind='surface', shape=S_B, dim=3, two_d=False, sep=';', col_sep=None),
           dict(kind='volume', shape=V_A, dim=3, two_d=False, sep=None, col_sep=None),
           dict(kind='volume', shape=V_B, dim=3, two_d=False, sep='\t', col_sep=None)]
    if tier == 'thorough':
        out += [dict(kind='surface', shape=dict(deg=[3, 2], mult=[[1], [1, 1]], rational=True), dim=3, two_d=True, sep=',', col_sep=';'),
                dict(kind='surface', shape=dict(deg=[1, 3], mult=[[1, 1, 1], []], rational=False), dim=2, two_d=True, sep=' ', col_sep=';')]
    return out


@scenario('C14', fns=['exchange.export_txt', 'exchange.import_txt', '_exchange.export_text_data',
                      '_exchange.import_text_data', '_exchange.write_file', '_exchange.read_file'],
          quick=lambda: _txt_instances('quick'), thorough=lambda: _txt_instances('thorough'))
def txt_roundtrip(ctx, kind, shape, dim, two_d, sep, col_sep):
    """requires: a valid shape; separators None = the defaults (',' between coordinates, ';' between the points of a row)
       ensures : 1-D file: one control point per line in list order; 2-D file (surfaces): size_u lines of size_v points
                 (v inside a line); import_txt with the same arguments returns the exported control points (weighted ones
                 for rational shapes) [and size_u, size_v]; a shape rebuilt from them evaluates to the original spec point"""
    ex = _exchange(ctx)
    prm = _params(ctx, kind)
    d = _data(ctx, kind, shape, dim, 'x')
    obj = _build(ctx, d)
    want = shapes.homog(d['P'], d['W'])
    kw = {}
    if sep is not None:
        kw['separator'] = sep
    if col_sep is not None:
        kw['col_separator'] = col_sep
    s1, s2 = sep or ',', col_sep or ';'
    is2d = two_d and kind == 'surface'
    with _TmpDir() as tmp:
        path = os.path.join(tmp, 'ctrlpts.txt')
        ex.export_txt(obj, path, two_dimensional=two_d, **kw)
        raw = _lines(path)
        ctx.check_true('file.ends_with_newline', raw[-1] == '')
        rows = raw[:-1]
        if is2d:
            su, sv = d['sizes']
            ctx.check_true('file.rows', len(rows) == su, '%d lines, size_u = %d' % (len(rows), su))
            for i, ln in enumerate(rows):
                cells = ln.split(s2)
                ctx.check_true('file.row%d.columns' % i, len(cells) == sv, '%d points in line %d, size_v = %d' % (len(cells), i, sv))
                for j, cell in enumerate(cells):
                    ctx.check_eq_vec('file.point[u=%d,v=%d]' % (i, j), [_num(ctx, c) for c in cell.split(s1)], want[j + sv * i])
            res = ex.import_txt(path, two_dimensional=True, **kw)
            ctx.check_true('import.returns_points_and_sizes', isinstance(res, tuple) and len(res) == 3)
            got, gu, gv = res
            ctx.check_true('import.sizes', (gu, gv) == (su, sv), 'import_txt returned sizes (%r, %r), exported (%d, %d)' % (gu, gv, su, sv))
        else:
            ctx.check_true('file.rows', len(rows) == len(want), '%d lines, %d control points' % (len(rows), len(want)))
            for i, ln in enumerate(rows):
                ctx.check_eq_vec('file.point[%d]' % i, [_num(ctx, c) for c in ln.split(s1)], want[i])
            got = ex.import_txt(path, two_dimensional=False, **kw)
    ctx.check_true('import.count', len(got) == len(want), '%d points imported, %d exported' % (len(got), len(want)))
    ctx.check_eq_grid('import.points', got, want)
    back = _rebuild(ctx, d, got)
    point = _spec_point(ctx, d, prm)          # first: records the positivity lemma of the weight function
    ctx.check_eq_vec('rebuilt.evaluate_single', back.evaluate_single(prm[0] if kind == 'curve' else list(prm)), point)


def _csv_instances(tier):
    out = [dict(kind='curve', shape=C_A, dim=2, point_type='ctrlpts'),
           dict(kind='curve', shape=C_B, dim=3, point_type='ctrlpts'),
           dict(kind='surface', shape=S_A, dim=3, point_type='ctrlpts'),
           dict(kind='surface', shape=S_B, dim=3, point_type='ctrlpts'),
           dict(kind='curve', shape=C_C, dim=3, point_type='evalpts'),
           dict(kind='curve', shape=dict(deg=[2], mult=[[]], rational=True), dim=2, point_type='evalpts'),
           dict(kind='surface', shape=dict(deg=[1, 1], mult=[[], [1]], rational=False), dim=3, point_type='evalpts')]
    return out


@scenario('C14', fns=['exchange.export_csv', 'exchange.import_csv', '_exchange.import_text_data', '_exchange.write_file',
                      '_exchange.read_file'],
          quick=lambda: _csv_instances('quick'))
def csv_roundtrip(ctx, kind, shape, dim, point_type):
    """ensures: one header line with one column title per coordinate, then one point per line; import_csv returns the
       exported list (control points: weighted for rational shapes; evaluated points: the evalpts of the shape, which are
       the spec points of the sampled parameters for curves); a curve/surface rebuilt from imported control points
       evaluates to the original spec point"""
    ex = _exchange(ctx)
    prm = _params(ctx, kind)
    d = _data(ctx, kind, shape, dim, 'x', symbolic_kv=(point_type == 'ctrlpts'))
    obj = _build(ctx, d)
    if point_type == 'ctrlpts':
        want = shapes.homog(d['P'], d['W'])
    else:
        if kind == 'curve':
            obj.sample_size = 3
        else:
            obj.sample_size_u, obj.sample_size_v = 2, 3
        want = [list(p) for p in obj.evalpts]
        ctx.check_true('setup.evalpts', len(want) == (3 if kind == 'curve' else 6))
        if kind == 'curve':
            for i in range(3):
                ctx.check_eq_vec('setup.evalpts[%d]=C(%d/2)' % (i, i), want[i], _spec_point(ctx, d, [ctx.lit(Fraction(i, 2))]))
    ncol = len(want[0])
    with _TmpDir() as tmp:
        path = os.path.join(tmp, 'points.csv')
        ex.export_csv(obj, path, point_type=point_type)
        raw = _lines(path)
        ctx.check_true('file.ends_with_newline', raw[-1] == '')
        ctx.check_true('file.lines', len(raw) - 1 == len(want) + 1, '%d lines, expected header + %d points' % (len(raw) - 1, len(want)))
        head = [h.strip() for h in raw[0].split(',')]
        ctx.check_true('file.header', head == ['dim %d' % (i + 1) for i in range(ncol)], 'header line %r' % (raw[0],))
        for i, ln in enumerate(raw[1:-1]):
            ctx.check_eq_vec('file.point[%d]' % i, [_num(ctx, c) for c in ln.split(',')], want[i])
        got = ex.import_csv(path)
    ctx.check_true('import.count', len(got) == len(want), '%d points imported, %d exported' % (len(got), len(want)))
    ctx.check_eq_grid('import.points', got, want)
    if point_type == 'ctrlpts':
        back = _rebuild(ctx, d, got)
        point = _spec_point(ctx, d, prm)
        ctx.check_eq_vec('rebuilt.evaluate_single', back.evaluate_single(prm[0] if kind == 'curve' else list(prm)), point)
