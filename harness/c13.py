"""C13 One control-net layout convention across all modules (bounded tier).

Convention (property statement): in the flat control-point list v varies fastest, then u, then w:
    index(u, v, w) = v + size_v * (u + size_u * w)                                      (spec.layout)
Every control point carries its own symbol (one symbolic coordinate per point, the other coordinates distinct
constants per point; pure index checks use all-symbolic points) and the nets have pairwise different sizes per
direction, so any u/v/w mix-up is a failed identity.  Contracts, each on the real functions:

  grid_view      Surface.set_ctrlpts: ctrlpts2d[i][j] is the flat point j + i*size_v; the ctrlpts2d setter is the inverse
  managers       control_points.Curve/Surface/VolumeManager: find_index == layout; set_ctrlpt / get_ctrlpt / ctrlpts
                 address that slot; in-range arguments give an in-range index, bijectively; the first index past the
                 end (layout value = number of points) is rejected as documented; a net written through the manager
                 evaluates, in BSpline.Surface/Volume, with point (u,v,w) weighting basis functions (u,v,w)
  compat_flips   compatibility.flip_ctrlpts_u (u-row order -> v-row order), flip_ctrlpts (v-row -> u-row),
                 flip_ctrlpts2d ([u][v] -> [v][u]): index maps, mutual inverses, agreement with the 2-D grid view
  transpose      operations.transpose(S)(a, b) == S(b, a); sizes / degrees / knot vectors swapped; twice = identity
  flip           operations.flip: point (i, j) of the result is point (su-1-i, sv-1-j) of the input (flat list, 2-D view
                 and weights alike); sizes, degrees, knot vectors untouched; twice = identity; on knot vectors that are
                 symmetric about 1/2 therefore flip(S)(u, v) == S(1-u, 1-v)
  surface_roundtrip   construct.extract_curves: curve j of 'u' is column j (runs along u), curve i of 'v' is row i;
                 construct_surface('u', *rows) and construct_surface('v', *columns) with the other direction's degree and
                 knot vector give back the surface: sizes, degrees, knot vectors, control points, weights, S(u,v)
  volume_roundtrip    construct.extract_surfaces: 'uv'[k], 'uw'[j], 'vw'[i] are the index sections w=k, v=j, u=i;
                 construct_volume('w'|'v'|'u', *sections) gives back the volume (same items, V(u,v,w))
  sweep          sweeping.sweep_vector(curve | surface, t): the two opposite boundary sections of the result (u = 0, 1
                 of the surface; w = 0, 1 of the volume) are the input and the input translated by t
"""
from fractions import Fraction

from .api import scenario
from . import shapes, spec, assumptions

assumptions.PROPS['C13'] = {'level': 'other', 'assume': ['A1', 'A2', 'A5', 'A6']}


# ------------------------------------------------------------------------------------------------
def _sym_points(ctx, prefix, n, dim):
    return [[ctx.num('%s%d_%d' % (prefix, i, d)) for d in range(dim)] for i in range(n)]


def _copy2(pts):
    return [list(p) for p in pts]


def _flat(obj, rational):
    """the stored flat net: homogeneous points of a rational shape"""
    return obj.ctrlptsw if rational else obj.ctrlpts


def _wpos(ctx, val):
    ctx.assume_pos(val, 'L.weight_function_positive')


def _surf_spec(ctx, pu, pv, U, V, P, W, su, sv, u, v):
    if W is None:
        return spec.surface_point(pu, pv, U, V, P, su, sv, u, v)
    _wpos(ctx, spec.surface_point(pu, pv, U, V, [[w] for w in W], su, sv, u, v)[0])
    return spec.project(spec.surface_point(pu, pv, U, V, spec.weighted(P, W), su, sv, u, v))


def _vol_spec(ctx, deg, kvs, P, W, sizes, prm):
    a = (deg[0], deg[1], deg[2], kvs[0], kvs[1], kvs[2])
    b = (sizes[0], sizes[1], sizes[2], prm[0], prm[1], prm[2])
    if W is None:
        return spec.volume_point(*(a + (P,) + b))
    _wpos(ctx, spec.volume_point(*(a + ([[w] for w in W],) + b))[0])
    return spec.project(spec.volume_point(*(a + (spec.weighted(P, W),) + b)))


def _curve_spec(ctx, p, U, P, W, t):
    if W is None:
        return spec.curve_point(p, U, P, t)
    _wpos(ctx, spec.curve_point(p, U, [[w] for w in W], t)[0])
    return spec.project(spec.curve_point(p, U, spec.weighted(P, W), t))


def _sym_kv(ctx, p, mult, prefix, symmetric=False):
    """clamped normalised knot vector; symmetric: interior knots are the constants i/(m+1) (symmetric about 1/2)"""
    if not symmetric:
        return shapes.make_kv(ctx, p, mult, prefix=prefix)
    m = len(mult)
    U = [ctx.lit(0)] * (p + 1)
    for i, r in enumerate(mult):
        U += [ctx.lit(Fraction(i + 1, m + 1))] * r
    U += [ctx.lit(1)] * (p + 1)
    return U, [], p + 1 + sum(mult)


# ------------------------------------------------------------------------------------------------
# 2-D grid view
# ------------------------------------------------------------------------------------------------
def _grid_sizes(tier):
    out = [dict(su=3, sv=4, rational=False), dict(su=4, sv=3, rational=False), dict(su=2, sv=5, rational=False),
           dict(su=5, sv=2, rational=True), dict(su=3, sv=4, rational=True)]
    if tier == 'thorough':
        out = [dict(su=a, sv=b, rational=r) for a in range(2, 7) for b in range(2, 7) if a != b for r in (False, True)]
    return out


@scenario('C13', fns=['BSpline.Surface.set_ctrlpts', 'BSpline.Surface.ctrlpts2d', 'abstract.Surface.set_ctrlpts',
                      'abstract.SplineGeometry.set_ctrlpts', 'abstract.Surface.ctrlpts_size_u',
                      'abstract.Surface.ctrlpts_size_v'],
          quick=lambda: _grid_sizes('quick'), thorough=lambda: _grid_sizes('thorough'))
def grid_view(ctx, su, sv, rational):
    """requires: su != sv, su*sv distinct points (homogeneous, positive weights, for a rational surface)
       ensures : after set_ctrlpts(flat, su, sv): ctrlpts2d is su rows of sv points and ctrlpts2d[i][j] is the stored
                 flat point number j + i*sv;  s.ctrlpts2d = G stores G[i][j] at j + i*sv with sizes (len G, len G[0]),
                 and reads back as G (setter and getter are inverse)"""
    mod = ctx.geomdl('NURBS' if rational else 'BSpline')
    dim = 3
    n = su * sv
    P = _sym_points(ctx, 'P', n, dim)
    W = shapes.weights(ctx, 'w', n) if rational else None
    Pw = shapes.homog(P, W)
    s = mod.Surface()
    s.degree_u, s.degree_v = 1, 1
    s.set_ctrlpts(_copy2(Pw), su, sv)
    flat = _flat(s, rational)
    g = s.ctrlpts2d
    ctx.check_true('view.shape', len(flat) == n and len(g) == su and all(len(r) == sv for r in g))
    ctx.check_true('view.sizes', s.ctrlpts_size_u == su and s.ctrlpts_size_v == sv)
    for i in range(su):
        for j in range(sv):
            ctx.check_eq_vec('view[%d][%d]=flat[j+i*sv]' % (i, j), g[i][j], Pw[spec.layout(i, j, 0, su, sv)])
            ctx.check_true('view[i][j] is flat[j+i*sv]', g[i][j] is flat[j + i * sv],
                           'ctrlpts2d[%d][%d] is not the stored point %d' % (i, j, j + i * sv))
    # the setter
    G = [[list(Pw[spec.layout(i, j, 0, su, sv)]) for j in range(sv)] for i in range(su)]
    t = mod.Surface()
    t.degree_u, t.degree_v = 1, 1
    t.ctrlpts2d = [[list(p) for p in row] for row in G]
    ctx.check_true('setter.sizes', t.ctrlpts_size_u == su and t.ctrlpts_size_v == sv and len(_flat(t, rational)) == n,
                   'sizes (%r, %r)' % (t.ctrlpts_size_u, t.ctrlpts_size_v))
    ctx.check_eq_grid('setter.flat[j+i*sv]=G[i][j]', _flat(t, rational), Pw)
    back = t.ctrlpts2d
    ctx.check_true('setter.getter.shape', len(back) == su and all(len(r) == sv for r in back))
    for i in range(su):
        ctx.check_eq_grid('getter(setter(G))=G[%d]' % i, back[i], G[i])
    # setter(getter) = identity on the stored net
    r = mod.Surface()
    r.degree_u, r.degree_v = 1, 1
    r.ctrlpts2d = s.ctrlpts2d
    ctx.check_eq_grid('setter(getter(s)).flat', _flat(r, rational), Pw)
    if rational:
        ctx.check_eq_grid('rational.unweighted_view', t.ctrlpts, P)
        ctx.check_eq_vec('rational.weights_view', t.weights, W)
    # control-point lookup by parameter addresses the same grid: with degree (1, 1) and uniform knots the block found at the
    # knots (u_i, v_j) is rows i-1..i (resp. the last two at the domain end), columns likewise, of the 2-D view
    s.knotvector_u = [ctx.lit(0)] + [ctx.lit(Fraction(i, su - 1)) for i in range(su)] + [ctx.lit(1)]
    s.knotvector_v = [ctx.lit(0)] + [ctx.lit(Fraction(j, sv - 1)) for j in range(sv)] + [ctx.lit(1)]
    ops = ctx.geomdl('operations')
    for i in range(su - 1):
        for j in range(sv - 1):
            blk = ops.find_ctrlpts(s, ctx.lit(Fraction(2 * i + 1, 2 * (su - 1))), ctx.lit(Fraction(2 * j + 1, 2 * (sv - 1))))
            ctx.check_true('find_ctrlpts[%d][%d].shape' % (i, j), len(blk) == 2 and all(len(r) == 2 for r in blk))
            for a in range(2):
                for b in range(2):
                    ctx.check_eq_vec('find_ctrlpts[%d][%d].block[%d][%d]=grid[i+a][j+b]' % (i, j, a, b), blk[a][b],
                                     Pw[spec.layout(i + a, j + b, 0, su, sv)])       # the grid view holds homogeneous points


# ------------------------------------------------------------------------------------------------
# control-point managers
# ------------------------------------------------------------------------------------------------
def _mgr_sizes(tier):
    out = [dict(sizes=[4]), dict(sizes=[3, 4]), dict(sizes=[4, 3]), dict(sizes=[2, 5]),
           dict(sizes=[4, 3, 2]), dict(sizes=[2, 3, 4]), dict(sizes=[3, 2, 4])]
    if tier == 'thorough':
        out += [dict(sizes=[a, b]) for a in range(2, 6) for b in range(2, 6) if a != b]
        out += [dict(sizes=[a, b, c]) for a in range(2, 5) for b in range(2, 5) for c in range(2, 5) if len({a, b, c}) == 3]
    return out


@scenario('C13', fns=['control_points.CurveManager.find_index', 'control_points.SurfaceManager.find_index',
                      'control_points.VolumeManager.find_index', 'control_points.AbstractManager.get_ctrlpt',
                      'control_points.AbstractManager.set_ctrlpt', 'control_points.AbstractManager.ctrlpts',
                      'control_points.AbstractManager.reset', 'BSpline.Surface.set_ctrlpts', 'BSpline.Volume.set_ctrlpts',
                      'evaluators.SurfaceEvaluator.evaluate', 'evaluators.VolumeEvaluator.evaluate'],
          quick=lambda: _mgr_sizes('quick'), thorough=lambda: _mgr_sizes('thorough'))
def managers(ctx, sizes):
    """requires: pairwise different sizes, one distinct point per (u, v, w)
       ensures : find_index(u, v, w) == v + sv*(u + su*w), inside [0, n) for arguments inside the box and different
                 for different arguments; set_ctrlpt(pt, u, v, w) writes exactly that slot of .ctrlpts, get_ctrlpt reads
                 it; the index one past the end is answered None / GeomdlException as documented; the net written
                 through the manager, given to BSpline.Surface / Volume, evaluates to sum B_u B_v B_w * point(u, v, w)"""
    cp = ctx.geomdl('control_points')
    exc = ctx.geomdl('exceptions').GeomdlException
    nd = len(sizes)
    cls = {1: cp.CurveManager, 2: cp.SurfaceManager, 3: cp.VolumeManager}[nd]
    full = list(sizes) + [1] * (3 - nd)
    su, sv, sw = full if nd > 1 else (full[0], 1, 1)
    if nd == 1:
        su, sv = 1, sizes[0]          # a curve has one direction: index == the argument
    n = su * sv * sw

    def args_of(i, j, k):
        return {1: (j,), 2: (i, j), 3: (i, j, k)}[nd]

    box = [(i, j, k) for k in range(sw) for i in range(su) for j in range(sv)]
    point = dict((ijk, [ctx.num('P%d%d%d' % ijk)] + [ctx.lit(Fraction(7 * ijk[0] + 3 * ijk[1] + 11 * ijk[2] + d, d + 1))
                                                    for d in (1, 2)]) for ijk in box)
    m = cls(*sizes)
    ctx.check_true('fresh.len', len(m.ctrlpts) == n)
    seen = set()
    for ijk in box:
        idx = m.find_index(*args_of(*ijk))
        want = spec.layout(ijk[0], ijk[1], ijk[2], su, sv)
        ctx.check_true('find_index=layout', idx == want, 'find_index%r = %r, layout %r' % (args_of(*ijk), idx, want))
        ctx.check_true('find_index.in_range', 0 <= idx < n)
        seen.add(idx)
    ctx.check_true('find_index.bijective', len(seen) == n)
    for ijk in box:
        m.set_ctrlpt(list(point[ijk]), *args_of(*ijk))
    flat = m.ctrlpts
    ctx.check_true('set.len', len(flat) == n)
    for ijk in box:
        ctx.check_eq_vec('set.slot=layout', flat[spec.layout(ijk[0], ijk[1], ijk[2], su, sv)], point[ijk])
        ctx.check_eq_vec('get(set)', m.get_ctrlpt(*args_of(*ijk)), point[ijk])
    # reading a net that came from elsewhere
    m2 = cls(*sizes)
    m2.ctrlpts = [list(point[ijk]) for ijk in box]        # box is enumerated in layout order
    for ijk in box:
        ctx.check_eq_vec('get.from_flat', m2.get_ctrlpt(*args_of(*ijk)), point[ijk])
    # first index past the end (one step beyond the slowest direction)
    past = {1: (sv,), 2: (su, 0), 3: (0, 0, sw)}[nd]
    ctx.check_true('past_end.get=None', m.get_ctrlpt(*past) is None)
    ctx.check_raises('past_end.set_rejected', exc, m.set_ctrlpt, [0, 0, 0], *past)
    ctx.check_eq_grid('past_end.net_untouched', m.ctrlpts, [point[ijk] for ijk in box])
    # the manager's net in the geometry classes
    bs = ctx.geomdl('BSpline')
    kv = ctx.geomdl('knotvector')
    if nd == 2:
        u = shapes.param_in(ctx, 'u', ctx.lit(0), ctx.lit(1))
        v = shapes.param_in(ctx, 'v', ctx.lit(0), ctx.lit(1))
        s = bs.Surface()
        s.degree_u, s.degree_v = 1, 1
        s.ctrlpts_size_u, s.ctrlpts_size_v = su, sv
        s.ctrlpts = _copy2(m.ctrlpts)
        U = _uniform(ctx, 1, su)
        V = _uniform(ctx, 1, sv)
        s.knotvector_u, s.knotvector_v = list(U), list(V)
        want = _by_index(ctx, [1, 1], [U, V], [su, sv], lambda i, j, k: point[(i, j, 0)], [u, v])
        ctx.check_eq_vec('surface(u,v)=sum B_i B_j point(i,j)', s.evaluate_single([u, v]), want)
    elif nd == 3:
        prm = [shapes.param_in(ctx, nm, ctx.lit(0), ctx.lit(1)) for nm in ('u', 'v', 'w')]
        vol = bs.Volume()
        vol.degree_u, vol.degree_v, vol.degree_w = 1, 1, 1
        vol.ctrlpts_size_u, vol.ctrlpts_size_v, vol.ctrlpts_size_w = su, sv, sw
        vol.ctrlpts = _copy2(m.ctrlpts)
        kvs = [_uniform(ctx, 1, su), _uniform(ctx, 1, sv), _uniform(ctx, 1, sw)]
        vol.knotvector_u, vol.knotvector_v, vol.knotvector_w = [list(x) for x in kvs]
        want = _by_index(ctx, [1, 1, 1], kvs, [su, sv, sw], lambda i, j, k: point[(i, j, k)], prm)
        ctx.check_eq_vec('volume(u,v,w)=sum B_i B_j B_k point(i,j,k)', vol.evaluate_single(prm), want)
    else:
        t = shapes.param_in(ctx, 'u', ctx.lit(0), ctx.lit(1))
        c = bs.Curve()
        c.degree = 1
        c.ctrlpts = _copy2(m.ctrlpts)
        U = _uniform(ctx, 1, sv)
        c.knotvector = list(U)
        want = _by_index(ctx, [1], [U], [sv], lambda i, j, k: point[(0, i, 0)], [t])
        ctx.check_eq_vec('curve(u)=sum B_i point(i)', c.evaluate_single(t), want)


def _uniform(ctx, p, n):
    """clamped uniform knot vector with constant knots"""
    inner = n - p - 1
    return [ctx.lit(0)] * (p + 1) + [ctx.lit(Fraction(i + 1, inner + 1)) for i in range(inner)] + [ctx.lit(1)] * (p + 1)


def _by_index(ctx, deg, kvs, sizes, point, prm):
    """tensor-product definition written with a point *function* of the index triple (no flat layout involved)"""
    rows = []
    for a in range(len(deg)):
        sp = spec.span_spec(deg[a], kvs[a], sizes[a], prm[a])
        rows.append(spec.basis_row(deg[a], kvs[a], sp, prm[a]))
    while len(rows) < 3:
        rows.append({0: 1})
    out = None
    for i, bi in rows[0].items():
        for j, bj in rows[1].items():
            for k, bk in rows[2].items():
                pt = point(i, j, k)
                term = [bi * bj * bk * x for x in pt]
                out = term if out is None else [a + b for a, b in zip(out, term)]
    return out


# ------------------------------------------------------------------------------------------------
# compatibility flips
# ------------------------------------------------------------------------------------------------
def _flip_sizes(tier):
    out = [dict(su=3, sv=4, dim=3), dict(su=4, sv=3, dim=4), dict(su=2, sv=5, dim=2), dict(su=5, sv=3, dim=3),
           dict(su=1, sv=4, dim=3), dict(su=3, sv=1, dim=3)]
    if tier == 'thorough':
        out = [dict(su=a, sv=b, dim=d) for a in range(1, 7) for b in range(1, 7) if a != b for d in (2, 3, 4)]
    return out


@scenario('C13', fns=['compatibility.flip_ctrlpts_u', 'compatibility.flip_ctrlpts', 'compatibility.flip_ctrlpts2d',
                      'BSpline.Surface.set_ctrlpts', 'BSpline.Surface.ctrlpts2d'],
          quick=lambda: _flip_sizes('quick'), thorough=lambda: _flip_sizes('thorough'))
def compat_flips(ctx, su, sv, dim):
    """requires: su != sv; G[u][v] distinct points.  v-row order = the library layout (v fastest): Vrow[v + sv*u];
                 u-row order (u fastest): Urow[u + su*v]
       ensures : flip_ctrlpts_u(Urow, su, sv) == Vrow; flip_ctrlpts(Vrow, su, sv) == Urow; the two are mutual
                 inverses; flip_ctrlpts2d(G)[v][u] == G[u][v] (shape sv x su, explicit or detected sizes), an involution;
                 a surface fed with flip_ctrlpts_u(Urow) shows G as its 2-D grid view"""
    cp = ctx.geomdl('compatibility')
    G = [[[ctx.num('G%d_%d_%d' % (i, j, d)) for d in range(dim)] for j in range(sv)] for i in range(su)]
    vrow = [G[i][j] for i in range(su) for j in range(sv)]
    urow = [G[i][j] for j in range(sv) for i in range(su)]
    n = su * sv
    a = cp.flip_ctrlpts_u(_copy2(urow), su, sv)
    ctx.check_true('flip_ctrlpts_u.len', len(a) == n)
    ctx.check_eq_grid('flip_ctrlpts_u(Urow)=Vrow', a, vrow)
    b = cp.flip_ctrlpts(_copy2(vrow), su, sv)
    ctx.check_true('flip_ctrlpts.len', len(b) == n)
    ctx.check_eq_grid('flip_ctrlpts(Vrow)=Urow', b, urow)
    ctx.check_eq_grid('flip_ctrlpts(flip_ctrlpts_u(X))=X', cp.flip_ctrlpts(a, su, sv), urow)
    ctx.check_eq_grid('flip_ctrlpts_u(flip_ctrlpts(X))=X', cp.flip_ctrlpts_u(b, su, sv), vrow)
    for tag, args in (('explicit', (su, sv)), ('detected', ())):
        t = cp.flip_ctrlpts2d([[list(p) for p in row] for row in G], *args)
        ctx.check_true('flip_ctrlpts2d.%s.shape' % tag, len(t) == sv and all(len(r) == su for r in t))
        for j in range(sv):
            for i in range(su):
                ctx.check_eq_vec('flip_ctrlpts2d.%s[v][u]=G[u][v]' % tag, t[j][i], G[i][j])
        tt = cp.flip_ctrlpts2d(t, *args[::-1])
        ctx.check_true('flip_ctrlpts2d.%s.twice.shape' % tag, len(tt) == su and all(len(r) == sv for r in tt))
        for i in range(su):
            ctx.check_eq_grid('flip_ctrlpts2d.%s.twice=id' % tag, tt[i], G[i])
    if dim >= 3 and su > 1 and sv > 1:
        s = ctx.geomdl('BSpline').Surface()
        s.degree_u, s.degree_v = 1, 1
        s.set_ctrlpts(a, su, sv)
        g = s.ctrlpts2d
        ctx.check_true('surface.grid.shape', len(g) == su and all(len(r) == sv for r in g))
        for i in range(su):
            ctx.check_eq_grid('surface(flip_ctrlpts_u(Urow)).ctrlpts2d=G', g[i], G[i])


@scenario('C13', fns=['compatibility.flip_ctrlpts2d_file', 'compatibility.flip_ctrlpts2d', 'compatibility._read_ctrltps2d_file',
                      'compatibility._save_ctrlpts2d_file'],
          quick=[dict(su=2, sv=3), dict(su=3, sv=2), dict(su=1, sv=3), dict(su=2, sv=2)])
def compat_flip_file(ctx, su, sv):
    """requires: a text file of su lines with sv points each (A3: numbers print to tokens that read back as themselves)
       ensures : flip_ctrlpts2d_file writes sv lines of su points with out[v][u] == in[u][v]; applied twice it gives the
                 original file content back"""
    import os
    import shutil
    import tempfile
    cp = ctx.geomdl('compatibility')
    G = [[[ctx.num('G%d_%d_%d' % (i, j, d)) for d in range(3)] for j in range(sv)] for i in range(su)]

    def parse(path):
        rows = []
        with open(path) as f:
            for line in f.read().split('\n'):
                if line.strip():
                    rows.append([[ctx.q.vq_float(c.strip()) if ctx.mode == 'sym' else float(c) for c in pt.split(',')]
                                 for pt in line.strip().split(';')])
        return rows

    d = tempfile.mkdtemp(prefix='verif_c13_', dir=os.environ.get('TMPDIR') or '/tmp')
    try:
        fin, fmid, fout = (os.path.join(d, nm) for nm in ('in.txt', 'mid.txt', 'out.txt'))
        with open(fin, 'w') as f:
            f.write('\n'.join(';'.join(','.join(str(c) for c in pt) for pt in row) for row in G) + '\n')
        cp.flip_ctrlpts2d_file(fin, fmid)
        mid = parse(fmid)
        ctx.check_true('flipped_file.shape', len(mid) == sv and all(len(r) == su for r in mid),
                       'lines have %r points, expected %d lines of %d' % ([len(r) for r in mid], sv, su))
        for j in range(min(sv, len(mid))):
            for i in range(min(su, len(mid[j]))):
                ctx.check_eq_vec('flipped_file[v][u]=G[u][v]', mid[j][i], G[i][j])
        cp.flip_ctrlpts2d_file(fmid, fout)
        out = parse(fout)
        ctx.check_true('twice.shape', len(out) == su and all(len(r) == sv for r in out))
        for i in range(min(su, len(out))):
            if len(out[i]) == sv:
                ctx.check_eq_grid('twice=original[%d]' % i, out[i], G[i])
    finally:
        shutil.rmtree(d, ignore_errors=True)


# ------------------------------------------------------------------------------------------------
# surfaces: builders shared by transpose / flip / round trip / sweep
# ------------------------------------------------------------------------------------------------
def _surface(ctx, pu, pv, mu, mv, rational, symmetric=False):
    U, _iu, su = _sym_kv(ctx, pu, mu, 'a', symmetric)
    V, _iv, sv = _sym_kv(ctx, pv, mv, 'b', symmetric)
    P = shapes.net(ctx, 'P', su * sv, 3)
    W = shapes.weights(ctx, 'w', su * sv) if rational else None
    srf = shapes.build_surface(ctx, pu, pv, U, V, P, su, sv, W)
    return srf, U, V, su, sv, P, W


def _surface_state(srf, rational):
    return (_copy2(_flat(srf, rational)), list(srf.knotvector_u), list(srf.knotvector_v), list(srf.degree),
            [srf.ctrlpts_size_u, srf.ctrlpts_size_v])


def _check_surface_state(ctx, tag, srf, rational, state):
    ctx.check_true(tag + '.sizes_degrees', list(srf.degree) == state[3] and
                   [srf.ctrlpts_size_u, srf.ctrlpts_size_v] == state[4],
                   'degree %r sizes %r, expected %r %r' % (list(srf.degree), [srf.ctrlpts_size_u, srf.ctrlpts_size_v],
                                                           state[3], state[4]))
    ctx.check_eq_vec(tag + '.knotvector_u', srf.knotvector_u, state[1])
    ctx.check_eq_vec(tag + '.knotvector_v', srf.knotvector_v, state[2])
    ctx.check_eq_grid(tag + '.ctrlpts', _flat(srf, rational), state[0])


def _tr_shapes(tier):
    out = [dict(pu=2, pv=1, mu=[], mv=[1, 1], rational=False, inplace=False),      # 3 x 4
           dict(pu=1, pv=2, mu=[1, 1], mv=[], rational=False, inplace=True),       # 4 x 3
           dict(pu=2, pv=1, mu=[1], mv=[], rational=True, inplace=False),          # 4 x 2
           dict(pu=1, pv=2, mu=[], mv=[1], rational=True, inplace=True)]           # 2 x 4
    if tier == 'thorough':
        out += [dict(pu=3, pv=2, mu=[1], mv=[1, 1], rational=False, inplace=False),
                dict(pu=2, pv=3, mu=[2], mv=[], rational=False, inplace=True),
                dict(pu=2, pv=2, mu=[1], mv=[], rational=True, inplace=False),
                dict(pu=1, pv=3, mu=[1], mv=[1], rational=True, inplace=True)]
    # the method of the surface classes (BSpline.Surface.transpose, inherited by NURBS.Surface)
    out += [dict(pu=2, pv=1, mu=[1], mv=[], rational=False, inplace=True, via='method'),
            dict(pu=1, pv=2, mu=[], mv=[1], rational=True, inplace=True, via='method')]
    return out


@scenario('C13', fns=['operations.transpose', 'BSpline.Surface.ctrlpts2d', 'BSpline.Surface.set_ctrlpts',
                      'BSpline.Surface.evaluate_single', 'evaluators.SurfaceEvaluator.evaluate',
                      'evaluators.SurfaceEvaluatorRational.evaluate'],
          quick=lambda: _tr_shapes('quick'), thorough=lambda: _tr_shapes('thorough'))
def transpose(ctx, pu, pv, mu, mv, rational, inplace, via='operations'):
    """requires: su != sv, pu != pv, valid clamped knot vectors, (a, b) in the unit square, positive weights
       ensures : T = transpose(S): T(a, b) == S(b, a); sizes, degrees and knot vectors swapped; point (j, i) of T is
                 point (i, j) of S; transpose(T) is S again; inplace=False leaves S alone and returns a new object"""
    ops = ctx.geomdl('operations')
    srf, U, V, su, sv, P, W = _surface(ctx, pu, pv, mu, mv, rational)
    Pw = shapes.homog(P, W)
    a = shapes.param_in(ctx, 'a', ctx.lit(0), ctx.lit(1))
    b = shapes.param_in(ctx, 'b', ctx.lit(0), ctx.lit(1))
    want = _surf_spec(ctx, pu, pv, U, V, P, W, su, sv, b, a)            # S(b, a)
    state = _surface_state(srf, rational)
    if via == 'method':                  # the Surface.transpose() method: always in place
        ctx.check_true('method.returns_none', srf.transpose() is None)
        T = srf
    else:
        T = ops.transpose(srf, inplace=inplace)
    if inplace:
        ctx.check_true('inplace.same_object', T is srf)
    else:
        ctx.check_true('copy.new_object', T is not srf)
        _check_surface_state(ctx, 'copy.input_unchanged', srf, rational, state)
    ctx.check_true('T.sizes_swapped', T.ctrlpts_size_u == sv and T.ctrlpts_size_v == su,
                   'sizes (%r, %r), expected (%r, %r)' % (T.ctrlpts_size_u, T.ctrlpts_size_v, sv, su))
    ctx.check_true('T.degrees_swapped', list(T.degree) == [pv, pu])
    ctx.check_eq_vec('T.knotvector_u=V', T.knotvector_u, V)
    ctx.check_eq_vec('T.knotvector_v=U', T.knotvector_v, U)
    tf = _flat(T, rational)
    ctx.check_true('T.len', len(tf) == su * sv)
    for i in range(su):
        for j in range(sv):
            ctx.check_eq_vec('T.point(j,i)=S.point(i,j)', tf[spec.layout(j, i, 0, sv, su)], Pw[spec.layout(i, j, 0, su, sv)])
    ctx.check_eq_vec('T(a,b)=S(b,a)', T.evaluate_single([a, b]), want)
    if via == 'method':
        T.transpose()
        T2 = T
    else:
        T2 = ops.transpose(T, inplace=inplace)
    _check_surface_state(ctx, 'twice=identity', T2, rational, state)
    ctx.check_eq_vec('twice(b,a)=S(b,a)', T2.evaluate_single([b, a]), want)


def _flip_shapes(tier):
    out = [dict(pu=2, pv=1, mu=[], mv=[1, 1], rational=False, inplace=False, symmetric=True),    # 3 x 4, symmetric knots
           dict(pu=1, pv=2, mu=[], mv=[1], rational=True, inplace=True, symmetric=True),         # 2 x 4
           dict(pu=2, pv=1, mu=[1], mv=[1], rational=False, inplace=True, symmetric=False),      # 4 x 3, free knots
           dict(pu=1, pv=2, mu=[], mv=[1], rational=True, inplace=False, symmetric=False)]       # 2 x 4
    if tier == 'thorough':
        out += [dict(pu=3, pv=2, mu=[1], mv=[1, 1], rational=False, inplace=False, symmetric=True),
                dict(pu=2, pv=3, mu=[1, 1, 1], mv=[], rational=True, inplace=False, symmetric=True),
                dict(pu=2, pv=2, mu=[2], mv=[1], rational=False, inplace=True, symmetric=False)]
    return out


@scenario('C13', fns=['operations.flip', 'BSpline.Surface.set_ctrlpts', 'NURBS.Surface.ctrlptsw',
                      'BSpline.Surface.evaluate_single'],
          quick=lambda: _flip_shapes('quick'), thorough=lambda: _flip_shapes('thorough'))
def flip(ctx, pu, pv, mu, mv, rational, inplace, symmetric):
    """requires: su != sv, valid clamped knot vectors; symmetric: the knot vectors are symmetric about 1/2
       ensures : F = flip(S): point (i, j) of F is point (su-1-i, sv-1-j) of S in the flat list, in the 2-D view and in
                 the weights; sizes, degrees, knot vectors untouched; flip(F) is S again;
                 symmetric knots: F(u, v) == S(1-u, 1-v)"""
    ops = ctx.geomdl('operations')
    srf, U, V, su, sv, P, W = _surface(ctx, pu, pv, mu, mv, rational, symmetric)
    Pw = shapes.homog(P, W)
    if symmetric:
        # (the definition first: its span cases are decided while the path condition is still linear)
        u = shapes.param_in(ctx, 'u', ctx.lit(0), ctx.lit(1))
        v = shapes.param_in(ctx, 'v', ctx.lit(0), ctx.lit(1))
        mirrored = _surf_spec(ctx, pu, pv, U, V, P, W, su, sv, 1 - u, 1 - v)
    state = _surface_state(srf, rational)
    F = ops.flip(srf, inplace=inplace)
    if inplace:
        ctx.check_true('inplace.same_object', F is srf)
    else:
        ctx.check_true('copy.new_object', F is not srf)
        _check_surface_state(ctx, 'copy.input_unchanged', srf, rational, state)
    ctx.check_true('F.sizes_degrees', F.ctrlpts_size_u == su and F.ctrlpts_size_v == sv and list(F.degree) == [pu, pv])
    ctx.check_eq_vec('F.knotvector_u', F.knotvector_u, U)
    ctx.check_eq_vec('F.knotvector_v', F.knotvector_v, V)
    ff = _flat(F, rational)
    g = F.ctrlpts2d
    ctx.check_true('F.shape', len(ff) == su * sv and len(g) == su and all(len(r) == sv for r in g))
    for i in range(su):
        for j in range(sv):
            src = Pw[spec.layout(su - 1 - i, sv - 1 - j, 0, su, sv)]
            ctx.check_eq_vec('F.point(i,j)=S.point(su-1-i,sv-1-j)', ff[spec.layout(i, j, 0, su, sv)], src)
            ctx.check_eq_vec('F.ctrlpts2d[i][j]', g[i][j], src)
    if rational:
        ctx.check_eq_vec('F.weights_follow_points', F.weights, list(reversed(W)))
    if symmetric:
        ctx.check_eq_vec('F(u,v)=S(1-u,1-v)', F.evaluate_single([u, v]), mirrored)
    F2 = ops.flip(F, inplace=inplace)
    _check_surface_state(ctx, 'twice=identity', F2, rational, state)


# ------------------------------------------------------------------------------------------------
# extraction / construction round trips
# ------------------------------------------------------------------------------------------------
def _rt_surf_shapes(tier):
    out = [dict(pu=2, pv=1, mu=[], mv=[1, 1], rational=False),      # 3 x 4
           dict(pu=1, pv=2, mu=[1, 1], mv=[], rational=False),      # 4 x 3
           dict(pu=2, pv=1, mu=[1], mv=[], rational=True),          # 4 x 2
           dict(pu=1, pv=2, mu=[], mv=[1], rational=True)]          # 2 x 4
    if tier == 'thorough':
        out += [dict(pu=3, pv=2, mu=[1], mv=[1, 1], rational=False), dict(pu=2, pv=3, mu=[2], mv=[], rational=True),
                dict(pu=3, pv=1, mu=[], mv=[1], rational=True)]
    return out


@scenario('C13', fns=['construct.extract_curves', 'construct.construct_surface', 'compatibility.flip_ctrlpts_u',
                      'compatibility.combine_ctrlpts_weights', 'compatibility.separate_ctrlpts_weights',
                      'abstract.Surface.data', 'abstract.Surface.ctrlpts', 'NURBS.Surface.ctrlpts', 'NURBS.Surface.weights',
                      'BSpline.Surface.evaluate_single'],
          quick=lambda: _rt_surf_shapes('quick'), thorough=lambda: _rt_surf_shapes('thorough'))
def surface_roundtrip(ctx, pu, pv, mu, mv, rational):
    """requires: su != sv, pu != pv, different knot vectors per direction, positive weights, (u, v) in the unit square
       ensures : extract_curves(S): 'u' holds sv curves along u (curve j = column j: points (0..su-1, j), degree pu,
                 knot vector U), 'v' holds su curves along v (curve i = row i); the rows stacked along u
                 (construct_surface('u', *rows, degree=pu, knotvector=U)) and the columns stacked along v
                 (construct_surface('v', *columns, degree=pv, knotvector=V)) are S again: sizes, degrees, knot
                 vectors, control points, weights, and the same point at (u, v)"""
    con = ctx.geomdl('construct')
    srf, U, V, su, sv, P, W = _surface(ctx, pu, pv, mu, mv, rational)
    Pw = shapes.homog(P, W)
    u = shapes.param_in(ctx, 'u', ctx.lit(0), ctx.lit(1))
    v = shapes.param_in(ctx, 'v', ctx.lit(0), ctx.lit(1))
    want = _surf_spec(ctx, pu, pv, U, V, P, W, su, sv, u, v)
    state = _surface_state(srf, rational)
    ec = con.extract_curves(srf)
    cols, rows = ec['u'], ec['v']
    ctx.check_true('extract.counts', len(cols) == sv and len(rows) == su, 'u: %d curves, v: %d curves' % (len(cols), len(rows)))
    for j, c in enumerate(cols):
        ctx.check_true('extract.u.curve_meta', c.degree == pu and c.ctrlpts_size == su and c.rational is rational)
        ctx.check_eq_vec('extract.u.knotvector=U', c.knotvector, U)
        ctx.check_eq_grid('extract.u[j].point(i)=S.point(i,j)', _flat(c, rational), [Pw[spec.layout(i, j, 0, su, sv)] for i in range(su)])
    for i, c in enumerate(rows):
        ctx.check_true('extract.v.curve_meta', c.degree == pv and c.ctrlpts_size == sv and c.rational is rational)
        ctx.check_eq_vec('extract.v.knotvector=V', c.knotvector, V)
        ctx.check_eq_grid('extract.v[i].point(j)=S.point(i,j)', _flat(c, rational), [Pw[spec.layout(i, j, 0, su, sv)] for j in range(sv)])
    _check_surface_state(ctx, 'extract.input_unchanged', srf, rational, state)
    for d, curves, deg, kvec in (('u', rows, pu, U), ('v', cols, pv, V)):
        R = con.construct_surface(d, *curves, degree=deg, knotvector=list(kvec))
        ctx.check_true('construct_%s.rational' % d, R.rational is rational and R is not srf)
        _check_surface_state(ctx, 'construct_%s=S' % d, R, rational, state)
        if rational:
            ctx.check_eq_vec('construct_%s=S.weights' % d, R.weights, W)
        ctx.check_eq_vec('construct_%s(u,v)=S(u,v)' % d, R.evaluate_single([u, v]), want)


def _rt_vol_shapes(tier):
    out = []
    for d in ('w', 'u', 'v'):
        out.append(dict(deg=[2, 1, 1], m=[[1], [1], []], rational=False, direction=d))      # 4 x 3 x 2
        out.append(dict(deg=[1, 1, 2], m=[[], [1], [1]], rational=True, direction=d))       # 2 x 3 x 4
    if tier == 'thorough':
        for d in ('w', 'u', 'v'):
            out.append(dict(deg=[1, 2, 1], m=[[1], [1, 1], []], rational=False, direction=d))   # 3 x 5 x 2
            out.append(dict(deg=[2, 1, 3], m=[[], [], [1]], rational=True, direction=d))        # 3 x 2 x 5
    return out


@scenario('C13', fns=['construct.extract_surfaces', 'construct.extract_isosurface', 'construct.construct_volume', 'BSpline.Surface.ctrlpts2d',
                      'abstract.Volume.data', 'abstract.Volume.ctrlpts', 'NURBS.Volume.ctrlpts', 'NURBS.Volume.weights',
                      'BSpline.Volume.evaluate_single', 'evaluators.VolumeEvaluator.evaluate'],
          quick=lambda: _rt_vol_shapes('quick'), thorough=lambda: _rt_vol_shapes('thorough'))
def volume_roundtrip(ctx, deg, m, rational, direction):
    """requires: pairwise different sizes, valid clamped knot vectors, positive weights, (u, v, w) in the unit cube
       ensures : extract_surfaces(V): 'uv'[k] / 'uw'[j] / 'vw'[i] is the index section w=k / v=j / u=i with the two
                 remaining directions in (u, v, w) order (degrees, knot vectors, sizes, every point);
                 stacking the sections along the direction they were cut across -
                 construct_volume('w', *uv) | ('v', *uw) | ('u', *vw), with that direction's degree and knot vector -
                 gives V again: sizes, degrees, knot vectors, control points, weights, same point at (u, v, w)"""
    con = ctx.geomdl('construct')
    kvs, sizes = [], []
    for a, pfx in enumerate('abc'):
        U, _i, n = shapes.make_kv(ctx, deg[a], m[a], prefix=pfx)
        kvs.append(U)
        sizes.append(n)
    su, sv, sw = sizes
    n = su * sv * sw
    P = shapes.net(ctx, 'P', n, 3)
    W = shapes.weights(ctx, 'w', n) if rational else None
    Pw = shapes.homog(P, W)
    vol = shapes.build_volume(ctx, deg[0], deg[1], deg[2], kvs[0], kvs[1], kvs[2], P, su, sv, sw, W)
    prm = [shapes.param_in(ctx, nm, ctx.lit(0), ctx.lit(1)) for nm in ('u', 'v', 'w')]
    want = _vol_spec(ctx, deg, kvs, P, W, sizes, prm)
    es = con.extract_surfaces(vol)
    ctx.check_true('extract.counts', len(es['uv']) == sw and len(es['uw']) == sv and len(es['vw']) == su)
    axis = 'uvw'.index(direction)
    key = {'w': 'uv', 'v': 'uw', 'u': 'vw'}[direction]
    rest = [a for a in range(3) if a != axis]              # the section's own (first, second) direction
    for c, s in enumerate(es[key]):
        ctx.check_true('extract.%s.meta' % key, list(s.degree) == [deg[rest[0]], deg[rest[1]]] and s.rational is rational
                       and [s.ctrlpts_size_u, s.ctrlpts_size_v] == [sizes[rest[0]], sizes[rest[1]]],
                       'degree %r sizes %r' % (list(s.degree), [s.ctrlpts_size_u, s.ctrlpts_size_v]))
        ctx.check_eq_vec('extract.%s.knotvector_u' % key, s.knotvector_u, kvs[rest[0]])
        ctx.check_eq_vec('extract.%s.knotvector_v' % key, s.knotvector_v, kvs[rest[1]])
        sf = _flat(s, rational)
        for p in range(sizes[rest[0]]):
            for q in range(sizes[rest[1]]):
                ijk = [0, 0, 0]
                ijk[axis], ijk[rest[0]], ijk[rest[1]] = c, p, q
                ctx.check_eq_vec('extract.%s[c].point(p,q)=V.point' % key, sf[spec.layout(p, q, 0, sizes[rest[0]], sizes[rest[1]])],
                                 Pw[spec.layout(ijk[0], ijk[1], ijk[2], su, sv)])
    ctx.check_eq_grid('extract.input_unchanged', _flat(vol, rational), Pw)
    # the six boundary faces: first and last section across w, v, u (in that order)
    faces = con.extract_isosurface(vol)
    ctx.check_true('isosurface.count', len(faces) == 6)
    for f, (fkey, which) in zip(faces, (('uv', 0), ('uv', -1), ('uw', 0), ('uw', -1), ('vw', 0), ('vw', -1))):
        ctx.check_eq_grid('isosurface.%s[%d]=boundary_section' % (fkey, which), _flat(f, rational), _flat(es[fkey][which], rational))
    R = con.construct_volume(direction, *es[key], degree=deg[axis], knotvector=list(kvs[axis]))
    ctx.check_true('construct.rational', R.rational is rational and R is not vol)
    ctx.check_true('construct.sizes_degrees', [R.ctrlpts_size_u, R.ctrlpts_size_v, R.ctrlpts_size_w] == sizes and
                   list(R.degree) == list(deg),
                   'sizes %r degrees %r' % ([R.ctrlpts_size_u, R.ctrlpts_size_v, R.ctrlpts_size_w], list(R.degree)))
    for a, gk in enumerate((R.knotvector_u, R.knotvector_v, R.knotvector_w)):
        ctx.check_eq_vec('construct.knotvector%d' % a, gk, kvs[a])
    ctx.check_eq_grid('construct.ctrlpts=V.ctrlpts', _flat(R, rational), Pw)
    if rational:
        ctx.check_eq_vec('construct.weights=V.weights', R.weights, W)
    ctx.check_eq_vec('construct(u,v,w)=V(u,v,w)', R.evaluate_single(prm), want)


# ------------------------------------------------------------------------------------------------
# sweeping
# ------------------------------------------------------------------------------------------------
def _sweep_shapes(tier):
    out = [dict(kind='curve', deg=[2], m=[[1]], rational=False, dim=3), dict(kind='curve', deg=[3], m=[[]], rational=True, dim=3),
           dict(kind='curve', deg=[1], m=[[1]], rational=False, dim=2),
           dict(kind='surface', deg=[2, 1], m=[[], [1, 1]], rational=False, dim=3),         # 3 x 4
           dict(kind='surface', deg=[1, 2], m=[[1, 1], []], rational=True, dim=3)]          # 4 x 3
    if tier == 'thorough':
        out += [dict(kind='curve', deg=[3], m=[[1, 2]], rational=True, dim=3),
                dict(kind='surface', deg=[2, 3], m=[[1], []], rational=False, dim=3)]
    return out


@scenario('C13', fns=['sweeping.sweep_vector', 'construct.construct_surface', 'construct.construct_volume',
                      'linalg.point_translate', 'BSpline.Surface.evaluate_single', 'BSpline.Volume.evaluate_single'],
          quick=lambda: _sweep_shapes('quick'), thorough=lambda: _sweep_shapes('thorough'))
def sweep(ctx, kind, deg, m, rational, dim):
    """requires: valid clamped knot vectors, parameters in the domain, positive weights, any vector t
       ensures : sweep_vector(C, t) is a surface with S(0, x) == C(x) and S(1, x) == C(x) + t;
                 sweep_vector(S, t) is a volume with V(u, v, 0) == S(u, v) and V(u, v, 1) == S(u, v) + t;
                 the input is left as it was"""
    sw = ctx.geomdl('sweeping')
    t = [ctx.num('t%d' % d) for d in range(dim)]
    zero, one = ctx.lit(0), ctx.lit(1)
    if kind == 'curve':
        U, _i, n = shapes.make_kv(ctx, deg[0], m[0])
        P = shapes.net(ctx, 'P', n, dim)
        W = shapes.weights(ctx, 'w', n) if rational else None
        crv = shapes.build_curve(ctx, deg[0], U, P, W)
        x = shapes.param_in(ctx, 'x', zero, one)
        base = _curve_spec(ctx, deg[0], U, P, W, x)
        S = sw.sweep_vector(crv, list(t))
        ctx.check_true('swept.is_surface', S.pdimension == 2 and S.rational is rational and S.dimension == dim)
        ctx.check_eq_vec('section(u=0)=input', S.evaluate_single([zero, x]), base)
        ctx.check_eq_vec('section(u=1)=input+t', S.evaluate_single([one, x]), [b + c for b, c in zip(base, t)])
        ctx.check_eq_grid('input_unchanged', _flat(crv, rational), shapes.homog(P, W))
        return
    srf, U, V, su, sv, P, W = _surface(ctx, deg[0], deg[1], m[0], m[1], rational)
    u = shapes.param_in(ctx, 'u', zero, one)
    v = shapes.param_in(ctx, 'v', zero, one)
    base = _surf_spec(ctx, deg[0], deg[1], U, V, P, W, su, sv, u, v)
    vol = sw.sweep_vector(srf, list(t))
    ctx.check_true('swept.is_volume', vol.pdimension == 3 and vol.rational is rational)
    ctx.check_eq_vec('section(w=0)=input', vol.evaluate_single([u, v, zero]), base)
    ctx.check_eq_vec('section(w=1)=input+t', vol.evaluate_single([u, v, one]), [b + c for b, c in zip(base, t)])
    ctx.check_eq_grid('input_unchanged', _flat(srf, rational), shapes.homog(P, W))
