"""C06 Removing a removable knot is exact and inverts insertion.

Contracts (requires / ensures) on the real helpers.knot_removal(+_kv, _alpha_i, _alpha_j), operations.remove_knot and
the Curve/Surface/Volume.remove_knot methods.  A knot is made removable by the history the property names: it was
inserted r times (1 <= r <= degree - multiplicity, at any parameter: inside a span or on a knot) or it was produced by
refinement.  Postcondition (the property statement):
  * removing it t <= r times yields a shape whose evaluated points equal the ORIGINAL definition's (identity in
    QQ(knots, x, u, control points, weights)), knot vector == the original with r - t copies left, control net
    reduced by exactly t in that direction only,
  * t == r restores the original control points (and weights) exactly.

Tolerance: A5.8 accepts a removal when a distance is <= 1e-3; for a removable knot that distance is identically 0 in
exact arithmetic, so the branch is decided and needs no precondition.  The insertion parameter has to be a knot or
farther than find_multiplicity's 1e-7 from every knot (as in C04).
"""
from fractions import Fraction

from .api import scenario
from . import shapes, spec, assumptions

assumptions.PROPS['C06'] = {'level': 'other', 'assume': ['A1', 'A4', 'A5', 'A6']}

MULT_TOL = Fraction(1, 10 ** 7)     # helpers.find_multiplicity: tol = 10e-8
VIAS = ('method', 'operations', 'helper')


# ---- curves -----------------------------------------------------------------------------------------------------
def _curve_shapes(tier):
    out = []
    pmax, extra = (3, 2) if tier == 'quick' else (4, 3)
    i = 0
    for p in range(1, pmax + 1):
        for k in range(0, extra + 1):                 # k = number of interior knots (with multiplicity)
            for mult in shapes.compositions(k, p):
                for r in range(1, p + 1):
                    for t in range(1, r + 1):
                        out.append(dict(p=p, mult=list(mult), r=r, t=t, rational=False, via=VIAS[i % 3]))
                        i += 1
    for p, mult, r, t in ((1, [1], 1, 1), (2, [1], 1, 1), (2, [], 2, 2), (2, [1], 2, 1), (3, [], 2, 1)):
        out.append(dict(p=p, mult=mult, r=r, t=t, rational=True, via='method'))
    # clamped knot vectors kept as given (normalize_kv=False, symbolic range [a, b])
    out.append(dict(p=2, mult=[1], r=2, t=2, rational=False, via='operations', norm=False))
    out.append(dict(p=3, mult=[1], r=2, t=1, rational=False, via='method', norm=False))
    out.append(dict(p=2, mult=[], r=1, t=1, rational=True, via='helper', norm=False))
    out.append(dict(p=2, mult=[1], r=1, t=1, rational=False, via='operations', norm=False, kvtype='tuple'))       # knot vector handed over as a tuple
    if tier == 'thorough':
        out.append(dict(p=3, mult=[1], r=3, t=3, rational=True, via='operations'))
        out.append(dict(p=3, mult=[1], r=1, t=1, rational=True, via='method'))
    return out


def _remove_curve(ctx, crv, via, x, t, rational):
    """the three observation points named by the property"""
    if via == 'method':
        crv.remove_knot(x, num=t)
    elif via == 'operations':
        ret = ctx.geomdl('operations').remove_knot(crv, [x], [t])
        ctx.check_true('returns.same_object', ret is crv)
    else:
        hp = ctx.geomdl('helpers')
        kv = list(crv.knotvector)
        cp = [list(q) for q in (crv.ctrlptsw if rational else crv.ctrlpts)]
        s = hp.find_multiplicity(x, kv)
        span = hp.find_span_linear(crv.degree, kv, len(cp), x)
        new_cp = hp.knot_removal(crv.degree, kv, cp, x, num=t)            # s and span found by the helper itself
        new_kv = hp.knot_removal_kv(kv, span, t)
        ctx.check_eq_vec('helper.input_kv_not_modified', kv, crv.knotvector)
        ctx.check_eq_grid('helper.input_ctrlpts_not_modified', cp, crv.ctrlptsw if rational else crv.ctrlpts)
        ctx.check_true('helper.multiplicity_before', s >= t)
        crv.set_ctrlpts(new_cp)
        crv.knotvector = new_kv


@scenario('C06', fns=['helpers.knot_removal', 'helpers.knot_removal_kv', 'helpers.knot_removal_alpha_i',
                      'helpers.knot_removal_alpha_j', 'helpers.find_multiplicity', 'helpers.find_span_linear',
                      'linalg.point_distance', 'operations.remove_knot', 'BSpline.Curve.remove_knot',
                      'BSpline.Curve.insert_knot', 'NURBS.Curve.ctrlptsw'],
          quick=lambda: _curve_shapes('quick'), thorough=lambda: _curve_shapes('thorough'))
def curve_insert_remove(ctx, p, mult, r, t, rational, via, norm=True, kvtype='list'):
    """requires: valid clamped knot vector, x in the open domain and tol-separated from every knot, r <= p - s,
                 positive weights, u in the domain; x was inserted r times (history)
       ensures : after removing x t <= r times: evaluate(u) == C(u) of the original, kv == original + (r - t) copies,
                 size == n + r - t; t == r: control points (weights) == the original ones"""
    U, inner, n = shapes.make_kv(ctx, p, mult, normalized=norm)
    x = shapes.param_in(ctx, 'x', U[0], U[-1], open_lo=True, open_hi=True)
    for k in [U[0]] + inner + [U[-1]]:
        ctx.assume(ctx.sep(x, k, MULT_TOL))
    u = shapes.param_in(ctx, 'u', U[0], U[-1])
    P = shapes.net(ctx, 'P', n, 2)
    W = shapes.weights(ctx, 'w', n) if rational else None
    crv = shapes.build_curve(ctx, p, U, P, W, normalize_kv=norm)
    if kvtype == 'tuple':
        crv.knotvector = tuple(U)          # kept as given with normalize_kv=False: a tuple
    Pw = shapes.homog(P, W)
    if rational:
        ctx.assume_pos(spec.curve_point(p, U, [[w] for w in W], u)[0], 'L.weight_function_positive')
    s = sum(1 for k in U if x == k)
    if r > p - s:
        ctx.skip('x cannot be inserted r times (multiplicity would exceed the degree)')
    crv.insert_knot(x, num=r)
    ctx.check_true('history.inserted_r_times', crv.ctrlpts_size == n + r)       # C04 is the contract of this step
    if kvtype == 'tuple':
        crv.knotvector = tuple(crv.knotvector)      # the refined curve holds its knot vector as a tuple again
    _remove_curve(ctx, crv, via, x, t, rational)
    span = spec.span_spec(p, U, n, x)
    ctx.check_true('size.reduced_by_t', crv.ctrlpts_size == n + r - t and len(crv.ctrlpts) == n + r - t,
                   'ctrlpts_size = %d, expected %d' % (crv.ctrlpts_size, n + r - t))
    ctx.check_eq_vec('kv.reduced_by_t', crv.knotvector, spec.insert_sorted(U, x, r - t, span))
    if t == r:
        ctx.check_eq_grid('ctrlpts.restored', crv.ctrlptsw if rational else crv.ctrlpts, Pw)
    want = spec.curve_point(p, U, Pw, u)
    want = spec.project(want) if rational else want
    ctx.check_eq_vec('shape.unchanged', crv.evaluate_single(u), want)


# ---- knots produced by refinement -----------------------------------------------------------------------------
def _refine_shapes(tier):
    out = [dict(p=1, mult=[1], which=0, t=1), dict(p=1, mult=[1], which=2, t=1),
           dict(p=2, mult=[], which=0, t=1), dict(p=2, mult=[], which=0, t=2),
           dict(p=2, mult=[1], which=1, t=1), dict(p=2, mult=[1], which=2, t=2), dict(p=2, mult=[2], which=0, t=2),
           dict(p=3, mult=[], which=0, t=1), dict(p=3, mult=[], which=0, t=2), dict(p=3, mult=[], which=0, t=3),
           dict(p=3, mult=[1], which=1, t=2), dict(p=3, mult=[2], which=1, t=1), dict(p=3, mult=[1], which=2, t=3)]
    if tier == 'thorough':
        out += [dict(p=3, mult=[1, 1], which=w, t=t) for w in range(5) for t in (1, 2, 3)]
        out += [dict(p=4, mult=[], which=0, t=t) for t in (1, 2, 3, 4)]
    return out


@scenario('C06', fns=['helpers.knot_removal', 'helpers.knot_removal_kv', 'operations.remove_knot',
                      'operations.refine_knotvector', 'BSpline.Curve.remove_knot'],
          quick=lambda: _refine_shapes('quick'), thorough=lambda: _refine_shapes('thorough'))
def curve_refine_remove(ctx, p, mult, which, t):
    """history: operations.refine_knotvector(curve, [1]) (every interval bisected once, every interior knot raised to
    multiplicity p); the knot number `which` of the refined distinct interior knots is removed t times, t <= the
    number of copies the refinement added (p for a bisection point, p - m for an original knot of multiplicity m).
    ensures: evaluate(u) == C(u) of the original; kv and size reduced by exactly t"""
    U, inner, n = shapes.make_kv(ctx, p, mult)
    chain = [U[0]] + inner + [U[-1]]
    for a, b in zip(chain, chain[1:]):
        ctx.assume(ctx.gt(b - a, 2 * MULT_TOL))      # refined knots farther apart than knot_refinement's 1e-7
    u = shapes.param_in(ctx, 'u', U[0], U[-1])
    P = shapes.net(ctx, 'P', n, 2)
    crv = shapes.build_curve(ctx, p, U, P)
    ctx.geomdl('operations').refine_knotvector(crv, [1])
    kv1 = list(crv.knotvector)
    n1 = crv.ctrlpts_size
    # distinct interior knots after refinement: m0, k1, m1, k2, ... (odd positions are the original knots)
    added = p if which % 2 == 0 else p - mult[which // 2]
    if t > added:
        ctx.skip('more removals than copies added by the refinement')
    x = kv1[p + 1 + which * p]
    ctx.check_true('history.refined', n1 == p + 1 + p * (2 * len(mult) + 1) and len(kv1) == n1 + p + 1)
    crv.remove_knot(x, num=t)
    j = p + 1 + which * p                            # first copy of x in kv1
    ctx.check_true('size.reduced_by_t', crv.ctrlpts_size == n1 - t and len(crv.ctrlpts) == n1 - t,
                   'ctrlpts_size = %d, expected %d' % (crv.ctrlpts_size, n1 - t))
    ctx.check_eq_vec('kv.reduced_by_t', crv.knotvector, kv1[:j] + kv1[j + t:])
    ctx.check_eq_vec('shape.unchanged', crv.evaluate_single(u), spec.curve_point(p, U, P, u))


# ---- surfaces ---------------------------------------------------------------------------------------------------
def _surf_shapes(tier):
    base = [dict(pu=2, pv=1, mu=[1], mv=[], dirs='u', r=1, t=1, rational=False),
            dict(pu=1, pv=2, mu=[], mv=[1], dirs='v', r=2, t=1, rational=False),
            dict(pu=2, pv=2, mu=[], mv=[], dirs='uv', r=2, t=2, rational=False),
            dict(pu=3, pv=1, mu=[], mv=[], dirs='u', r=1, t=1, rational=False),
            dict(pu=1, pv=3, mu=[], mv=[], dirs='v', r=2, t=2, rational=False),
            dict(pu=1, pv=2, mu=[], mv=[], dirs='v', r=1, t=1, rational=True)]
    if tier == 'thorough':
        base += [dict(pu=3, pv=2, mu=[1], mv=[1], dirs='uv', r=2, t=1, rational=False),
                 dict(pu=3, pv=3, mu=[], mv=[1], dirs='v', r=3, t=3, rational=False),
                 dict(pu=2, pv=2, mu=[1], mv=[], dirs='u', r=2, t=2, rational=True)]
    return base


@scenario('C06', fns=['operations.remove_knot', 'helpers.knot_removal', 'helpers.knot_removal_kv',
                      'compatibility.flip_ctrlpts_u', 'BSpline.Surface.remove_knot', 'BSpline.Surface.insert_knot'],
          quick=lambda: _surf_shapes('quick'), thorough=lambda: _surf_shapes('thorough'))
def surface_insert_remove(ctx, pu, pv, mu, mv, dirs, r, t, rational):
    """ensures: S(u,v) == the original; only the selected directions shrink, by exactly t; t == r restores the net"""
    U, iu, su = shapes.make_kv(ctx, pu, mu, prefix='a')
    V, iv, sv = shapes.make_kv(ctx, pv, mv, prefix='b')
    x = shapes.param_in(ctx, 'x', U[0], U[-1], open_lo=True, open_hi=True)
    for k in [U[0]] + iu + iv + [U[-1]]:
        ctx.assume(ctx.sep(x, k, MULT_TOL))
    u = shapes.param_in(ctx, 'u', U[0], U[-1])
    v = shapes.param_in(ctx, 'v', V[0], V[-1])
    P = shapes.net(ctx, 'P', su * sv, 3)
    W = shapes.weights(ctx, 'w', su * sv) if rational else None
    srf = shapes.build_surface(ctx, pu, pv, U, V, P, su, sv, W)
    Pw = shapes.homog(P, W)
    if rational:
        ctx.assume_pos(spec.surface_point(pu, pv, U, V, [[w] for w in W], su, sv, u, v)[0], 'L.weight_function_positive')
    s_u = sum(1 for k in U if x == k)
    s_v = sum(1 for k in V if x == k)
    if ('u' in dirs and r > pu - s_u) or ('v' in dirs and r > pv - s_v):
        ctx.skip('x cannot be inserted r times')
    ins, rem = {}, {}
    if 'u' in dirs:
        ins.update(u=x, num_u=r)
        rem.update(u=x, num_u=t)
    if 'v' in dirs:
        ins.update(v=x, num_v=r)
        rem.update(v=x, num_v=t)
    srf.insert_knot(**ins)
    srf.remove_knot(**rem)
    eu = su + (r - t if 'u' in dirs else 0)
    ev = sv + (r - t if 'v' in dirs else 0)
    ctx.check_true('size.only_selected_direction_reduced_by_t', srf.ctrlpts_size_u == eu and srf.ctrlpts_size_v == ev
                   and len(srf.ctrlpts) == eu * ev,
                   'sizes = %d x %d, expected %d x %d' % (srf.ctrlpts_size_u, srf.ctrlpts_size_v, eu, ev))
    wu = spec.insert_sorted(U, x, r - t, spec.span_spec(pu, U, su, x)) if 'u' in dirs else U
    wv = spec.insert_sorted(V, x, r - t, spec.span_spec(pv, V, sv, x)) if 'v' in dirs else V
    ctx.check_eq_vec('kv_u.' + ('reduced_by_t' if 'u' in dirs else 'untouched'), srf.knotvector_u, wu)
    ctx.check_eq_vec('kv_v.' + ('reduced_by_t' if 'v' in dirs else 'untouched'), srf.knotvector_v, wv)
    if t == r:
        ctx.check_eq_grid('ctrlpts.restored', srf.ctrlptsw if rational else srf.ctrlpts, Pw)
    want = spec.surface_point(pu, pv, U, V, Pw, su, sv, u, v)
    want = spec.project(want) if rational else want
    ctx.check_eq_vec('shape.unchanged', srf.evaluate_single([u, v]), want)


# ---- volumes ----------------------------------------------------------------------------------------------------
def _vol_shapes(tier):
    base = [dict(deg=[1, 1, 1], m=[[], [], []], d=0, r=1, t=1), dict(deg=[1, 1, 1], m=[[], [], []], d=1, r=1, t=1),
            dict(deg=[1, 1, 1], m=[[], [], []], d=2, r=1, t=1), dict(deg=[2, 1, 1], m=[[], [], []], d=0, r=2, t=1),
            dict(deg=[1, 2, 1], m=[[], [], []], d=1, r=1, t=1), dict(deg=[1, 1, 2], m=[[], [], []], d=2, r=2, t=2),
            # degree 3 with two removals: the first class in which points saved by one removal step are read (and, in
            # the nested "volume" layout of helpers.knot_removal, could be aliased) by the next step
            dict(deg=[3, 1, 1], m=[[], [], []], d=0, r=2, t=2), dict(deg=[1, 3, 1], m=[[], [], []], d=1, r=2, t=2),
            dict(deg=[1, 1, 3], m=[[], [], []], d=2, r=2, t=2)]
    if tier == 'thorough':
        base += [dict(deg=[3, 1, 1], m=[[], [], []], d=0, r=1, t=1), dict(deg=[1, 3, 1], m=[[], [], []], d=1, r=3, t=2),
                 dict(deg=[1, 1, 3], m=[[], [], []], d=2, r=3, t=3), dict(deg=[2, 2, 1], m=[[1], [], []], d=0, r=1, t=1)]
    return base


@scenario('C06', fns=['operations.remove_knot', 'helpers.knot_removal', 'helpers.knot_removal_kv',
                      'BSpline.Volume.remove_knot', 'BSpline.Volume.insert_knot'],
          quick=lambda: _vol_shapes('quick'), thorough=lambda: _vol_shapes('thorough'))
def volume_insert_remove(ctx, deg, m, d, r, t):
    """ensures: V(u,v,w) == the original; only direction d shrinks, by exactly t; t == r restores the net"""
    kvs, inner, sizes = [], [], []
    for a, pfx in enumerate('abc'):
        U, iu, n = shapes.make_kv(ctx, deg[a], m[a], prefix=pfx)
        kvs.append(U)
        inner.append(iu)
        sizes.append(n)
    x = shapes.param_in(ctx, 'x', ctx.lit(0), ctx.lit(1), open_lo=True, open_hi=True)
    for k in [ctx.lit(0), ctx.lit(1)] + inner[0] + inner[1] + inner[2]:
        ctx.assume(ctx.sep(x, k, MULT_TOL))
    prm = [shapes.param_in(ctx, nm, ctx.lit(0), ctx.lit(1)) for nm in ('u', 'v', 'w')]
    su, sv, sw = sizes
    P = shapes.net(ctx, 'P', su * sv * sw, 3)
    vol = shapes.build_volume(ctx, deg[0], deg[1], deg[2], kvs[0], kvs[1], kvs[2], P, su, sv, sw)
    s = sum(1 for k in kvs[d] if x == k)
    if r > deg[d] - s:
        ctx.skip('x cannot be inserted r times')
    vol.insert_knot(**{('u', 'v', 'w')[d]: x, ('num_u', 'num_v', 'num_w')[d]: r})
    vol.remove_knot(**{('u', 'v', 'w')[d]: x, ('num_u', 'num_v', 'num_w')[d]: t})
    exp = list(sizes)
    exp[d] += r - t
    got = [vol.ctrlpts_size_u, vol.ctrlpts_size_v, vol.ctrlpts_size_w]
    ctx.check_true('size.only_selected_direction_reduced_by_t', got == exp and len(vol.ctrlpts) == exp[0] * exp[1] * exp[2],
                   'sizes = %s, expected %s' % (got, exp))
    got_kvs = [vol.knotvector_u, vol.knotvector_v, vol.knotvector_w]
    for a in range(3):
        if a == d:
            ctx.check_eq_vec('kv%d.reduced_by_t' % a, got_kvs[a],
                             spec.insert_sorted(kvs[a], x, r - t, spec.span_spec(deg[a], kvs[a], sizes[a], x)))
        else:
            ctx.check_eq_vec('kv%d.untouched' % a, got_kvs[a], kvs[a])
    if t == r:
        ctx.check_eq_grid('ctrlpts.restored', vol.ctrlpts, P)
    want = spec.volume_point(deg[0], deg[1], deg[2], kvs[0], kvs[1], kvs[2], P, su, sv, sw, prm[0], prm[1], prm[2])
    ctx.check_eq_vec('shape.unchanged', vol.evaluate_single(prm), want)


# ------------------------------------------------------------------------------------------------
# control nets through the origin: the removability test (Eq 5.30) compares a distance with a tolerance; a tolerance taken
# relative to the size of the reconstructed point vanishes at the origin, where only rounding errors remain.  In exact
# arithmetic the distance is exactly 0, so the same contract also runs at run time on native floats.
# ------------------------------------------------------------------------------------------------
_ORIGIN_SHAPES = {
    'quartic': dict(p=4, P=[['-31/10', '13/10'], ['-11/5', '-7/10'], ['-13/10', '9/10'], ['0', '0'], ['11/10', '-13/10'],
                            ['23/10', '7/10'], ['16/5', '-2/5']], U=['0'] * 5 + ['1/3', '2/3'] + ['1'] * 5, us=['37/100', '9/20', '11/20']),
    'symmetric_bezier': dict(p=5, P=[['-31/10', '13/10'], ['-2187/1000', '71/100'], ['-156/125', '-32/25'], ['156/125', '32/25'],
                                     ['2187/1000', '-71/100'], ['31/10', '-13/10']], U=['0'] * 6 + ['1'] * 6, us=['1/2']),
    'quadratic': dict(p=2, P=[['1', '2'], ['0', '0'], ['3', '-1'], ['4', '2']], U=['0'] * 3 + ['1/2'] + ['1'] * 3, us=['1/4', '3/4']),
}


@scenario('C06', fns=['helpers.knot_removal', 'helpers.knot_insertion', 'operations.insert_knot', 'operations.remove_knot'],
          quick=[dict(shape=s) for s in sorted(_ORIGIN_SHAPES)],
          native=lambda tier: [dict(shape=s) for s in sorted(_ORIGIN_SHAPES)])
def insert_remove_through_origin(ctx, shape):
    """requires: a concrete B-spline curve with a control point at the origin (or point-symmetric about it); a parameter u
                 inside a span; r = 1..degree insertions of u followed by r removals
       ensures : knot vector, number of control points, control points and evaluated points are those of the original"""
    import copy
    d = _ORIGIN_SHAPES[shape]
    L = ctx.lit
    P = [[L(Fraction(c)) for c in pt] for pt in d['P']]
    U = [L(Fraction(k)) for k in d['U']]
    crv = shapes.build_curve(ctx, d['p'], U, P)
    ops = ctx.geomdl('operations')
    params = [L(Fraction(i, 20)) for i in range(21)]
    before = [crv.evaluate_single(t) for t in params]
    for us in d['us']:
        u = L(Fraction(us))
        for r in range(1, d['p'] + 1):
            c = copy.deepcopy(crv)
            ops.insert_knot(c, [u], [r])
            ops.remove_knot(c, [u], [r])
            tag = 'u=%s.r=%d' % (us, r)
            ctx.check_true(tag + '.size_restored', c.ctrlpts_size == len(P), '%d control points, originally %d' % (c.ctrlpts_size, len(P)))
            ctx.check_eq_vec(tag + '.knotvector_restored', c.knotvector, U)
            if c.ctrlpts_size == len(P):
                ctx.check_eq_grid(tag + '.ctrlpts_restored', c.ctrlpts, P)
                ctx.check_eq_grid(tag + '.points_restored', [c.evaluate_single(t) for t in params], before)
