"""C07 Splitting and Bezier decomposition reproduce the original piecewise.

Contracts on the real operations.split_curve, split_surface_u, split_surface_v, decompose_curve, decompose_surface.

  split     requires valid clamped knot vector(s) (normalised, as every object with the default normalize_kv=True
                     stores them), distinct knots farther apart than find_multiplicity's tolerance, x in the open
                     domain and equal to a knot or tolerance-separated from it, positive weights
            ensures  exactly two new objects; with [d0, d1] the domain the piece reports (the knot-vector setter
                     re-normalises, so it is [0, 1] on the pinned tree, but nothing is assumed about it) and [a, b] its
                     sub-interval ([lo, x] resp. [x, hi]):  piece_k(phi^-1(u)) == S(u) for the affine phi: [d0, d1] -> [a, b];
                     the input's degree(s), knot vector(s), control points / weights and sizes are unchanged
            raises   GeomdlException when x is a domain end
  decompose ensures  one piece per non-empty knot interval (per pair of intervals for 'uv', u outermost), in order,
                     piece_k == S on [k_k, k_(k+1)] under the same affine correspondence; every piece has p + 1 control
                     points and a Bezier knot vector [c]*(p+1) + [d]*(p+1), c < d, in each decomposed direction; input unchanged

How "coincides everywhere" is checked: phi is a bijection of the piece's domain onto its sub-interval [a, b] (a < b), so
"for all t in the piece's domain: piece_k(t) == S(phi(t))" is the same statement as "for all u in [a, b]:
piece_k(d0 + (d1 - d0) (u - a) / (b - a)) == S(u)".  The second form is used with ONE symbolic u over the whole domain
of the original: on every path u lies in one sub-interval (or on the common end of two) and the piece(s) covering it
are evaluated through the real evaluate_single at the pulled-back parameter.  This keeps every branch condition linear
in the symbols (t * x < k would not be) and shows at the same time that the pieces cover the whole domain in order.
"""
import itertools
from fractions import Fraction

from .api import scenario
from . import shapes, spec, assumptions

assumptions.PROPS['C07'] = {
    'level': 'other', 'assume': ['A1', 'A2', 'A4', 'A5', 'A6'],
    'explanation': 'Engine B only (the functions are object plumbing around knot insertion, whose callee contracts are '
                   'C03/C04): the real split / decompose functions are executed on objects with symbolic knots, split '
                   'parameter, evaluation parameter, control points (one symbolic coordinate per point) and weights; '
                   'every feasible position of the split parameter (inside each span, on each knot) and of the '
                   'evaluation parameter is explored, and piece(t) == original(phi(t)) is an exact identity on each path. '
                   'Bounded by the enumerated degrees and multiplicity patterns.'}

MULT_TOL = Fraction(1, 10 ** 7)     # helpers.find_multiplicity: tol = 10e-8


# ------------------------------------------------------------------------------------------------ helpers
def _patterns(p, distinct):
    """all multiplicity patterns (1..p each) of `distinct` interior knots"""
    return [list(m) for m in itertools.product(range(1, p + 1), repeat=distinct)]


def _sep_from_knots(ctx, x, knots):
    for k in knots:
        ctx.assume(ctx.sep(x, k, MULT_TOL))


def _check_bezier_kv(ctx, label, kv, p):
    """[a]*(p+1) + [b]*(p+1) with a < b"""
    kv = list(kv)
    ctx.check_true(label + '.len', len(kv) == 2 * (p + 1), 'knot vector has %d entries, a Bezier one has %d' % (len(kv), 2 * (p + 1)))
    ctx.check_eq_vec(label + '.head', kv[:p + 1], [kv[0]] * (p + 1))
    ctx.check_eq_vec(label + '.tail', kv[p + 1:], [kv[-1]] * (p + 1))
    ctx.check(label + '.nonempty', ctx.lt(kv[0], kv[-1]))


def _pull_back(dom, a, b, u):
    """the parameter of the piece that the affine map  piece domain -> [a, b]  sends to u"""
    return dom[0] + (dom[1] - dom[0]) * (u - a) / (b - a)


def _curve_frame(ctx, crv, p, U, Pw, n, rational):
    """the input object is field-wise what was put in"""
    ctx.check_true('frame.degree_size', crv.degree == p and crv.ctrlpts_size == n and len(crv.ctrlpts) == n)
    ctx.check_eq_vec('frame.knotvector', crv.knotvector, U)
    ctx.check_eq_grid('frame.ctrlpts', crv.ctrlptsw if rational else crv.ctrlpts, Pw)


def _surf_frame(ctx, srf, pu, pv, U, V, Pw, su, sv, rational):
    ctx.check_true('frame.degree_size', srf.degree_u == pu and srf.degree_v == pv and srf.ctrlpts_size_u == su
                   and srf.ctrlpts_size_v == sv and len(srf.ctrlpts) == su * sv)
    ctx.check_eq_vec('frame.knotvector_u', srf.knotvector_u, U)
    ctx.check_eq_vec('frame.knotvector_v', srf.knotvector_v, V)
    ctx.check_eq_grid('frame.ctrlpts', srf.ctrlptsw if rational else srf.ctrlpts, Pw)


def _curve_setup(ctx, p, mult, rational, norm=True):
    # norm: True (default options) / False (normalize_kv=False, knot vector kept as given) / 'tuple' (the same, handed over as a tuple)
    as_tuple, norm = (norm == 'tuple'), (norm is True)
    U, inner, n = shapes.make_kv(ctx, p, mult, normalized=norm)
    shapes.separated_knots(ctx, U, MULT_TOL)
    if not norm:
        # the pieces come back normalised to [0, 1]: with a domain no longer than 1 that only stretches the knot gaps, so the
        # tol_separated precondition (A1) carries over to every piece
        ctx.assume(ctx.le(U[-1] - U[0], 1))
    P = shapes.net(ctx, 'P', n, 2)
    W = shapes.weights(ctx, 'w', n) if rational else None
    crv = shapes.build_curve(ctx, p, U, P, W, normalize_kv=norm)
    if as_tuple:
        crv.knotvector = tuple(U)
    Pw = shapes.homog(P, W)

    def C(t):
        if rational:
            ctx.assume_pos(spec.curve_point(p, U, [[w] for w in W], t)[0], 'L.weight_function_positive')
        c = spec.curve_point(p, U, Pw, t)
        return spec.project(c) if rational else c

    return U, inner, n, Pw, crv, C


def _surf_setup(ctx, pu, pv, mu, mv, rational, norm=True):
    as_tuple, norm = (norm == 'tuple'), (norm is True)
    U, iu, su = shapes.make_kv(ctx, pu, mu, prefix='a', normalized=norm)
    V, iv, sv = shapes.make_kv(ctx, pv, mv, prefix='b', normalized=norm)
    shapes.separated_knots(ctx, U, MULT_TOL)
    shapes.separated_knots(ctx, V, MULT_TOL)
    if not norm:
        # pieces come back normalised: domains no longer than 1 keep the tol_separated precondition valid in every piece (A1)
        ctx.assume(ctx.le(U[-1] - U[0], 1), ctx.le(V[-1] - V[0], 1))
    P = shapes.net(ctx, 'P', su * sv, 3)
    W = shapes.weights(ctx, 'w', su * sv) if rational else None
    srf = shapes.build_surface(ctx, pu, pv, U, V, P, su, sv, W, normalize_kv=norm)
    if as_tuple:
        srf.knotvector_u, srf.knotvector_v = tuple(U), tuple(V)
    Pw = shapes.homog(P, W)

    def S(a, b):
        if rational:
            ctx.assume_pos(spec.surface_point(pu, pv, U, V, [[w] for w in W], su, sv, a, b)[0], 'L.weight_function_positive')
        c = spec.surface_point(pu, pv, U, V, Pw, su, sv, a, b)
        return spec.project(c) if rational else c

    return U, V, iu, iv, su, sv, Pw, srf, S


# ------------------------------------------------------------------------------------------------ curves
def _curve_shapes(tier):
    out = []
    pmax, dmax = (3, 2) if tier == 'quick' else (4, 3)
    for p in range(1, pmax + 1):
        for d in range(0, dmax + 1):
            for mult in _patterns(p, d):
                if p == 4 and d == 3 and max(mult) > 2:
                    continue
                out.append(dict(p=p, mult=mult, rational=False))
        if tier == 'quick' and p == 2:                      # three distinct knots: one shape in quick, all in thorough
            out.append(dict(p=p, mult=[1, 1, 1], rational=False))
    for p, mult in ((1, [1]), (2, [1])) + (((2, [2]), (2, [1, 1])) if tier == 'thorough' else ()):
        out.append(dict(p=p, mult=mult, rational=True))
    # clamped knot vectors kept as given (normalize_kv=False, symbolic range [a, b])
    out.append(dict(p=2, mult=[1], rational=False, norm=False))
    out.append(dict(p=1, mult=[1, 1], rational=True, norm=False))
    out.append(dict(p=2, mult=[2], rational=False, norm='tuple'))      # handed over as a tuple; a knot of full multiplicity
    # the binary span search passed through find_span_func= (three interior knots: the search has to move both ways)
    out.append(dict(p=2, mult=[1, 1, 1], rational=False, span='binsearch'))
    out.append(dict(p=1, mult=[1, 1, 1], rational=False, span='binsearch'))
    return out


@scenario('C07', fns=['operations.split_curve', 'operations.insert_knot', 'helpers.find_multiplicity',
                      'helpers.find_span_linear', 'helpers.knot_insertion', 'helpers.knot_insertion_kv',
                      'knotvector.normalize', 'BSpline.Curve.evaluate_single'],
          quick=lambda: _curve_shapes('quick'), thorough=lambda: _curve_shapes('thorough'))
def split_curve(ctx, p, mult, rational, norm=True, span=None):
    """x symbolic in the open domain (inside any span / on any knot): two pieces, each == original under the affine
    map of [0,1] onto [0,x] resp. [x,1]; input unchanged; x at a domain end raises"""
    U, inner, n, Pw, crv, C = _curve_setup(ctx, p, mult, rational, norm)
    lo, hi = U[p], U[n]
    x = shapes.param_in(ctx, 'x', lo, hi, open_lo=True, open_hi=True)
    _sep_from_knots(ctx, x, [lo] + inner + [hi])
    u = shapes.param_in(ctx, 'u', lo, hi)
    ops = ctx.geomdl('operations')
    exc = ctx.geomdl('exceptions').GeomdlException

    ctx.check_raises('reject.domain_start', exc, ops.split_curve, crv, lo)
    ctx.check_raises('reject.domain_end', exc, ops.split_curve, crv, hi)
    if span == 'binsearch':              # the documented find_span_func= option of the split functions
        shapes.separated_knots(ctx, U, Fraction(1, 10 ** 5))
        ctx.assume(ctx.sep(x, hi, Fraction(1, 10 ** 5)))
        pieces = ops.split_curve(crv, x, find_span_func=ctx.geomdl('helpers').find_span_binsearch)
    else:
        pieces = ops.split_curve(crv, x)
    ctx.check_true('two_new_pieces', len(pieces) == 2 and all(q is not crv for q in pieces) and pieces[0] is not pieces[1])
    _curve_frame(ctx, crv, p, U, Pw, n, rational)
    bounds = [lo, x, hi]
    for k, piece in enumerate(pieces):
        a, b = bounds[k], bounds[k + 1]
        ctx.check_true('piece[%d].degree_rational' % k, piece.degree == p and bool(piece.rational) == rational)
        if a <= u and u <= b:
            ctx.check_eq_vec('piece[%d].coincides' % k, piece.evaluate_single(_pull_back(piece.domain, a, b, u)), C(u))


@scenario('C07', fns=['operations.split_curve', 'operations.decompose_curve', 'knotvector.normalize', 'abstract.Curve.knotvector'],
          quick=[dict(precision=3, x='3/10', op='split'), dict(precision=6, x='3/10', op='split'),
                 dict(precision=3, x=None, op='decompose')],
          # decimal rounding goes through text ("{:.Nf}".format), which the exact tier treats as the identity (A2/A3):
          # the same contract at run time on native floats
          native=lambda tier: [dict(precision=3, x='3/10', op='split'), dict(precision=6, x='3/10', op='split'),
                               dict(precision=3, x=None, op='decompose')])
def split_low_precision(ctx, precision, x, op):
    """requires: a concrete curve built with the public precision= option, its knots and the split parameter exactly
                 representable in that many decimals (so the input itself is not rounded)
       ensures : the pieces coincide with the original exactly: the pieces' own knot vectors (re-normalised) are NOT
                 rounded to the input's precision"""
    L = ctx.lit
    U = [L(0)] * 3 + [L(Fraction(1, 8)), L(Fraction(1, 2))] + [L(1)] * 3
    P = [[L(0), L(0)], [L(1), L(3)], [L(2), L(-1)], [L(4), L(2)], [L(5), L(0)]]
    crv = ctx.geomdl('BSpline').Curve(precision=precision)
    crv.degree = 2
    crv.ctrlpts = [list(q) for q in P]
    crv.knotvector = list(U)
    ctx.check_eq_vec('input.knotvector_not_rounded', crv.knotvector, U)
    u = shapes.param_in(ctx, 'u', L(0), L(1))
    ops = ctx.geomdl('operations')
    if op == 'split':
        pieces, bounds = ops.split_curve(crv, L(Fraction(x))), [L(0), L(Fraction(x)), L(1)]
    else:
        pieces, bounds = ops.decompose_curve(crv), [L(0), U[3], U[4], L(1)]
    ctx.check_true('piece_count', len(pieces) == len(bounds) - 1)
    # one symbolic parameter (exact tier) and a fixed sample of concrete ones (they are what the native runs see)
    for t in [u] + [L(Fraction(i, 20)) for i in range(1, 20, 2)]:
        want = spec.curve_point(2, U, P, t)
        for k, piece in enumerate(pieces):
            a, b = bounds[k], bounds[k + 1]
            if a <= t and t <= b:
                ctx.check_eq_vec('piece[%d].coincides' % k, piece.evaluate_single(_pull_back(piece.domain, a, b, t)), want)


@scenario('C07', fns=['operations.decompose_curve', 'operations.split_curve', 'operations.insert_knot',
                      'helpers.find_multiplicity', 'helpers.knot_insertion', 'knotvector.normalize'],
          quick=lambda: _curve_shapes('quick'), thorough=lambda: _curve_shapes('thorough'))
def decompose_curve(ctx, p, mult, rational, norm=True, span=None):
    """one Bezier piece per non-empty knot interval, in order, each == original on its interval; input unchanged"""
    U, inner, n, Pw, crv, C = _curve_setup(ctx, p, mult, rational, norm)
    lo, hi = U[p], U[n]
    u = shapes.param_in(ctx, 'u', lo, hi)
    if span == 'binsearch':              # the find_span_func= option is handed on to every split
        shapes.separated_knots(ctx, U, Fraction(1, 10 ** 5))
        pieces = ctx.geomdl('operations').decompose_curve(crv, find_span_func=ctx.geomdl('helpers').find_span_binsearch)
    else:
        pieces = ctx.geomdl('operations').decompose_curve(crv)
    bounds = [lo] + inner + [hi]
    ctx.check_true('count=intervals', len(pieces) == len(inner) + 1, 'got %d pieces for %d non-empty knot intervals'
                   % (len(pieces), len(inner) + 1))
    ctx.check_true('new_objects', all(q is not crv for q in pieces))
    _curve_frame(ctx, crv, p, U, Pw, n, rational)
    for k, piece in enumerate(pieces):
        a, b = bounds[k], bounds[k + 1]
        ctx.check_true('piece[%d].bezier_size' % k, piece.degree == p and piece.ctrlpts_size == p + 1
                       and bool(piece.rational) == rational)
        _check_bezier_kv(ctx, 'piece[%d].bezier_kv' % k, piece.knotvector, p)
        if a <= u and u <= b:
            ctx.check_eq_vec('piece[%d].coincides' % k, piece.evaluate_single(_pull_back(piece.domain, a, b, u)), C(u))


# ------------------------------------------------------------------------------------------------ surfaces
def _split_surf_shapes(tier):
    out = [dict(pu=2, pv=1, mu=[1, 1], mv=[], d='u', rational=False),
           dict(pu=2, pv=2, mu=[1], mv=[1], d='u', rational=False),
           dict(pu=1, pv=2, mu=[], mv=[1], d='v', rational=False),
           dict(pu=2, pv=1, mu=[], mv=[1, 1], d='v', rational=False),
           dict(pu=2, pv=1, mu=[2], mv=[], d='u', rational=False),
           dict(pu=2, pv=1, mu=[], mv=[], d='u', rational=True),
           dict(pu=2, pv=1, mu=[], mv=[], d='v', rational=True)]
    if tier == 'thorough':
        out += [dict(pu=2, pv=2, mu=[1], mv=[1], d='v', rational=False),
                dict(pu=2, pv=1, mu=[1, 1], mv=[1], d='u', rational=False),
                dict(pu=1, pv=2, mu=[1], mv=[1, 2], d='v', rational=False),
                dict(pu=3, pv=2, mu=[1, 2], mv=[1], d='u', rational=False),
                dict(pu=3, pv=2, mu=[1], mv=[2, 1], d='v', rational=False),
                dict(pu=2, pv=2, mu=[2, 1], mv=[1, 1], d='u', rational=False),
                dict(pu=2, pv=2, mu=[1, 1], mv=[1, 2], d='v', rational=False),
                dict(pu=1, pv=2, mu=[], mv=[], d='v', rational=True),
                dict(pu=1, pv=1, mu=[], mv=[1], d='v', rational=True)]
    # knot vectors kept as given (normalize_kv=False): different symbolic domains per direction, so the split parameter of one
    # direction may coincide with an end of the OTHER direction's domain
    out += [dict(pu=1, pv=2, mu=[], mv=[1], d='v', rational=False, norm=False),
            dict(pu=2, pv=1, mu=[1], mv=[], d='u', rational=False, norm=False),
            # handed over as tuples, with a knot of full multiplicity in the split direction (no insertion needed there)
            dict(pu=1, pv=2, mu=[], mv=[2], d='v', rational=False, norm='tuple'),
            dict(pu=1, pv=1, mu=[1], mv=[], d='u', rational=False, norm='tuple')]
    return out


@scenario('C07', fns=['operations.split_surface_u', 'operations.split_surface_v', 'operations.insert_knot',
                      'BSpline.Surface.ctrlpts2d', 'BSpline.Surface.evaluate_single', 'knotvector.normalize'],
          quick=lambda: _split_surf_shapes('quick'), thorough=lambda: _split_surf_shapes('thorough'))
def split_surface(ctx, pu, pv, mu, mv, d, rational, norm=True):
    """split in direction d at a symbolic x: two patches, each == original under the affine map in direction d and
    the identity in the other direction; input unchanged; x at an end of the d-domain raises"""
    U, V, iu, iv, su, sv, Pw, srf, S = _surf_setup(ctx, pu, pv, mu, mv, rational, norm)
    K, inner = (U, iu) if d == 'u' else (V, iv)
    lo, hi = K[0], K[-1]
    x = shapes.param_in(ctx, 'x', lo, hi, open_lo=True, open_hi=True)
    _sep_from_knots(ctx, x, [lo] + inner + [hi])
    u = shapes.param_in(ctx, 'u', U[0], U[-1])
    v = shapes.param_in(ctx, 'v', V[0], V[-1])
    ops = ctx.geomdl('operations')
    exc = ctx.geomdl('exceptions').GeomdlException
    split = ops.split_surface_u if d == 'u' else ops.split_surface_v

    ctx.check_raises('reject.domain_start', exc, split, srf, lo)
    ctx.check_raises('reject.domain_end', exc, split, srf, hi)
    pieces = split(srf, x)
    ctx.check_true('two_new_pieces', len(pieces) == 2 and all(q is not srf for q in pieces) and pieces[0] is not pieces[1])
    _surf_frame(ctx, srf, pu, pv, U, V, Pw, su, sv, rational)
    bounds = [lo, x, hi]
    for k, piece in enumerate(pieces):
        a, b = bounds[k], bounds[k + 1]
        ctx.check_true('piece[%d].degrees_rational' % k, piece.degree_u == pu and piece.degree_v == pv
                       and bool(piece.rational) == rational)
        du, dv = piece.domain
        if d == 'u' and a <= u and u <= b:
            prm = [_pull_back(du, a, b, u), _pull_back(dv, V[0], V[-1], v)]
        elif d == 'v' and a <= v and v <= b:
            prm = [_pull_back(du, U[0], U[-1], u), _pull_back(dv, a, b, v)]
        else:
            continue
        ctx.check_eq_vec('piece[%d].coincides' % k, piece.evaluate_single(prm), S(u, v))


def _dec_surf_shapes(tier):
    out = [dict(pu=2, pv=2, mu=[1], mv=[1, 1], dirs='v', rational=False),
           dict(pu=2, pv=2, mu=[1], mv=[1], dirs='uv', rational=False),
           dict(pu=2, pv=1, mu=[1, 2], mv=[], dirs='u', rational=False),
           dict(pu=2, pv=2, mu=[2], mv=[1], dirs='u', rational=False),
           dict(pu=2, pv=1, mu=[], mv=[1, 1], dirs='uv', rational=False),
           dict(pu=2, pv=1, mu=[], mv=[], dirs='uv', rational=False),
           dict(pu=1, pv=1, mu=[1], mv=[], dirs='uv', rational=True),
           dict(pu=1, pv=1, mu=[1], mv=[1], dirs='uv', rational=False, norm='tuple')]
    if tier == 'thorough':
        out += [dict(pu=2, pv=1, mu=[1, 1], mv=[1], dirs='uv', rational=False),
                dict(pu=3, pv=2, mu=[1, 2], mv=[1, 1], dirs='uv', rational=False),
                dict(pu=3, pv=2, mu=[3], mv=[2], dirs='uv', rational=False),
                dict(pu=2, pv=2, mu=[1, 1], mv=[1], dirs='uv', rational=False),
                dict(pu=2, pv=2, mu=[1, 1], mv=[2], dirs='uv', rational=False),
                dict(pu=2, pv=2, mu=[2], mv=[2, 1], dirs='uv', rational=False),
                dict(pu=1, pv=2, mu=[1], mv=[], dirs='uv', rational=True)]
    return out


@scenario('C07', fns=['operations.decompose_surface', 'operations.split_surface_u', 'operations.split_surface_v',
                      'operations.insert_knot', 'BSpline.Surface.ctrlpts2d', 'knotvector.normalize'],
          quick=lambda: _dec_surf_shapes('quick'), thorough=lambda: _dec_surf_shapes('thorough'))
def decompose_surface(ctx, pu, pv, mu, mv, dirs, rational, norm=True):
    """one patch per non-empty knot interval of each decomposed direction (per pair for 'uv', u outermost), Bezier knot
    vector in each decomposed direction, the other direction untouched, each patch == original on its rectangle"""
    U, V, iu, iv, su, sv, Pw, srf, S = _surf_setup(ctx, pu, pv, mu, mv, rational, norm)
    u = shapes.param_in(ctx, 'u', U[0], U[-1])
    v = shapes.param_in(ctx, 'v', V[0], V[-1])
    pieces = ctx.geomdl('operations').decompose_surface(srf, decompose_dir=dirs)
    bu = [U[0]] + (iu if 'u' in dirs else []) + [U[-1]]
    bv = [V[0]] + (iv if 'v' in dirs else []) + [V[-1]]
    nu, nv = len(bu) - 1, len(bv) - 1
    ctx.check_true('count=interval_pairs', len(pieces) == nu * nv, 'got %d patches, expected %d x %d' % (len(pieces), nu, nv))
    ctx.check_true('new_objects', all(q is not srf for q in pieces))
    _surf_frame(ctx, srf, pu, pv, U, V, Pw, su, sv, rational)
    for i in range(nu):
        for j in range(nv):
            k = i * nv + j
            piece = pieces[k]
            tag = 'piece[%d]' % k
            ctx.check_true(tag + '.degrees_rational', piece.degree_u == pu and piece.degree_v == pv
                           and bool(piece.rational) == rational)
            if 'u' in dirs:
                ctx.check_true(tag + '.bezier_size_u', piece.ctrlpts_size_u == pu + 1)
                _check_bezier_kv(ctx, tag + '.bezier_kv_u', piece.knotvector_u, pu)
            if 'v' in dirs:
                ctx.check_true(tag + '.bezier_size_v', piece.ctrlpts_size_v == pv + 1)
                _check_bezier_kv(ctx, tag + '.bezier_kv_v', piece.knotvector_v, pv)
            if bu[i] <= u and u <= bu[i + 1] and bv[j] <= v and v <= bv[j + 1]:
                du, dv = piece.domain
                prm = [_pull_back(du, bu[i], bu[i + 1], u), _pull_back(dv, bv[j], bv[j + 1], v)]
                ctx.check_eq_vec(tag + '.coincides', piece.evaluate_single(prm), S(u, v))
