"""Shape families for Engine B: symbolic knot vectors with a given multiplicity pattern, control nets,
object builders.  Everything is number-generic through ctx (sym or float)."""
from fractions import Fraction


def compositions(total, maxpart):
    """all tuples of positive ints <= maxpart summing to total (multiplicity patterns of interior knots)"""
    if total == 0:
        yield ()
        return
    for first in range(1, min(total, maxpart) + 1):
        for rest in compositions(total - first, maxpart):
            yield (first,) + rest


def make_kv(ctx, p, mult, prefix='k', normalized=True, clamped=True):
    """knot vector of degree p whose interior distinct knots have multiplicities `mult`.
    normalized: end knots are the constants 0 and 1, else symbols <prefix>a < <prefix>b.
    clamped: end multiplicity p+1, else every end knot is its own symbol (strictly increasing).
    Returns (U, distinct interior symbols, n = number of control points)."""
    n = p + 1 + sum(mult)
    if clamped:
        if normalized:
            a, b = ctx.lit(0), ctx.lit(1)
        else:
            a, b = ctx.num(prefix + 'a'), ctx.num(prefix + 'b')
        head, tail = [a] * (p + 1), [b] * (p + 1)
        lo, hi = a, b
    else:
        hs = [ctx.num('%sh%d' % (prefix, i)) for i in range(p + 1)]
        ts = [ctx.num('%st%d' % (prefix, i)) for i in range(p + 1)]
        ctx.assume_sorted(hs, strict=True)
        ctx.assume_sorted(ts, strict=True)
        head, tail = hs, ts
        lo, hi = hs[-1], ts[0]
    inner = [ctx.num('%s%d' % (prefix, i + 1)) for i in range(len(mult))]
    chain = [lo] + inner + [hi]
    for x, y in zip(chain, chain[1:]):
        ctx.assume(ctx.lt(x, y))
    U = list(head)
    for s, m in zip(inner, mult):
        U += [s] * m
    U += tail
    return U, inner, n


def separated_knots(ctx, U, tol):
    """distinct knots differ by more than tol (needed wherever the code compares knots by tolerance)"""
    seen = []
    for k in U:
        if not any(k is s for s in seen):
            seen.append(k)
    for a, b in zip(seen, seen[1:]):
        ctx.assume(ctx.gt(b - a, tol))
    return seen


def param_in(ctx, name, lo, hi, open_lo=False, open_hi=False):
    u = ctx.num(name)
    ctx.assume(ctx.lt(lo, u) if open_lo else ctx.le(lo, u))
    ctx.assume(ctx.lt(u, hi) if open_hi else ctx.le(u, hi))
    return u


def net(ctx, prefix, count, dim, concrete_tail=True):
    """control points: first coordinate symbolic per point; the other coordinates small distinct constants
    (evaluation is linear in each coordinate and coordinates never mix in the algorithms under contract, so one
    symbolic coordinate per point keeps every identity fully general in that coordinate while the constants catch
    coordinate mix-ups)."""
    pts = []
    for i in range(count):
        pt = [ctx.num('%s%d' % (prefix, i))]
        for d in range(1, dim):
            pt.append(ctx.lit(Fraction((i + 1) * (d + 2) + d * d, 1 + d)) if concrete_tail else ctx.num('%s%d_%d' % (prefix, i, d)))
        pts.append(pt)
    return pts


def weights(ctx, prefix, count):
    ws = [ctx.num('%s%d' % (prefix, i)) for i in range(count)]
    for w in ws:
        ctx.assume(ctx.gt(w, 0))
    return ws


def build_curve(ctx, p, U, P, W=None, normalize_kv=True, evaluator=None, span_func=None):
    """BSpline.Curve (W is None) or NURBS.Curve through the public setters"""
    kw = {} if span_func is None else {'find_span_func': span_func}
    if W is None:
        c = ctx.geomdl('BSpline').Curve(normalize_kv=normalize_kv, **kw)
        c.degree = p
        c.ctrlpts = [list(pt) for pt in P]
    else:
        c = ctx.geomdl('NURBS').Curve(normalize_kv=normalize_kv, **kw)
        c.degree = p
        c.ctrlptsw = [[x * w for x in pt] + [w] for pt, w in zip(P, W)]
    c.knotvector = list(U)
    if evaluator is not None:
        c.evaluator = evaluator
    return c


def build_surface(ctx, pu, pv, U, V, P, su, sv, W=None, normalize_kv=True):
    if W is None:
        s = ctx.geomdl('BSpline').Surface(normalize_kv=normalize_kv)
        s.degree_u, s.degree_v = pu, pv
        s.set_ctrlpts([list(pt) for pt in P], su, sv)
    else:
        s = ctx.geomdl('NURBS').Surface(normalize_kv=normalize_kv)
        s.degree_u, s.degree_v = pu, pv
        s.set_ctrlpts([[x * w for x in pt] + [w] for pt, w in zip(P, W)], su, sv)
    s.knotvector_u = list(U)
    s.knotvector_v = list(V)
    return s


def build_volume(ctx, pu, pv, pw, U, V, Wk, P, su, sv, sw, W=None, normalize_kv=True):
    if W is None:
        s = ctx.geomdl('BSpline').Volume(normalize_kv=normalize_kv)
        s.degree_u, s.degree_v, s.degree_w = pu, pv, pw
        s.set_ctrlpts([list(pt) for pt in P], su, sv, sw)
    else:
        s = ctx.geomdl('NURBS').Volume(normalize_kv=normalize_kv)
        s.degree_u, s.degree_v, s.degree_w = pu, pv, pw
        s.set_ctrlpts([[x * w for x in pt] + [w] for pt, w in zip(P, W)], su, sv, sw)
    s.knotvector_u = list(U)
    s.knotvector_v = list(V)
    s.knotvector_w = list(Wk)
    return s


def homog(P, W):
    if W is None:
        return [list(pt) for pt in P]
    return [[x * w for x in pt] + [w] for pt, w in zip(P, W)]
