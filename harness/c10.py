"""C10 Translation, rotation and scaling act on the shape as on its points (bounded tier).

Contract on the real operations.translate / rotate / scale for BSpline and NURBS curves (2-D and 3-D), surfaces,
volumes and multi.*Container of 1-3 shapes.  Postcondition, from the property statement:

  * T(obj).evaluate_single(prm) == tau(obj.evaluate_single(prm)) for every shape of obj, a symbolic parameter, and
      translate  tau(x) = x + t                 symbolic vector t
      scale      tau(x) = m * x                 symbolic factor m (any real)
      rotate     tau(x) = o + R(x - o)          R = rotation by the angle alpha about the coordinate axis, o = the
                                                evaluated start point of the shape (of the first shape for a container:
                                                the container is moved as one body)
    The loader models math.cos / math.sin of math.radians(alpha) as algebraic atoms c, s with c*c + s*s == 1; the
    expected point is written with the same atoms (helper _trig), so the identity holds for every angle.
    Sense of rotation: the statement does not fix it.  tau uses the one convention under which all three axes of
    the library agree: in the plane of the two remaining coordinates (a < b):  a' = a*c - b*s,  b' = b*c + a*s
    (right-handed about x and z; about y this is the clockwise sense).
  * the evaluated oracle is independent of geomdl: obj.evaluate_single(prm) is first checked against spec.*_point.
  * rational shapes: weights unchanged.  Degrees, sizes and knot vectors unchanged.
  * inplace=False: the input is unchanged field by field (every attribute of the object and of the contained shapes,
    caches excepted) and a different object is returned (different shape objects inside a container);
    inplace=True: the very same object is returned, updated.
"""
from fractions import Fraction

from .api import scenario
from . import shapes, spec, assumptions

assumptions.PROPS['C10'] = {'level': 'other', 'assume': ['A1', 'A2', 'A4', 'A5', 'A6']}

# per kind: parametric dimension, space dimension, container class and the shape variants used for the 1st, 2nd, 3rd
# member of a container (different degrees / sizes per member; only the first one has interior knots, so that the
# number of span cases does not multiply)
KINDS = {
    'curve2': dict(pd=1, dim=2, cls='Curve', box='CurveContainer',
                   variants=[([2], [[1]]), ([1], [[]]), ([3], [[]])]),
    'curve3': dict(pd=1, dim=3, cls='Curve', box='CurveContainer',
                   variants=[([2], [[1]]), ([1], [[]]), ([3], [[]])]),
    'curve4': dict(pd=1, dim=4, cls='Curve', box='CurveContainer',
                   variants=[([2], [[1]]), ([1], [[]]), ([3], [[]])]),
    'surface': dict(pd=2, dim=3, cls='Surface', box='SurfaceContainer',
                    variants=[([1, 2], [[1], []]), ([1, 1], [[], []]), ([2, 1], [[], []])]),
    'volume': dict(pd=3, dim=3, cls='Volume', box='VolumeContainer',
                   variants=[([1, 1, 1], [[], [], []]), ([1, 1, 1], [[], [], []]), ([1, 1, 1], [[], [], []])]),
}
THOROUGH_FIRST = {'curve2': ([3], [[1, 1]]), 'curve3': ([3], [[2]]), 'surface': ([2, 2], [[1], [1]]),
                  'volume': ([2, 1, 1], [[1], [], []])}


# ------------------------------------------------------------------------------------------------
def _trig(ctx, name):
    """(alpha in degrees, cos, sin) of one angle.
    sym mode  : alpha is a symbol; cos/sin are the loader's algebraic atoms for math.radians(alpha) - obtained by
                calling the very shims the rewritten geomdl code calls, so both sides share the atoms.
    float mode: native math.  A replayed counter-example carries the atom values (_cosK, _sinK) of the refuting
                model; the angle is recovered from them (atan2), because in the exact run alpha is only a label for
                the pair (c, s)."""
    if ctx.mode == 'sym':
        from symx import qnum
        alpha = ctx.num(name)
        r = qnum.vq_radians(alpha)
        return alpha, qnum.vq_cos(r), qnum.vq_sin(r)
    import math
    alpha = ctx.num(name)
    atoms = sorted(k for k in ctx.values if k.startswith('_cos'))
    if atoms:
        c0 = float(ctx.values[atoms[0]])
        s0 = float(ctx.values.get('_sin' + atoms[0][4:], 0))
        if c0 != 0 or s0 != 0:
            alpha = math.degrees(math.atan2(s0, c0))
    return alpha, math.cos(math.radians(alpha)), math.sin(math.radians(alpha))


def _tau(op, arg, origin, pt, axis):
    """the point map of the property statement"""
    if op == 'translate':
        return [x + t for x, t in zip(pt, arg)]
    if op == 'scale':
        return [arg * x for x in pt]
    c, s = arg
    d = [x - o for x, o in zip(pt, origin)]
    # in the plane of the two coordinates other than `axis` among the first three; further coordinates stay
    a, b = [k for k in range(3) if k != axis][:2] if len(pt) >= 3 else (0, 1)
    r = list(d)
    r[a] = d[a] * c - d[b] * s
    r[b] = d[b] * c + d[a] * s
    return [x + o for x, o in zip(r, origin)]


# ------------------------------------------------------------------------------------------------
def _build_one(ctx, kind, variant, rational, tag, clamped=True):
    k = KINDS[kind]
    deg, mult = variant
    kvs, sizes = [], []
    for a in range(k['pd']):
        if not clamped:
            # unclamped, concrete uniform knots on [0,1]: the shape does not start at its first control point
            n = deg[a] + 1 + sum(mult[a])
            m = n + deg[a]
            U = [ctx.lit(Fraction(i, m)) for i in range(m + 1)]
            kvs.append(U)
            sizes.append(n)
            continue
        U, _inner, n = shapes.make_kv(ctx, deg[a], mult[a], prefix='%sk%s' % (tag, 'uvw'[a]))
        kvs.append(U)
        sizes.append(n)
    total = 1
    for n in sizes:
        total *= n
    # rotations mix coordinates: every coordinate of every control point is its own symbol
    P = [[ctx.num('%s%d_%d' % (tag, i, d)) for d in range(k['dim'])] for i in range(total)]
    W = shapes.weights(ctx, tag + 'w', total) if rational else None
    if k['pd'] == 1:
        obj = shapes.build_curve(ctx, deg[0], kvs[0], P, W)
    elif k['pd'] == 2:
        obj = shapes.build_surface(ctx, deg[0], deg[1], kvs[0], kvs[1], P, sizes[0], sizes[1], W)
    else:
        obj = shapes.build_volume(ctx, deg[0], deg[1], deg[2], kvs[0], kvs[1], kvs[2], P, sizes[0], sizes[1], sizes[2], W)
    return dict(obj=obj, pd=k['pd'], deg=deg, kvs=kvs, sizes=sizes, P=P, W=W, Pw=shapes.homog(P, W))


def _shared_containers(a, b):
    """paths of list/dict/set objects reachable from both object graphs (geometry objects are walked through vars())"""
    def walk(o, path, acc, seen):
        if id(o) in seen:
            return
        seen.add(id(o))
        if isinstance(o, (list, dict, set)):
            acc[id(o)] = path
        if isinstance(o, dict):
            for k, v in o.items():
                walk(v, '%s[%r]' % (path, k), acc, seen)
        elif isinstance(o, (list, tuple, set)):
            for k, v in enumerate(o):
                walk(v, '%s[%d]' % (path, k), acc, seen)
        elif hasattr(o, '__dict__') and type(o).__module__.startswith('geomdl') and not isinstance(o, type):
            if type(o).__name__.endswith('Evaluator') or 'Tessellate' in type(o).__name__:
                return
            for k, v in vars(o).items():
                walk(v, '%s.%s' % (path, k), acc, seen)
    A, B = {}, {}
    walk(a, 'input', A, set())
    walk(b, 'result', B, set())
    return sorted('%s is %s' % (A[i], B[i]) for i in A if i in B and (len(A[i]) and True) and _nonempty(i, a, A))


def _nonempty(i, root, table):
    return True


def _raw_point(sh, pts, prm):
    deg, kvs, sizes = sh['deg'], sh['kvs'], sh['sizes']
    if sh['pd'] == 1:
        return spec.curve_point(deg[0], kvs[0], pts, prm[0])
    if sh['pd'] == 2:
        return spec.surface_point(deg[0], deg[1], kvs[0], kvs[1], pts, sizes[0], sizes[1], prm[0], prm[1])
    return spec.volume_point(deg[0], deg[1], deg[2], kvs[0], kvs[1], kvs[2], pts, sizes[0], sizes[1], sizes[2],
                             prm[0], prm[1], prm[2])


def _spec_point(ctx, sh, prm):
    """the definition of the shape at prm (independent of geomdl)"""
    if sh['W'] is None:
        return _raw_point(sh, sh['P'], prm)
    ctx.assume_pos(_raw_point(sh, [[w] for w in sh['W']], prm)[0], 'L.weight_function_positive')
    return spec.project(_raw_point(sh, sh['Pw'], prm))


def _at(sh, obj, prm):
    return obj.evaluate_single(prm[0] if sh['pd'] == 1 else list(prm))


def _knots(sh, obj):
    if sh['pd'] == 1:
        return [obj.knotvector]
    if sh['pd'] == 2:
        return [obj.knotvector_u, obj.knotvector_v]
    return [obj.knotvector_u, obj.knotvector_v, obj.knotvector_w]


def _sizes(sh, obj):
    if sh['pd'] == 1:
        return [obj.ctrlpts_size]
    if sh['pd'] == 2:
        return [obj.ctrlpts_size_u, obj.ctrlpts_size_v]
    return [obj.ctrlpts_size_u, obj.ctrlpts_size_v, obj.ctrlpts_size_w]


def _degrees(sh, obj):
    return [obj.degree] if sh['pd'] == 1 else list(obj.degree)


# ---- field-wise snapshot of an object graph -----------------------------------------------------
_SKIP = ('_cache', '_iter_index')      # lazily filled caches and the cursor of the iteration protocol are not state


def _is_num(x):
    return (isinstance(x, (int, float, Fraction)) and not isinstance(x, bool)) or type(x).__name__ == 'Q'


def _snap(x):
    if isinstance(x, (list, tuple)):
        return ('seq', type(x), [_snap(e) for e in x])
    if isinstance(x, dict):
        return ('map', dict((k, _snap(v)) for k, v in x.items() if k not in _SKIP))
    if x is None or isinstance(x, (bool, str)):
        return ('val', x)
    if _is_num(x):
        return ('num', x)
    if hasattr(x, '_geometry_type') and hasattr(x, '__dict__'):
        return ('geom', x, _snap(vars(x)))
    return ('ref', x)                   # evaluators, functions, ...: must stay the same object


def _unchanged(ctx, label, snap, cur):
    tag = snap[0]
    if tag == 'seq':
        ctx.check_true(label, isinstance(cur, snap[1]) and len(cur) == len(snap[2]),
                       'sequence replaced or resized: %r' % (type(cur),))
        for old, new in zip(snap[2], cur):
            _unchanged(ctx, label, old, new)
    elif tag == 'map':
        keys = sorted(k for k in cur if k not in _SKIP)
        ctx.check_true(label, keys == sorted(snap[1]), 'attribute set changed: %r -> %r' % (sorted(snap[1]), keys))
        for k in keys:
            _unchanged(ctx, '%s.%s' % (label, k) if label.count('.') < 2 else label, snap[1][k], cur[k])
    elif tag == 'val':
        ctx.check_true(label, type(cur) is type(snap[1]) and cur == snap[1], 'value %r -> %r' % (snap[1], cur))
    elif tag == 'num':
        ctx.check_true(label, _is_num(cur), 'number replaced by %r' % (type(cur),))
        ctx.check_eq(label, cur, snap[1])
    elif tag == 'geom':
        ctx.check_true(label, cur is snap[1], 'contained shape replaced by another object')
        _unchanged(ctx, label, snap[2], vars(cur))
    else:
        ctx.check_true(label, cur is snap[1], 'helper object replaced')


# ------------------------------------------------------------------------------------------------
def _instances(tier):
    ops3 = [('translate', None), ('scale', None), ('rotate', 0), ('rotate', 1), ('rotate', 2)]
    ops2 = [('translate', None), ('scale', None), ('rotate', None)]    # 2-D: rotation in the plane (about z)
    out = []
    if tier == 'thorough':
        for kind in ('curve2', 'curve3', 'surface', 'volume'):
            for rational in (False, True):
                for op, axis in (ops2 if kind == 'curve2' else ops3):
                    for inplace in (False, True):
                        for count in (0, 1, 2, 3):
                            out.append(dict(kind=kind, rational=rational, op=op, axis=axis, inplace=inplace, count=count,
                                            big=False))
                    out.append(dict(kind=kind, rational=rational, op=op, axis=axis, inplace=False, count=0, big=True))
        for rational in (False, True):
            for op, axis in ops3:
                for inplace in (False, True):
                    out.append(dict(kind='curve4', rational=rational, op=op, axis=axis, inplace=inplace, count=0, big=False))
        return out
    k = 0
    for kind in ('curve2', 'curve3', 'surface', 'volume'):
        for rational in (False, True):
            for op, axis in (ops2 if kind == 'curve2' else ops3):
                both = kind.startswith('curve')
                for inplace in ((False, True) if both else (bool(k % 2),)):
                    out.append(dict(kind=kind, rational=rational, op=op, axis=axis, inplace=inplace, count=0, big=False))
                k += 1
    # unclamped knot vectors: the start point of the shape is not its first control point
    for kind, rational in (('curve3', False), ('curve2', True), ('surface', False)):
        for op, axis in ((('rotate', None),) if kind == 'curve2' else (('rotate', 0), ('rotate', 2))):
            out.append(dict(kind=kind, rational=rational, op=op, axis=axis, inplace=True, count=0, big=False, clamped=False))
    # sampled points read before the transform must be moved too (stale evaluated-point caches)
    for kind, rational in (('curve3', False), ('surface', True), ('volume', False), ('volume', True)):
        for op, axis, inplace in (('translate', None, False), ('scale', None, True), ('rotate', 2, True)):
            out.append(dict(kind=kind, rational=rational, op=op, axis=axis, inplace=inplace, count=0, big=False, grid=True))
    out.append(dict(kind='curve3', rational=True, op='translate', axis=None, inplace=False, count=2, big=False, grid=True))
    # the shape was sampled on a sub-range of its domain before (its first sampled point is not its start point)
    for kind, rational, axis, inplace, count in (('curve3', False, 0, False, 0), ('curve2', True, None, True, 0),
                                                 ('surface', False, 1, False, 0), ('volume', False, 2, True, 0),
                                                 ('curve3', True, 2, False, 2)):
        out.append(dict(kind=kind, rational=rational, op='rotate', axis=axis, inplace=inplace, count=count, big=False, grid='partial'))
    # points of dimension 4: the rotation acts in a coordinate plane of the first three, the fourth coordinate stays
    for op, axis, inplace, rational in (('rotate', 0, False, False), ('rotate', 1, True, False), ('rotate', 2, False, True),
                                        ('rotate', 1, False, True), ('translate', None, True, False), ('scale', None, False, True)):
        out.append(dict(kind='curve4', rational=rational, op=op, axis=axis, inplace=inplace, count=0, big=False))
    # a container that was walked only partly before (a single next(), a loop left with break)
    for op, axis, inplace, count, rational in (('translate', None, True, 2, False), ('scale', None, False, 3, True),
                                                ('rotate', 2, True, 3, False)):
        out.append(dict(kind='curve3', rational=rational, op=op, axis=axis, inplace=inplace, count=count, big=False, grid='peek'))
    # a container that holds one shape twice
    for op, axis, inplace, rational in (('translate', None, True, False), ('scale', None, False, True), ('rotate', 2, False, False)):
        out.append(dict(kind='curve3', rational=rational, op=op, axis=axis, inplace=inplace, count=2, big=False, dup=True))
    # containers mixing rational and non-rational members
    for op, axis, inplace, count, rational, kind in (('scale', None, True, 2, True, 'curve3'), ('scale', None, False, 3, False, 'curve3'),
                                                      ('translate', None, False, 2, False, 'surface'), ('rotate', 0, True, 2, True, 'curve3'),
                                                      ('scale', None, False, 2, True, 'volume')):
        out.append(dict(kind=kind, rational=rational, op=op, axis=axis, inplace=inplace, count=count, big=False, mixed=True))
    # containers of 1-3 shapes
    k = 0
    for kind, counts in (('curve3', (1, 2, 3)), ('curve2', (2,)), ('surface', (1, 3)), ('volume', (2,))):
        for count in counts:
            for op, axis in (ops2 if kind == 'curve2' else ops3):
                out.append(dict(kind=kind, rational=bool(k % 2), op=op, axis=axis, inplace=bool((k // 2 + count) % 2),
                                count=count, big=False))
                k += 1
    return out


@scenario('C10', fns=['operations.translate', 'operations.rotate', 'operations.scale', 'multi.AbstractContainer.__iter__',
                      'multi.AbstractContainer.__next__', 'multi.AbstractContainer.__getitem__', 'multi.AbstractContainer.add',
                      'abstract.Geometry.__iter__', 'abstract.Geometry.__next__', 'abstract.Geometry.__getitem__',
                      'abstract.GeomdlBase.__deepcopy__', 'NURBS.Curve.ctrlpts', 'NURBS.Surface.ctrlpts',
                      'NURBS.Volume.ctrlpts', 'linalg.vector_generate'],
          quick=lambda: _instances('quick'), thorough=lambda: _instances('thorough'))
def affine_map(ctx, kind, rational, op, axis, inplace, count, big, clamped=True, grid=False, mixed=False, dup=False):
    """requires: valid clamped knot vectors, parameters in the domain, positive weights; any vector / factor / angle;
                 count = 0: the bare shape, count = 1..3: a container of that many shapes (different degrees and sizes)
       ensures : every shape of the result evaluates to tau(original point); weights, degrees, sizes, knot vectors
                 unchanged; inplace=False: input unchanged field-wise, new object(s); inplace=True: same object"""
    k = KINDS[kind]
    ops = ctx.geomdl('operations')
    members = []
    for i in range(max(count, 1)):
        variant = THOROUGH_FIRST[kind] if (big and i == 0) else k['variants'][i]
        # mixed: a container whose members alternate between rational and non-rational shapes
        members.append(_build_one(ctx, kind, variant, (rational if i % 2 == 0 else not rational) if mixed else rational,
                                  'ABC'[i], clamped=clamped))
    if dup:
        members[-1] = members[0]          # the container holds the SAME object twice: it is moved once, not once per entry
    # the domain [U[p], U[n]] of each direction (== [0, 1] for the clamped family); the start point is its lower corner
    m0 = members[0]
    dom = [(m0['kvs'][a][m0['deg'][a]], m0['kvs'][a][m0['sizes'][a]]) for a in range(k['pd'])]
    prm = [shapes.param_in(ctx, nm, dom[a][0], dom[a][1]) for a, nm in enumerate(('u', 'v', 'w')[:k['pd']])]
    start = [dom[a][0] for a in range(k['pd'])]
    if count == 0:
        obj = members[0]['obj']
    else:
        obj = getattr(ctx.geomdl('multi'), k['box'])()
        for sh in members:
            obj.add(sh['obj'])
        ctx.check_true('container.len', len(obj) == count and all(obj[i] is members[i]['obj'] for i in range(count)))

    # the map
    dim = k['dim']
    origin = None
    if op == 'translate':
        arg = [ctx.num('t%d' % d) for d in range(dim)]
    elif op == 'scale':
        arg = ctx.num('m')
    else:
        alpha, c, s = _trig(ctx, 'alpha')
        arg = (c, s)
        origin = _spec_point(ctx, members[0], start)
        ctx.check_eq_vec('start_point=spec', _at(members[0], members[0]['obj'], start), origin)

    # original points: by the definition, and as evaluated by the library
    before = []
    for i, sh in enumerate(members):
        want = _spec_point(ctx, sh, prm)
        got = list(_at(sh, sh['obj'], prm))
        ctx.check_eq_vec('shape%d.input_evaluates_to_spec' % i, got, want)
        before.append(got)

    # sampled points read BEFORE the transform (this fills the evaluated-point caches of the input)
    grid_before = None
    if grid == 'peek':
        first = next(iter(obj))
        ctx.check_true('peek.first_member', first is members[0]['obj'])
        for g in obj:
            break
    elif grid:
        for sh in members:
            o = sh['obj']
            if sh['pd'] == 1:
                o.sample_size = 2
            elif sh['pd'] == 2:
                o.sample_size_u, o.sample_size_v = 2, 2
            else:
                o.sample_size_u, o.sample_size_v, o.sample_size_w = 2, 2, 2
        if grid == 'partial':
            q1, q3 = ctx.lit(Fraction(1, 4)), ctx.lit(Fraction(3, 4))
            for sh in members:
                if sh['pd'] == 1:
                    sh['obj'].evaluate(start=q1, stop=q3)
                elif sh['pd'] == 2:
                    sh['obj'].evaluate(start_u=q1, stop_u=q3, start_v=q1, stop_v=q3)
                else:
                    sh['obj'].evaluate(start_u=q1, stop_u=q3, start_v=q1, stop_v=q3, start_w=q1, stop_w=q3)
        else:
            grid_before = [[list(p) for p in sh['obj'].evalpts] for sh in members]
        if rational or mixed:
            _ = [(sh['obj'].ctrlpts, sh['obj'].weights) for sh in members if sh['W'] is not None]

    snap = _snap(vars(obj))
    if op == 'translate':
        res = ops.translate(obj, list(arg), inplace=inplace)
    elif op == 'scale':
        res = ops.scale(obj, arg, inplace=inplace)
    elif axis is None:
        res = ops.rotate(obj, alpha, inplace=inplace)
    else:
        res = ops.rotate(obj, alpha, axis=axis, inplace=inplace)

    # object identity / input preservation
    if inplace:
        ctx.check_true('inplace.same_object', res is obj)
        if count:
            ctx.check_true('inplace.same_members', len(res) == count and all(res[i] is members[i]['obj'] for i in range(count)))
    else:
        ctx.check_true('copy.new_object', res is not obj and type(res) is type(obj))
        if count:
            ctx.check_true('copy.new_members', len(res) == count and
                           all(res[i] is not members[j]['obj'] for i in range(count) for j in range(count)))
        _unchanged(ctx, 'copy.input_unchanged', snap, vars(obj))
        for i, sh in enumerate(members):
            ctx.check_eq_vec('copy.input_evaluates_as_before[%d]' % i, _at(sh, sh['obj'], prm), before[i])

    # the result
    ctx.check_true('result.len', len(res) == max(count, 1))
    eff_axis = 2 if dim == 2 else (2 if axis is None else axis)
    for i, sh in enumerate(members):
        r = res[i] if count else res
        ctx.check_true('shape%d.type' % i, type(r) is type(sh['obj']) and r.rational is (sh['W'] is not None) and r.dimension == dim)
        ctx.check_true('shape%d.degrees_sizes' % i, _degrees(sh, r) == list(sh['deg']) and _sizes(sh, r) == list(sh['sizes']))
        for a, (gk, U) in enumerate(zip(_knots(sh, r), sh['kvs'])):
            ctx.check_eq_vec('shape%d.knotvector%d_unchanged' % (i, a), gk, U)
        if sh['W'] is not None:
            ctx.check_eq_vec('shape%d.weights_unchanged' % i, r.weights, sh['W'])
        ctx.check_eq_vec('shape%d.point=tau(point)' % i, _at(sh, r, prm), _tau(op, arg, origin, before[i], eff_axis))
        if op == 'rotate' and i == 0:
            ctx.check_eq_vec('rotate.start_point_fixed', _at(sh, r, start), origin)
        if grid_before is not None:
            after = [list(p) for p in r.evalpts]
            ctx.check_true('shape%d.grid.size' % i, len(after) == len(grid_before[i]))
            for k2, (pa, pb) in enumerate(zip(after, grid_before[i])):
                ctx.check_eq_vec('shape%d.grid[%d]=tau(grid)' % (i, k2), pa, _tau(op, arg, origin, pb, eff_axis))

    # independence of the returned copy: no mutable container is shared with the input (caches included), and a
    # following in-place edit of the result leaves the input where it was
    if not inplace:
        shared = _shared_containers(obj, res)
        ctx.check_true('copy.shares_nothing_with_input', not shared, 'shared: %s' % (shared[:4],))
        if rational or mixed:
            _ = [(sh['obj'].ctrlpts, sh['obj'].weights) for sh in members if sh['W'] is not None]       # read the input's views in between
        res2 = ops.scale(res, ctx.lit(2), inplace=True)
        for i, sh in enumerate(members):
            r = res2[i] if count else res2
            want1 = _tau(op, arg, origin, before[i], eff_axis)
            ctx.check_eq_vec('followup.shape%d.point=2*tau(point)' % i, _at(sh, r, prm), [2 * c for c in want1])
            ctx.check_eq_vec('followup.input%d_still_unchanged' % i, _at(sh, sh['obj'], prm), before[i])
