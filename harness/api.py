"""Scenario API shared by all per-property harnesses (Engine B) and by the native replay.

A *scenario* is a contract on real geomdl functions written once and used three ways:

  sym mode    numbers are exact rational functions (symx.qnum.Q); the scenario body is re-executed
              along every feasible path; `assume` = requires, `check*` = ensures obligations that
              must be PROVED on every path (identity by normal form / solver `unsat`).
  float mode  the same body on native floats against the untouched package (replay of a
              counter-example under /venv/bin/python): a failing check reproduces the violation.

Scenario code must be deterministic and must create every symbolic input through ctx.num().
"""
import os
import sys
import importlib
from fractions import Fraction

REPO = os.environ.get('VERIF_REPO', '/repo')

SCENARIOS = {}


class Scenario(object):
    def __init__(self, prop, name, func, fns, quick, thorough, doc, native=None):
        self.prop, self.name, self.func, self.fns = prop, name, func, fns
        self.quick, self.thorough, self.doc = quick, thorough, doc
        self.native = native

    def native_instances(self, tier):
        """instances that are (additionally) executed on native floats against the untouched package: run-time checking of
        the same contract, for defects that only exist in floating point (outside assumption A1); never counted as proved"""
        if self.native is None:
            return []
        lst = self.native(tier) if callable(self.native) else self.native
        return list(lst)

    def instances(self, tier):
        src = self.thorough if (tier == 'thorough' and self.thorough is not None) else self.quick
        lst = src() if callable(src) else src
        return list(lst)


def scenario(prop, fns, quick, thorough=None, name=None, native=None):
    """Register a scenario.
    prop: property id; fns: real functions under this contract (qualified names);
    quick / thorough: list of parameter dicts (the *stated bounded shape family*), or a callable
    returning one.  thorough defaults to quick."""
    def deco(f):
        nm = name or f.__name__
        SCENARIOS[(prop, nm)] = Scenario(prop, nm, f, list(fns), quick, thorough, f.__doc__ or '', native)
        return f
    return deco


class CheckFailed(Exception):
    def __init__(self, label, detail):
        Exception.__init__(self, label)
        self.label, self.detail = label, detail


class Skip(Exception):
    """path outside the contract's precondition (decided in the body, e.g. by a computed multiplicity)"""


# ------------------------------------------------------------------------------------------------
class BaseCtx(object):
    mode = None

    def __init__(self):
        self.records = []      # (label, status, detail)
        self.modules = {}
        self.lemmas_used = set()

    def geomdl(self, name):
        """the real module geomdl.<name> (rewritten loader in sym mode, plain import in float mode)"""
        m = self.modules.get(name)
        if m is None:
            m = self.modules[name] = importlib.import_module('geomdl.' + name if name else 'geomdl')
        return m

    def nums(self, prefix, n):
        return [self.num('%s%d' % (prefix, i)) for i in range(n)]

    def point(self, prefix, dim):
        return [self.num('%s_%d' % (prefix, d)) for d in range(dim)]

    def skip(self, why=''):
        raise Skip(why)

    def ok(self, label, detail=None):
        self.records.append((label, 'proved', detail))

    def fail(self, label, detail):
        self.records.append((label, 'refuted', detail))
        raise CheckFailed(label, detail)

    def check_true(self, label, b, detail=None):
        """structural fact on concrete Python data (lengths, indices, identity of objects)"""
        if b:
            self.ok(label)
        else:
            self.fail(label, detail or 'structural assertion false')

    def check_eq_vec(self, label, a, b):
        a, b = list(a), list(b)
        if len(a) != len(b):
            self.fail(label, 'length %d != %d' % (len(a), len(b)))
        for i, (x, y) in enumerate(zip(a, b)):
            self.check_eq('%s[%d]' % (label, i), x, y)

    def check_eq_grid(self, label, a, b):
        a, b = list(a), list(b)
        if len(a) != len(b):
            self.fail(label, 'length %d != %d' % (len(a), len(b)))
        for i, (x, y) in enumerate(zip(a, b)):
            self.check_eq_vec('%s[%d]' % (label, i), x, y)

    def check_raises(self, label, excs, fn, *args, **kw):
        """the call must raise one of excs (a `raises` clause)"""
        try:
            fn(*args, **kw)
        except excs:
            self.ok(label)
            return
        self.fail(label, 'expected %s, call returned normally' % (excs,))

    def sep(self, x, k, tol):
        """tol_separated: x equals k or is farther from it than the code's tolerance"""
        return self.any(self.eq(x, k), self.gt(x - k, tol), self.gt(k - x, tol))

    def assume_sorted(self, xs, strict=False):
        for a, b in zip(xs, xs[1:]):
            self.assume(self.lt(a, b) if strict else self.le(a, b))


# ------------------------------------------------------------------------------------------------
class FloatCtx(BaseCtx):
    """native replay: concrete floats, untouched package"""
    mode = 'float'
    RTOL = 1e-6

    def __init__(self, values):
        BaseCtx.__init__(self)
        self.values = values
        self.pre_ok = True

    def num(self, name):
        if name not in self.values:
            self.values[name] = Fraction(0)
        return float(self.values[name])

    def lit(self, x):
        return float(Fraction(x))

    def is_const(self, x):
        return True

    def as_fraction(self, x):
        return Fraction(x)

    # conditions are plain bools
    def lt(self, a, b): return a < b
    def le(self, a, b): return a <= b
    def gt(self, a, b): return a > b
    def ge(self, a, b): return a >= b
    def eq(self, a, b): return a == b
    def ne(self, a, b): return a != b
    def any(self, *c): return any(c)
    def all(self, *c): return all(c)
    def not_(self, c): return not c
    def implies(self, a, b): return (not a) or b

    def assume(self, *conds):
        for c in conds:
            if not c:
                self.pre_ok = False

    def close(self, a, b):
        a, b = float(a), float(b)
        return abs(a - b) <= self.RTOL * (1.0 + abs(a) + abs(b))

    def assume_pos(self, q, lemma):
        self.assume(q > 0)

    def check_eq(self, label, a, b):
        if self.close(a, b):
            self.ok(label)
        else:
            self.fail(label, 'native floats: %r != %r' % (a, b))

    def check(self, label, cond, detail=None, nonlinear=False):
        if cond:
            self.ok(label)
        else:
            self.fail(label, detail or 'order/logic obligation false on native floats')

    def diff(self, f, var):
        raise NotImplementedError('formal derivative is a sym-mode oracle')


# ------------------------------------------------------------------------------------------------
class SymCtx(BaseCtx):
    """exact symbolic run of one path"""
    mode = 'sym'

    def __init__(self, world):
        BaseCtx.__init__(self)
        self.w = world
        from symx import qnum
        self.q = qnum

    def num(self, name):
        return self.q.sym(name)

    def lit(self, x):
        return self.q.Q(Fraction(x))

    def is_const(self, x):
        return not isinstance(x, self.q.Q) or x.k is not None

    def as_fraction(self, x):
        x = self.q.lift(x)
        return x.k

    # ---- conditions: z3 Bools
    def _d(self, a, b):
        return self.w.z(self.q.lift(a) - self.q.lift(b))

    def lt(self, a, b): return self._d(a, b) < 0
    def le(self, a, b): return self._d(a, b) <= 0
    def gt(self, a, b): return self._d(a, b) > 0
    def ge(self, a, b): return self._d(a, b) >= 0
    def eq(self, a, b): return self._d(a, b) == 0
    def ne(self, a, b): return self._d(a, b) != 0

    def any(self, *c):
        import z3
        return z3.Or(*c)

    def all(self, *c):
        import z3
        return z3.And(*c)

    def not_(self, c):
        import z3
        return z3.Not(c)

    def implies(self, a, b):
        import z3
        return z3.Implies(a, b)

    def assume(self, *conds):
        self.w.assume(*conds)

    def assume_pos(self, q, lemma):
        """assume q > 0, justified by a named lemma proved elsewhere (recorded as a stub use)"""
        q = self.q.lift(q)
        if q.k is not None:
            return
        # kept out of the solver (a nonlinear hypothesis would turn every later linear branch query into an
        # nlsat problem); it is only used to settle zero tests of multiples of q, see World._nonzero_by_lemma
        self.w.add_positive(q)
        self.lemmas_used.add(lemma)

    # ---- obligations
    def fail(self, label, detail):
        """structural failures (check_true, check_raises, length mismatch) carry a plain message: attach concrete
        inputs of the current path so that the native replay runs on values that satisfy the precondition"""
        if not isinstance(detail, dict):
            detail = self._cex(str(detail), None)
        BaseCtx.fail(self, label, detail)

    def check_eq(self, label, a, b):
        d = self.q.lift(a) - self.q.lift(b)
        if self.w.is_zero(d):
            self.ok(label)
            return
        self.fail(label, self._cex('identity does not hold: difference = %s' % _short(repr(d)), d))

    def check(self, label, cond, detail=None, nonlinear=False):
        """order / logic obligation given as a condition built with lt/le/...: pc => cond
        nonlinear=True: cond is a polynomial (in)equality (e.g. from sign_free_le on a rational function); it is
        sent straight to a fresh nlsat solver instead of first timing out in the incremental linear core"""
        if self.w.must(self._division_free(cond), fresh=nonlinear):
            self.ok(label)
            return
        self.fail(label, self._cex(detail or 'order obligation not implied by the path condition', None))

    def _division_free(self, cond):
        return cond

    def sign_free_le(self, a, b):
        """a <= b as a division-free z3 condition (denominator signs resolved by the path condition)"""
        return self._signed(a, b, '<=')

    def sign_free_lt(self, a, b):
        return self._signed(a, b, '<')

    def _signed(self, a, b, op):
        import z3
        d = self.q.lift(a) - self.q.lift(b)
        if d.k is not None:
            return z3.BoolVal({'<=': d.k <= 0, '<': d.k < 0}[op])
        n, dc, dd, _ = d.parts()
        neg = False
        for at, e in dd:
            if e % 2:
                az = self.q.REG.atom_z3(at)
                if self.w.must(az > 0):
                    pass
                elif self.w.must(az < 0):
                    neg = not neg
                else:
                    return {'<=': self.w.z(d) <= 0, '<': self.w.z(d) < 0}[op]
        t = self.q.poly_z3(n)
        if neg:
            return {'<=': t >= 0, '<': t > 0}[op]
        return {'<=': t <= 0, '<': t < 0}[op]

    def _cex(self, msg, d):
        """concrete failing input from the solver model (prefers small 'nice' values)"""
        import z3
        w = self.w
        q = self.q
        model = None
        s = w.solver
        extra = []
        if d is not None and d.k is None:
            n = w.subst_eqs(d.n) if w.eqs else d.n
            extra.append(q.poly_z3(n) != 0)
        # binary-grid values first: they are exact as floats and sit away from tolerance boundaries, so the native
        # replay sees the same comparisons as the exact run
        for bound, grid in ((4, 16), (4, 1024), (64, 1024), (4, None), (64, None), (None, None)):
            s.push()
            try:
                for c in extra:
                    s.add(c)
                if bound is not None:
                    for zv in q.REG.zvars:
                        s.add(zv >= -bound, zv <= bound)
                if grid is not None:
                    for zv in q.REG.zvars:
                        if zv.sort() == z3.RealSort():
                            s.add(z3.IsInt(zv * grid))
                r = s.check()
                if r == z3.sat:
                    model = s.model()
            finally:
                s.pop()
            if model is not None:
                break
        if model is None:
            model = getattr(w, 'last_model', None) or w.model
        vals = w.concretize(model)
        return {'msg': msg, 'values': {k: str(v) for k, v in vals.items()},
                'path': [bool(b) for b in w.prefix[:w.pos]]}

    def diff(self, f, var):
        """formal partial derivative of an exact number w.r.t. the named variable (oracle for C02)"""
        from symx import zpoly as zp
        q = self.q
        f = q.lift(f)
        if f.k is not None:
            return q.ZERO
        i = q.REG.var(var)
        n, dc, d, vn = f.parts()
        # (n/D)' = (n' D - n D') / D^2 ; D = dc * prod atoms
        Dp, Dv = q._dprod(d)
        nn = zp.sub(zp.mul(zp.diff(n, i), Dp), zp.mul(n, zp.diff(Dp, i)))
        num = q._norm(nn, 1, (), zp.evaluate(nn, q.REG.point))
        if not d:
            return num * q.Q(Fraction(1, dc))
        den = q.Q(None, {0: 1}, dc, tuple((a, 2 * e) for a, e in d), 1)
        return q._mul(num, den)


def _short(s, n=300):
    return s if len(s) <= n else s[:n] + '...[%d chars]' % len(s)


def load_all():
    """import every harness module so that SCENARIOS is populated"""
    here = os.path.dirname(os.path.abspath(__file__))
    for fn in sorted(os.listdir(here)):
        if fn.startswith('c') and fn.endswith('.py') and fn[1:3].isdigit():
            importlib.import_module('harness.' + fn[:-3])
    return SCENARIOS
