"""What MANIFEST.json claims, per property.  Keep in step with the harness modules."""

SOURCE_COMMITS = []
PYVC_PROPS = {'C01', 'C02', 'C03', 'C04', 'C05', 'C06', 'C07', 'C08', 'C09', 'C11', 'C13', 'C16', 'C17', 'C18', 'C19', 'C20'}
NOTES = ('Two engines share one contract language (DESIGN.md section 2). Engine A (pyvc) is the deductive, unbounded tier; '
         'Engine B (symx) is the bounded stand-in and is labelled so in every evidence file. Exit codes: 0 held, 1 violation '
         '(replayed natively), 2 undecided, 3 checker error.')

_B_NOTE = ('Assumes exact real arithmetic for floats (A1) and the assumptions echoed in the evidence file. Engine B results '
           'are complete over all real inputs inside each enumerated shape and say nothing outside the stated shape family.')

CLAIMED = {
    'C01': dict(category='other', technique='contracts on the real functions; SMT-discharged VCs (pyvc) + per-shape exhaustive symbolic execution (symx)',
                text='Evaluation entry points equal the Cox-de Boor tensor-product definition: identity in QQ(knots, parameters, control points, weights) '
                     'on every feasible path of the real code for each enumerated shape; grid size/order/corners checked structurally. Engine A, every size/degree: span search, basis functions (= Cox-de Boor), '
                     'curve / surface / volume evaluators index inside the net, result size and order, weight function positive (no zero divisor).',
                note=_B_NOTE),
    'C04': dict(category='other', technique='contracts on the real functions; SMT-discharged VCs (pyvc) + per-shape exhaustive symbolic execution (symx)',
                text='Knot insertion preserves the shape: identity between the spec curve/surface/volume of the original definition and the '
                     'evaluation of the object after insert_knot, for symbolic knots, insertion value, parameter, control points and weights.',
                note=_B_NOTE),
    'C09': dict(category='other', technique='contracts on the real functions; per-shape exhaustive symbolic execution (symx), SMT-discharged VCs (pyvc) for the converters',
                text='Weighted / unweighted / weights views related by multiplication after every setter history (2- and 3-step histories from every cache state), '
                     'converter pairs mutually inverse, GridWeighted applies each point\'s own weight, weight scaling moves no point: identities on symbolic points and positive weights.',
                note=_B_NOTE),
    'C19': dict(category='other', technique='contracts on the real functions; per-shape exhaustive symbolic execution (symx)',
                text='== is reflexive, symmetric, holds for deep copies, fails for different kind/rationality/degree/size and for any single component changed by more than the tolerance '
                     '(symbolic eps with |eps| > 1/1000), holds for |eps| < 1e-20.',
                note=_B_NOTE),
    'C14': dict(category='other', technique='contracts on the real exporters/importers; per-shape exhaustive symbolic execution (symx) with numbers printed as opaque tokens',
                text='export followed by import reproduces degrees, knot vectors, sizes, control points, weights, delta and trims and evaluates identically, for the dict/JSON layer, '
                     'smesh/vmesh files, txt and csv; the written files are also checked line by line against the documented ordering.',
                note=_B_NOTE + ' A3: float(str(x)) == x; real json / real temp files are used; YAML, cfg and jinja2 paths are not run (packages absent).'),
    'C12': dict(category='other', technique='class-invariant induction over contracts on every public mutator; per-shape exhaustive symbolic execution (symx)',
                text='Inv(o): every derived view equals that of a fresh object built from o\'s definition. {Inv} m {Inv} is checked for every public mutator from both cache states '
                     '(empty / every view read), readers preserve Inv, deep copies are disjoint and independent: unbounded in the history by induction, bounded in the shape (8 classes + 3 containers).',
                note=_B_NOTE),
    'C10': dict(category='other', technique='contracts on operations.translate/rotate/scale; per-shape exhaustive symbolic execution (symx) with cos/sin as algebraic atoms',
                text='T(obj).evaluate_single(u) == tau(obj.evaluate_single(u)) for symbolic parameters, control points, weights, vector, factor and angle (c*c+s*s==1), for curves, surfaces, '
                     'volumes and containers of 1-3 members; weights unchanged; inplace=False leaves the input field-wise unchanged and returns new objects, inplace=True updates the same objects.',
                note=_B_NOTE + ' A4: math.cos/sin by contract.'),
    'C13': dict(category='other', technique='contracts on the layout-dependent functions; per-shape exhaustive symbolic execution (symx) with one distinct symbol per control point',
                text='2-D grid view, control point managers, flips, transpose, flip, extract/construct round trips and sweeps all address the same point for the same (u,v,w) on nets '
                     'with pairwise different sizes; round trips return the original shape and evaluate identically. Engine A, every size: managers compute v + size_v*(u + size_u*w), in range and injective; '
                     'the surface / volume evaluators read the control point that convention puts there (active-hull contracts with index-monotone ghost bounds); '
                     'compatibility.flip_ctrlpts2d is the transpose (result[i][j] = input[j][i] coordinate by coordinate), flip_ctrlpts / flip_ctrlpts_u produce size_u*size_v points and never read outside the net.',
                note=_B_NOTE),
    'C05': dict(category='other', technique='contracts on helpers.knot_refinement / operations.refine_knotvector; SMT-discharged VCs (pyvc) for the two helpers it calls (find_multiplicity, find_span_linear); per-shape exhaustive symbolic execution (symx)',
                text='Refinement leaves evaluate_single(u) equal to the spec point of the original definition (identity in symbolic knots, parameter, control points, weights); the new knot vector '
                     'is the one written from the statement (every interior interval bisected d times, interior multiplicity = degree); unselected directions untouched; bad densities rejected.',
                note=_B_NOTE),
    'C06': dict(category='other', technique='contracts on helpers.knot_removal(+_kv) / operations.remove_knot; SMT-discharged VCs (pyvc) for the knot vector shift; per-shape exhaustive symbolic execution (symx)',
                text='insert r times then remove t <= r times: sizes reduced by t, knot vector = original + (r-t) copies, control points and weights restored exactly when t == r, evaluation '
                     'equal to the original; also after refinement; all directions of surfaces and volumes.',
                note=_B_NOTE),
    'C07': dict(category='other', technique='contracts on operations.split_*/decompose_*; SMT-discharged VCs (pyvc) for the knot-insertion chain they call; per-shape exhaustive symbolic execution (symx)',
                text='Every piece evaluated at the pulled-back parameter equals the spec point of the original for a symbolic split parameter (inside a span or on a knot) and symbolic u (v); '
                     'input unchanged; split at a domain end rejected; decomposition gives one Bezier piece per non-empty interval (pair), in order.',
                note=_B_NOTE),
    'C08': dict(category='other', technique='SMT-discharged VCs (pyvc) on helpers.degree_elevation / degree_reduction / linalg.binomial_coefficient with ghost lemmas; symbolic execution (symx) with every coordinate symbolic',
                text='Engine A, every degree / count / dimension: result sizes, end points unchanged, normal return implies Bezier input with num >= 1 (degree >= 2 for reduction), elevation by one in closed form '
                     '(from two binomial identities proved as ghost lemmas), and reduce(elevate(P, 1)) == P (composition lemma). Engine B: For p = 1..8, t = 1..4: the Bernstein-to-monomial coefficient vectors of the elevated and the original polygon are identical polynomials in the control point symbols; '
                     'reduction of an exact elevation returns the original for degree 2..8; non-Bezier input, num <= 0 and degree < 2 rejected. Exhaustive over the degree range stated.',
                note=_B_NOTE),
    'C03': dict(category='proof', technique='contract-based deductive verification: VCs from the AST of the real functions discharged by z3/cvc5 (pyvc); bounded symbolic execution (symx) for the variants not under an unbounded contract',
                text='Proved for every degree, size and input (Engine A, 270+ obligations): both span searches return the unique non-empty half-open interval and agree (uniqueness lemma), '
                     'termination of the binary search, the multiplicity count, basis_function == Cox-de Boor recursion with non-negativity and partition of unity, the list lifts, '
                     'knotvector.generate/normalize/check and "generated vectors pass check". Bounded (Engine B, degrees 1..4/6): single-function, all-degrees and derivative variants agree, derivative rows sum to zero.',
                note=_B_NOTE + ' Evidence counts obligations/discharged for Engine A only; Engine B instances are listed separately as bounded.'),
    'C15': dict(category='other', technique='contracts on the tessellation functions; exhaustive enumeration of mesh topology over the stated size range + symbolic execution (symx) for vertex positions; exports parsed back',
                text='Topology (consecutive ids, referential integrity, every interior edge shared by two oppositely oriented triangles, Euler characteristic 1, positive areas summing to the rectangle) '
                     'for every (size_u,size_v) in [2,12]^2 quick / [2,40]^2 thorough and every dividing spacing; vertex.data == S(vertex.uv) on symbolic surfaces; OBJ/OFF/STL (ascii, binary) '
                     'parsed back; trims: exploration-grade region match within one cell on concrete placements.',
                note=_B_NOTE + ' The trim sub-claim is exploration-grade (concrete trims). struct.pack by contract in sym mode (A4).'),
    'C17': dict(category='other', technique='contracts relating the same query under two configurations; per-shape exhaustive symbolic execution (symx); subprocess runs for the environment variable and the real pools',
                text='Same answers for linear/binary span search and both evaluator families (derivative entries k+l <= order), for normalize_kv on/off under the affine parameter map '
                     '(points, derivatives scaled by a^-k, insertion, sampling grids, tessellation), for GEOMDL_CACHE_SIZE in {unset,1,16,1024} and for num_procs in {1,2,4}.',
                note=_B_NOTE + ' Schedules of worker processes are NOT explored: the claim rests on the order-preserving contract of multiprocessing.Pool.map (A4); real pools are run once natively as a sanity run.'),
    'C02': dict(category='other', technique='contracts on the derivative algorithms; per-shape exhaustive symbolic execution (symx) against the formal derivative of the spec position function',
                text='Engine A, every degree / order / size: curve_deriv_cpts obeys the derivative-control-point recurrence; basis_function_ders is index-safe with positive divisors, has the stated shape and its row 0 is the Cox-de Boor basis function; CurveEvaluator.derivatives returns zero rows above the degree and row k = sum_j ders[k][j] * P[span-p+j]. Engine B: Curve.derivatives / Surface.derivatives (both evaluator families, rational too, orders up to degree+2, entries k+l <= order) equal the formal derivatives d^k/du^k d^l/dv^l of the '
                     'spec shape in QQ(knots, u, v, control points, weights); basis_function_ders(_one), derivative control points, hodograph constructors, tangent/normal (unit length and orthogonality modulo s*s = x).',
                note=_B_NOTE + ' A4: math.sqrt by contract.'),
    'C11': dict(category='other', technique='contracts on fitting.*; per-shape exhaustive symbolic execution (symx) with the real LU solve in exact arithmetic',
                text='Engine A, every size: compute_params_curve starts at 0, ends at 1 and is strictly increasing for distinct consecutive data points; compute_knot_vector; forward/backward substitution solve L y = b, U x = y; the Doolittle factorisation behind lu_decomposition gives L U = A for every n. Engine B: '
                     'interpolate_curve/surface: requested degree and C(uk[i]) == Q[i] (S(uk[i],vl[j]) == Q[i][j]) at the chord-length / centripetal parameters; compute_params / compute_knot_vector(2) closed forms; '
                     'approximate_curve: end points interpolated and interior control points satisfy the normal equations rebuilt independently; approximate_surface: corners interpolated.',
                note=_B_NOTE + ' A4: math.sqrt by contract; A7: a solution of the normal equations minimises the functional. 3-7 data points symbolic/concrete, up to 40 concrete in thorough.'),
    'C18': dict(category='other', technique='SMT-discharged VCs (pyvc) for the convex-combination facts through the real evaluator loop, bounding box and lemmas; per-shape symbolic execution (symx) for the object level',
                text='Engine A, all degrees/sizes: basis functions are a non-negative partition of unity; the curve evaluators keep every coordinate half-space and (rational) homogeneous half-space that contains the '
                     'control points; curve, surface and volume evaluators keep every evaluated point inside the bounds of the degree+1 (per direction) control points ACTIVE on its span (monotone ghost bounding sequences); evaluate_bounding_box contains every control point. Engine B: evaluated point == sum lambda_i * find_ctrlpts points with lambda >= 0 summing to 1, inside bbox, clamped ends, length >= chord.',
                note=_B_NOTE + ' The upper bound length <= control polygon length is excluded (variation diminishing). A7: triangle inequality.'),
    'C16': dict(category='other', technique='SMT-discharged VCs (pyvc) for the vector/matrix helpers, the triangular solves and the Doolittle LU factorisation (every n); per-shape exhaustive symbolic execution (symx) on fully symbolic n x n matrices for LU / solve / inverse / determinant / pivot and for history independence',
                text='Engine A, every n: _linalg.doolittle / lu_decomposition return unit lower triangular L and upper triangular U with L*U == A row by column (columns whose pivot vanishes excepted, as in the code), forward/backward substitution solve L y = b and U x = y, matrix_multiply equals the row-by-column definition. Engine B: fully symbolic matrices n = 1..3 and one- and two-parameter matrix pencils of size 4 and 5: L*U == A, A*x == b, A*inv == I, determinant == Leibniz, P a permutation with mp == P*m; diagonally dominant and collocation matrices: lu_solve returns; '
                     'after any routine matrix_identity(k) is still the identity, arguments untouched, and every routine still satisfies its contract (history independence); helpers equal their definitions for all sizes (Engine A).',
                note=_B_NOTE + ' "LU always succeeds on collocation matrices" only on the bounded instances (total positivity not proved).'),
    'C20': dict(category='other', technique='contracts on ray.intersect, is_left, wn_poly, convex_hull, voxelize, find_ctrlpts; per-shape exhaustive symbolic execution (symx) with independent spec predicates',
                text='Crossing lines through a common symbolic point: INTERSECT with both rays evaluating to that point; parallel: COLINEAR; distance >= tol: SKEW; is_left == signed area; wn_poly <=> winding number != 0 '
                     '(independent crossing count); convex_hull: subset, counter-clockwise, every point on or left of every edge; voxels filled iff a sampled point is inside, grid covers bbox; find_ctrlpts == active window.',
                note=_B_NOTE + ' "agree with exact rational arithmetic" is vacuous under A1 (the model IS exact arithmetic).'),
}

_TODO = 'check not built yet in this revision (work in progress; see DESIGN.md section 7 for the planned contract)'
NOT_APPLICABLE = [dict(property_id='C%02d' % i, reason=_TODO) for i in range(1, 21) if 'C%02d' % i not in CLAIMED]
