"""C08 Degree elevation preserves a Bezier shape and reduction inverts it.

Contracts on the real helpers.degree_elevation / helpers.degree_reduction (no knots: the functions work on one Bezier
control polygon).  Every coordinate of every control point is its own symbol, so each identity holds for all real
polygons of the stated size (Cartesian: dim 2; homogeneous (xw, yw, zw, w): dim 4 -- the functions never look at what
a coordinate means, a homogeneous polygon is a polygon with one more coordinate).

  elevation   requires len(P) == p + 1, t >= 1
              ensures  len(Q) == p + t + 1,
                       sum_i Bern(i, p+t)(s) Q_i == sum_i Bern(i, p)(s) P_i as polynomials in s
                       (equal power-basis coefficient vectors, the coefficients of s^(p+1..p+t) vanish),
                       Q_0 == P_0, Q_(p+t) == P_p
  reduction   requires Q == degree_elevation(p, P, num=1), p + 1 >= 2
              ensures  degree_reduction(p + 1, Q) == P  (length p + 1, point by point)
  rejection   len(P) != degree + 1 (both functions), num <= 0 (elevation), degree < 2 (reduction)
              raise GeomdlException

"Rows of points" of the property text: the pinned helpers combine control points with `p1 + coeff * p2` over the
coordinates of ONE point, so an entry that is itself a row of points is not an accepted input (degree_elevation raises
TypeError: float * list) and nothing in the package calls them that way (the surface / volume branches of
operations.degree_operations are empty).  No contract is stated for that input form; a row of m points of dimension d
is covered as one point of dimension m*d (dim 4 below), which is how a caller has to pass it.
"""
from .api import scenario
from . import spec, assumptions

assumptions.PROPS['C08'] = {
    'level': 'other', 'assume': ['A1', 'A4', 'A5', 'A6'],
    'explanation': 'Engine A (unbounded): sizes, unchanged end points, rejection of non-Bezier input / num <= 0 / degree < 2, the '
                   'closed form of elevation by one and reduce(elevate(P, 1)) == P for every degree and dimension.  Engine B '
                   '(bounded): the real helpers.degree_elevation / degree_reduction are executed on fully symbolic '
                   'control polygons (one symbol per coordinate) for every degree 1..8 and elevation count 1..4 of the '
                   'property; the power-basis coefficient vectors of input and output are compared as exact '
                   'polynomial identities.  Bounded by the enumerated (degree, count, dimension) tuples.'}


def _polygon(ctx, n, dim, prefix='P'):
    """n control points, every coordinate a fresh symbol"""
    return [[ctx.num('%s%d_%d' % (prefix, i, d)) for d in range(dim)] for i in range(n)]


def _dims(layout):
    # cartesian 2-D points; homogeneous 3-D points (xw, yw, zw, w)
    return {'cartesian': 2, 'homogeneous': 4}[layout]


def _elev_shapes(tier):
    out = []
    for p in range(1, 9):
        for t in range(1, 5):
            out.append(dict(p=p, t=t, layout='cartesian'))
            if tier == 'thorough' or (p + t) % 3 == 0 or p == 8:
                out.append(dict(p=p, t=t, layout='homogeneous'))
    return out


@scenario('C08', fns=['helpers.degree_elevation', 'linalg.binomial_coefficient'],
          quick=lambda: _elev_shapes('quick'), thorough=lambda: _elev_shapes('thorough'))
def elevate(ctx, p, t, layout):
    """ensures: same Bezier curve (power-basis coefficients equal, higher ones zero), end points unchanged, p+t+1 points"""
    dim = _dims(layout)
    P = _polygon(ctx, p + 1, dim)
    Q = ctx.geomdl('helpers').degree_elevation(p, [list(pt) for pt in P], num=t)
    ctx.check_true('size', len(Q) == p + t + 1 and all(len(q) == dim for q in Q),
                   'len(Q)=%d, expected %d' % (len(Q), p + t + 1))
    want = spec.bernstein_to_monomial(P) + [[0] * dim for _ in range(t)]
    ctx.check_eq_grid('same_curve.monomial', spec.bernstein_to_monomial(Q), want)
    ctx.check_eq_vec('endpoint.first', Q[0], P[0])
    ctx.check_eq_vec('endpoint.last', Q[-1], P[-1])


@scenario('C08', fns=['helpers.degree_elevation', 'linalg.binomial_coefficient'],
          quick=[dict(total=D, layout='cartesian') for D in (3, 4, 5, 6)],
          thorough=[dict(total=D, layout=l) for D in range(2, 10) for l in ('cartesian', 'homogeneous')])
def elevate_history(ctx, total, layout):
    """the result of an elevation must not depend on the calls made before it: within ONE run, every (p, t) with
    p + t == total is elevated in turn (fresh symbolic polygon each), in both orders; each result defines the same curve"""
    dim = _dims(layout)
    pairs = [(p, total - p) for p in range(1, total)]
    for rnd, order in enumerate((pairs, list(reversed(pairs)))):
        for p, t in order:
            P = [[ctx.num('H%d_%d_%d_%d' % (rnd, p, i, d)) for d in range(dim)] for i in range(p + 1)]
            Q = ctx.geomdl('helpers').degree_elevation(p, [list(pt) for pt in P], num=t)
            ctx.check_true('r%d.p%d.size' % (rnd, p), len(Q) == p + t + 1)
            want = spec.bernstein_to_monomial(P) + [[0] * dim for _ in range(t)]
            ctx.check_eq_grid('r%d.p%d.same_curve.monomial' % (rnd, p), spec.bernstein_to_monomial(Q), want)


def _red_shapes(tier):
    out = []
    for degree in range(2, 9 if tier == 'quick' else 10):     # degree of the polygon that is reduced (= p + 1)
        out.append(dict(degree=degree, layout='cartesian'))
        out.append(dict(degree=degree, layout='homogeneous'))
    return out


@scenario('C08', fns=['helpers.degree_reduction', 'helpers.degree_elevation'],
          quick=lambda: _red_shapes('quick'), thorough=lambda: _red_shapes('thorough'))
def reduce_inverts_elevation(ctx, degree, layout):
    """requires Q = degree_elevation(degree-1, P, num=1); ensures degree_reduction(degree, Q) == P"""
    dim = _dims(layout)
    p = degree - 1
    hp = ctx.geomdl('helpers')
    P = _polygon(ctx, p + 1, dim)
    Q = hp.degree_elevation(p, [list(pt) for pt in P], num=1)
    # "Q is the exact elevation of P", stated independently of the code (Eq 5.36 for one elevation)
    for i in range(p + 2):
        a = ctx.lit(i) / ctx.lit(p + 1)
        for d in range(dim):
            left = P[i - 1][d] if i >= 1 else 0
            right = P[i][d] if i <= p else 0
            ctx.check_eq('elevated_once[%d][%d]' % (i, d), Q[i][d], a * left + (1 - a) * right)
    R = hp.degree_reduction(degree, [list(q) for q in Q])
    ctx.check_true('size', len(R) == degree and all(len(r) == dim for r in R), 'len(R)=%d, expected %d' % (len(R), degree))
    ctx.check_eq_grid('reduction_inverts', R, P)


@scenario('C08', fns=['helpers.degree_reduction', 'helpers.degree_elevation'],
          quick=[dict(degree=d, layout=l) for d in (2, 3, 5) for l in ('cartesian', 'homogeneous')],
          thorough=[dict(degree=d, layout=l) for d in range(2, 9) for l in ('cartesian', 'homogeneous')])
def results_are_the_callers(ctx, degree, layout):
    """requires: two different polygons of the same degree and dimension, elevated once and reduced / elevated one after
                 the other, the first answers kept
       ensures : each kept answer still equals its own polygon after the later calls (results are not shared storage),
                 and the input polygons were not modified"""
    dim = _dims(layout)
    p = degree - 1
    hp = ctx.geomdl('helpers')
    P1, P2 = _polygon(ctx, p + 1, dim, 'P'), _polygon(ctx, p + 1, dim, 'S')
    Q1 = hp.degree_elevation(p, [list(pt) for pt in P1], num=1)
    Q2 = hp.degree_elevation(p, [list(pt) for pt in P2], num=1)
    q1_in = [list(q) for q in Q1]
    R1 = hp.degree_reduction(degree, q1_in)
    R2 = hp.degree_reduction(degree, [list(q) for q in Q2])
    ctx.check_eq_grid('first_reduction.kept_answer', R1, P1)
    ctx.check_eq_grid('second_reduction', R2, P2)
    ctx.check_eq_grid('input_of_reduction.unchanged', q1_in, Q1)
    want1 = spec.bernstein_to_monomial(P1) + [[0] * dim]
    ctx.check_eq_grid('first_elevation.kept_answer', spec.bernstein_to_monomial(Q1), want1)
    # editing a returned polygon does not leak into a later call
    R1[0][0] = R1[0][0] + 5
    R3 = hp.degree_reduction(degree, [list(q) for q in Q2])
    ctx.check_eq_grid('third_reduction.after_caller_edit', R3, P2)


def _rej_shapes(tier):
    out = []
    for deg in (1, 2, 3, 5, 8):
        for delta in (-1, 1, 2):                        # len(P) != degree + 1
            out.append(dict(func='elevation', degree=deg, npts=deg + 1 + delta, num=1))
            if deg >= 2:
                out.append(dict(func='reduction', degree=deg, npts=deg + 1 + delta, num=None))
    for deg in (1, 3, 8):
        for num in (0, -1, -3):                         # non-positive elevation count
            out.append(dict(func='elevation', degree=deg, npts=deg + 1, num=num))
    for deg in (0, 1):                                  # a Bezier polygon of degree < 2 cannot be reduced
        out.append(dict(func='reduction', degree=deg, npts=deg + 1, num=None))
    return out


@scenario('C08', fns=['helpers.degree_elevation', 'helpers.degree_reduction'],
          quick=lambda: _rej_shapes('quick'), thorough=lambda: _rej_shapes('thorough'))
def reject(ctx, func, degree, npts, num):
    """raises GeomdlException: len(P) != degree + 1, num <= 0 (elevation), degree < 2 (reduction)"""
    hp = ctx.geomdl('helpers')
    exc = ctx.geomdl('exceptions').GeomdlException
    P = _polygon(ctx, npts, 2)
    if func == 'elevation':
        why = 'non_bezier' if npts != degree + 1 else 'num_not_positive'
        ctx.check_raises('reject.elevation.' + why, exc, lambda: hp.degree_elevation(degree, P, num=num))
    else:
        why = 'non_bezier' if npts != degree + 1 else 'degree_below_2'
        ctx.check_raises('reject.reduction.' + why, exc, lambda: hp.degree_reduction(degree, P))
