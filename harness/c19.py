"""C19 Equality of shapes is an equivalence that tracks the definition (bounded tier).

Contract on abstract.SplineGeometry.__eq__ / __ne__ as inherited by BSpline/NURBS Curve, Surface, Volume
(postconditions taken from the property statement):

  * a == a;  (a == b) == (b == a);  (a != b) == not (a == b);  copy.deepcopy(a) == a;
  * different parametric kind / rationality / degree / size / spatial dimension  ==>  a != b;
  * a, b differ in exactly one component (one knot, one homogeneous control-point coordinate, one weight) by eps:
        |eps| > tol  ==>  a != b            |eps| < tol  ==>  a == b
    where tol is the comparison tolerance of the objects: `precision` decimal places (default 18), tol = 10**-18.

The one-component cases are written so that they are decided for *every* admissible tolerance, with the side
obligation  0 < tol <= 1e-3  (a "tolerance" larger than any knot span of a normalised knot vector cannot track the
definition):
  far      |eps| > 1/1000 (>= tol)                                   ==>  a != b
  near     |eps| < 10**-20 (< tol = 10**-18 of the default precision) ==>  a == b   (a changed weight moves the
           homogeneous coordinates by x*eps; the control points of that case are constants with |x| < 20)
  witness  far with eps a literal: 1 on a coordinate / weight, 1/4 on a knot
The side obligation is itself observable: deepcopy(a) == a needs 0 < tol, the far cases need tol <= 1e-3.
Both shapes of a pair are built with the default precision (the quantifier of the property: shapes as in C01), except
in `symmetric_mixed_precision`: `precision` is a constructor option of every shape, and "== is symmetric" is claimed for
all pairs, so a == b and b == a must agree for EVERY size of the single difference when the two objects were built with
different precisions (the verdict itself is left open there: the statement does not say which tolerance applies).
"""
import copy
from fractions import Fraction

from .api import scenario
from . import shapes, spec, assumptions

assumptions.PROPS['C19'] = {'level': 'other', 'assume': ['A1', 'A2', 'A4', 'A5', 'A6']}

FAR = Fraction(1, 1000)             # upper end of the admissible tolerance range
NEAR = Fraction(1, 10 ** 20)        # below the tolerance of the default precision (10**-18)

CLS = {'curve': 'Curve', 'surface': 'Surface', 'volume': 'Volume'}
BASE = {'curve': dict(deg=[2], mult=[[1, 1]], dim=2),
        'surface': dict(deg=[2, 1], mult=[[1], [1]], dim=3),
        'volume': dict(deg=[1, 1, 1], mult=[[1], [], []], dim=3)}


def _make(ctx, kind, rational, deg, kvs, sizes, pts, **kw):
    """object of the class through the public API; pts are the homogeneous points for rational classes"""
    obj = getattr(ctx.geomdl('NURBS' if rational else 'BSpline'), CLS[kind])(**kw)
    if kind == 'curve':
        obj.degree = deg[0]
        obj.set_ctrlpts([list(p) for p in pts])
        obj.knotvector = list(kvs[0])
    elif kind == 'surface':
        obj.degree_u, obj.degree_v = deg
        obj.set_ctrlpts([list(p) for p in pts], *sizes)
        obj.knotvector_u, obj.knotvector_v = list(kvs[0]), list(kvs[1])
    else:
        obj.degree_u, obj.degree_v, obj.degree_w = deg
        obj.set_ctrlpts([list(p) for p in pts], *sizes)
        obj.knotvector_u, obj.knotvector_v, obj.knotvector_w = list(kvs[0]), list(kvs[1]), list(kvs[2])
    return obj


def _net(ctx, prefix, count, dim, symbolic=True):
    """control points: first coordinate symbolic per point (or a distinct constant), the others distinct constants"""
    pts = shapes.net(ctx, prefix, count, dim) if symbolic else None
    if pts is None:
        pts = [[ctx.lit(Fraction(2 * i - count, 3))] + [ctx.lit(Fraction((i + 1) * (d + 2) + d * d, 1 + d)) for d in range(1, dim)]
               for i in range(count)]
    return pts


def _data(ctx, kind, rational, symbolic_net=True, deg=None, mult=None, dim=None, tag=''):
    b = BASE[kind]
    deg = deg or b['deg']
    mult = mult or b['mult']
    dim = dim or b['dim']
    kvs, inner, sizes = [], [], []
    for a in range(len(deg)):
        U, iu, n = shapes.make_kv(ctx, deg[a], mult[a], prefix=tag + 'abc'[a])
        kvs.append(U)
        inner.append(iu)
        sizes.append(n)
    total = 1
    for s in sizes:
        total *= s
    P = _net(ctx, tag + 'P', total, dim, symbolic_net)
    W = shapes.weights(ctx, tag + 'w', total) if rational else None
    return dict(kind=kind, rational=rational, deg=list(deg), kvs=kvs, inner=inner, sizes=sizes, P=P, W=W)


def _obj(ctx, d, kvs=None, P=None, W=None, pts=None, **kw):
    P = d['P'] if P is None else P
    W = d['W'] if W is None else W
    if pts is None:
        pts = spec.weighted(P, W) if d['rational'] else P
    return _make(ctx, d['kind'], d['rational'], d['deg'], kvs or d['kvs'], d['sizes'], pts, **kw)


def _verdict(ctx, label, got, want):
    """the Python bool returned by the real __eq__/__ne__ on this path must be `want` (a failing path yields a model
    of the path condition for the native replay)"""
    ctx.check(label, ctx.eq(1 if got else 0, 1 if want else 0),
              '%s: the comparison returned %r, the definition says %r' % (label, bool(got), want))


def _compare(ctx, fn):
    """runs a comparison of the real code.  __eq__ wraps its loops in `except Exception: return False`, which would
    also swallow the explorer's own control exceptions (solver 'unknown' on a branch, infeasible path) and turn them
    into the verdict False; they are re-raised here so that such a path is reported undecided / dropped, never as a
    violation"""
    if ctx.mode != 'sym':
        return fn()
    from symx import qnum
    w, seen = ctx.w, []
    orig = w.decide

    def decide(cond):
        try:
            return orig(cond)
        except (qnum.Undecided, qnum.Infeasible) as e:
            seen.append(e)
            raise
    w.decide = decide
    try:
        r = fn()
    finally:
        del w.decide
    if seen:
        raise seen[0]
    return r


def _pair(ctx, tag, a, b, equal):
    r_ab, r_ba = _compare(ctx, lambda: a == b), _compare(ctx, lambda: b == a)
    n_ab, n_ba = _compare(ctx, lambda: a != b), _compare(ctx, lambda: b != a)
    ctx.check_true(tag + '.returns_bool', all(isinstance(r, bool) for r in (r_ab, r_ba, n_ab, n_ba)))
    ctx.check_true(tag + '.symmetric', r_ab == r_ba and n_ab == n_ba, 'a==b is %r but b==a is %r' % (r_ab, r_ba))
    ctx.check_true(tag + '.ne_is_not_eq', n_ab == (not r_ab) and n_ba == (not r_ba))
    _verdict(ctx, tag + ('.equal' if equal else '.unequal'), r_ab, equal)


def _all_classes():
    return [dict(kind=k, rational=r) for k in ('curve', 'surface', 'volume') for r in (False, True)]


def _all_classes_ids():
    out = [dict(kind=k, rational=r, ident=0) for k in ('curve', 'surface', 'volume') for r in (False, True)]
    out += [dict(kind=k, rational=(i % 2 == 1), ident=i) for k in ('curve', 'surface', 'volume') for i in (1, 2, 3, 4, 5, 6)]
    return out


# ------------------------------------------------------------------------------------------------
@scenario('C19', fns=['abstract.SplineGeometry.__eq__', 'abstract.SplineGeometry.__ne__', 'abstract.GeomdlBase.__deepcopy__',
                      'NURBS.Curve.__deepcopy__', 'NURBS.Surface.__deepcopy__', 'NURBS.Volume.__deepcopy__'],
          quick=_all_classes_ids)
def eq_basic(ctx, kind, rational, ident=0):
    """requires: any valid shape of the class (symbolic knots, control points, positive weights)
       ensures : a == a, not a != a; deepcopy(a) == a (both ways, also after the view caches of a rational a were
                 filled); an independently built shape with the same definition == a"""
    d = _data(ctx, kind, rational)
    a = _obj(ctx, d)
    # optional identity fields are part of "any shape": ids that coincide with a degree or a size must not matter
    a.id = ident
    if ident:
        a.name = 'shape-%d' % ident
    r, n = _compare(ctx, lambda: a == a), _compare(ctx, lambda: a != a)
    ctx.check_true('reflexive.returns_bool', isinstance(r, bool) and isinstance(n, bool))
    _verdict(ctx, 'reflexive.equal', r, True)
    _verdict(ctx, 'reflexive.not_unequal', n, False)
    _pair(ctx, 'deepcopy', a, copy.deepcopy(a), True)
    _pair(ctx, 'rebuilt', a, _obj(ctx, d), True)
    if rational:
        _ = (a.ctrlpts, a.weights)                     # fill the caches of the rational class
    c = copy.deepcopy(a)
    _pair(ctx, 'deepcopy.after_use', a, c, True)
    _pair(ctx, 'rebuilt.after_use', _obj(ctx, d), a, True)
    ctx.check_true('deepcopy.is_new_object', c is not a and type(c) is type(a))


# ------------------------------------------------------------------------------------------------
def _structural():
    out = []
    for r in (False, True):
        out += [dict(diff='kind', kinds=['curve', 'surface'], rational=r), dict(diff='kind', kinds=['curve', 'volume'], rational=r),
                dict(diff='kind', kinds=['surface', 'volume'], rational=r)]
        for k in ('curve', 'surface', 'volume'):
            out += [dict(diff='degree', kinds=[k], rational=r), dict(diff='size', kinds=[k], rational=r),
                    dict(diff='dimension', kinds=[k], rational=r)]
    for k in ('curve', 'surface', 'volume'):
        out.append(dict(diff='rationality', kinds=[k], rational=None))
        # the stored arrays coincide: (x, y, z) of a non-rational shape == (xw, yw, w) of a rational one
        out.append(dict(diff='rationality_same_storage', kinds=[k], rational=None))
    # a curve whose degree / knot vector / points are the leading entries of a surface's (volume's) arrays
    for r in (False, True):
        out += [dict(diff='kind_shared_prefix', kinds=['curve', 'surface'], rational=r),
                dict(diff='kind_shared_prefix', kinds=['surface', 'volume'], rational=r)]
    return out


def _plain(ctx, kind, rational, deg, sizes, dim, tag=''):
    """shape with no interior knots beyond what sizes demand: clamped uniform-free symbolic knots"""
    mult = [[1] * (n - p - 1) for p, n in zip(deg, sizes)]
    return _data(ctx, kind, rational, deg=deg, mult=mult, dim=dim, tag=tag)


@scenario('C19', fns=['abstract.SplineGeometry.__eq__', 'abstract.SplineGeometry.__ne__'], quick=_structural)
def eq_structural(ctx, diff, kinds, rational):
    """ensures: shapes of different parametric kind / rationality / degree / size / spatial dimension are unequal
       (both orders), whatever the numeric data (shared symbols wherever the two layouts allow it)"""
    k0 = kinds[0]
    nd = {'curve': 1, 'surface': 2, 'volume': 3}
    if diff == 'kind':
        a = _obj(ctx, _data(ctx, kinds[0], rational, tag='x'))
        b = _obj(ctx, _data(ctx, kinds[1], rational, tag='y'))
    elif diff == 'rationality':
        d = _data(ctx, k0, False)
        a = _obj(ctx, d)
        dr = dict(d, rational=True, W=[ctx.lit(1)] * len(d['P']))        # same points, unit weights
        b = _obj(ctx, dr)
    elif diff == 'rationality_same_storage':
        d = _data(ctx, k0, True)
        b = _obj(ctx, d)                                               # rational, stores (x*w, y*w, .., w)
        stored = spec.weighted(d['P'], d['W'])
        a = _obj(ctx, dict(d, rational=False, W=None, P=stored))        # non-rational in one more dimension, same numbers
        ctx.check_true('same_storage.differs_in_rationality', a.rational != b.rational and a.pdimension == b.pdimension)
    elif diff == 'kind_shared_prefix':
        # b has one more parametric direction; everything a has is a prefix of what b stores
        nd_a = nd[kinds[0]]
        sizes_b = [3] + [2] * nd_a
        deg_b = [2] + [1] * nd_a
        db = _plain(ctx, kinds[1], rational, deg_b, sizes_b, BASE[kinds[1]]['dim'], tag='y')
        total_a = 1
        for s_ in sizes_b[:nd_a]:
            total_a *= s_
        da = dict(db, kind=kinds[0], deg=deg_b[:nd_a], kvs=db['kvs'][:nd_a], sizes=sizes_b[:nd_a],
                  P=db['P'][:total_a], W=(db['W'][:total_a] if rational else None))
        a, b = _obj(ctx, da), _obj(ctx, db)
        ctx.check_true('shared_prefix.differs_in_kind', a.pdimension != b.pdimension and a.rational == b.rational)
    elif diff == 'degree':
        # same number of control points and the same points, one degree differs (2 vs 1 in the first direction)
        sizes = [3] + [2] * (nd[k0] - 1)
        da = _plain(ctx, k0, rational, [2] + [1] * (nd[k0] - 1), sizes, BASE[k0]['dim'], tag='x')
        db = _plain(ctx, k0, rational, [1] + [1] * (nd[k0] - 1), sizes, BASE[k0]['dim'], tag='y')
        db = dict(db, P=da['P'], W=da['W'])
        a, b = _obj(ctx, da), _obj(ctx, db)
    elif diff == 'size':
        if k0 == 'curve':
            sa, sb = [3], [4]
        elif k0 == 'surface':
            sa, sb = [3, 2], [2, 3]            # same total number of points, transposed sizes
        else:
            sa, sb = [3, 2, 2], [2, 3, 2]
        deg = [1] * nd[k0]
        da = _plain(ctx, k0, rational, deg, sa, BASE[k0]['dim'], tag='x')
        db = _plain(ctx, k0, rational, deg, sb, BASE[k0]['dim'], tag='y')
        if len(da['P']) == len(db['P']):
            db = dict(db, P=da['P'], W=da['W'])
        a, b = _obj(ctx, da), _obj(ctx, db)
    else:  # spatial dimension: the same points with one more coordinate
        d = _data(ctx, k0, rational)
        dim = BASE[k0]['dim']
        a = _obj(ctx, d)
        b = _obj(ctx, dict(d, P=[list(p) + [ctx.lit(0)] for p in d['P']]))
        ctx.check_true('dimension.differs', a.dimension == dim and b.dimension == dim + 1)
    _pair(ctx, diff, a, b, False)


# ------------------------------------------------------------------------------------------------
def _one_component(tier):
    out = []
    for c in _all_classes():
        for comp in ('knot', 'coord', 'end_knot') + (('weight',) if c['rational'] else ()):
            # the statement is one-directional ("equal ONLY IF ... within the tolerance", "changing by MORE than the
            # tolerance makes them unequal"): it does not promise that a sub-tolerance change compares equal, so the
            # `near` case (|eps| < 1e-20 ==> equal) is not an obligation of the check (it would fire on an exact-equality
            # implementation, which satisfies the property); the code path stays available for exploration
            for case in ('far', 'witness'):
                out.append(dict(kind=c['kind'], rational=c['rational'], comp=comp, case=case, full=(tier == 'thorough')))
        # a coordinate / weight of large magnitude changed by far more than the tolerance but little relative to its size
        for comp in ('coord',) + (('weight',) if c['rational'] else ()):
            out.append(dict(kind=c['kind'], rational=c['rational'], comp=comp, case='witness_large', full=False))
    return out


def _positions(n, full):
    return list(range(n)) if full else sorted({0, 1, n // 2, n - 1} & set(range(n)))


@scenario('C19', fns=['abstract.SplineGeometry.__eq__', 'abstract.SplineGeometry.__ne__'], quick=lambda: _one_component('quick'),
          thorough=lambda: _one_component('thorough'))
def one_component(ctx, kind, rational, comp, case, full):
    """requires: a valid shape a; b = a with exactly one component changed by eps (b valid: knots stay sorted,
                 weights stay positive);  far: |eps| > 1/1000,  near: |eps| < 1e-20,
                 witness: eps = 1 (coordinate, weight) or 1/4 (knot)
       ensures : far / witness ==> a != b;  near ==> a == b   (both orders, != consistent), for every position of the
                 changed component: every interior knot of every direction / first, second, middle, last control point
                 (full: every control point) x every homogeneous coordinate / the weights of the same points"""
    d = _data(ctx, kind, rational, symbolic_net=(comp != 'weight'))
    big = None
    if case == 'witness_large':
        big, eps = ctx.lit(10 ** 6), ctx.lit(Fraction(1, 10 ** 4))
    elif case == 'witness':
        eps = ctx.lit(Fraction(1, 4) if comp == 'knot' else 1)
    else:
        eps = ctx.num('eps')
        if case == 'far':
            ctx.assume(ctx.any(ctx.gt(eps, FAR), ctx.lt(eps, -FAR)))
        else:
            ctx.assume(ctx.gt(eps, -NEAR), ctx.lt(eps, NEAR))
    equal = (case == 'near')
    a = _obj(ctx, d)
    if comp == 'end_knot':
        # shapes that keep their knot vectors as given (normalize_kv=False): the first / last knot is lowered / raised
        a = _obj(ctx, d, normalize_kv=False)
        mag = eps if case == 'witness' else ctx.num('mag')
        if case != 'witness':
            ctx.assume(ctx.gt(mag, FAR))
        for dr, U in enumerate(d['kvs']):
            for idx, delta in ((0, -mag), (len(U) - 1, mag)):
                V = list(U)
                V[idx] = U[idx] + delta
                kvs = list(d['kvs'])
                kvs[dr] = V
                _pair(ctx, '%s.end_knot.dir%d[%d]' % (case, dr, idx), a, _obj(ctx, d, kvs=kvs, normalize_kv=False), equal)
    elif comp == 'knot':
        for dr, U in enumerate(d['kvs']):
            p = d['deg'][dr]
            for idx in range(p + 1, len(U) - p - 1):
                V = list(U)
                V[idx] = U[idx] + eps
                ctx.assume(ctx.lt(V[idx - 1], V[idx]), ctx.lt(V[idx], V[idx + 1]))     # b is a valid shape
                kvs = list(d['kvs'])
                kvs[dr] = V
                _pair(ctx, '%s.knot.dir%d[%d]' % (case, dr, idx), a, _obj(ctx, d, kvs=kvs), equal)
    elif comp == 'coord':
        base = spec.weighted(d['P'], d['W']) if rational else [list(p) for p in d['P']]
        for i in _positions(len(base), full):
            for c in range(len(base[0])):
                pts = [list(p) for p in base]
                if big is not None:
                    ref = [list(p) for p in base]
                    ref[i][c] = big
                    a = _obj(ctx, d, pts=ref)
                    pts[i][c] = big
                pts[i][c] = pts[i][c] + eps
                if rational and c == len(base[0]) - 1:
                    ctx.assume(ctx.gt(pts[i][c], 0))
                _pair(ctx, '%s.coord[%d][%d]' % (case, i, c), a, _obj(ctx, d, pts=pts), equal)
    else:
        for i in _positions(len(d['W']), full):
            W = list(d['W'])
            if big is not None:
                W0 = list(d['W'])
                W0[i] = big
                a = _obj(ctx, d, W=W0)
                W[i] = big
            W[i] = W[i] + eps
            ctx.assume(ctx.gt(W[i], 0))
            _pair(ctx, '%s.weight[%d]' % (case, i), a, _obj(ctx, d, W=W), equal)


# ------------------------------------------------------------------------------------------------
def _mixed():
    out = []
    for c in _all_classes():
        for pa, pb in ((18, 2), (3, 6)):
            for comp in ('knot', 'coord'):
                out.append(dict(kind=c['kind'], rational=c['rational'], pa=pa, pb=pb, comp=comp))
    return out


@scenario('C19', fns=['abstract.SplineGeometry.__eq__', 'abstract.SplineGeometry.__ne__'], quick=_mixed)
def symmetric_mixed_precision(ctx, kind, rational, pa, pb, comp):
    """requires: a built with precision=pa, b with precision=pb, b = a with one interior knot / one homogeneous
                 coordinate changed by ANY real eps (b valid)
       ensures : (a == b) == (b == a), (a != b) == (b != a), != is the negation of ==   on every path, i.e. for every
                 size of eps relative to either tolerance"""
    d = _data(ctx, kind, rational)
    eps = ctx.num('eps')
    a = _obj(ctx, d, precision=pa)
    if comp == 'knot':
        dr = 0
        U = d['kvs'][dr]
        idx = d['deg'][dr] + 1
        if idx >= len(U) - d['deg'][dr] - 1:
            ctx.check_true('no_interior_knot', True)
            return
        V = list(U)
        V[idx] = U[idx] + eps
        ctx.assume(ctx.lt(V[idx - 1], V[idx]), ctx.lt(V[idx], V[idx + 1]))
        kvs = list(d['kvs'])
        kvs[dr] = V
        b = _obj(ctx, d, kvs=kvs, precision=pb)
    else:
        base = spec.weighted(d['P'], d['W']) if rational else [list(p) for p in d['P']]
        pts = [list(p) for p in base]
        pts[1][0] = pts[1][0] + eps
        b = _obj(ctx, d, pts=pts, precision=pb)
    r_ab, r_ba = _compare(ctx, lambda: a == b), _compare(ctx, lambda: b == a)
    n_ab, n_ba = _compare(ctx, lambda: a != b), _compare(ctx, lambda: b != a)
    ctx.check_true('mixed.returns_bool', all(isinstance(r, bool) for r in (r_ab, r_ba, n_ab, n_ba)))
    ctx.check('mixed.symmetric', ctx.eq(1 if r_ab else 0, 1 if r_ba else 0), 'a==b is %r but b==a is %r' % (r_ab, r_ba))
    ctx.check('mixed.ne_symmetric', ctx.eq(1 if n_ab else 0, 1 if n_ba else 0), 'a!=b is %r but b!=a is %r' % (n_ab, n_ba))
    ctx.check_true('mixed.ne_is_not_eq', n_ab == (not r_ab) and n_ba == (not r_ba))
