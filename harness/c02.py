"""C02 Derivatives returned are the true derivatives of the shape (bounded tier, Engine B).

Postcondition (property text): for every parameter in the domain the k-th (mixed k,l-th) derivative vectors returned
for any requested order equal the exact derivatives of the position function
    C(u) = sum_i B_i(u) P_i  [ / sum_i B_i(u) w_i ],   S(u,v) tensor product,
for rational shapes too and for orders above the degree (zero for non-rational shapes); all shipped derivative
algorithms (A2.3/A2.5 basis derivatives, A3.2/A3.6/A4.2/A4.4 and A3.3/A3.4/A3.7/A3.8), the hodograph constructors and the
tangent/normal queries agree with these values; normalised tangents/normals have unit length and the normal is orthogonal
to both tangents.  Surface entries SKL[k][l] with k + l > requested order are unconstrained.

Oracle
  sym mode   : spec position function (harness/spec.py) on the path's span, differentiated formally with ctx.diff in the
               symbols 'u' / 'v' (the span is fixed by the path, so this is the derivative from the right at knots).
  float mode : (native replay) the same spec basis evaluated on polynomials with exact Fraction coefficients built from
               the float inputs, Taylor-shifted to the parameter; rational shapes by power-series division.  A replay
               check only fails on a discrepancy > 1e-4 relative, so rounding is never a source of alarms.

Preconditions taken from the code/book rather than invented: helpers.basis_function_ders(_one) are called with
order <= degree (A2.3/A2.5 require n <= p; every evaluator clamps with min(degree, order)); basis_function_ders_one uses
the half-open convention and is therefore stated on [start, end) of the domain; hodograph constructors need degree >= 2
(the library has no degree-0 splines) and a non-rational shape (documented: returns the input with a warning);
normalisation needs a regular point (non-zero derivative / normal: linalg.vector_normalize raises on zero magnitude);
helpers.curve_deriv_cpts over the full range is stated for the derivative curves that exist (order <= p + 1 - largest
interior multiplicity), over the evaluators' sub-range (span-p, span) for every order <= p.

Instances that fail on the pinned tree (both replayed natively, see the report / known_findings proposals):
  surface_derivs[alg=alg2, orders=above_pu], surface_deriv_cpts[orders=above_pu]: A3.7 loop stops at k = du-1, nets
      PKL[du][l>=1] stay None for deriv_order > degree_u -> SurfaceEvaluator2.derivatives raises TypeError;
  hodograph_surface[c0=True]: derivative_surface asks for second-order nets over the full range and divides by a
      zero knot difference when an interior knot has multiplicity = degree."""
from fractions import Fraction

from .api import scenario
from . import shapes, spec, assumptions

assumptions.PROPS['C02'] = {'level': 'other', 'assume': ['A1', 'A2', 'A3', 'A4', 'A5', 'A6']}

REPLAY_RTOL = Fraction(1, 10 ** 4)      # native replay: only a large discrepancy counts


# ------------------------------------------------------------------------------------------------
# comparison helpers (identity in sym mode, loose tolerance in the native replay)
# ------------------------------------------------------------------------------------------------
def _eq(ctx, label, got, want):
    if ctx.mode == 'sym':
        ctx.check_eq(label, got, want)
        return
    g, w = float(got), float(want)
    ok = abs(g - w) <= float(REPLAY_RTOL) * (1 + abs(g) + abs(w))
    ctx.check_true(label, ok, 'native floats: %r != %r' % (g, w))


def _eq_vec(ctx, label, got, want):
    got, want = list(got), list(want)
    if len(got) != len(want):
        ctx.fail(label, 'length %d != %d' % (len(got), len(want)))
    for i, (a, b) in enumerate(zip(got, want)):
        _eq(ctx, '%s[%d]' % (label, i), a, b)


def _sqrt(ctx, x):
    """math.sqrt as the engine models it (A4: algebraic atom s >= 0, s*s == x) / native sqrt in the replay"""
    if ctx.mode == 'sym':
        from symx import qnum
        return qnum.vq_sqrt(x)
    import math
    return math.sqrt(x)


def _dot(a, b):
    s = 0
    for x, y in zip(a, b):
        s = s + x * y
    return s


def _cross(a, b):
    return [a[1] * b[2] - a[2] * b[1], a[2] * b[0] - a[0] * b[2], a[0] * b[1] - a[1] * b[0]]


def _fact(k):
    r = 1
    for i in range(2, k + 1):
        r *= i
    return r


# ------------------------------------------------------------------------------------------------
# float-mode oracle: exact polynomials over Fraction
# ------------------------------------------------------------------------------------------------
class _TP(object):
    """dense univariate polynomial with Fraction coefficients: just enough arithmetic for spec.basis_row"""
    __slots__ = ('c',)

    def __init__(self, c):
        self.c = [Fraction(x) for x in c]

    @staticmethod
    def lift(o):
        return o if isinstance(o, _TP) else _TP([o])

    def __add__(s, o):
        o = _TP.lift(o)
        n = max(len(s.c), len(o.c))
        return _TP([(s.c[i] if i < len(s.c) else 0) + (o.c[i] if i < len(o.c) else 0) for i in range(n)])
    __radd__ = __add__

    def __neg__(s):
        return _TP([-x for x in s.c])

    def __sub__(s, o):
        return s + (-_TP.lift(o))

    def __rsub__(s, o):
        return _TP.lift(o) + (-s)

    def __mul__(s, o):
        o = _TP.lift(o)
        r = [Fraction(0)] * (len(s.c) + len(o.c) - 1)
        for i, a in enumerate(s.c):
            for j, b in enumerate(o.c):
                r[i + j] += a * b
        return _TP(r)
    __rmul__ = __mul__

    def __truediv__(s, o):
        o = Fraction(o)
        return _TP([x / o for x in s.c])

    def taylor(s, x0, K):
        """coefficients of s(x0 + t) in t, orders 0..K"""
        out = []
        for a in range(K + 1):
            t = Fraction(0)
            for m in range(a, len(s.c)):
                t += s.c[m] * spec.binom(m, a) * x0 ** (m - a)
            out.append(t)
        return out


def _fr(x):
    return Fraction(x)


def _basis_taylor(p, U, n, u, K):
    """float mode: (span, {i: Taylor coefficients 0..K of B(i,p) at u}) on the span of u"""
    Uf = [_fr(x) for x in U]
    uf = _fr(u)
    s = spec.span_spec(p, Uf, n, uf)
    row = spec.basis_row(p, Uf, s, _TP([0, 1]))
    return s, dict((i, _TP.lift(row[i]).taylor(uf, K)) for i in range(s - p, s + 1))


# ------------------------------------------------------------------------------------------------
# oracles: derivative tables of the spec position function
# ------------------------------------------------------------------------------------------------
def curve_oracle(ctx, p, U, Pw, u, rational, K):
    """[D^k C(u) for k = 0..K] for the spec curve with (homogeneous) net Pw"""
    if ctx.mode == 'sym':
        c = spec.curve_point(p, U, Pw, u)
        c = spec.project(c) if rational else c
        out = [list(c)]
        for _k in range(K):
            out.append([ctx.diff(x, 'u') for x in out[-1]])
        return out
    n = len(Pw)
    s, tay = _basis_taylor(p, U, n, u, K)
    dim = len(Pw[0])
    A = [[sum(tay[i][a] * _fr(Pw[i][d]) for i in range(s - p, s + 1)) for d in range(dim)] for a in range(K + 1)]
    if rational:
        S = []
        for a in range(K + 1):
            S.append([(A[a][d] - sum(A[i][-1] * S[a - i][d] for i in range(1, a + 1))) / A[0][-1]
                      for d in range(dim - 1)])
        A = S
    return [[float(_fact(a) * x) for x in A[a]] for a in range(K + 1)]


def surface_oracle(ctx, pu, pv, U, V, Pw, su, sv, u, v, rational, K):
    """dict (k, l) -> D^k_u D^l_v S(u,v) for k + l <= K"""
    out = {}
    if ctx.mode == 'sym':
        c = spec.surface_point(pu, pv, U, V, Pw, su, sv, u, v)
        out[(0, 0)] = list(spec.project(c) if rational else c)
        for t in range(1, K + 1):
            for k in range(t + 1):
                l = t - k
                if k > 0:
                    out[(k, l)] = [ctx.diff(x, 'u') for x in out[(k - 1, l)]]
                else:
                    out[(k, l)] = [ctx.diff(x, 'v') for x in out[(k, l - 1)]]
        return out
    a0, tu = _basis_taylor(pu, U, su, u, K)
    b0, tv = _basis_taylor(pv, V, sv, v, K)
    dim = len(Pw[0])
    A = {}
    for k in range(K + 1):
        for l in range(K + 1 - k):
            A[(k, l)] = [sum(tu[i][k] * tv[j][l] * _fr(Pw[j + sv * i][d])
                             for i in range(a0 - pu, a0 + 1) for j in range(b0 - pv, b0 + 1)) for d in range(dim)]
    if rational:
        S = {}
        for t in range(K + 1):
            for k in range(t + 1):
                l = t - k
                S[(k, l)] = [(A[(k, l)][d] - sum(A[(i, j)][-1] * S[(k - i, l - j)][d]
                                                 for i in range(k + 1) for j in range(l + 1) if i + j > 0)) / A[(0, 0)][-1]
                             for d in range(dim - 1)]
        A = S
    for (k, l), vec in A.items():
        out[(k, l)] = [float(_fact(k) * _fact(l) * x) for x in vec]
    return out


def basis_oracle(ctx, p, U, n, u, K):
    """(span, [ {i: D^k B(i,p)(u)} for k = 0..K ]) on the span of u"""
    if ctx.mode == 'sym':
        s = spec.span_spec(p, U, n, u)
        rows = [spec.basis_row(p, U, s, u)]
        for _k in range(K):
            rows.append(dict((i, ctx.diff(x, 'u')) for i, x in rows[-1].items()))
        return s, rows
    s, tay = _basis_taylor(p, U, n, u, K)
    return s, [dict((i, float(_fact(k) * tay[i][k])) for i in tay) for k in range(K + 1)]


def _assume_weight_pos(ctx, q):
    ctx.assume_pos(q, 'L.weight_function_positive')


# ------------------------------------------------------------------------------------------------
# curves
# ------------------------------------------------------------------------------------------------
def _curve_shapes(tier):
    out = []
    pmax, kmax = (3, 2) if tier == 'quick' else (4, 3)
    for p in range(1, pmax + 1):
        for k in range(0, kmax + 1):
            for mult in shapes.compositions(k, p):
                if p >= 4 and len(mult) > 2:
                    continue
                for alg in ('alg1', 'alg2'):
                    out.append(dict(p=p, mult=list(mult), rational=False, alg=alg, clamped=True))
    rat = [(1, []), (1, [1]), (2, []), (2, [1])] if tier == 'quick' else \
        [(1, []), (1, [1]), (1, [1, 1]), (2, []), (2, [1]), (2, [2]), (2, [1, 1]), (3, [])]
    for p, mult in rat:
        out.append(dict(p=p, mult=mult, rational=True, alg='alg1', clamped=True))
    for alg in ('alg1', 'alg2'):
        out.append(dict(p=2, mult=[1], rational=False, alg=alg, clamped=False))
    out.append(dict(p=1, mult=[], rational=True, alg='alg1', clamped=False))
    # the other shipped span search (selected with find_span_func): derivatives at a knot are still taken from the right
    for p, mult in ((1, [1, 1, 1]), (2, [1, 1, 1]), (2, [2]), (3, [1])):
        for alg in ('alg1', 'alg2'):
            out.append(dict(p=p, mult=mult, rational=False, alg=alg, clamped=True, span='binsearch'))
    out.append(dict(p=2, mult=[1], rational=True, alg='alg1', clamped=True, span='binsearch'))
    if tier == 'thorough':
        out.append(dict(p=3, mult=[1], rational=False, alg='alg1', clamped=False))
        out.append(dict(p=3, mult=[1], rational=False, alg='alg2', clamped=False))
    return out


def _curve_setup(ctx, p, mult, rational, clamped=True, dim=2, span=None, normalized=True):
    U, inner, n = shapes.make_kv(ctx, p, mult, clamped=clamped, normalized=clamped and normalized)
    u = shapes.param_in(ctx, 'u', U[p], U[n])
    P = shapes.net(ctx, 'P', n, dim)
    W = shapes.weights(ctx, 'w', n) if rational else None
    span_func = getattr(ctx.geomdl('helpers'), 'find_span_' + span) if span else None
    if span == 'binsearch':
        # tol_separated (A1): find_span_binsearch snaps parameters within 10e-6 of the domain end to the last span
        shapes.separated_knots(ctx, U, Fraction(1, 10 ** 5))
        ctx.assume(ctx.sep(u, U[n], Fraction(1, 10 ** 5)))
    crv = shapes.build_curve(ctx, p, U, P, W, normalize_kv=clamped and normalized, span_func=span_func)
    Pw = shapes.homog(P, W)
    if rational:
        _assume_weight_pos(ctx, spec.curve_point(p, U, [[w] for w in W], u)[0])
    return U, n, u, P, W, Pw, crv


@scenario('C02', fns=['BSpline.Curve.derivatives', 'NURBS.Curve.derivatives', 'evaluators.CurveEvaluator.derivatives',
                      'evaluators.CurveEvaluatorRational.derivatives', 'evaluators.CurveEvaluator2.derivatives',
                      'helpers.basis_function_ders', 'helpers.basis_function_all', 'helpers.curve_deriv_cpts',
                      'helpers.find_span_linear', 'linalg.binomial_coefficient'],
          quick=lambda: _curve_shapes('quick'), thorough=lambda: _curve_shapes('thorough'))
def curve_derivs(ctx, p, mult, rational, alg, clamped, span=None):
    """requires valid knot vector, u in the domain, positive weights.
    ensures for every requested order 0..p+2: derivatives(u, order) has order+1 entries and entry k == D^k C(u)
    (from the right at knots); zero above the degree for non-rational curves.
    alg1 = A3.2 (+A4.2 for rational), alg2 = A3.3/A3.4 (CurveEvaluator2)."""
    U, n, u, P, W, Pw, crv = _curve_setup(ctx, p, mult, rational, clamped, span=span)
    if alg == 'alg2':
        crv.evaluator = ctx.geomdl('evaluators').CurveEvaluator2(**({'find_span_func': crv._span_func} if span else {}))
    K = p + 2
    want = curve_oracle(ctx, p, U, Pw, u, rational, K)
    for order in range(0, K + 1):
        got = crv.derivatives(u, order)
        ctx.check_true('order=%d.count' % order, len(got) == order + 1, 'len=%d' % len(got))
        for k in range(order + 1):
            _eq_vec(ctx, 'order=%d.D%d' % (order, k), got[k], want[k])
            if not rational and k > p:
                _eq_vec(ctx, 'order=%d.D%d.zero_above_degree' % (order, k), got[k], [0] * len(got[k]))


# ------------------------------------------------------------------------------------------------
# surfaces
# ------------------------------------------------------------------------------------------------
def _surface_shapes(tier):
    base = [dict(pu=1, pv=1, mu=[], mv=[1]), dict(pu=2, pv=1, mu=[1], mv=[]), dict(pu=1, pv=2, mu=[], mv=[]),
            dict(pu=2, pv=2, mu=[1], mv=[1])]
    if tier == 'thorough':
        base += [dict(pu=2, pv=2, mu=[2], mv=[]), dict(pu=3, pv=2, mu=[1], mv=[1]), dict(pu=2, pv=3, mu=[], mv=[1]),
                 dict(pu=3, pv=3, mu=[], mv=[1])]
    out = []
    for b in base:
        out.append(dict(b, rational=False, alg='alg1', orders='all'))
        # A3.7/A3.8: split at the u-degree (pinned tree: see DESIGN.md section 11)
        out.append(dict(b, rational=False, alg='alg2', orders='upto_pu'))
        out.append(dict(b, rational=False, alg='alg2', orders='above_pu'))
    # rational: the quotient derivatives grow fast with the order (w^(order+1) denominators in ~2*su*sv symbols)
    rat = [dict(pu=1, pv=1, mu=[], mv=[], orders='all'), dict(pu=1, pv=1, mu=[1], mv=[], orders='all'),
           dict(pu=2, pv=1, mu=[], mv=[], orders='le2')]
    if tier == 'thorough':
        rat += [dict(pu=1, pv=2, mu=[], mv=[], orders='le3'), dict(pu=2, pv=1, mu=[], mv=[], orders='all', symnet=False),
                dict(pu=2, pv=2, mu=[], mv=[], orders='le2'), dict(pu=2, pv=1, mu=[1], mv=[], orders='le2')]
    for b in rat:
        out.append(dict(b, rational=True, alg='alg1'))
    return out


def _const_net(ctx, count, dim):
    """control points with distinct constant coordinates in general position (used where the weights carry the
    symbols: every identity under contract is linear in the control points)"""
    return [[ctx.lit(Fraction((i + 2) * (i + 3 + d) % 11 + 3 * d + 1, 2 + (i + d) % 3)) for d in range(dim)]
            for i in range(count)]


def _surface_setup(ctx, pu, pv, mu, mv, rational, symnet=True, normalized=True):
    U, iu, su = shapes.make_kv(ctx, pu, mu, prefix='a', normalized=normalized)
    V, iv, sv = shapes.make_kv(ctx, pv, mv, prefix='b', normalized=normalized)
    u = shapes.param_in(ctx, 'u', U[0], U[-1])
    v = shapes.param_in(ctx, 'v', V[0], V[-1])
    P = shapes.net(ctx, 'P', su * sv, 3) if symnet else _const_net(ctx, su * sv, 3)
    W = shapes.weights(ctx, 'w', su * sv) if rational else None
    srf = shapes.build_surface(ctx, pu, pv, U, V, P, su, sv, W, normalize_kv=normalized)
    Pw = shapes.homog(P, W)
    if rational:
        _assume_weight_pos(ctx, spec.surface_point(pu, pv, U, V, [[w] for w in W], su, sv, u, v)[0])
    return U, V, su, sv, u, v, P, W, Pw, srf


def _orders(pu, pv, orders):
    top = max(pu, pv) + 2
    if orders == 'all':
        return list(range(0, top + 1))
    if orders == 'upto_pu':
        return list(range(0, pu + 1))
    if orders.startswith('le'):
        return list(range(0, int(orders[2:]) + 1))
    return list(range(pu + 1, top + 1))


@scenario('C02', fns=['BSpline.Surface.derivatives', 'NURBS.Surface.derivatives',
                      'evaluators.SurfaceEvaluator.derivatives', 'evaluators.SurfaceEvaluatorRational.derivatives',
                      'evaluators.SurfaceEvaluator2.derivatives', 'helpers.basis_function_ders',
                      'helpers.basis_function_all', 'helpers.surface_deriv_cpts', 'helpers.curve_deriv_cpts',
                      'linalg.binomial_coefficient'],
          quick=lambda: _surface_shapes('quick'), thorough=lambda: _surface_shapes('thorough'))
def surface_derivs(ctx, pu, pv, mu, mv, rational, alg, orders, symnet=True):
    """ensures for every requested order (0..max(pu,pv)+2, in the stated sub-range): the table has (order+1)^2 entries
    and SKL[k][l] == D^k_u D^l_v S(u,v) for k + l <= order (entries with k + l > order are unconstrained);
    zero above the degree for non-rational surfaces.  alg1 = A3.6 (+A4.4), alg2 = A3.7/A3.8 (SurfaceEvaluator2)."""
    U, V, su, sv, u, v, P, W, Pw, srf = _surface_setup(ctx, pu, pv, mu, mv, rational, symnet)
    if alg == 'alg2':
        srf.evaluator = ctx.geomdl('evaluators').SurfaceEvaluator2()
    olist = _orders(pu, pv, orders)
    want = surface_oracle(ctx, pu, pv, U, V, Pw, su, sv, u, v, rational, max(olist))
    for order in olist:
        got = srf.derivatives(u, v, order)
        ctx.check_true('order=%d.shape' % order, len(got) == order + 1 and all(len(r) == order + 1 for r in got))
        for k in range(order + 1):
            for l in range(order + 1 - k):
                _eq_vec(ctx, 'order=%d.D%d%d' % (order, k, l), got[k][l], want[(k, l)])
                if not rational and (k > pu or l > pv):
                    _eq_vec(ctx, 'order=%d.D%d%d.zero_above_degree' % (order, k, l), got[k][l], [0] * len(got[k][l]))


# ------------------------------------------------------------------------------------------------
# basis function derivatives (A2.3, A2.5)
# ------------------------------------------------------------------------------------------------
def _basis_shapes(tier, pmax_thorough=5):
    out = []
    pmax, kmax = (3, 2) if tier == 'quick' else (pmax_thorough, 3)
    for p in range(1, pmax + 1):
        for k in range(0, kmax + 1):
            for mult in shapes.compositions(k, p):
                if p >= 4 and len(mult) > 2:
                    continue
                out.append(dict(p=p, mult=list(mult)))
    return out


@scenario('C02', fns=['helpers.basis_function_ders', 'helpers.basis_functions_ders', 'helpers.basis_function'],
          quick=lambda: _basis_shapes('quick'), thorough=lambda: _basis_shapes('thorough'))
def basis_ders(ctx, p, mult):
    """requires valid knot vector, u in the closed domain, span = the span of u, order <= p (A2.3).
    ensures ders has order+1 rows of p+1 entries; ders[0] == basis values; sum_r ders[k][r] == 0 for k >= 1;
    ders[k][r] == D^k B(span-p+r, p)(u)."""
    U, inner, n = shapes.make_kv(ctx, p, mult)
    u = shapes.param_in(ctx, 'u', U[0], U[-1])
    hp = ctx.geomdl('helpers')
    span, want = basis_oracle(ctx, p, U, n, u, p)
    vals = hp.basis_function(p, list(U), span, u)
    for order in range(0, p + 1):
        ders = hp.basis_function_ders(p, list(U), span, u, order)
        ctx.check_true('order=%d.shape' % order, len(ders) == order + 1 and all(len(r) == p + 1 for r in ders))
        _eq_vec(ctx, 'order=%d.row0=basis_function' % order, ders[0], vals)
        for k in range(order + 1):
            _eq_vec(ctx, 'order=%d.D%d' % (order, k), ders[k], [want[k][span - p + r] for r in range(p + 1)])
            if k >= 1:
                _eq(ctx, 'order=%d.D%d.sum_zero' % (order, k), sum(ders[k][1:], ders[k][0]), 0)
    both = hp.basis_functions_ders(p, list(U), [span, span], [u, u], p)
    ctx.check_true('list_variant.len', len(both) == 2)
    for k in range(p + 1):
        _eq_vec(ctx, 'list_variant.D%d' % k, both[1][k], [want[k][span - p + r] for r in range(p + 1)])


@scenario('C02', fns=['helpers.basis_function_ders_one', 'helpers.basis_function_ders'],
          quick=lambda: _basis_shapes('quick'), thorough=lambda: _basis_shapes('thorough', 4))   # A2.5 forks on every zero test
def basis_ders_one(ctx, p, mult):
    """requires valid knot vector, u in [start, end) (A2.5 is half-open: right-continuous, 0 at the domain end),
    order <= p.  ensures ders_one(i)[k] == D^k B(i,p)(u) for the p+1 functions alive on the span of u (== the A2.3 row)
    and == 0 for every other i."""
    U, inner, n = shapes.make_kv(ctx, p, mult)
    u = shapes.param_in(ctx, 'u', U[0], U[-1], open_hi=True)
    hp = ctx.geomdl('helpers')
    span, want = basis_oracle(ctx, p, U, n, u, p)
    table = hp.basis_function_ders(p, list(U), span, u, p)
    for i in range(n):
        one = hp.basis_function_ders_one(p, list(U), i, u, p)
        ctx.check_true('i=%d.len' % i, len(one) == p + 1)
        for k in range(p + 1):
            if span - p <= i <= span:
                _eq(ctx, 'i=%d.D%d' % (i, k), one[k], want[k][i])
                _eq(ctx, 'i=%d.D%d=A2.3' % (i, k), one[k], table[k][i - (span - p)])
            else:
                _eq(ctx, 'i=%d.D%d.outside_support' % (i, k), one[k], 0)


# ------------------------------------------------------------------------------------------------
# control points of the derivative curves / surfaces (A3.3, A3.7)
# ------------------------------------------------------------------------------------------------
def _trim(U, k):
    return list(U[k:len(U) - k])


@scenario('C02', fns=['helpers.curve_deriv_cpts'],
          quick=lambda: _basis_shapes('quick'), thorough=lambda: _basis_shapes('thorough'))
def curve_deriv_cpts(ctx, p, mult):
    """ensures PK[k] (full range rs = (0, n-1)) are the control points of the k-th derivative curve: the degree p-k
    B-spline on U[k:-k] with net PK[k][0..n-k-1] evaluates to D^k C(u) -- for every k for which that curve exists
    (k <= p + 1 - largest interior multiplicity: beyond it a basis function of the derivative curve has an empty
    support and A3.3 divides 0 by 0); a sub-range call rs = (span-p, span), the one the evaluators make, is defined
    for every order <= p and returns the matching slice."""
    U, inner, n = shapes.make_kv(ctx, p, mult)
    u = shapes.param_in(ctx, 'u', U[0], U[-1])
    P = shapes.net(ctx, 'P', n, 2)
    hp = ctx.geomdl('helpers')
    want = curve_oracle(ctx, p, U, P, u, False, p)
    dfull = min(p, p + 1 - max(list(mult) + [1]))
    PK = hp.curve_deriv_cpts(2, p, list(U), [list(pt) for pt in P], rs=(0, n - 1), deriv_order=dfull)
    ctx.check_true('levels', len(PK) == dfull + 1)
    for k in range(dfull + 1):
        net_k = [PK[k][i] for i in range(n - k)]
        _eq_vec(ctx, 'PK[%d].evaluates_to_D%d' % (k, k), spec.curve_point(p - k, _trim(U, k), net_k, u), want[k])
    span = spec.span_spec(p, U, n, u)
    for d in range(p + 1):
        sub = hp.curve_deriv_cpts(2, p, list(U), [list(pt) for pt in P], rs=(span - p, span), deriv_order=d)
        ctx.check_true('sub.order=%d.levels' % d, len(sub) == d + 1)
        for k in range(d + 1):
            net_k = [sub[k][i] for i in range(p - k + 1)]
            loc = spec.curve_point(p - k, _trim(U, k)[span - p:span - p + 2 * (p - k) + 2], net_k, u)
            _eq_vec(ctx, 'sub.order=%d.PK[%d].evaluates_to_D%d' % (d, k, k), loc, want[k])
            for i in range(p - k + 1):
                if k <= dfull:
                    _eq_vec(ctx, 'sub.order=%d.PK[%d][%d]=full' % (d, k, i), sub[k][i], PK[k][span - p + i])


def _sdc_shapes(tier):
    base = [dict(pu=1, pv=1, mu=[], mv=[1]), dict(pu=2, pv=1, mu=[1], mv=[]), dict(pu=1, pv=2, mu=[], mv=[]),
            dict(pu=2, pv=2, mu=[1], mv=[1])]
    if tier == 'thorough':
        base += [dict(pu=3, pv=2, mu=[1], mv=[1]), dict(pu=2, pv=3, mu=[], mv=[1])]
    out = []
    for b in base:
        out.append(dict(b, orders='upto_pu'))
        out.append(dict(b, orders='above_pu'))
    return out


@scenario('C02', fns=['helpers.surface_deriv_cpts', 'helpers.curve_deriv_cpts'],
          quick=lambda: _sdc_shapes('quick'), thorough=lambda: _sdc_shapes('thorough'))
def surface_deriv_cpts(ctx, pu, pv, mu, mv, orders):
    """ensures for every deriv_order d in the stated sub-range and every k <= min(d,pu), l <= min(d,pv), k + l <= d:
    PKL[k][l] is defined and is the net of D^k_u D^l_v S: the degree (pu-k, pv-l) tensor-product B-spline on
    (U[k:-k], V[l:-l]) with that net evaluates to the exact mixed derivative."""
    U, V, su, sv, u, v, P, W, Pw, srf = _surface_setup(ctx, pu, pv, mu, mv, False)
    hp = ctx.geomdl('helpers')
    olist = _orders(pu, pv, orders)
    want = surface_oracle(ctx, pu, pv, U, V, P, su, sv, u, v, False, max(olist))
    for d in olist:
        PKL = hp.surface_deriv_cpts(3, (pu, pv), (list(U), list(V)), [list(pt) for pt in P], (su, sv),
                                    rs=(0, su - 1), ss=(0, sv - 1), deriv_order=d)
        for k in range(min(d, pu) + 1):
            for l in range(min(d - k, pv) + 1):
                flat = []
                for i in range(su - k):
                    for j in range(sv - l):
                        flat.append(PKL[k][l][i][j])
                ctx.check_true('order=%d.PKL[%d][%d].defined' % (d, k, l),
                               all(pt is not None and all(c is not None for c in pt) for pt in flat),
                               'control points of the (%d,%d) derivative surface were left unset (None)' % (k, l))
                got = spec.surface_point(pu - k, pv - l, _trim(U, k), _trim(V, l), flat, su - k, sv - l, u, v)
                _eq_vec(ctx, 'order=%d.PKL[%d][%d].evaluates_to_D%d%d' % (d, k, l, k, l), got, want[(k, l)])


# ------------------------------------------------------------------------------------------------
# hodograph constructors
# ------------------------------------------------------------------------------------------------
def _hodo_curve_shapes(tier):
    out = []
    pmax, kmax = (3, 2) if tier == 'quick' else (4, 3)
    for p in range(2, pmax + 1):
        for k in range(0, kmax + 1):
            for mult in shapes.compositions(k, p):
                if p >= 4 and len(mult) > 2:
                    continue
                out.append(dict(p=p, mult=list(mult)))
    # shapes that keep their knot vector as given (normalize_kv=False, symbolic range): the hodograph lives on the same domain
    out += [dict(p=2, mult=[1], normalized=False), dict(p=3, mult=[1, 1], normalized=False)]
    # an unclamped knot vector on [0, 1] of a shape built with the default options (normalize_kv=True)
    out += [dict(p=2, mult=[1], unclamped01=True), dict(p=3, mult=[], unclamped01=True)]
    return out


@scenario('C02', fns=['operations.derivative_curve', 'helpers.curve_deriv_cpts', 'BSpline.Curve.evaluate_single',
                      'BSpline.Curve.derivatives'],
          quick=lambda: _hodo_curve_shapes('quick'), thorough=lambda: _hodo_curve_shapes('thorough'))
def hodograph_curve(ctx, p, mult, normalized=True, unclamped01=False):
    """requires non-rational curve of degree >= 2.  ensures the derivative curve has degree p-1, n-1 control points,
    and evaluates to D C(u) (its own j-th derivative to D^(j+1) C(u)); the input curve is left unchanged."""
    if unclamped01:
        U, inner, n = shapes.make_kv(ctx, p, mult, clamped=False, normalized=False)
        U[0], U[-1] = ctx.lit(0), ctx.lit(1)          # already normalised: the knot vector setter leaves it as it is
        ctx.assume(ctx.lt(U[0], U[1]), ctx.lt(U[-2], U[-1]))
        u = shapes.param_in(ctx, 'u', U[p], U[n])
        P = shapes.net(ctx, 'P', n, 2)
        W, Pw = None, shapes.homog(P, None)
        crv = shapes.build_curve(ctx, p, U, P, None, normalize_kv=True)
        _eq_vec(ctx, 'setup.kv_kept', crv.knotvector, U)
    else:
        U, n, u, P, W, Pw, crv = _curve_setup(ctx, p, mult, False, normalized=normalized)
    want = curve_oracle(ctx, p, U, Pw, u, False, p + 1)
    dcrv = ctx.geomdl('operations').derivative_curve(crv)
    ctx.check_true('degree', dcrv.degree == p - 1)
    ctx.check_true('size', len(dcrv.ctrlpts) == n - 1)
    _eq_vec(ctx, 'kv', dcrv.knotvector, _trim(U, 1))
    _eq_vec(ctx, 'evaluate=D1', dcrv.evaluate_single(u), want[1])
    ders = dcrv.derivatives(u, p)
    for j in range(p + 1):
        _eq_vec(ctx, 'derivatives[%d]=D%d' % (j, j + 1), ders[j], want[j + 1])
    _eq_vec(ctx, 'input.unchanged', crv.evaluate_single(u), want[0])


def _hodo_surface_shapes(tier):
    out = [dict(pu=2, pv=2, mu=[], mv=[]), dict(pu=2, pv=2, mu=[1], mv=[1]), dict(pu=2, pv=2, mu=[2], mv=[])]
    if tier == 'thorough':
        out += [dict(pu=2, pv=2, mu=[1], mv=[2]), dict(pu=3, pv=2, mu=[1], mv=[]), dict(pu=2, pv=3, mu=[1], mv=[1]),
                dict(pu=3, pv=3, mu=[], mv=[1]), dict(pu=3, pv=2, mu=[2], mv=[]), dict(pu=3, pv=3, mu=[3], mv=[])]
    for b in out:
        # an interior knot of full multiplicity (= degree, a C0 line) in either direction: still a valid surface
        b['c0'] = any(m == b['pu'] for m in b['mu']) or any(m == b['pv'] for m in b['mv'])
    out.append(dict(pu=2, pv=2, mu=[1], mv=[], c0=False, normalized=False))        # normalize_kv=False, symbolic ranges
    out.append(dict(pu=2, pv=2, mu=[], mv=[1], c0=False, unclamped01=True))         # unclamped on [0, 1], default options
    return out


@scenario('C02', fns=['operations.derivative_surface', 'helpers.surface_deriv_cpts', 'BSpline.Surface.evaluate_single',
                      'BSpline.Surface.ctrlpts2d'],
          quick=lambda: _hodo_surface_shapes('quick'), thorough=lambda: _hodo_surface_shapes('thorough'))
def hodograph_surface(ctx, pu, pv, mu, mv, c0, normalized=True, unclamped01=False):
    """requires non-rational surface of degrees >= 2.  ensures the three derivative surfaces evaluate to
    D_u S, D_v S and D_u D_v S, with degrees and sizes reduced in the differentiated directions only."""
    if unclamped01:
        U, _iu, su = shapes.make_kv(ctx, pu, mu, prefix='a', clamped=False, normalized=False)
        V, _iv, sv = shapes.make_kv(ctx, pv, mv, prefix='b', clamped=False, normalized=False)
        for K in (U, V):
            K[0], K[-1] = ctx.lit(0), ctx.lit(1)
            ctx.assume(ctx.lt(K[0], K[1]), ctx.lt(K[-2], K[-1]))
        u = shapes.param_in(ctx, 'u', U[pu], U[su])
        v = shapes.param_in(ctx, 'v', V[pv], V[sv])
        P = shapes.net(ctx, 'P', su * sv, 3)
        W, Pw = None, shapes.homog(P, None)
        srf = shapes.build_surface(ctx, pu, pv, U, V, P, su, sv, None, normalize_kv=True)
    else:
        U, V, su, sv, u, v, P, W, Pw, srf = _surface_setup(ctx, pu, pv, mu, mv, False, normalized=normalized)
    want = surface_oracle(ctx, pu, pv, U, V, Pw, su, sv, u, v, False, 2)
    s_u, s_v, s_uv = ctx.geomdl('operations').derivative_surface(srf)
    ctx.check_true('du.degrees', (s_u.degree_u, s_u.degree_v) == (pu - 1, pv))
    ctx.check_true('dv.degrees', (s_v.degree_u, s_v.degree_v) == (pu, pv - 1))
    ctx.check_true('duv.degrees', (s_uv.degree_u, s_uv.degree_v) == (pu - 1, pv - 1))
    ctx.check_true('du.size', (s_u.ctrlpts_size_u, s_u.ctrlpts_size_v) == (su - 1, sv))
    ctx.check_true('dv.size', (s_v.ctrlpts_size_u, s_v.ctrlpts_size_v) == (su, sv - 1))
    ctx.check_true('duv.size', (s_uv.ctrlpts_size_u, s_uv.ctrlpts_size_v) == (su - 1, sv - 1))
    _eq_vec(ctx, 'du.evaluate=D10', s_u.evaluate_single([u, v]), want[(1, 0)])
    _eq_vec(ctx, 'dv.evaluate=D01', s_v.evaluate_single([u, v]), want[(0, 1)])
    _eq_vec(ctx, 'duv.evaluate=D11', s_uv.evaluate_single([u, v]), want[(1, 1)])
    _eq_vec(ctx, 'input.unchanged', srf.evaluate_single([u, v]), want[(0, 0)])


# ------------------------------------------------------------------------------------------------
# tangent / normal queries
# ------------------------------------------------------------------------------------------------
def _unit_checks(ctx, label, unit, raw):
    """unit == raw / |raw| : unit length, and unit * |raw| == raw (|raw| through the sqrt contract A4)"""
    _eq(ctx, label + '.unit_length', _dot(unit, unit), 1)
    mag = _sqrt(ctx, _dot(raw, raw))
    _eq_vec(ctx, label + '.direction', [c * mag for c in unit], raw)


def _regular(ctx, vec):
    """precondition of normalisation: the vector is not the zero vector, |vec|^2 != 0.
    Given to the solver in division-free form together with the fact |vec|^2 >= 0 (a sum of squares of reals, A1) in
    exactly the shape of the domain test that math.sqrt makes on this path, so that test is settled by the asserted
    fact instead of a nonlinear search."""
    ss = _dot(vec, vec)
    if ctx.mode == 'sym':
        ctx.assume(ctx.sign_free_le(0, ss))                 # sum of squares
        ctx.assume(ctx.not_(ctx.sign_free_le(ss, 0)))       # regular point
    else:
        ctx.assume(ss > 0)


def _tan_curve_shapes(tier):
    out = [dict(p=1, mult=[1], rational=False, dim=2), dict(p=2, mult=[1], rational=False, dim=2),
           dict(p=2, mult=[], rational=False, dim=3), dict(p=3, mult=[2], rational=False, dim=2),
           dict(p=1, mult=[], rational=True, dim=2), dict(p=2, mult=[], rational=True, dim=2)]
    if tier == 'thorough':
        out += [dict(p=3, mult=[1, 1], rational=False, dim=3), dict(p=2, mult=[1], rational=True, dim=2),
                dict(p=4, mult=[1], rational=False, dim=2)]
    return out


@scenario('C02', fns=['operations.tangent', '_operations.tangent_curve_single', '_operations.tangent_curve_single_list',
                      'linalg.vector_normalize', 'linalg.vector_magnitude', 'BSpline.Curve.derivatives'],
          quick=lambda: _tan_curve_shapes('quick'), thorough=lambda: _tan_curve_shapes('thorough'))
def tangent_curve(ctx, p, mult, rational, dim):
    """ensures tangent(normalize=False) == (C(u), D C(u)) (single parameter and list form);
    requires D C(u) != 0: tangent(normalize=True) has unit length and equals D C(u) / |D C(u)|."""
    U, n, u, P, W, Pw, crv = _curve_setup(ctx, p, mult, rational, dim=dim)
    ops = ctx.geomdl('operations')
    want = curve_oracle(ctx, p, U, Pw, u, rational, 1)
    pt, vec = ops.tangent(crv, u, normalize=False)
    _eq_vec(ctx, 'raw.point', pt, want[0])
    _eq_vec(ctx, 'raw.vector=D1', vec, want[1])
    lst = ops.tangent(crv, [u, U[p]], normalize=False)
    ctx.check_true('list.len', len(lst) == 2)
    _eq_vec(ctx, 'list[0].point', lst[0][0], want[0])
    _eq_vec(ctx, 'list[0].vector=D1', lst[0][1], want[1])
    _regular(ctx, vec)
    pt1, unit = ops.tangent(crv, u)
    _eq_vec(ctx, 'unit.point', pt1, want[0])
    _unit_checks(ctx, 'unit', unit, vec)
    lst1 = ops.tangent(crv, [u])
    ctx.check_true('unit.list.len', len(lst1) == 1 and len(lst1[0]) == 2)
    _eq_vec(ctx, 'unit.list[0].vector=single_form', lst1[0][1], unit)


def _tan_surface_shapes(tier):
    # the solver has to find a model of the path once per sqrt atom (nonlinear): rational / larger shapes carry the
    # symbols in knots, parameters and weights and use a constant control net in general position
    out = [dict(pu=1, pv=1, mu=[], mv=[], rational=False, symnet=True),
           dict(pu=2, pv=1, mu=[1], mv=[], rational=False, symnet=False),
           dict(pu=1, pv=1, mu=[], mv=[], rational=True, symnet=False)]
    if tier == 'thorough':
        out += [dict(pu=2, pv=1, mu=[1], mv=[], rational=False, symnet=True),
                dict(pu=2, pv=2, mu=[], mv=[1], rational=False, symnet=False),
                dict(pu=3, pv=2, mu=[], mv=[], rational=False, symnet=False),
                ]
        # (rational shapes with a symbolic net, and rational pu=2, pv=1, were dropped: a branch condition on sqrt atoms times out in the solver under load)
    return out


@scenario('C02', fns=['operations.tangent', '_operations.tangent_surface_single',
                      '_operations.tangent_surface_single_list', 'linalg.vector_normalize', 'linalg.vector_magnitude',
                      'BSpline.Surface.derivatives', 'NURBS.Surface.derivatives'],
          quick=lambda: _tan_surface_shapes('quick'), thorough=lambda: _tan_surface_shapes('thorough'))
def tangent_surface(ctx, pu, pv, mu, mv, rational, symnet):
    """ensures tangent(normalize=False) == (S, D_u S, D_v S) (single pair and list form);
    requires D_u S != 0 and D_v S != 0: the normalised tangents have unit length and equal D S / |D S|."""
    U, V, su, sv, u, v, P, W, Pw, srf = _surface_setup(ctx, pu, pv, mu, mv, rational, symnet)
    ops = ctx.geomdl('operations')
    want = surface_oracle(ctx, pu, pv, U, V, Pw, su, sv, u, v, rational, 1)
    pt, tu, tv = ops.tangent(srf, [u, v], normalize=False)
    _eq_vec(ctx, 'raw.point', pt, want[(0, 0)])
    _eq_vec(ctx, 'raw.tangent_u=D10', tu, want[(1, 0)])
    _eq_vec(ctx, 'raw.tangent_v=D01', tv, want[(0, 1)])
    lst = ops.tangent(srf, [[u, v]], normalize=False)
    ctx.check_true('list.len', len(lst) == 1 and len(lst[0]) == 3)
    _eq_vec(ctx, 'list[0].point', lst[0][0], want[(0, 0)])
    _eq_vec(ctx, 'list[0].tangent_u=D10', lst[0][1], want[(1, 0)])
    _eq_vec(ctx, 'list[0].tangent_v=D01', lst[0][2], want[(0, 1)])
    _regular(ctx, tu)
    _regular(ctx, tv)
    pt1, utu, utv = ops.tangent(srf, [u, v])
    _eq_vec(ctx, 'unit.point', pt1, want[(0, 0)])
    _unit_checks(ctx, 'unit.tangent_u', utu, tu)
    _unit_checks(ctx, 'unit.tangent_v', utv, tv)
    lst1 = ops.tangent(srf, [[u, v]])
    ctx.check_true('unit.list.len', len(lst1) == 1 and len(lst1[0]) == 3)
    _eq_vec(ctx, 'unit.list[0].tangent_u=single_form', lst1[0][1], utu)
    _eq_vec(ctx, 'unit.list[0].tangent_v=single_form', lst1[0][2], utv)


@scenario('C02', fns=['operations.normal', '_operations.normal_surface_single',
                      '_operations.normal_surface_single_list', 'linalg.vector_cross', 'linalg.vector_normalize',
                      'linalg.vector_magnitude', 'BSpline.Surface.derivatives', 'NURBS.Surface.derivatives'],
          quick=lambda: _tan_surface_shapes('quick'), thorough=lambda: _tan_surface_shapes('thorough'))
def normal_surface(ctx, pu, pv, mu, mv, rational, symnet):
    """ensures normal(normalize=False) == D_u S x D_v S and is orthogonal to both tangents (single pair and list form);
    requires D_u S x D_v S != 0: the normalised normal has unit length, keeps the direction and is orthogonal to both
    tangents D_u S, D_v S."""
    U, V, su, sv, u, v, P, W, Pw, srf = _surface_setup(ctx, pu, pv, mu, mv, rational, symnet)
    ops = ctx.geomdl('operations')
    want = surface_oracle(ctx, pu, pv, U, V, Pw, su, sv, u, v, rational, 1)
    tu, tv = want[(1, 0)], want[(0, 1)]
    npt, nrm = ops.normal(srf, [u, v], normalize=False)
    _eq_vec(ctx, 'raw.point', npt, want[(0, 0)])
    _eq_vec(ctx, 'raw.normal=D10xD01', nrm, _cross(tu, tv))
    _eq(ctx, 'raw.normal.orthogonal_to_tangent_u', _dot(nrm, tu), 0)
    _eq(ctx, 'raw.normal.orthogonal_to_tangent_v', _dot(nrm, tv), 0)
    nl = ops.normal(srf, [[u, v]], normalize=False)
    ctx.check_true('list.len', len(nl) == 1 and len(nl[0]) == 2)
    _eq_vec(ctx, 'list[0].point', nl[0][0], want[(0, 0)])
    _eq_vec(ctx, 'list[0].normal=D10xD01', nl[0][1], _cross(tu, tv))
    _regular(ctx, nrm)
    npt1, un = ops.normal(srf, [u, v])
    _eq_vec(ctx, 'unit.point', npt1, want[(0, 0)])
    _unit_checks(ctx, 'unit.normal', un, nrm)
    _eq(ctx, 'unit.normal.orthogonal_to_tangent_u', _dot(un, tu), 0)
    _eq(ctx, 'unit.normal.orthogonal_to_tangent_v', _dot(un, tv), 0)
    # the list form with the default normalize=True is its own code path
    nl1 = ops.normal(srf, [[u, v]])
    ctx.check_true('unit.list.len', len(nl1) == 1 and len(nl1[0]) == 2)
    _eq_vec(ctx, 'unit.list[0].point', nl1[0][0], want[(0, 0)])
    _eq_vec(ctx, 'unit.list[0].normal=single_form', nl1[0][1], un)
