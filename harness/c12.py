"""C12 No stale derived state after any sequence of edits; deep copies are independent (bounded tier, Engine B).

Method: class-invariant induction -- unbounded in the history, bounded in the shape.

  fresh(o)   a newly constructed object of o's class built *only* from o's definition (class, normalize_kv flag,
             degrees, knot vectors, homogeneous control points + sizes, evaluation delta, evaluator / tessellator kind;
             for a container: class, delta and fresh(e) of every element) through the public setters.
  Inv(o)     every public derived view of o equals the same view of fresh(o):
             ctrlpts / weights / ctrlptsw (unweighted points and weights), ctrlpts2d (surfaces), sizes, dimension,
             sample_size, evalpts, bbox, tessellation vertices (id, uv, data) and faces (id, vertex ids) for surfaces;
             containers: len, dimension, delta, sample_size, evalpts, bbox, vertices / faces, and Inv(e) of every element.

  mutator_preserves_inv   {Inv(o), caches of o in state s}  m(o)  {Inv(o)}
             for one public mutator m per instance (arguments symbolic where that is cheap) and the two extreme cache
             states  s = 'empty' (nothing read since construction)  and  s = 'filled' (every lazily filled view read
             once -- and Inv re-checked after those reads, so "a getter only fills its own cache" is part of the state).
  readers_preserve_inv    {Inv(o)} read every view in one order, again in the other order {Inv(o), same values}.

Every object starts in Inv (it *is* fresh).  Readers keep Inv, and every mutator re-establishes Inv from every cache
state, therefore by induction over the history Inv holds after EVERY finite sequence of public mutators and readers
interleaved in any order -- which is the statement of the property.  (The cache states "some views read" lie between
the two extremes: each cache is an independent lazily filled slot that a mutator either clears or leaves alone, so a
slot handled correctly when filled and when empty is handled correctly in every mixture.)
What is bounded: one small shape per class (BSpline / NURBS curves in 2-D and 3-D, surfaces, volumes; the three
containers with one non-rational and one rational element) with one symbolic coordinate per control point (assumed
strictly increasing along the flat index and across the nets of a run, so that the comparisons inside the
bounding-box getters are decided instead of forking n^2 ways), concrete pairwise distinct weights, concrete knots
except where the mutator makes one symbolic.

  deepcopy_independent    b = copy.deepcopy(a): b agrees with a on every view, a and b share no mutable container
             (walk of both object graphs: lists / dicts / sets, i.e. _control_points, _knot_vector, caches, tessellator
             state ...), and after mutating one of them every view of the other is unchanged (both directions).

Notes on single mutators
  * `degree`: a degree edit alone leaves a definition no constructor accepts (len(kv) = n + p + 1); the instance is
    the pair "set the degree, set the matching knot vector" with no read in between.
  * `evaluator`: swapped for the other evaluator of the same rationality (CurveEvaluator2 / SurfaceEvaluator2, a new
    instance for rational shapes and volumes); a rational evaluator on a non-rational shape is not an edit the
    property lists.
  * `remove_knot`: the pre-state is built by inserting the knot first, so that it is exactly removable (no
    tolerance test on a square root of symbols).
  * tessellation views are compared for 3-D surfaces only (elements.Vertex stores exactly three components).
  * insert / remove / refine / rotate produce control points that are linear combinations (or carry cos/sin atoms):
    in sym mode the bounding box of the mutated object is read only when its cache is non-empty (see _inv); an
    empty cache is recomputed by the getter from the `ctrlpts` view, which is compared.  Native replays read it always.
  * shape-preserving edits (knot insertion / refinement, evaluator or tessellator swap, re-normalised knot vectors)
    cannot expose a stale `evalpts` by construction: the stale value equals the fresh one.  The samples are chosen so
    that every other edit changes every view that depends on it (u = 1/2 is not a knot of the volumes, the degree
    edit changes C(1/2), ...).

Defects of the pinned tree found with these checks (all replayed natively): NURBS.Curve.reverse keeps the
ctrlpts/weights caches; deep copies of containers lose their cache keys (KeyError on evalpts); in-place
translate/rotate/scale of a container and the directional delta_*/sample_size_* setters of Surface/VolumeContainer leave
the container's evalpts cache stale; SurfaceContainer.tessellate renumbers the vertices of its element surfaces.
"""
from fractions import Fraction
import copy
import types

from .api import scenario, CheckFailed, Skip
from . import shapes, assumptions

assumptions.PROPS['C12'] = {'level': 'other', 'assume': ['A1', 'A4', 'A5', 'A6']}

H = Fraction(1, 2)
T = Fraction(1, 3)
KV2 = (0, 0, 0, H, 1, 1, 1)          # degree 2, 4 control points
KV2U = (0, 0, 0, 1, 2, 2, 2)         # the same on [0, 2] (normalize_kv=False)
KV1 = (0, 0, 1, 1)                   # degree 1, 2 control points
KV1i = (0, 0, T, 1, 1)               # degree 1, 3 control points (the sample u = 1/2 is not a knot)

KINDS = {
    'BC2': dict(mod='BSpline', geo='Curve', rat=False, dim=2, deg=(2,), kv=(KV2,), size=(4,), sample=(3,)),
    'NC2': dict(mod='NURBS', geo='Curve', rat=True, dim=2, deg=(2,), kv=(KV2,), size=(4,), sample=(3,)),
    'BC3': dict(mod='BSpline', geo='Curve', rat=False, dim=3, deg=(2,), kv=(KV2,), size=(4,), sample=(3,)),
    'NC3': dict(mod='NURBS', geo='Curve', rat=True, dim=3, deg=(2,), kv=(KV2,), size=(4,), sample=(3,)),
    'BS': dict(mod='BSpline', geo='Surface', rat=False, dim=3, deg=(2, 1), kv=(KV2, KV1), size=(4, 2), sample=(3, 2)),
    'NS': dict(mod='NURBS', geo='Surface', rat=True, dim=3, deg=(2, 1), kv=(KV2, KV1), size=(4, 2), sample=(3, 2)),
    'BV': dict(mod='BSpline', geo='Volume', rat=False, dim=3, deg=(1, 1, 1), kv=(KV1i, KV1, KV1), size=(3, 2, 2),
               sample=(3, 2, 2)),
    'NV': dict(mod='NURBS', geo='Volume', rat=True, dim=3, deg=(1, 1, 1), kv=(KV1i, KV1, KV1), size=(3, 2, 2),
               sample=(3, 2, 2)),
    # thorough only: knot vectors that are not normalised
    'BC2u': dict(mod='BSpline', geo='Curve', rat=False, dim=2, deg=(2,), kv=(KV2U,), size=(4,), sample=(3,),
                 normalize=False),
    'NC2u': dict(mod='NURBS', geo='Curve', rat=True, dim=2, deg=(2,), kv=(KV2U,), size=(4,), sample=(3,),
                 normalize=False),
    # containers (a container with sample size n gives delta 1/(n-1) to its elements, i.e. n-1 points per direction)
    'CC': dict(mod='multi', geo='CurveContainer', elems=('BC2', 'NC2'), extra='BC2', sample=(4,)),
    'SC': dict(mod='multi', geo='SurfaceContainer', elems=('BS', 'NS'), extra='BS', sample=(3, 3)),
    'VC': dict(mod='multi', geo='VolumeContainer', elems=('BV', 'NV'), extra='BV', sample=(3, 3, 3)),
}
CONTAINERS = ('CC', 'SC', 'VC')
SPLINES = ('BC2', 'NC2', 'BC3', 'NC3', 'BS', 'NS', 'BV', 'NV')
UNNORMALISED = ('BC2u', 'NC2u')


# ------------------------------------------------------------------------------------------------
# numbers, nets, weights
# ------------------------------------------------------------------------------------------------
def _isnum(x):
    if isinstance(x, bool):
        return False
    return isinstance(x, (int, float, Fraction)) or type(x).__name__ == 'Q'


def _lits(ctx, seq):
    return [ctx.lit(x) for x in seq]


def _net(ctx, prefix, count, dim):
    """shapes.net + strictly increasing symbolic coordinates, also across the nets of one scenario run (decides the
    comparisons of the bounding-box getters: they would fork n^2 ways otherwise)"""
    P = shapes.net(ctx, prefix, count, dim)
    chain = [p[0] for p in P]
    last = getattr(ctx, '_c12_last', None)
    if last is not None:
        chain = [last] + chain
    for a, b in zip(chain, chain[1:]):
        ctx.assume(ctx.lt(a, b))
    ctx._c12_last = chain[-1]
    return P


def _wts(ctx, count, salt=0):
    """concrete, pairwise distinct, positive weights"""
    return [ctx.lit(Fraction(2 + i + 3 * salt, 2 + salt)) for i in range(count)]


def _count(size):
    n = 1
    for s in size:
        n *= s
    return n


# ------------------------------------------------------------------------------------------------
# definition  <->  object (only public setters)
# ------------------------------------------------------------------------------------------------
def _make(ctx, d):
    """build an object from a definition through the public setters"""
    o = d['cls'](normalize_kv=d['normalize'])
    pts = [list(p) for p in d['pts']]
    deg, kv, size, delta = d['deg'], d['kv'], d['size'], d['delta']
    pd = len(deg)
    if pd == 1:
        o.degree = deg[0]
        o.set_ctrlpts(pts)
        o.knotvector = list(kv[0])
        o.delta = delta[0]
    elif pd == 2:
        o.degree_u, o.degree_v = deg
        o.set_ctrlpts(pts, size[0], size[1])
        o.knotvector_u = list(kv[0])
        o.knotvector_v = list(kv[1])
        o.delta = (delta[0], delta[1])
    else:
        o.degree_u, o.degree_v, o.degree_w = deg
        o.set_ctrlpts(pts, size[0], size[1], size[2])
        o.knotvector_u = list(kv[0])
        o.knotvector_v = list(kv[1])
        o.knotvector_w = list(kv[2])
        o.delta = (delta[0], delta[1], delta[2])
    o.evaluator = d['evaluator']()
    if d.get('tessellator') is not None:
        o.tessellator = d['tessellator']()
    return o


def _definition(o):
    """the definition of a spline object, read through the public (uncached) accessors"""
    pd = o.pdimension
    if pd == 1:
        deg, kv, size, delta = [o.degree], [list(o.knotvector)], [o.ctrlpts_size], [o.delta]
    elif pd == 2:
        deg, kv = [o.degree_u, o.degree_v], [list(o.knotvector_u), list(o.knotvector_v)]
        size, delta = [o.ctrlpts_size_u, o.ctrlpts_size_v], [o.delta_u, o.delta_v]
    else:
        deg = [o.degree_u, o.degree_v, o.degree_w]
        kv = [list(o.knotvector_u), list(o.knotvector_v), list(o.knotvector_w)]
        size = [o.ctrlpts_size_u, o.ctrlpts_size_v, o.ctrlpts_size_w]
        delta = [o.delta_u, o.delta_v, o.delta_w]
    pts = o.ctrlptsw if o.rational else o.ctrlpts
    d = dict(cls=type(o), normalize=o._kv_normalize, deg=deg, kv=kv, size=size, delta=delta,
             pts=[list(p) for p in pts], evaluator=type(o.evaluator), tessellator=None)
    if pd == 2 and o.tessellator is not None:
        d['tessellator'] = type(o.tessellator)
    return d


def _is_container(o):
    return hasattr(o, '_elements')


def _fresh(ctx, o):
    if _is_container(o):
        c = type(o)()
        for e in o:
            c.add(_fresh(ctx, e))
        c.delta = o.delta if o.pdimension == 1 else list(o.delta)
        return c
    return _make(ctx, _definition(o))


def _inner(kv):
    return [k for k in kv if k != kv[0] and k != kv[-1]]


def _spline(ctx, kname, prefix='P', salt=0, drop_knot=False):
    """the small shape of a class; drop_knot: without the interior knot of the u-direction (one point less)"""
    K = KINDS[kname]
    size, kv = list(K['size']), [list(k) for k in K['kv']]
    if drop_knot:
        size[0] -= len(_inner(kv[0]))
        kv[0] = [k for k in kv[0] if k not in _inner(kv[0])]
    n = _count(size)
    P = _net(ctx, prefix, n, K['dim'])
    W = _wts(ctx, n, salt) if K['rat'] else None
    cls = getattr(ctx.geomdl(K['mod']), K['geo'])
    probe = cls()
    d = dict(cls=cls, normalize=K.get('normalize', True), deg=list(K['deg']), kv=[_lits(ctx, k) for k in kv], size=size,
             delta=[ctx.lit(Fraction(1, s)) for s in K['sample']], pts=shapes.homog(P, W),
             evaluator=type(probe.evaluator), tessellator=None)
    if len(size) == 2:
        d['tessellator'] = type(probe.tessellator)
    return _make(ctx, d)


def _container(ctx, kname):
    K = KINDS[kname]
    c = getattr(ctx.geomdl('multi'), K['geo'])()
    for i, ek in enumerate(K['elems']):
        c.add(_spline(ctx, ek, prefix='PQRS'[i], salt=i))
    c.sample_size = K['sample'][0] if len(K['sample']) == 1 else list(K['sample'])
    return c


def _build(ctx, kname, drop_knot=False):
    if kname in CONTAINERS:
        return _container(ctx, kname)
    return _spline(ctx, kname, drop_knot=drop_knot)


# ------------------------------------------------------------------------------------------------
# views, snapshots, comparison
# ------------------------------------------------------------------------------------------------
def _snap(x):
    if isinstance(x, (list, tuple)):
        return [_snap(y) for y in x]
    return x


def _views(ctx, o, order='fwd', skip=()):
    """every public derived view, read in the given order; returns [(name, snapshot)]"""
    getters = []
    if _is_container(o):
        getters += [('len', lambda: len(o)), ('dimension', lambda: o.dimension), ('pdimension', lambda: o.pdimension),
                    ('delta', lambda: o.delta), ('sample_size', lambda: o.sample_size),
                    ('evalpts', lambda: o.evalpts), ('bbox', lambda: o.bbox)]
        if o.pdimension == 2:
            getters += [('vertices', lambda: [[v.id, v.uv, v.data] for v in o.vertices]),
                        ('faces', lambda: [[f.id, f.data] for f in o.faces])]
    else:
        pd = o.pdimension
        getters += [('rational', lambda: o.rational), ('dimension', lambda: o.dimension),
                    ('ctrlpts_size', lambda: o.ctrlpts_size), ('ctrlpts', lambda: o.ctrlpts),
                    ('weights', lambda: o.weights)]
        if o.rational:
            getters.append(('ctrlptsw', lambda: o.ctrlptsw))
        if pd == 2:
            getters.append(('ctrlpts2d', lambda: o.ctrlpts2d))
        getters += [('sample_size', lambda: o.sample_size), ('evalpts', lambda: o.evalpts), ('bbox', lambda: o.bbox)]
        if pd == 2 and o.dimension == 3:        # elements.Vertex stores exactly 3 components
            getters += [('vertices', lambda: [[v.id, v.uv, v.data] for v in o.vertices]),
                        ('faces', lambda: [[f.id, f.data] for f in o.faces])]
    getters = [(name, g) for name, g in getters if name not in skip]
    if order == 'wfirst':       # the weights before anything that would refresh the caches on its way
        seq = [g for g in getters if g[0] == 'weights'] + [g for g in getters if g[0] != 'weights']
    else:
        seq = getters if order == 'fwd' else list(reversed(getters))
    got = {}
    for name, g in seq:
        got[name] = _snap(g())
    out = [(name, got[name]) for name, _g in getters]
    if _is_container(o):
        for i, e in enumerate(o):
            for name, val in _views(ctx, e, order, skip=skip):
                out.append(('elem%d.%s' % (i, name), val))
    return out


def _same(ctx, label, a, b):
    if isinstance(a, list) and isinstance(b, list):
        if len(a) != len(b):
            ctx.fail(label, 'length %d != %d' % (len(a), len(b)))
        for i, (x, y) in enumerate(zip(a, b)):
            _same(ctx, '%s[%d]' % (label, i), x, y)
        if not a:
            ctx.ok(label)
        return
    if _isnum(a) and _isnum(b):
        if isinstance(a, int) and isinstance(b, int):
            ctx.check_true(label, a == b, '%r != %r' % (a, b))
        else:
            ctx.check_eq(label, a, b)
        return
    ctx.check_true(label, type(a) is type(b) and a == b, 'structurally different: %r vs %r' % (a, b))


def _same_views(ctx, label, va, vb):
    ctx.check_true(label + '.views', [n for n, _ in va] == [n for n, _ in vb])
    for (name, x), (_n, y) in zip(va, vb):
        _same(ctx, '%s.%s' % (label, name), x, y)


def _bbox_cache_empty(o):
    if _is_container(o):
        return all(_bbox_cache_empty(e) for e in o)
    return o._bounding_box is None or len(o._bounding_box) == 0


def _inv(ctx, o, label, order='fwd', lazy_bbox=False):
    """Inv(o): every view of o equals the view of fresh(o).
    lazy_bbox (sym mode, after mutators that produce linear combinations of control points or cos/sin atoms, whose
    min/max comparisons would fork on every pair): when the bounding-box cache of o is *empty* the getter recomputes
    evaluate_bounding_box(self.ctrlpts) exactly as fresh(o) does on an equal `ctrlpts` view (which is compared), so
    the read is left out; a non-empty cache is read and compared as usual."""
    skip = ()
    if lazy_bbox and _bbox_cache_empty(o):          # same reads in the exact run and in the native replay
        ctx.ok(label + '.bbox(cache empty: recomputed from the compared ctrlpts view)')
        skip = ('bbox',)
    vo = _views(ctx, o, order, skip=skip)
    vf = _views(ctx, _fresh(ctx, o), order, skip=skip)
    _same_views(ctx, label, vo, vf)
    return vo


# ------------------------------------------------------------------------------------------------
# mutators: one public edit each
# ------------------------------------------------------------------------------------------------
def _pts_new(ctx, o, prefix='N', salt=1):
    """a new control net of the same size (Cartesian points, weights or None)"""
    n = o.ctrlpts_size
    P = _net(ctx, prefix, n, o.dimension)
    W = _wts(ctx, n, salt) if o.rational else None
    return P, W


def _sizes(o):
    if o.pdimension == 1:
        return []
    if o.pdimension == 2:
        return [o.ctrlpts_size_u, o.ctrlpts_size_v]
    return [o.ctrlpts_size_u, o.ctrlpts_size_v, o.ctrlpts_size_w]


def _kv_u(o):
    return o.knotvector if o.pdimension == 1 else o.knotvector_u


def m_degree(ctx, o):
    # raise (lower if there are too few points) the degree of the first direction by one and give the matching
    # clamped knot vector with uniform interior knots
    pd = o.pdimension
    p = o.degree if pd == 1 else o.degree_u
    n = o.ctrlpts_size if pd == 1 else o.ctrlpts_size_u
    q = p + 1 if n >= p + 2 else p - 1
    inner = n - q - 1
    kv = _lits(ctx, [0] * (q + 1) + [Fraction(i + 1, inner + 1) for i in range(inner)] + [1] * (q + 1))
    if pd == 1:
        o.degree = q
        o.knotvector = kv
    else:
        o.degree_u = q
        o.knotvector_u = kv


def m_knotvector(ctx, o):
    # the interior knot of the first direction becomes a symbol strictly inside the domain
    old = list(_kv_u(o))
    k = shapes.param_in(ctx, 'k', old[0], old[-1], open_lo=True, open_hi=True)
    kv = [k if (x != old[0] and x != old[-1]) else x for x in old]
    if o.pdimension == 1:
        o.knotvector = kv
    else:
        o.knotvector_u = kv


def m_knotvector_all(ctx, o):
    # list setter, un-normalised input (scaled by 2): normalisation must give the same vectors back
    kvs = [o.knotvector_u, o.knotvector_v] + ([o.knotvector_w] if o.pdimension == 3 else [])
    o.knotvector = [[x * 2 for x in kv] for kv in kvs]


def m_ctrlpts(ctx, o):
    P, _W = _pts_new(ctx, o)
    o.ctrlpts = P


def m_ctrlptsw(ctx, o):
    P, W = _pts_new(ctx, o)
    o.ctrlptsw = shapes.homog(P, W)


def m_weights(ctx, o):
    o.weights = _wts(ctx, o.ctrlpts_size, 2)


def m_set_ctrlpts(ctx, o):
    P, W = _pts_new(ctx, o)
    o.set_ctrlpts(shapes.homog(P, W), *_sizes(o))


def m_ctrlpts2d(ctx, o):
    P, W = _pts_new(ctx, o)
    Pw = shapes.homog(P, W)
    su, sv = o.ctrlpts_size_u, o.ctrlpts_size_v
    o.ctrlpts2d = [[Pw[j + sv * i] for j in range(sv)] for i in range(su)]


def _other_delta(ctx, cur):
    """1/2 or 1/3, whichever differs from the current value"""
    return ctx.lit(T) if cur == ctx.lit(H) else ctx.lit(H)


def m_delta(ctx, o):
    o.delta = _other_delta(ctx, o.delta if o.pdimension == 1 else o.delta[0])


def _m_delta_dir(d):
    def m(ctx, o):
        setattr(o, 'delta_' + d, _other_delta(ctx, getattr(o, 'delta_' + d)))
    return m


def _m_delta_near(d):
    """a density that is not the reciprocal of an integer: 1/delta grows by 3/5, so the sample size (1/delta rounded)
    grows by one although 1/delta truncated stays what it was"""
    def m(ctx, o):
        if d is None:
            cur = o.delta if o.pdimension == 1 else o.delta[0]
            o.delta = 1 / (1 / cur + ctx.lit(Fraction(3, 5)))
        else:
            setattr(o, 'delta_' + d, 1 / (1 / getattr(o, 'delta_' + d) + ctx.lit(Fraction(3, 5))))
    return m


def _m_delta_copy(dst, src):
    """set the density of direction dst to the current density of direction src (they differ in every shape family)"""
    def m(ctx, o):
        setattr(o, 'delta_' + dst, getattr(o, 'delta_' + src))
    return m


def m_sample_size(ctx, o):
    if _is_container(o):      # container: n -> element delta 1/(n-1)
        o.sample_size = 3 if o.pdimension == 1 else [4] + [3] * (o.pdimension - 1)
        return
    cur = o.sample_size if o.pdimension == 1 else o.sample_size[0]
    if not o._kv_normalize:
        o.sample_size = 4         # delta = range / n must stay below 1
    else:
        o.sample_size = 2 if cur != 2 else 3


def _m_sample_size_dir(d):
    def m(ctx, o):
        if _is_container(o):
            setattr(o, 'sample_size_' + d, 4)
        else:
            setattr(o, 'sample_size_' + d, 2 if getattr(o, 'sample_size_' + d) != 2 else 3)
    return m


def m_evaluator(ctx, o):
    ev = ctx.geomdl('evaluators')
    name = {1: 'Curve', 2: 'Surface', 3: 'Volume'}[o.pdimension] + 'Evaluator'
    if o.rational:
        cls = getattr(ev, name + 'Rational')
    else:
        cls = getattr(ev, name + '2', None) or getattr(ev, name)
    o.evaluator = cls()


def m_tessellator(ctx, o):
    o.tessellator = ctx.geomdl('tessellate').TrimTessellate()


def m_insert_knot(ctx, o):
    x = ctx.lit(Fraction(1, 4))
    if o.pdimension == 1:
        o.insert_knot(x)
    else:
        o.insert_knot(u=x)


def m_insert_knot_v(ctx, o):
    o.insert_knot(v=ctx.lit(Fraction(3, 4)))


def m_insert_knot_w(ctx, o):
    o.insert_knot(w=ctx.lit(Fraction(3, 4)))


def m_insert_knot_sym(ctx, o):
    # symbolic knot, tol-separated from the existing knots (helpers.find_multiplicity compares with 1e-7)
    kv = list(_kv_u(o))
    x = shapes.param_in(ctx, 'x', kv[0], kv[-1], open_lo=True, open_hi=True)
    for k in [kv[0]] + _inner(kv) + [kv[-1]]:
        ctx.assume(ctx.sep(x, k, Fraction(1, 10 ** 7)))
    if o.pdimension == 1:
        o.insert_knot(x)
    else:
        o.insert_knot(u=x)


def _knot_u(ctx, kname):
    return ctx.lit(_inner(KINDS[kname]['kv'][0])[0])


def m_refine(ctx, o):
    ctx.geomdl('operations').refine_knotvector(o, [1] + [0] * (o.pdimension - 1))


def m_reverse(ctx, o):
    o.reverse()


def m_transpose(ctx, o):
    o.transpose()


def m_flip(ctx, o):
    ctx.geomdl('operations').flip(o, inplace=True)


def m_translate(ctx, o):
    vec = [ctx.num('t%d' % i) for i in range(o.dimension)]
    ctx.geomdl('operations').translate(o, vec, inplace=True)


def m_rotate(ctx, o):
    ctx.geomdl('operations').rotate(o, 30, inplace=True, axis=0)


def m_scale(ctx, o):
    ctx.geomdl('operations').scale(o, ctx.lit(Fraction(-3, 2)), inplace=True)


def m_add_dimension(ctx, o):
    ctx.geomdl('operations').add_dimension(o, inplace=True, offset=ctx.num('off'))


def m_elem_ctrlpts(ctx, o):
    """a contained shape is edited through its own public setter (the container is not told)"""
    m_ctrlpts(ctx, list(o)[0])


def m_elem_used(ctx, o):
    """a contained shape is edited through its own public setter and then used on its own (sampled; tessellated if it is
    a surface) before the container is read again"""
    e = list(o)[0]
    m_ctrlpts(ctx, e)
    _ = e.evalpts
    if e.pdimension == 2:
        _ = (e.vertices, e.faces)


def m_partial_iter_translate(ctx, o):
    """the container is walked only partly (a loop left early, a single next()) before an in-place transform of all members"""
    it = iter(o)
    next(it)
    for g in o:
        break
    m_translate(ctx, o)


def m_partial_iter_add(ctx, o):
    """the same before another container's members are added (add() iterates over its argument)"""
    kname = {1: 'CC', 2: 'SC', 3: 'VC'}[o.pdimension]
    other = type(o)()
    other.add(_spline(ctx, KINDS[kname]['extra'], prefix='X', salt=2))
    other.add(_spline(ctx, KINDS[kname]['extra'], prefix='Y', salt=3))
    it = iter(other)
    next(it)
    o.add(other)


def _rejected(what):
    """an edit the library rejects (it raises): not an edit - the definition read through the public accessors is what
    it was, and Inv is then checked as after every mutator"""
    def m(ctx, o):
        before = _definition(o)
        pd = o.pdimension
        try:
            if what == 'set_ctrlpts':            # a net of the wrong shape / points without a weight for a rational shape
                pts = [list(q) for q in (o.ctrlptsw if o.rational else o.ctrlpts)]
                if pd == 1:
                    o.set_ctrlpts(pts[:o.degree])
                elif pd == 2:
                    o.set_ctrlpts(pts, o.ctrlpts_size_u + 1, o.ctrlpts_size_v)
                else:
                    o.set_ctrlpts(pts, o.ctrlpts_size_u, o.ctrlpts_size_v + 1, o.ctrlpts_size_w)
            elif what == 'knotvector':           # wrong length
                if pd == 1:
                    o.knotvector = list(o.knotvector)[:-1]
                else:
                    o.knotvector_v = list(o.knotvector_v)[:-1]
            elif what == 'delta':                # outside (0, 1)
                if pd == 1:
                    o.delta = ctx.lit(Fraction(3, 2))
                else:
                    setattr(o, 'delta_' + 'uvw'[pd - 1], ctx.lit(Fraction(3, 2)))
            ctx.check_true('rejected.%s.raises' % what, False, 'the invalid request was accepted')
        except Exception as e:                   # noqa: the library raises ValueError or GeomdlException here
            ctx.check_true('rejected.%s.raises' % what, type(e).__name__ in ('ValueError', 'GeomdlException'), repr(e))
        after = _definition(o)
        for key in ('deg', 'size', 'normalize'):
            ctx.check_true('rejected.%s.%s_unchanged' % (what, key), after[key] == before[key], '%r -> %r' % (before[key], after[key]))
        ctx.check_true('rejected.%s.point_count_unchanged' % what, len(after['pts']) == len(before['pts']),
                       '%d -> %d control points' % (len(before['pts']), len(after['pts'])))
        if len(after['pts']) == len(before['pts']):
            ctx.check_eq_grid('rejected.%s.ctrlpts_unchanged' % what, after['pts'], before['pts'])
        for a, b in zip(after['kv'], before['kv']):
            ctx.check_eq_vec('rejected.%s.knots_unchanged' % what, a, b)
        ctx.check_eq_vec('rejected.%s.delta_unchanged' % what, after['delta'], before['delta'])
    return m


def m_elem_knot(ctx, o):
    e = list(o)[0]
    x = ctx.lit(Fraction(3, 8))
    if e.pdimension == 1:
        e.insert_knot(x)
    else:
        e.insert_knot(u=x)


def m_add(ctx, o):
    kname = {1: 'CC', 2: 'SC', 3: 'VC'}[o.pdimension]
    o.add(_spline(ctx, KINDS[kname]['extra'], prefix='X', salt=2))


def m_add_used(ctx, o):
    """the shape that is added has been used on its own before (sampled; tessellated if it is a surface)"""
    kname = {1: 'CC', 2: 'SC', 3: 'VC'}[o.pdimension]
    e = _spline(ctx, KINDS[kname]['extra'], prefix='X', salt=2)
    _ = e.evalpts
    if e.pdimension == 2 and e.dimension == 3:
        _ = (e.vertices, e.faces)
    o.add(e)


MUTATORS = {
    'degree': m_degree, 'knotvector': m_knotvector, 'knotvector_all': m_knotvector_all, 'ctrlpts': m_ctrlpts,
    'ctrlptsw': m_ctrlptsw, 'weights': m_weights, 'set_ctrlpts': m_set_ctrlpts, 'ctrlpts2d': m_ctrlpts2d,
    'delta': m_delta, 'delta_u': _m_delta_dir('u'), 'delta_v': _m_delta_dir('v'), 'delta_w': _m_delta_dir('w'),
    'delta~': _m_delta_near(None), 'delta_u~': _m_delta_near('u'), 'delta_v~': _m_delta_near('v'), 'delta_w~': _m_delta_near('w'),
    'delta_v=u': _m_delta_copy('v', 'u'), 'delta_u=v': _m_delta_copy('u', 'v'), 'delta_w=v': _m_delta_copy('w', 'v'),
    'sample_size': m_sample_size, 'sample_size_u': _m_sample_size_dir('u'), 'sample_size_v': _m_sample_size_dir('v'),
    'sample_size_w': _m_sample_size_dir('w'), 'evaluator': m_evaluator, 'tessellator': m_tessellator,
    'insert_knot': m_insert_knot, 'insert_knot_v': m_insert_knot_v, 'insert_knot_w': m_insert_knot_w,
    'insert_knot_sym': m_insert_knot_sym, 'remove_knot': None, 'refine': m_refine, 'reverse': m_reverse,
    'transpose': m_transpose, 'flip': m_flip, 'translate': m_translate, 'rotate': m_rotate, 'scale': m_scale,
    'add_dimension': m_add_dimension, 'add': m_add, 'add_used': m_add_used, 'elem_ctrlpts': m_elem_ctrlpts, 'elem_insert_knot': m_elem_knot,
    'rejected:set_ctrlpts': _rejected('set_ctrlpts'), 'rejected:knotvector': _rejected('knotvector'), 'rejected:delta': _rejected('delta'),
    'elem_ctrlpts_then_used': m_elem_used, 'partial_iter+translate': m_partial_iter_translate, 'partial_iter+add': m_partial_iter_add,
}
# after these the new control points are linear combinations / contain cos, sin atoms (see _inv)
LAZY_BBOX = ('insert_knot', 'insert_knot_v', 'insert_knot_w', 'insert_knot_sym', 'remove_knot', 'refine', 'rotate')

COMMON = ['degree', 'knotvector', 'ctrlpts', 'set_ctrlpts', 'delta', 'sample_size', 'evaluator', 'insert_knot',
          'remove_knot', 'refine', 'translate', 'rotate', 'scale', 'add_dimension']
RATIONAL = ['ctrlptsw', 'weights']


def _legal(kname, tier):
    """the public mutators of a class"""
    th = tier == 'thorough'
    if kname in CONTAINERS:
        ms = ['add', 'add_used', 'delta', 'sample_size', 'translate', 'elem_ctrlpts', 'elem_insert_knot', 'elem_ctrlpts_then_used',
              'partial_iter+translate', 'partial_iter+add'] + (['scale', 'rotate'] if th else [])
        if kname != 'CC':
            ms += ['delta_u'] + (['sample_size_u'] if th or kname == 'SC' else []) + \
                  (['delta_v', 'sample_size_v'] if th else [])
        if kname == 'VC' and th:
            ms += ['delta_w', 'sample_size_w']
        return ms
    K = KINDS[kname]
    if K['geo'] == 'Curve':
        if K['dim'] == 3 and not th:
            # quick: the 2-D curves carry the full list, the 3-D ones what depends on the dimension
            ms = ['ctrlpts', 'set_ctrlpts', 'translate', 'rotate', 'scale', 'add_dimension']
        else:
            ms = COMMON + ['reverse', 'insert_knot_sym', 'delta~']
    elif K['geo'] == 'Surface':
        ms = COMMON + ['knotvector_all', 'ctrlpts2d', 'delta_u', 'sample_size_u', 'tessellator', 'insert_knot_v',
                       'transpose', 'flip', 'delta_v=u', 'delta_u=v', 'delta_u~', 'delta_v~'] + (['delta_v', 'sample_size_v', 'insert_knot_sym'] if th else [])
    else:
        ms = COMMON + ['knotvector_all', 'delta_u', 'sample_size_u', 'insert_knot_w', 'delta_v=u', 'delta_w=v', 'delta_w~'] + \
             (['delta_v', 'delta_w', 'sample_size_v', 'sample_size_w', 'delta_u=v'] if th else [])
    if K['rat']:
        ms = ms + RATIONAL
    return ms + ['rejected:set_ctrlpts', 'rejected:knotvector', 'rejected:delta']


def _mut_instances(tier):
    out = []
    kinds = SPLINES + CONTAINERS + (UNNORMALISED if tier == 'thorough' else ())
    for kname in kinds:
        for m in _legal(kname, tier):
            for state in ('empty', 'filled'):
                out.append(dict(kind=kname, mut=m, state=state))
                if tier == 'thorough' and state == 'filled':
                    out.append(dict(kind=kname, mut=m, state=state, order='rev'))
            # the views are read in the opposite order after the edit (weights before ctrlpts ...): a cache entry that the
            # edit left behind is then served before the getter that would have refreshed it runs
            if kname not in CONTAINERS and KINDS[kname]['rat']:
                out.append(dict(kind=kname, mut=m, state='filled', post='rev'))
                out.append(dict(kind=kname, mut=m, state='filled', post='wfirst'))
            if kname in CONTAINERS:
                out.append(dict(kind=kname, mut=m, state='filled', post='rev'))       # mesh views before the sampled points
    return out


@scenario('C12', fns=['abstract.Curve.reset', 'abstract.Surface.reset', 'abstract.Volume.reset', 'BSpline.Surface.reset',
                      'NURBS.Curve.reset', 'NURBS.Surface.reset', 'NURBS.Volume.reset', 'abstract.Curve.reverse',
                      'abstract.Curve.set_ctrlpts', 'BSpline.Surface.set_ctrlpts', 'abstract.Volume.set_ctrlpts',
                      'BSpline.Surface.ctrlpts2d', 'BSpline.Surface.transpose', 'NURBS.Curve.ctrlpts',
                      'NURBS.Curve.weights', 'NURBS.Surface.ctrlpts', 'NURBS.Volume.ctrlpts', 'abstract.SplineGeometry.bbox',
                      'abstract.Geometry.evalpts', 'abstract.Surface.tessellate', 'tessellate.AbstractTessellate.reset',
                      'operations.insert_knot', 'operations.remove_knot', 'operations.refine_knotvector',
                      'operations.translate', 'operations.rotate', 'operations.scale', 'operations.transpose',
                      'operations.flip', 'operations.add_dimension', 'multi.AbstractContainer.add',
                      'multi.AbstractContainer.delta', 'multi.AbstractContainer.sample_size',
                      'multi.AbstractContainer.evalpts', 'multi.AbstractContainer.reset', 'multi.SurfaceContainer.reset',
                      'multi.SurfaceContainer.delta_u', 'multi.SurfaceContainer.sample_size_u',
                      'multi.VolumeContainer.delta_u', 'multi.VolumeContainer.sample_size_u',
                      'multi.SurfaceContainer.tessellate'],
          quick=lambda: _mut_instances('quick'), thorough=lambda: _mut_instances('thorough'))
def mutator_preserves_inv(ctx, kind, mut, state, order='fwd', post='fwd'):
    """requires Inv(o): o freshly built; state 'filled': every view read once (in `order`) and Inv re-checked
       ensures  Inv(o) after the one public mutator `mut`"""
    o = _build(ctx, kind, drop_knot=(mut == 'remove_knot'))
    if mut == 'remove_knot':
        x = _knot_u(ctx, kind)
        if o.pdimension == 1:
            o.insert_knot(x)
        else:
            o.insert_knot(u=x)
    if state == 'filled':
        _inv(ctx, o, 'pre', order)
    if mut == 'remove_knot':
        if o.pdimension == 1:
            o.remove_knot(x)
        else:
            o.remove_knot(u=x)
    else:
        MUTATORS[mut](ctx, o)
    _inv(ctx, o, 'inv', order=post, lazy_bbox=mut in LAZY_BBOX)


def _reader_instances():
    return [dict(kind=k, order=order) for k in SPLINES + ('CC', 'VC', 'SC') for order in ('fwd', 'rev')]


@scenario('C12', fns=['NURBS.Curve.ctrlpts', 'NURBS.Curve.weights', 'NURBS.Surface.ctrlpts', 'NURBS.Surface.weights',
                      'NURBS.Volume.ctrlpts', 'NURBS.Volume.weights', 'abstract.SplineGeometry.bbox',
                      'abstract.Geometry.evalpts', 'abstract.Surface.vertices', 'abstract.Surface.faces',
                      'multi.AbstractContainer.evalpts', 'multi.AbstractContainer.bbox',
                      'multi.SurfaceContainer.vertices', 'multi.SurfaceContainer.faces',
                      'multi.SurfaceContainer.tessellate'],
          quick=_reader_instances)
def readers_preserve_inv(ctx, kind, order):
    """a getter fills only its own cache: after every view has been read in one order, reading them in the other
    order gives Inv (== a fresh object read in that order) and the same values as the first read"""
    o = _build(ctx, kind)
    first = _views(ctx, o, order)
    again = _inv(ctx, o, 'inv.after-read', 'rev' if order == 'fwd' else 'fwd')
    _same_views(ctx, 'reread', first, again)


# ------------------------------------------------------------------------------------------------
# deep copies
# ------------------------------------------------------------------------------------------------
_LEAF = (type, types.FunctionType, types.BuiltinFunctionType, types.ModuleType, types.MethodType, str, bytes, int, float,
         bool, Fraction, type(None))


def _mutables(root):
    """id -> path of every list / dict / set reachable from the object (numbers are leaves)"""
    seen, out = set(), {}
    stack = [(root, 'o')]
    while stack:
        x, path = stack.pop()
        if id(x) in seen or isinstance(x, _LEAF) or type(x).__name__ in ('Q', 'Inf', 'Angle'):
            continue
        seen.add(id(x))
        if isinstance(x, dict):
            out[id(x)] = path
            for k, v in x.items():
                stack.append((v, '%s[%r]' % (path, k)))
        elif isinstance(x, (list, set)):
            out[id(x)] = path
            for i, v in enumerate(x):
                stack.append((v, '%s[%d]' % (path, i)))
        elif isinstance(x, tuple):
            for i, v in enumerate(x):
                stack.append((v, '%s[%d]' % (path, i)))
        elif hasattr(x, '__dict__'):
            for k, v in vars(x).items():
                stack.append((v, '%s.%s' % (path, k)))
    return out


def _disjoint(ctx, label, a, b):
    ma, mb = _mutables(a), _mutables(b)
    shared = sorted(ma[i] for i in ma if i in mb)
    ctx.check_true(label, len(ma) > 3 and not shared,
                   'mutable containers shared by original and copy: %s' % ', '.join(shared[:8]))


def _copy_instances(tier):
    out = []
    for k in SPLINES + CONTAINERS:
        if k in CONTAINERS:
            # (on the pinned tree the copy of a container cannot even be read: one instance per container class;
            #  the mutators are ones that are healthy on containers, in-place transforms are not)
            out.append(dict(kind=k, mut='add', side='copy', state='filled'))
            if tier == 'thorough':
                out.append(dict(kind=k, mut='delta', side='orig', state='filled'))
                out.append(dict(kind=k, mut='add', side='orig', state='empty'))
            continue
        if KINDS[k]['geo'] == 'Curve':
            muts = ['translate', 'insert_knot'] if KINDS[k]['dim'] == 2 or tier == 'thorough' else ['translate']
        elif KINDS[k]['geo'] == 'Surface':
            muts = ['translate', 'transpose', 'insert_knot']
        else:
            muts = ['translate', 'insert_knot']
        for m in muts:
            for side in ('copy', 'orig'):
                out.append(dict(kind=k, mut=m, side=side, state='filled'))
        out.append(dict(kind=k, mut=muts[0], side='copy', state='empty'))
    return out


@scenario('C12', fns=['abstract.GeomdlBase.__deepcopy__', 'NURBS.Curve.__deepcopy__', 'NURBS.Surface.__deepcopy__',
                      'NURBS.Volume.__deepcopy__', 'NURBS.Curve.init_cache', 'elements.AbstractEntity.__deepcopy__'],
          quick=lambda: _copy_instances('quick'), thorough=lambda: _copy_instances('thorough'))
def deepcopy_independent(ctx, kind, mut, side, state):
    """b = copy.deepcopy(a)  ensures: every view of b equals the view of a; a and b share no mutable container;
    after the mutator is applied to one of them (`side`) every view of the other one is unchanged, Inv of both"""
    a = _build(ctx, kind)
    if state == 'filled':
        _views(ctx, a)
    b = copy.deepcopy(a)
    _disjoint(ctx, 'copy.disjoint', a, b)
    va = _views(ctx, a)
    try:
        vb = _views(ctx, b)
    except (CheckFailed, Skip):
        raise
    except (KeyError, AttributeError, IndexError, TypeError, ValueError) as e:
        ctx.fail('copy.views-readable', 'reading the views of the deep copy raises %s: %s' % (type(e).__name__, e))
    _same_views(ctx, 'copy.agrees', vb, va)
    _disjoint(ctx, 'copy.disjoint-after-read', a, b)
    x, other, before = (b, a, va) if side == 'copy' else (a, b, vb)
    MUTATORS[mut](ctx, x)
    _same_views(ctx, 'independent.other-unchanged', _views(ctx, other), before)
    _disjoint(ctx, 'independent.disjoint', a, b)
    _inv(ctx, x, 'independent.inv-mutated', lazy_bbox=mut in LAZY_BBOX)
    _inv(ctx, other, 'independent.inv-other')
